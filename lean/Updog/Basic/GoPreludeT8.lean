/-
Go prelude, part T8: the primitives the translator (extract/translate_t8.go) emits for

* the control flow of `updog create` (cmd/updog/create.go `createCmd`, the cobra wiring and the exit status of
  cmd/updog/main.go): namespace `Go.Cmd` — an explicit WORLD of everything the command touches outside its own
  variables (the file system, the CSV reader, bbolt handles, the two index writers, stdout, the process state);
* the gRPC data source of driver/driver.go: namespace `Go.Grpc` — the NETWORK a `grpcConn` talks to.

Core Lean only, everything executable. Conventions (in addition to those of `GoPreludeT5.lean`):

* an external call ↦ a primitive `prim : World → args… → World × result` (`(T, error)` ↦ `Except Go.Err5 T`, a lone
  `error` ↦ `Option Go.Err5`, no result ↦ `Unit`). What the ENVIRONMENT decides (does this file exist, which records
  does the CSV reader yield, does this call fail for a reason of its own) is the read-only part `World.env` plus the
  current file system; what the RUN did is recorded in `World.trace`, in program order. Theorems quantify over every
  environment and every initial file system (`World.start`).
* once the process is stopped (`World.stopped`: blocked forever, panicked, exited, or — an artefact of the translation —
  out of loop fuel) no primitive has any effect any more: nothing that the text of the function "does" after that
  point happens.
* `defer`, `for { … }`, `break`: see translate_t8.go; `Go.T8.forEver` runs the iterations.
-/
import Updog.Basic.GoPreludeT4
import Updog.Basic.GoPreludeT5
import Updog.Model.OpenFlags
namespace Updog.Go

/-! ### loops, errors -/
namespace T8

/-- what one iteration of a `for { … }` loop does: `ret r` = the enclosing function returns `r`, `brk s` = `break`
    with the carried variables `s`, `next s` = the body ran to its end -/
inductive Step (ρ σ : Type) where
  | ret (r : ρ)
  | brk (s : σ)
  | next (s : σ)

/-- what the whole loop did; `spin` = the fuel handed in was used up before the loop ended (never the answer of the Go
    program when the theorems' fuel bound holds) -/
inductive Run (ρ σ : Type) where
  | ret (r : ρ)
  | done (s : σ)
  | spin (s : σ)

/-- `for { body }`: the iterations in order on the carried variables, at most `fuel` of them -/
def forEver {ρ σ : Type} : Nat → σ → (σ → Step ρ σ) → Run ρ σ
  | 0, s, _ => .spin s
  | fuel + 1, s, body =>
    match body s with
    | .ret r => .ret r
    | .brk s' => .done s'
    | .next s' => forEver fuel s' body

/-- `errors.Is(err, target)` for the errors of `Go.Err5`: these have no wrapping structure (`errorf` drops its
    arguments, errors of external calls are atoms), so the chain of `err` is `err` itself. The translated code applies
    it only to the error a `csv.Reader.Read` returned, which is `io.EOF` itself at the end of the input. -/
def errorsIs (err target : Err5) : Bool := err == target

/-- a call of a function translated with the conventions of `GoPreludeT4.lean` (`Go.Res`) from code that uses
    `Except Go.Err5`: any failure is a returned error (`.fuel` too: the theorems state which fuel excludes it) -/
def callRes {α β : Type} (f : α → Res β) (x : α) : Except Err5 β :=
  match f x with
  | .ok b => .ok b
  | .error _ => .error (.ext 4)

end T8

/-! ### `updog create`: configuration, handles -/
namespace Cmd

/-- `globalConfig` of cmd/updog/main.go -/
structure globalConfig where
  cpuprofile : Bytes
  memprofile : Bytes
  memprofilerate : Int
  verbose : Bool
  deriving DecidableEq, Repr, Inhabited

/-- `createConfig` of cmd/updog/create.go -/
structure createConfig where
  outputFile : Bytes
  inputFile : Bytes
  big : Bool
  deriving DecidableEq, Repr, Inhabited

/-- `openfile.Options` -/
structure OpenOptions where
  FailIfFileExists : Bool
  FailIfFileDoesntExist : Bool
  deriving DecidableEq, Repr, Inhabited

/-- the three functions `openfile.OpenFile` can return (`osOpenFile` is also what bbolt uses when `Options.OpenFile`
    is nil) -/
inductive OpenFn where
  | osOpenFile
  | excl
  | mustExist
  deriving DecidableEq, Repr, Inhabited

/-- `openfile.OpenFile(opts)` of internal/openfile/openfile.go: which function it returns. The two rewritings of the
    flag word are regenerated from that file as `Gen.excl` / `Gen.noCreate` (extracted under exactly these path
    conditions: "FailIfFileExists", and "not FailIfFileExists, and FailIfFileDoesntExist") and proved equal to
    `failIfExistsFlags` / `mustExistFlags` in Props/Gen/OpenFile.lean. -/
def openFile (o : OpenOptions) : OpenFn :=
  if o.FailIfFileExists then .excl else if o.FailIfFileDoesntExist then .mustExist else .osOpenFile

/-- the flag word the function hands to `os.OpenFile`, given the flags bbolt asks for -/
def OpenFn.flags : OpenFn → Nat → Nat
  | .osOpenFile, f => f
  | .excl, f => failIfExistsFlags f
  | .mustExist, f => mustExistFlags f

/-- `bbolt.Options`, as far as the command sets it: every other option keeps its default -/
structure BoltOptions where
  OpenFile : OpenFn
  deriving DecidableEq, Repr, Inhabited

/-- `*os.File`: `Name()` is the name it was opened / created with -/
structure File where
  Name : Bytes
  deriving DecidableEq, Repr, Inhabited

/-- `*csv.Reader` on a file (default settings: `FieldsPerRecord = 0`, so every record has the header's length) -/
structure Reader where
  file : File
  deriving DecidableEq, Repr, Inhabited

/-- `csv.NewReader(f)` -/
def csvNewReader (f : File) : Reader := ⟨f⟩

/-- `*bbolt.DB`: an open database, identified by its path -/
structure DB where
  path : Bytes
  deriving DecidableEq, Repr, Inhabited

/-- `*updog.IndexWriter`: rows are collected in memory, `Flush` opens `filename` and writes -/
structure IndexWriter where
  filename : Bytes
  deriving DecidableEq, Repr, Inhabited

/-- `updog.NewIndexWriter(filename)`: touches nothing -/
def newIndexWriter (filename : Bytes) : IndexWriter := ⟨filename⟩

/-- `*updog.BigIndexWriter` over an open output database and an open temporary database -/
structure BigIndexWriter where
  db : DB
  tempDB : DB
  deriving DecidableEq, Repr, Inhabited

/-- a value of the interface type `indexWriter` of cmd/updog/create.go -/
inductive indexWriter where
  | nil
  | mem (x : IndexWriter)
  | big (x : BigIndexWriter)
  deriving DecidableEq, Repr, Inhabited

/-! ### the world of `updog create` -/

/-- why the process does not go on -/
inductive Stop where
  /-- blocked forever (`(*bbolt.DB).Close` waits for an open write transaction) -/
  | hang
  /-- a Go panic (a method call on a nil interface value) -/
  | panic
  /-- translation artefact: the fuel of a `for { … }` loop was used up -/
  | fuel
  /-- `os.Exit(code)`, or `main` returned (`code = 0`) -/
  | exit (code : Int)
  deriving DecidableEq, Repr, Inhabited

/-- one external action of the run -/
inductive Event where
  | osOpen (path : Bytes) (ok : Bool)
  | fileClose (name : Bytes)
  /-- one `Read` of the CSV reader: the record, `none` = it returned an error -/
  | csvRead (record : Option (List Bytes))
  /-- `os.CreateTemp`: the file it created, `none` = it failed -/
  | createTemp (name : Option Bytes)
  | remove (path : Bytes) (existed : Bool)
  | boltOpen (path : Bytes) (mode : Int) (fn : OpenFn) (ok : Bool)
  | boltClose (path : Bytes)
  | newBigWriter (out tmp : Bytes) (ok : Bool)
  | bigWriterClose (tmp : Bytes)
  | addRow (row : Map Bytes) (ok : Bool)
  | flush (ok : Bool)
  | printf (format : Bytes)
  deriving DecidableEq, Repr, Inhabited

/-- what the environment decides; never changes during a run -/
structure Env where
  /-- `os.Open` of this existing path fails (permissions, a directory, …) -/
  unreadable : Bytes → Bool
  /-- the records `encoding/csv` yields for the input file, the header line first -/
  csv : List (List Bytes)
  /-- what `Read` returns after them: `io.EOF` (`Err5.EOF`) for a well-formed file, a parse error otherwise — the CSV is
      malformed at record number `csv.length` -/
  csvEnd : Err5
  /-- the name `os.CreateTemp` picks in `$TMPDIR` (`none`: it fails) -/
  tempName : Option Bytes
  /-- `bbolt.Open` fails on this path for a reason other than the open flags (I/O error, not a bbolt file, …) -/
  boltFails : Bytes → Bool
  /-- `updog.NewBigIndexWriter` fails -/
  bigWriterFails : Bool
  /-- the `k`-th call of `AddRow` (counted from 0) fails -/
  addRowFails : Nat → Bool
  /-- `Flush` fails for a reason of its own (I/O error while writing) -/
  flushFails : Bool
  /-- `(*IndexWriter).Flush` opens its output with the exclusive open function (it does: writer.go, fact
      `flushFailIfExists`; kept as a parameter so that theorems about the normal mode are stated RELATIVE to it) -/
  flushExcl : Bool

/-- the part of the file system (and of bbolt's locking) the command's behaviour depends on or changes -/
structure FS where
  /-- a file exists at this path -/
  present : Bytes → Bool
  /-- a file that existed at this path was opened so that it can be written through the descriptor, or was removed -/
  touched : Bytes → Bool
  /-- the file at this path is a complete index written by this run -/
  complete : Bytes → Bool
  /-- a writer object holds an open write transaction on the database at this path -/
  txOpen : Bytes → Bool

structure World where
  env : Env
  fs : FS
  /-- number of records the CSV reader has handed out -/
  csvPos : Nat
  /-- number of `AddRow` calls so far -/
  rowsAdded : Nat
  stopped : Option Stop
  /-- the external actions so far, in program order -/
  trace : List Event

/-- the world a run starts in: environment `env`, files `present` -/
def World.start (env : Env) (present : Bytes → Bool) : World :=
  { env := env, fs := ⟨present, fun _ => false, fun _ => false, fun _ => false⟩, csvPos := 0, rowsAdded := 0,
    stopped := none, trace := [] }

/-- the process exit status, once the process has exited -/
def World.exitStatus (w : World) : Option Int :=
  match w.stopped with
  | some (.exit c) => some c
  | _ => none

/-- a primitive acts only while the process runs -/
def act {α : Type} (w : World) (dflt : α) (f : World → World × α) : World × α :=
  if w.stopped.isSome then (w, dflt) else f w

def log (w : World) (e : Event) : World := { w with trace := w.trace ++ [e] }

/-- `f` with the value at `p` replaced by `b` -/
def setAt (f : Bytes → Bool) (p : Bytes) (b : Bool) : Bytes → Bool := fun q => if q = p then b else f q

/-- `os.Open(path)`: read-only; succeeds for an existing, readable file; changes nothing -/
def osOpen (w : World) (path : Bytes) : World × Except Err5 File :=
  act w (.error (.ext 10)) fun w =>
    if w.fs.present path && !w.env.unreadable path then (log w (.osOpen path true), .ok ⟨path⟩)
    else (log w (.osOpen path false), .error (.ext 10))

/-- `f.Close()` -/
def fileClose (w : World) (f : File) : World × Option Err5 :=
  act w none fun w => (log w (.fileClose f.Name), none)

/-- `r.Read()`: the next record of `env.csv`, after them `env.csvEnd` (again and again) -/
def csvRead (w : World) (_r : Reader) : World × Except Err5 (List Bytes) :=
  act w (.error (.ext 11)) fun w =>
    match w.env.csv[w.csvPos]? with
    | some record => (log { w with csvPos := w.csvPos + 1 } (.csvRead (some record)), .ok record)
    | none => (log w (.csvRead none), .error w.env.csvEnd)

/-- `os.CreateTemp(dir, pattern)`: creates a NEW file (O_EXCL, retried with other names): a name that exists already
    is never the result -/
def osCreateTemp (w : World) (_dir _pattern : Bytes) : World × Except Err5 File :=
  act w (.error (.ext 12)) fun w =>
    match w.env.tempName with
    | some n =>
      if w.fs.present n then (log w (.createTemp none), .error (.ext 12))
      else (log { w with fs := { w.fs with present := setAt w.fs.present n true } } (.createTemp (some n)), .ok ⟨n⟩)
    | none => (log w (.createTemp none), .error (.ext 12))

/-- `os.Remove(path)` -/
def osRemove (w : World) (path : Bytes) : World × Option Err5 :=
  act w none fun w =>
    if w.fs.present path then
      (log { w with fs := { w.fs with present := setAt w.fs.present path false, touched := setAt w.fs.touched path true,
                                      complete := setAt w.fs.complete path false } } (.remove path true), none)
    else (log w (.remove path false), some (.ext 13))

/-- `bbolt.Open(path, mode, &bbolt.Options{OpenFile: fn})` for a writable database: bbolt asks `fn` for
    `O_RDWR|O_CREATE` (`boltWriteFlags`), `fn` rewrites the flags, and open(2) behaves as `posixOpen` of
    Model/OpenFlags.lean says. (A file lock held by another process would block; not modelled.) -/
def boltOpen (w : World) (path : Bytes) (mode : Int) (o : BoltOptions) : World × Except Err5 DB :=
  act w (.error (.ext 14)) fun w =>
    let r := posixOpen (w.fs.present path) (o.OpenFile.flags boltWriteFlags)
    if !r.1 then (log w (.boltOpen path mode o.OpenFile false), .error (.ext 14))
    else
      let fs : FS := { w.fs with present := setAt w.fs.present path r.2.1,
                                 touched := if w.fs.present path && r.2.2 then setAt w.fs.touched path true else w.fs.touched }
      if w.env.boltFails path then (log { w with fs := fs } (.boltOpen path mode o.OpenFile false), .error (.ext 15))
      else (log { w with fs := fs } (.boltOpen path mode o.OpenFile true), .ok ⟨path⟩)

/-- `db.Close()`: waits — forever — for an open write transaction on that database -/
def boltClose (w : World) (db : DB) : World × Option Err5 :=
  act w none fun w =>
    if w.fs.txOpen db.path then ({ w with stopped := some .hang }, none)
    else (log w (.boltClose db.path), none)

/-- `updog.NewBigIndexWriter(db, tempDB)` (writer_big.go): on success a write transaction on `tempDB` stays open in the
    writer -/
def newBigIndexWriter (w : World) (db tempDB : DB) : World × Except Err5 BigIndexWriter :=
  act w (.error (.ext 16)) fun w =>
    if w.env.bigWriterFails then (log w (.newBigWriter db.path tempDB.path false), .error (.ext 16))
    else (log { w with fs := { w.fs with txOpen := setAt w.fs.txOpen tempDB.path true } } (.newBigWriter db.path tempDB.path true),
          .ok ⟨db, tempDB⟩)

/-- `(*BigIndexWriter).Close()`: rolls the temporary write transaction back if there is one -/
def bigWriterClose (w : World) (x : BigIndexWriter) : World × Option Err5 :=
  act w none fun w =>
    (log { w with fs := { w.fs with txOpen := setAt w.fs.txOpen x.tempDB.path false } } (.bigWriterClose x.tempDB.path), none)

/-- `iw.AddRow(values)`: the row is handed to the writer (recorded); a failing call leaves the writer's temporary
    transaction as it was (worst case for `Close`: still open) -/
def addRow (w : World) (iw : indexWriter) (values : Map Bytes) : World × Except Err5 UInt32 :=
  act w (.error (.ext 17)) fun w =>
    match iw with
    | .nil => ({ w with stopped := some .panic }, .error (.ext 17))
    | _ =>
      let k := w.rowsAdded
      let w := { w with rowsAdded := k + 1 }
      if w.env.addRowFails k then (log w (.addRow values false), .error (.ext 17))
      else (log w (.addRow values true), .ok k.toUInt32)

/-- `iw.Flush()`.
    * `*IndexWriter` (writer.go): `bbolt.Open(filename, 0644, OpenFile: …)` — exclusive iff `env.flushExcl` —, write,
      close. If the open fails nothing else happens.
    * `*BigIndexWriter` (writer_big.go): the temporary write transaction ends (committed, or rolled back by a failing
      commit), then the index is written into the output database that is already open. -/
def flush (w : World) (iw : indexWriter) : World × Option Err5 :=
  act w none fun w =>
    match iw with
    | .nil => ({ w with stopped := some .panic }, none)
    | .mem x =>
      let r := boltOpen w x.filename 420 ⟨if w.env.flushExcl then .excl else .osOpenFile⟩
      match r.2 with
      | .error e => (log r.1 (.flush false), some e)
      | .ok db =>
        if w.env.flushFails then (log (boltClose r.1 db).1 (.flush false), some (.ext 18))
        else
          let w1 : World := { r.1 with fs := { r.1.fs with complete := setAt r.1.fs.complete x.filename true } }
          (log (boltClose w1 db).1 (.flush true), none)
    | .big x =>
      let w : World := { w with fs := { w.fs with txOpen := setAt w.fs.txOpen x.tempDB.path false } }
      if w.env.flushFails then (log w (.flush false), some (.ext 18))
      else (log { w with fs := { w.fs with complete := setAt w.fs.complete x.db.path true } } (.flush true), none)

/-- `fmt.Printf(format, …)`: identified by its constant format -/
def printf (w : World) (format : Bytes) : World × Unit :=
  act w () fun w => (log w (.printf format), ())

/-- `os.Exit(code)` -/
def osExit (w : World) (code : Int) : World × Unit :=
  act w () fun w => ({ w with stopped := some (.exit code) }, ())

/-- the fuel of a `for { … }` loop was used up (translation artefact) -/
def outOfFuel (w : World) : World :=
  if w.stopped.isSome then w else { w with stopped := some .fuel }

/-- `main` returns: exit status 0 -/
def mainReturns (w : World) : World :=
  if w.stopped.isSome then w else { w with stopped := some (.exit 0) }

/-- `rootCmd.Execute()` of cobra (trusted) for a command line that selects a sub-command, whose flags parse, without
    profiling flags (`PersistentPreRunE` / `PersistentPostRunE` of main.go then do nothing and return nil): it runs the
    sub-command's `RunE` and returns the error `RunE` returned -/
def cobraExecute (runE : World → Option Err5 × World) (w : World) : World × Option Err5 :=
  let r := runE w
  (r.2, r.1)

end Cmd

/-! ### the gRPC data source of driver/driver.go -/

namespace Parsed
/-- `*proto.QueryRequest` as the CLIENT builds it from parsed queries (every member present) -/
structure QueryRequest where
  Queries : List PQuery
/-- the same request as the server reads it through the getters (protobuf transport, trusted) -/
def QueryRequest.toWire (r : QueryRequest) : Wire.QueryRequest := ⟨r.Queries.map Query.toWire⟩
end Parsed

namespace Url
/-- `*url.URL` after `url.Parse` (trusted), as far as the driver reads it -/
structure URL where
  Scheme : Bytes
  Opaque : Bytes
  Path : Bytes
  host : Bytes
  port : Bytes
  query : Values
def URL.Hostname (u : URL) : Bytes := u.host
def URL.Port (u : URL) : Bytes := u.port
def URL.Query (u : URL) : Values := u.query
end Url

namespace Grpc

/-- a `context.Context`: `context.Background()` (never cancelled, no deadline), or some other context -/
inductive Ctx where
  | Background
  | other (id : Nat)
  deriving DecidableEq, Repr, Inhabited

inductive TransportCredentials where
  | insecure
  deriving DecidableEq, Repr, Inhabited

inductive DialOption where
  | WithTransportCredentials (c : TransportCredentials)
  deriving DecidableEq, Repr, Inhabited

/-- `*grpc.ClientConn`: a channel to `target` -/
structure ClientConn where
  target : Bytes
  id : Nat
  deriving DecidableEq, Repr, Inhabited

/-- `updogv1.QueryServiceClient` -/
structure QueryServiceClient where
  conn : ClientConn
  deriving DecidableEq, Repr, Inhabited

/-- `updogv1.NewQueryServiceClient(conn)` -/
def NewQueryServiceClient (conn : ClientConn) : QueryServiceClient := ⟨conn⟩

/-- one `Query` RPC as it left the client -/
structure Call where
  conn : ClientConn
  ctx : Ctx
  req : Parsed.QueryRequest

/-- the network: what dialling and calling does, and a record of what was done -/
structure Net where
  /-- `grpc.NewClient(target, …)` fails -/
  dialFails : Bytes → Bool
  /-- what a `Query` RPC to `target` under context `ctx` returns: the server's answer to the request as it reads it, or
      the error of the transport / of the server / of a context that is done -/
  peer : Bytes → Ctx → Wire.QueryRequest → Except Err5 Pb.QueryResponse
  dials : List (Bytes × List DialOption)
  calls : List Call
  closed : List ClientConn

/-- `grpc.NewClient(target, opts...)` -/
def newClient (n : Net) (target : Bytes) (opts : List DialOption) : Net × Except Err5 ClientConn :=
  let n' : Net := { n with dials := n.dials ++ [(target, opts)] }
  if n.dialFails target then (n', .error (.ext 20)) else (n', .ok ⟨target, n.dials.length⟩)

/-- `client.Query(ctx, req)`: ONE call, recorded; the answer is the peer's -/
def query (n : Net) (client : QueryServiceClient) (ctx : Ctx) (req : Parsed.QueryRequest) : Net × Except Err5 Pb.QueryResponse :=
  ({ n with calls := n.calls ++ [⟨client.conn, ctx, req⟩] }, n.peer client.conn.target ctx req.toWire)

/-- `conn.Close()` -/
def connClose (n : Net) (conn : ClientConn) : Net × Option Err5 :=
  ({ n with closed := n.closed ++ [conn] }, if conn ∈ n.closed then some (.ext 21) else none)

end Grpc

namespace Drv

/-- `grpcConn` of driver/driver.go -/
structure grpcConn where
  conn : Grpc.ClientConn
  client : Grpc.QueryServiceClient
  deriving DecidableEq, Repr, Inhabited

/-- `grpcStmt` of driver/driver.go -/
structure grpcStmt where
  c : grpcConn
  q : Parsed.Query

/-- a `driver.Conn` as `(*updogDriver).Open` returns it -/
inductive Conn where
  | file (c : ConnId)
  | grpc (c : grpcConn)
  deriving DecidableEq, Repr, Inhabited

end Drv

end Updog.Go
