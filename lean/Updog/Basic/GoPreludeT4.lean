/-
Go prelude, part T4: primitives the translator (extract/translate_t4.go) emits for the lexer / parser / Walk of
internal/queryparser. Core Lean only, everything executable.

Conventions of this part of the translation
* every Go integer type (`int`, `int32`, `rune`, and the named types `pos`, `itemType`) ↦ `Int`; conversions between
  them are the identity except `int32(x)` (`Go.toInt32`). A `rune` is therefore an `Int`, so that `eof = -1` exists.
* a pointer to a struct (`*lexer`, `*parser`) ↦ the struct VALUE; a function that writes through the pointer returns
  the updated value in front of its own result (`l.next()` ↦ `let (l, r) := lexer_next l`).
* a channel ↦ the list of the values sent and not yet received (`ch <- x` appends, `<-ch` takes the head; a receive
  from an empty channel is a receive from a CLOSED channel and yields the zero value — the translation runs the
  sending goroutine to completion before the receiver starts, see `go` below).
* `go f()` ↦ the call `f()`, run to completion at that point. Assumption (trusted): the only data the lexer goroutine
  and the parser share is the unbuffered channel, so the parser observes exactly the sequence of items the lexer sends,
  whatever the interleaving.
* a function that may panic (`p.errorf` → `panic(err)`), or contains a loop / recursion the translator bounds by
  fuel, returns `Go.Res α = Except Go.Err4 α`: `.error .panic` = a Go panic carrying an `error` value,
  `.error .fuel` = the fuel handed in was too small (never the answer of the Go program; the theorems show which fuel
  suffices), `.error .returned` = the function returned a non-nil `error` (`(T, error)` results ↦ `Res T`).
* `*proto.Query_Expression` ↦ `Updog.PExpr`, `*proto.Query` ↦ `Updog.PQuery` (the model's protobuf trees, "all members
  set"); the `int32` field `Placeholder` is the `Nat` component of `PExpr.eq`, written through `Int.toNat`.
* a parameter of function type `func(*proto.Query_Expression) bool` is a callback with side effects: it ↦
  `f : σ → PExpr → σ × Bool` together with a state `s : σ` threaded through every call.
-/
import Updog.Basic.GoPrelude
import Updog.Model.Create
import Updog.Model.Parser
namespace Updog.Go

/-- why a translated function did not return normally -/
inductive Err4 where
  | panic     -- Go panic with an `error` value (`p.errorf`)
  | fuel      -- translation artefact: not enough fuel for a loop / recursion
  | returned  -- a non-nil `error` result
  deriving Repr, DecidableEq, Inhabited

abbrev Res (α : Type) := Except Err4 α

/-- `defer p.recover(&err)` around a body: a panic carrying an `error` becomes the returned error. (Runtime errors
    are re-panicked by `(*parser).recover`; they are not modelled at all.) -/
def recoverErr {α : Type} : Res α → Res α
  | .error .panic => .error .returned
  | r => r

/-- `defer l.drain()`: after the body, the remaining items are received and dropped so that the sending goroutine can
    finish. No effect on the result. -/
def deferDrain {α : Type} (r : α) : α := r

/-- `utf8.DecodeRuneInString(s)`: (rune, width), both as `Int` -/
def decodeRuneInString (s : Bytes) : Int × Int := (((decodeRune s).1 : Nat), ((decodeRune s).2 : Nat))

/-- `strings.ContainsRune(valid, r)` for a `valid` consisting of ASCII bytes only (the translator refuses any other
    literal): true iff `r` is the code of one of its bytes. In particular false for `r = eof = -1` and for every
    `r ≥ 0x80` (also for `utf8.RuneError`, which Go looks up by decoding `valid`). -/
def containsRune (valid : Bytes) (r : Int) : Bool := valid.any fun b => ((b.toNat : Nat) : Int) == r

/-- `ch <- x` -/
def chanSend {α : Type} (ch : List α) (x : α) : List α := ch ++ [x]
/-- `<-ch`: (the channel afterwards, the value); `zero` for a closed and empty channel -/
def chanRecv {α : Type} (zero : α) : List α → List α × α
  | [] => ([], zero)
  | x :: r => (r, x)
/-- `close(ch)` -/
def chanClose {α : Type} (ch : List α) : List α := ch

/-- `a[i]` on a fixed-size array (Go panics when out of range; here: `zero`) -/
def arrGet {α : Type} (zero : α) (a : List α) (i : Int) : α := if i < 0 then zero else a.getD i.toNat zero
/-- `a[i] = x` on a fixed-size array -/
def arrSet {α : Type} (a : List α) (i : Int) (x : α) : List α := if i < 0 then a else a.set i.toNat x

/-- `fmt.Sprintf(format, args...)` whose TEXT is not modelled (error messages): stands for some byte string -/
def sprintfOpaque (format : Bytes) : Bytes := format

end Updog.Go
