/-
Byte strings (Go strings are arbitrary bytes; `<` is byte-wise lexicographic),
hex coding for the line protocol, big-endian coders, outcomes.
-/
namespace Updog

abbrev Bytes := List UInt8

/-- What a Go call can do: return a value, return an error, panic, or block forever. -/
inductive Outcome (α : Type) where
  | ok (a : α)
  | error
  | panic
  | hang
  deriving Repr, DecidableEq, Inhabited

namespace Outcome
def map {α β} (f : α → β) : Outcome α → Outcome β
  | ok a => ok (f a) | error => error | panic => panic | hang => hang
def bind {α β} (o : Outcome α) (f : α → Outcome β) : Outcome β :=
  match o with
  | ok a => f a | error => error | panic => panic | hang => hang
instance : Monad Outcome where
  pure := ok
  bind := bind
def isOk {α} : Outcome α → Bool | ok _ => true | _ => false
end Outcome

def hexDigit (n : UInt8) : Char :=
  if n < 10 then Char.ofNat (48 + n.toNat) else Char.ofNat (87 + n.toNat)

/-- hex of a byte string; the empty string is written `-` so that fields never vanish -/
def toHex (b : Bytes) : String :=
  if b.isEmpty then "-" else
  String.ofList (b.flatMap fun x => [hexDigit (x / 16), hexDigit (x % 16)])

def hexVal (c : Char) : Option UInt8 :=
  if '0' ≤ c ∧ c ≤ '9' then some (c.toNat - 48).toUInt8
  else if 'a' ≤ c ∧ c ≤ 'f' then some (c.toNat - 87).toUInt8
  else none

def fromHexAux : List Char → Option Bytes
  | [] => some []
  | [_] => none
  | a :: b :: rest => do
    let x ← hexVal a
    let y ← hexVal b
    let r ← fromHexAux rest
    pure ((x * 16 + y) :: r)

def fromHex (s : String) : Option Bytes :=
  if s = "-" then some [] else fromHexAux s.toList

def strBytes (s : String) : Bytes := s.toUTF8.toList

/-- byte-wise lexicographic `<` (Go's string `<`) -/
def bytesLt : Bytes → Bytes → Bool
  | [], [] => false
  | [], _ :: _ => true
  | _ :: _, [] => false
  | a :: as, b :: bs => if a < b then true else if b < a then false else bytesLt as bs

def bytesLe (a b : Bytes) : Bool := !bytesLt b a

/-- big-endian encoders -/
def be32 (n : Nat) : Bytes :=
  [(n / 16777216 % 256).toUInt8, (n / 65536 % 256).toUInt8, (n / 256 % 256).toUInt8, (n % 256).toUInt8]

def be64 (n : Nat) : Bytes := be32 (n / 4294967296 % 4294967296) ++ be32 (n % 4294967296)

def beDecode (b : Bytes) : Nat := b.foldl (fun acc x => acc * 256 + x.toNat) 0

end Updog
