/-
Go prelude, part T3: the primitives the translator (extract/translate_t3.go) emits for the *effectful* functions of
writer.go / types.go / index.go / writer_big.go: Go maps, pointers into a small heap, `sync` mutexes, errors,
big-endian coders, and a model of the part of the bbolt API these functions use.
Core Lean only, everything executable.

Conventions of the translation (in addition to those of GoPrelude.lean)
* A Go function with side effects becomes a Lean function that takes the *worlds* it can touch and returns the new
  worlds together with the Go results: `bolt : Bolt` (the state of the bbolt database), `hp : Heap` (the objects
  reachable through `*roaring.Bitmap` / `*column` pointers). A pointer receiver / pointer parameter to a struct that
  is uniquely owned (`*IndexWriter`, `*schema`, `*Index`, `*BigIndexWriter`, `*preloadedColGetter`, `*onDemandColGetter`)
  is passed by value and returned updated.
* `*roaring.Bitmap` and `*column` are stored in maps and mutated through aliases, so they are real pointers:
  `Ptr` = `none` (nil) or `some a`, an address of the arena `Heap.bitmaps` / `Heap.columns`.
  A bitmap is the set of its members as a `Nat` bit set (bit `i` set ⇔ `i` is a member), like `Updog.setBit`.
* `error` ↦ `Error` = `Option Bytes` (`none` = nil; the message is carried along but nothing depends on it).
* Go `map[K]V` ↦ `GoMap K V`, an association list with at most one entry per key, in insertion order. The order a
  `for … range m` visits the entries is NOT the list order: a range over a map that is not a parameter is translated
  to a fold over a separate list parameter `rng…` (the enumeration Go happens to produce).
* `uint32` ↦ `UInt32` (wraps like Go), `[n]byte` ↦ `Bytes` of length n, `bytes.Buffer` ↦ `Bytes`,
  a `[]byte` that may be nil (result of `Bucket.Get`, cursor keys) ↦ `Option Bytes`.
* Where Go would panic (nil dereference, short buffer) the primitive returns its input unchanged / a zero value; the
  generated definitions describe the Go function on the inputs on which it does not panic.
* External libraries are parameters: `X : Ext` bundles roaring's (de)serialisation and gob's schema coding;
  `H` is `xxhash.Sum64`.
-/
import Updog.Basic.GoPrelude
namespace Updog.Go.T3

/-! ### control: early return from loops -/

/-- result of a loop body / a loop: `ret r` = the enclosing function returns `r`; `next a` = go on with variables `a` -/
inductive Ctl (ρ α : Type) where
  | ret (r : ρ)
  | next (a : α)

/-- `for _, x := range xs { body }` where the body may `return`: stops at the first `ret` -/
def forRange {ρ α ε : Type} (xs : List ε) (init : α) (body : α → ε → Ctl ρ α) : Ctl ρ α :=
  match xs with
  | [] => .next init
  | x :: rest =>
    match body init x with
    | .ret r => .ret r
    | .next a => forRange rest a body

/-- `for ; cond; { body }` with at most `fuel` iterations (the translator supplies a bound for which the loop
    provably ends: the number of keys under a bolt cursor); running out of fuel leaves the loop -/
def forWhile {ρ α : Type} (fuel : Nat) (init : α) (cond : α → Bool) (body : α → Ctl ρ α) : Ctl ρ α :=
  match fuel with
  | 0 => .next init
  | fuel + 1 =>
    if cond init then
      match body init with
      | .ret r => .ret r
      | .next a => forWhile fuel a cond body
    else .next init

/-! ### errors -/

abbrev Error := Option Bytes
/-- `nil` as an `error` -/
def nilError : Error := none
/-- `errors.New(msg)` -/
def errorsNew (msg : Bytes) : Error := some msg
/-- `fmt.Errorf("msg: %w", err)`: a non-nil error -/
def errorf (msg : Bytes) (e : Error) : Error := some (msg ++ e.getD [])
/-- `err != nil` -/
def isErr (e : Error) : Bool := e.isSome

/-! ### integers -/

/-- `a % b` on Go `int`s (truncated, like Go) -/
def intMod (a b : Int) : Int := Int.tmod a b

/-! ### maps -/

abbrev GoMap (κ ν : Type) := List (κ × ν)

/-- `make(map[K]V)` / `map[K]V{}` -/
def makeMap {κ ν : Type} : GoMap κ ν := []

/-- `v, ok := m[k]` (`zero` = the zero value of V) -/
def mapLookup {κ ν : Type} [BEq κ] (m : GoMap κ ν) (k : κ) (zero : ν) : ν × Bool :=
  match m with
  | [] => (zero, false)
  | (k', v) :: rest => if k' == k then (v, true) else mapLookup rest k zero

/-- `m[k]` -/
def mapGet {κ ν : Type} [BEq κ] (m : GoMap κ ν) (k : κ) (zero : ν) : ν := (mapLookup m k zero).1

/-- `m[k] = v` -/
def mapSet {κ ν : Type} [BEq κ] (m : GoMap κ ν) (k : κ) (v : ν) : GoMap κ ν :=
  match m with
  | [] => [(k, v)]
  | (k', v') :: rest => if k' == k then (k', v) :: rest else (k', v') :: mapSet rest k v

/-! ### sync -/

/-- `sync.Mutex` / `sync.RWMutex` (write side). `misuse` records `Lock` of a held mutex (the caller would block
    forever) or `Unlock` of a free one (Go: fatal error). -/
structure Mutex where
  held : Bool := false
  misuse : Bool := false
  deriving Repr, DecidableEq

def mutexLock (m : Mutex) : Mutex := if m.held then { m with misuse := true } else { m with held := true }
def mutexUnlock (m : Mutex) : Mutex := if m.held then { m with held := false } else { m with misuse := true }
/-- an access to a field of the struct the mutex guards (the translator emits it in front of every statement of a method
    that reads or writes a field of its receiver): touching the fields without holding the mutex is a data race,
    recorded as `misuse` -/
def mutexTouch (m : Mutex) : Mutex := if m.held then m else { m with misuse := true }

/-! ### the heap: bitmaps and columns -/

abbrev Ptr := Option Nat
def nilPtr : Ptr := none

/-- `roaring.Bitmap.Add`: set bit `i` -/
def bitSet (b i : Nat) : Nat := b ||| (1 <<< i)

/-- types.go `column` -/
structure Column where
  Values : GoMap Bytes UInt64 := []
  deriving Repr

structure Heap where
  bitmaps : List Nat := []
  columns : List Column := []
  deriving Repr

/-- `roaring.New()` -/
def roaringNew (hp : Heap) : Heap × Ptr :=
  ({ hp with bitmaps := hp.bitmaps ++ [0] }, some hp.bitmaps.length)

/-- `*bm` as a bit set (nil: Go would panic) -/
def bitmapAt (hp : Heap) (p : Ptr) : Nat :=
  match p with
  | none => 0
  | some a => hp.bitmaps.getD a 0

/-- `bm.Add(x)` -/
def bitmapAdd (hp : Heap) (p : Ptr) (x : UInt32) : Heap :=
  match p with
  | none => hp
  | some a => { hp with bitmaps := hp.bitmaps.set a (bitSet (hp.bitmaps.getD a 0) x.toNat) }

/-- `&column{…}` -/
def newColumn (hp : Heap) (c : Column) : Heap × Ptr :=
  ({ hp with columns := hp.columns ++ [c] }, some hp.columns.length)

/-- `*col` -/
def columnAt (hp : Heap) (p : Ptr) : Column :=
  match p with
  | none => {}
  | some a => hp.columns.getD a {}

/-- `*col = c` -/
def columnSet (hp : Heap) (p : Ptr) (c : Column) : Heap :=
  match p with
  | none => hp
  | some a => { hp with columns := hp.columns.set a c }

/-! ### writer.go / types.go / writer_big.go structs -/

/-- types.go `schema` (by value; its columns are pointers into the heap) -/
structure SchemaObj where
  Columns : GoMap Bytes Ptr := []
  deriving Repr

/-- the object graph below a `*schema`, as gob sees it -/
abbrev SchemaVal := List (Bytes × List (Bytes × UInt64))

def schemaValue (hp : Heap) (s : SchemaObj) : SchemaVal :=
  s.Columns.map fun kp => (kp.1, (columnAt hp kp.2).Values)

/-- writer.go `IndexWriter` -/
structure IndexWriter where
  mtx : Mutex := {}
  schema : SchemaObj := {}
  values : GoMap UInt64 Ptr := []
  nextRowID : UInt32 := 0
  filename : Bytes := []
  deriving Repr

/-- `idx.optimize()`: `RunOptimize` on every bitmap changes the representation, not the set -/
def optimize (hp : Heap) (idx : IndexWriter) : Heap := let _ := idx; hp

/-! ### external libraries -/

structure Ext where
  /-- `(*roaring.Bitmap).ToBytes` (never fails) -/
  roaringToBytes : Nat → Bytes
  /-- `(*roaring.Bitmap).FromBuffer`: `none` = error -/
  roaringFromBuffer : Bytes → Option Nat
  /-- `gob.NewEncoder(w).Encode(*schema)` (never fails on this type) -/
  gobEncode : SchemaVal → Bytes
  /-- `gob.NewDecoder(r).Decode(&schema)`: `none` = error -/
  gobDecode : Bytes → Option SchemaVal

/-- `v.ToBytes()` -/
def bitmapToBytes (X : Ext) (hp : Heap) (p : Ptr) : Bytes × Error := (X.roaringToBytes (bitmapAt hp p), none)

/-- `bm.FromBuffer(buf)`: on success `*bm` is the decoded set; the first result (bytes read) is not modelled -/
def bitmapFromBuffer (X : Ext) (hp : Heap) (p : Ptr) (buf : Bytes) : Heap × (Int × Error) :=
  match X.roaringFromBuffer buf with
  | none => (hp, (0, some [102, 114, 111, 109, 66, 117, 102, 102, 101, 114]))
  | some b =>
    match p with
    | none => (hp, (0, none))
    | some a => ({ hp with bitmaps := hp.bitmaps.set a b }, ((buf.length : Int), none))

/-- `gob.NewEncoder(&buf).Encode(sch)`: appends the encoding to `buf` -/
def gobEncode (X : Ext) (buf : Bytes) (s : SchemaVal) : Bytes × Error := (buf ++ X.gobEncode s, none)

/-- `gob.NewDecoder(bytes.NewReader(b)).Decode(&sch)`: the decoded value (unchanged on error) and the error -/
def gobDecode (X : Ext) (old : SchemaVal) (b : Bytes) : SchemaVal × Error :=
  match X.gobDecode b with
  | none => (old, some [103, 111, 98])
  | some s => (s, none)

/-! ### encoding/binary, bytes -/

/-- `var a [n]byte` -/
def zeroBytes (n : Nat) : Bytes := List.replicate n 0

def be4 (n : Nat) : Bytes :=
  [(n / 16777216 % 256).toUInt8, (n / 65536 % 256).toUInt8, (n / 256 % 256).toUInt8, (n % 256).toUInt8]

def be8 (n : Nat) : Bytes := be4 (n / 4294967296 % 4294967296) ++ be4 (n % 4294967296)

/-- overwrite `a[lo .. lo+|src|)` -/
def blit (a : Bytes) (lo : Nat) (src : Bytes) : Bytes := a.take lo ++ src ++ a.drop (lo + src.length)

/-- `binary.BigEndian.PutUint64(a[lo:hi], v)` on the array/slice variable `a`: writes 8 bytes at `lo`
    (Go panics if `a[lo:hi]` is shorter than 8 bytes: unchanged) -/
def bePutUint64 (a : Bytes) (lo hi : Int) (v : UInt64) : Bytes :=
  if 0 ≤ lo ∧ lo + 8 ≤ hi ∧ hi ≤ a.length then blit a lo.toNat (be8 v.toNat) else a

/-- `binary.BigEndian.PutUint32(a[lo:hi], v)` -/
def bePutUint32 (a : Bytes) (lo hi : Int) (v : UInt32) : Bytes :=
  if 0 ≤ lo ∧ lo + 4 ≤ hi ∧ hi ≤ a.length then blit a lo.toNat (be4 v.toNat) else a

def beNat (b : Bytes) : Nat := b.foldl (fun acc x => acc * 256 + x.toNat) 0

/-- `binary.BigEndian.Uint32(b)` (Go panics if `len(b) < 4`: 0) -/
def beUint32 (b : Bytes) : UInt32 := if b.length < 4 then 0 else (beNat (b.take 4)).toUInt32
/-- `binary.BigEndian.Uint64(b)` (Go panics if `len(b) < 8`: 0) -/
def beUint64 (b : Bytes) : UInt64 := if b.length < 8 then 0 else (beNat (b.take 8)).toUInt64

/-- `bytes.HasPrefix(s, p)` -/
def hasPrefix (s p : Bytes) : Bool := p.isPrefixOf s

/-- a possibly-nil `[]byte` used as a `[]byte` -/
def bytesOf (b : Option Bytes) : Bytes := b.getD []

/-! ### bbolt -/

/-- key ↦ value of one bucket, in cursor order (bytewise ascending keys; `bucketPut` keeps it that way) -/
abbrev BucketData := List (Bytes × Bytes)
abbrev Buckets := List (Bytes × BucketData)

/-- a `Put` as logged: bucket, key, value -/
abbrev PutRec := Bytes × Bytes × Bytes

structure TxState where
  id : Nat
  writable : Bool
  buckets : Buckets
  log : List PutRec := []
  deriving Repr

/-- one bbolt database file with at most one open transaction -/
structure Bolt where
  id : Nat := 0
  closed : Bool := false
  committed : Buckets := []
  tx : Option TxState := none
  nextTx : Nat := 0
  /-- the committed writable transactions, oldest first, each with its `Put`s in program order -/
  commits : List (List PutRec) := []
  deriving Repr

abbrev DBRef := Option Nat
abbrev TxRef := Option Nat
/-- a `*bbolt.Bucket` belongs to a transaction -/
abbrev BucketRef := Option (Nat × Bytes)

def errClosed : Error := some [99, 108, 111, 115, 101, 100]
def errTx : Error := some [116, 120]

def dbIs (b : Bolt) (db : DBRef) : Bool := db == some b.id && !b.closed

/-- `db.Begin(writable)` (a second transaction while one is open would block in bbolt: modelled as an error) -/
def dbBegin (b : Bolt) (db : DBRef) (writable : Bool) : Bolt × TxRef × Error :=
  if !dbIs b db then (b, none, errClosed)
  else if b.tx.isSome then (b, none, errTx)
  else ({ b with tx := some { id := b.nextTx, writable := writable, buckets := b.committed }, nextTx := b.nextTx + 1 },
        some b.nextTx, none)

/-- the open transaction `tx` refers to, if it is still open -/
def txOf (b : Bolt) (tx : TxRef) : Option TxState :=
  match b.tx, tx with
  | some t, some i => if t.id == i && !b.closed then some t else none
  | _, _ => none

def bucketsGet (bs : Buckets) (name : Bytes) : Option BucketData :=
  match bs with
  | [] => none
  | (n, d) :: rest => if n == name then some d else bucketsGet rest name

def bucketsSet (bs : Buckets) (name : Bytes) (d : BucketData) : Buckets :=
  match bs with
  | [] => [(name, d)]
  | (n, d') :: rest => if n == name then (n, d) :: rest else (n, d') :: bucketsSet rest name d

/-- `tx.Bucket(name)`: nil if there is no such bucket (or the transaction is over) -/
def txBucket (b : Bolt) (tx : TxRef) (name : Bytes) : BucketRef :=
  match txOf b tx with
  | none => none
  | some t => if (bucketsGet t.buckets name).isSome then some (t.id, name) else none

/-- `tx.CreateBucketIfNotExists(name)` -/
def txCreateBucketIfNotExists (b : Bolt) (tx : TxRef) (name : Bytes) : Bolt × BucketRef × Error :=
  match txOf b tx with
  | none => (b, none, errTx)
  | some t =>
    if !t.writable then (b, none, errTx)
    else if name.isEmpty then (b, none, errTx)
    else if (bucketsGet t.buckets name).isSome then (b, some (t.id, name), none)
    else ({ b with tx := some { t with buckets := bucketsSet t.buckets name [] } }, some (t.id, name), none)

/-- sorted insert / replace -/
def dataPut (d : BucketData) (k v : Bytes) : BucketData :=
  match d with
  | [] => [(k, v)]
  | (k', v') :: rest =>
    if k' == k then (k, v) :: rest
    else if bytesLt k k' then (k, v) :: (k', v') :: rest
    else (k', v') :: dataPut rest k v

def dataGet (d : BucketData) (k : Bytes) : Option Bytes :=
  match d with
  | [] => none
  | (k', v) :: rest => if k' == k then some v else dataGet rest k

/-- the content of the bucket `bk` refers to, if its transaction is still open -/
def bucketData (b : Bolt) (bk : BucketRef) : Option BucketData :=
  match bk with
  | none => none
  | some (i, name) =>
    match txOf b (some i) with
    | none => none
    | some t => bucketsGet t.buckets name

/-- `bucket.Put(key, value)` (nil bucket: Go panics; here an error) -/
def bucketPut (b : Bolt) (bk : BucketRef) (key value : Bytes) : Bolt × Error :=
  match bk with
  | none => (b, errTx)
  | some (i, name) =>
    match txOf b (some i) with
    | none => (b, errTx)
    | some t =>
      match bucketsGet t.buckets name with
      | none => (b, errTx)
      | some d =>
        if !t.writable then (b, errTx)
        else if key.isEmpty then (b, errTx)
        else ({ b with tx := some { t with buckets := bucketsSet t.buckets name (dataPut d key value),
                                             log := t.log ++ [(name, key, value)] } }, none)

/-- `bucket.Get(key)`: nil if the key is absent -/
def bucketGet (b : Bolt) (bk : BucketRef) (key : Bytes) : Option Bytes :=
  match bucketData b bk with
  | none => none
  | some d => dataGet d key

/-- `tx.Commit()` -/
def txCommit (b : Bolt) (tx : TxRef) : Bolt × Error :=
  match txOf b tx with
  | none => (b, errTx)
  | some t =>
    if !t.writable then (b, errTx)
    else ({ b with committed := t.buckets, tx := none, commits := b.commits ++ [t.log] }, none)

/-- `tx.Rollback()` -/
def txRollback (b : Bolt) (tx : TxRef) : Bolt × Error :=
  match txOf b tx with
  | none => (b, errTx)
  | some _ => ({ b with tx := none }, none)

/-- `db.Close()` (releases the file lock; an open transaction is gone with it) -/
def dbClose (b : Bolt) (db : DBRef) : Bolt × Error :=
  if db == some b.id then ({ b with closed := true, tx := none }, none) else (b, errClosed)

/-- `db.View(fn)`: `fn` runs in a read-only transaction that is rolled back afterwards; `st` are the captured
    variables `fn` assigns -/
def dbView {σ : Type} (b : Bolt) (db : DBRef) (st : σ) (fn : Bolt → TxRef → σ → Bolt × σ × Error) : Bolt × σ × Error :=
  match dbBegin b db false with
  | (b1, tx, some e) => let _ := tx; (b1, st, some e)
  | (b1, tx, none) =>
    match fn b1 tx st with
    | (b2, st2, err) => ((txRollback b2 tx).1, st2, err)

/-- `db.Update(fn)`: `fn` runs in a writable transaction, committed if `fn` returns nil, else rolled back -/
def dbUpdate {σ : Type} (b : Bolt) (db : DBRef) (st : σ) (fn : Bolt → TxRef → σ → Bolt × σ × Error) : Bolt × σ × Error :=
  match dbBegin b db true with
  | (b1, tx, some e) => let _ := tx; (b1, st, some e)
  | (b1, tx, none) =>
    match fn b1 tx st with
    | (b2, st2, some e) => ((txRollback b2 tx).1, st2, some e)
    | (b2, st2, none) => let r := txCommit b2 tx; (r.1, st2, r.2)

/-- the verification hook `verifPoint(site)`: a no-op in production builds -/
def verifPoint (b : Bolt) (site : Bytes) : Bolt := let _ := site; b

/-- `*bbolt.Cursor`: a bucket and a position in its key order -/
structure Cursor where
  bucket : BucketRef := none
  pos : Nat := 0
  deriving Repr

/-- `bucket.Cursor()` -/
def bucketCursor (bk : BucketRef) : Cursor := { bucket := bk, pos := 0 }

def cursorAt (b : Bolt) (c : Cursor) : Option Bytes × Option Bytes :=
  match bucketData b c.bucket with
  | none => (none, none)
  | some d =>
    match d[c.pos]? with
    | none => (none, none)
    | some kv => (some kv.1, some kv.2)

/-- number of leading keys of `d` that are `< seek` -/
def seekPos (d : BucketData) (seek : Bytes) : Nat :=
  match d with
  | [] => 0
  | (k, _) :: rest => if bytesLt k seek then seekPos rest seek + 1 else 0

/-- `c.Seek(seek)`: move to the first key `≥ seek`; `(nil, nil)` if there is none -/
def cursorSeek (b : Bolt) (c : Cursor) (seek : Bytes) : Cursor × Option Bytes × Option Bytes :=
  let c' : Cursor := { c with pos := seekPos ((bucketData b c.bucket).getD []) seek }
  (c', cursorAt b c')

/-- `c.First()` -/
def cursorFirst (b : Bolt) (c : Cursor) : Cursor × Option Bytes × Option Bytes :=
  let c' : Cursor := { c with pos := 0 }
  (c', cursorAt b c')

/-- `c.Next()` -/
def cursorNext (b : Bolt) (c : Cursor) : Cursor × Option Bytes × Option Bytes :=
  let c' : Cursor := { c with pos := c.pos + 1 }
  (c', cursorAt b c')

/-- a bound on the number of iterations of a loop that advances `c` with `Next` until the key is nil -/
def cursorFuel (b : Bolt) (c : Cursor) : Nat := ((bucketData b c.bucket).getD []).length + 1

/-! ### index.go structs -/

/-- `Cache` values the open path handles: nil, `&nullCache{}`, something the caller passed -/
inductive CacheRef where
  | nil | nullCache | user (n : Nat)
  deriving Repr, DecidableEq

/-- `*IndexMetrics` -/
inductive MetricsRef where
  | nil | fresh | user (n : Nat)
  deriving Repr, DecidableEq

structure OnDemandColGetter where
  db : DBRef := none
  deriving Repr

structure PreloadedColGetter where
  values : GoMap UInt64 Ptr := []
  deriving Repr

/-- the interface `colGetter` with its two implementations -/
inductive ColGetter where
  | nil
  | onDemand (g : OnDemandColGetter)
  | preloaded (cg : PreloadedColGetter)
  deriving Repr

def ColGetter.isNil : ColGetter → Bool
  | .nil => true
  | _ => false

/-- index.go `Index` (`schema`: nil or the decoded value) -/
structure Index where
  mtx : Mutex := {}
  schema : Option SchemaVal := none
  nextRowID : UInt32 := 0
  db : DBRef := none
  values : ColGetter := .nil
  cache : CacheRef := .nil
  metrics : MetricsRef := .nil
  deriving Repr

/-- `IndexOption` = `func(idx *Index) error` (an option may touch the database and allocate bitmaps) -/
abbrev IndexOption := Bolt → Heap → Index → Bolt × Heap × Index × Error

/-- writer_big.go `BigIndexWriter` -/
structure BigIndexWriter where
  mtx : Mutex := {}
  schema : SchemaObj := {}
  db : DBRef := none
  tempDB : DBRef := none
  tempTx : TxRef := none
  nextRowID : UInt32 := 0
  deriving Repr

end Updog.Go.T3
