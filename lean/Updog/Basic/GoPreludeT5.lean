/-
Go prelude, part T5: the primitives the translator (extract/translate_t5.go) emits for the glue code around the library
(internal/convert, driver/driver.go, cmd/updog/server.go, cmd/updog/create.go, internal/queryparser/walk.go).
Core Lean only, everything executable.

Conventions (in addition to those of `GoPrelude.lean`)
* A Go struct type (or a pointer to it: the translator only accepts code in which the pointer is not aliased) ↦ a Lean
  `structure` with the SAME field names; `x.F` ↦ `(T.F x)`, `T{F: a}` ↦ `({ F := a, … } : T)` (omitted fields get their
  zero value), `x.F = a` ↦ `let x := { x with F := a }`. The translator compares the field list of the Go declaration
  with the one it assumes (lost on mismatch).
* `uint64` ↦ `UInt64`, `int`/`int32`/`int64` ↦ `Int` (as in `GoPrelude.lean`).
* `(T, error)` ↦ `Except Go.Err5 T`; a lone `error` ↦ `Option Go.Err5` (`none` = nil).
* `for … range` without `return` in the body ↦ `List.foldl` over the carried variables; with `return` ↦ `Go.forRange`.
* A function that receives a callback (`walk`) is translated in state-passing style: the variables the callback closure
  captures and assigns are the state `σ`; the callback is `σ → arg → result × σ`.
* protobuf messages: see `Go.Wire` (nil-safe getter view, on the model's wire tree `WExpr`) and `Go.Parsed`
  (direct-field view on the parser's output type `PExpr`, which has no missing members).
-/
import Updog.Basic.GoPrelude
import Updog.Model.Server
import Updog.Model.Create
import Updog.Model.Dsn
namespace Updog.Go

/-! ### errors, loops, slices -/

/-- a Go `error` value, as far as the translated code can tell errors apart -/
inductive Err5 where
  /-- `io.EOF` -/
  | EOF
  /-- `fmt.Errorf(format, …)` / `errors.New(format)`: identified by its constant format text (the arguments are dropped) -/
  | errorf (format : Bytes)
  /-- an error returned by an external call (library, strconv, …) -/
  | ext (code : Nat)
  deriving DecidableEq, Repr, Inhabited

/-- state of a `for … range` loop whose body may `return`: `ret r` = the function has returned `r` -/
inductive Loop (ρ σ : Type) where
  | ret (r : ρ)
  | go (s : σ)

/-- `for _, x := range xs { body }` where `body` may return from the enclosing function: the iterations run in
    order on the carried variables `s` until one returns -/
def forRange {α ρ σ : Type} (xs : List α) (init : σ) (body : σ → α → Loop ρ σ) : Loop ρ σ :=
  xs.foldl (fun st x => match st with | .ret r => .ret r | .go s => body s x) (.go init)

/-- worker of `enum` -/
def enumFrom {α : Type} : Int → List α → List (Int × α)
  | _, [] => []
  | i, x :: xs => (i, x) :: enumFrom (i + 1) xs

/-- the (index, element) pairs `for idx, x := range xs` runs through -/
def enum {α : Type} (xs : List α) : List (Int × α) := enumFrom 0 xs

/-- `xs[i]` on a slice (Go panics if `i` is out of range; here: the zero value `default`) -/
def indexL {α : Type} [Inhabited α] (xs : List α) (i : Int) : α := if i < 0 then default else xs.getD i.toNat default

/-- `xs[i] = a` on a slice (value semantics: the updated slice; Go panics if `i` is out of range, here: unchanged) -/
def setIndexL {α : Type} (xs : List α) (i : Int) (a : α) : List α := if i < 0 then xs else xs.set i.toNat a

/-- `make([]T, n)`: `n` zero values -/
def makeL {α : Type} [Inhabited α] (n : Int) : List α := List.replicate n.toNat default

/-- `int64(x)` for a `uint64` x: two's complement reinterpretation -/
def u64ToInt64 (x : UInt64) : Int := if x.toNat < 9223372036854775808 then (x.toNat : Int) else (x.toNat : Int) - 18446744073709551616

/-- `int32(x)` for a `uint64` x (truncation to the low 32 bits, two's complement) -/
def u64ToInt32 (x : UInt64) : Int := toInt32 (x.toNat : Int)

/-! ### package updog (the library's public types) -/
namespace Lib

structure ResultField where
  Column : Bytes
  Value : Bytes
  deriving DecidableEq, Repr, Inhabited

structure ResultGroup where
  Fields : List ResultField
  Count : UInt64
  deriving DecidableEq, Repr, Inhabited

/-- `*updog.Result` -/
structure Result where
  Count : UInt64
  Groups : List ResultGroup
  deriving DecidableEq, Repr, Inhabited

/-- a value of the interface type `updog.Expression`: `nil`, or a pointer to one of the four expression structs
    (typed nil pointers inside the interface are not represented: the translated code never creates them) -/
inductive Expression where
  | nil
  | equal (Column Value : Bytes)
  | not (Expr : Expression)
  | and (Exprs : List Expression)
  | or (Exprs : List Expression)
  deriving Repr, Inhabited

/-- `*updog.ExprEqual` -/
structure ExprEqual where
  Column : Bytes
  Value : Bytes
/-- `*updog.ExprNot` -/
structure ExprNot where
  Expr : Expression
/-- `*updog.ExprAnd` -/
structure ExprAnd where
  Exprs : List Expression
/-- `*updog.ExprOr` -/
structure ExprOr where
  Exprs : List Expression

/-- storing a `*ExprEqual` in an `Expression` interface value -/
def ExprEqual.toExpression (x : ExprEqual) : Expression := .equal x.Column x.Value
def ExprNot.toExpression (x : ExprNot) : Expression := .not x.Expr
def ExprAnd.toExpression (x : ExprAnd) : Expression := .and x.Exprs
def ExprOr.toExpression (x : ExprOr) : Expression := .or x.Exprs

/-- `*updog.Query` (exported fields) -/
structure Query where
  Expr : Expression
  GroupBy : List Bytes
  deriving Repr, Inhabited

/-- `updog.NewLRUCache(size)`: a new, empty cache of that size; only its size is observable here -/
structure LRUCache where
  maxSize : UInt64
  deriving DecidableEq, Repr, Inhabited

/-- `updog.NewLRUCache(size)` -/
def NewLRUCache (size : UInt64) : LRUCache := ⟨size⟩

/-- `updog.IndexOption` values, as built by the option constructors -/
inductive IndexOption where
  | WithPreloadedData
  | WithCache (cache : LRUCache)
  deriving DecidableEq, Repr, Inhabited

end Lib

/-! ### protobuf result messages (package proto/updog/v1): plain structs, read and written through their fields -/
namespace Pb

structure Result_Group_ResultField where
  Column : Bytes
  Value : Bytes
  deriving DecidableEq, Repr, Inhabited

structure Result_Group where
  Fields : List Result_Group_ResultField
  Count : UInt64
  deriving DecidableEq, Repr, Inhabited

structure Result where
  QueryId : Int
  TotalCount : UInt64
  Groups : List Result_Group
  deriving DecidableEq, Repr, Inhabited

structure QueryResponse where
  Results : List Result
  deriving DecidableEq, Repr, Inhabited

end Pb

/-! ### protobuf query messages seen through their nil-safe getters: the model's wire tree

`*proto.Query_Expression` ↦ `WExpr`. A protobuf getter called on a nil message returns the zero value, so the
translated code (which only uses getters in this view) cannot tell a nil pointer from a message with unset members:
* a nil `*Query_Expression` and an `Expression` whose oneof `value` is unset are both `WExpr.unset`;
* a oneof wrapper holding a nil `*Query_Expression_Equal` reads as column "" / value "": `WExpr.eq [] []`;
* a nil `*Query_Expression_Not` or one without `expr` is `WExpr.not none`;
* a nil `*Query_Expression_And` reads as one without operands: `WExpr.and []`. -/
namespace Wire

abbrev Expression := WExpr

/-- `*Query_Expression_Equal` through `GetColumn` / `GetValue` -/
structure Equal where
  column : Bytes
  value : Bytes
/-- `*Query_Expression_Not`: its `expr` member, if any -/
structure Not where
  expr : Option WExpr
/-- `*Query_Expression_And` -/
structure And where
  exprs : List WExpr
/-- `*Query_Expression_Or` -/
structure Or where
  exprs : List WExpr

/-- the dynamic type and content of `pbe.GetValue()`; `nil` = no oneof member set (or `pbe == nil`) -/
inductive Value where
  | Eq (Eq : Equal)
  | Not_ (Not : Not)
  | And_ (And : And)
  | Or_ (Or : Or)
  | nil

/-- `(*Query_Expression).GetValue()` -/
def Expression.GetValue : WExpr → Value
  | .eq c v => .Eq ⟨c, v⟩
  | .not e => .Not_ ⟨e⟩
  | .and es => .And_ ⟨es⟩
  | .or es => .Or_ ⟨es⟩
  | .unset => .nil

def Equal.GetColumn (m : Equal) : Bytes := m.column
def Equal.GetValue (m : Equal) : Bytes := m.value
/-- `(*Query_Expression_Not).GetExpr()`: the nil pointer for a missing member, i.e. `WExpr.unset` -/
def Not.GetExpr (m : Not) : WExpr := m.expr.getD .unset
def And.GetExprs (m : And) : List WExpr := m.exprs
def Or.GetExprs (m : Or) : List WExpr := m.exprs

mutual
/-- nesting depth (the fuel recursive translated functions need) -/
def Expression.depth : WExpr → Nat
  | .eq _ _ => 0
  | .not none => 1
  | .not (some e) => Expression.depth e + 1
  | .and es => Expression.depthL es + 1
  | .or es => Expression.depthL es + 1
  | .unset => 0
def Expression.depthL : List WExpr → Nat
  | [] => 0
  | e :: es => max (Expression.depth e) (Expression.depthL es)
end

/-- `*proto.Query` as a request member (`Id` is read directly, the rest through getters) -/
abbrev Query := WQuery
def Query.Id (q : WQuery) : Int := q.id
/-- `(*Query).GetExpr()`: nil (↦ `unset`) if the member is missing -/
def Query.GetExpr (q : WQuery) : WExpr := q.expr.getD .unset
def Query.GetGroupBy (q : WQuery) : List Bytes := q.groupBy

/-- `*proto.QueryRequest` -/
structure QueryRequest where
  Queries : List WQuery

end Wire

/-! ### protobuf query messages as the parser builds them (every member present), read through their fields

`*proto.Query_Expression` ↦ `PExpr`; direct field access (`e.Value`, `v.Eq.Placeholder`) panics in Go on a nil
pointer, which `PExpr` cannot contain. -/
namespace Parsed

abbrev Expression := PExpr
abbrev Query := PQuery

/-- `*Query_Expression_Equal` -/
structure Equal where
  Column : Bytes
  Value : Bytes
  Placeholder : Int
  deriving Repr, Inhabited
structure Not where
  Expr : PExpr
structure And where
  Exprs : List PExpr
structure Or where
  Exprs : List PExpr

/-- the oneof member `e.Value` -/
inductive Value where
  | Eq (Eq : Equal)
  | Not_ (Not : Not)
  | And_ (And : And)
  | Or_ (Or : Or)

def Expression.Value : PExpr → Value
  | .eq c v ph => .Eq ⟨c, v, (ph : Int)⟩
  | .not e => .Not_ ⟨e⟩
  | .and es => .And_ ⟨es⟩
  | .or es => .Or_ ⟨es⟩

/-- the node `e` after `e.Value = v` (placeholder numbers are int32 ≥ 0 in every tree the parser builds; a negative
    number is stored as 0 here) -/
def Expression.setValue (_e : PExpr) : Parsed.Value → PExpr
  | .Eq m => .eq m.Column m.Value m.Placeholder.toNat
  | .Not_ m => .not m.Expr
  | .And_ m => .and m.Exprs
  | .Or_ m => .or m.Exprs

mutual
def Expression.depth : PExpr → Nat
  | .eq _ _ _ => 0
  | .not e => Expression.depth e + 1
  | .and es => Expression.depthL es + 1
  | .or es => Expression.depthL es + 1
def Expression.depthL : List PExpr → Nat
  | [] => 0
  | e :: es => max (Expression.depth e) (Expression.depthL es)
end

def Query.Expr (q : PQuery) : PExpr := q.expr
def Query.GroupBy (q : PQuery) : List Bytes := q.groupBy

mutual
/-- the tree after `Walk` has applied, to every node in place, a callback that always returns true and that modifies
    comparison nodes only (`f e = e` for NOT / AND / OR nodes — Props/Gen/Driver.lean proves both of the generated
    callback): every comparison node `e` is replaced by `f e` -/
def mapNodes (f : PExpr → PExpr) : PExpr → PExpr
  | .eq c v ph => f (.eq c v ph)
  | .not e => .not (mapNodes f e)
  | .and es => .and (mapNodesL f es)
  | .or es => .or (mapNodesL f es)
def mapNodesL (f : PExpr → PExpr) : List PExpr → List PExpr
  | [] => []
  | e :: es => mapNodes f e :: mapNodesL f es
end

mutual
/-- the same message seen through its getters -/
def Expression.toWire : PExpr → WExpr
  | .eq c v _ => .eq c v
  | .not e => .not (some (Expression.toWire e))
  | .and es => .and (Expression.toWireL es)
  | .or es => .or (Expression.toWireL es)
def Expression.toWireL : List PExpr → List WExpr
  | [] => []
  | e :: es => Expression.toWire e :: Expression.toWireL es
end

/-- a parsed `*proto.Query` handed to code that reads it through getters -/
def Query.toWire (q : PQuery) : WQuery := ⟨0, some (Expression.toWire q.expr), q.groupBy⟩

end Parsed

/-! ### maps with string keys -/

/-- `map[string]T` as an association list without duplicate keys (a Go map has no order; the list order is the order
    of the last assignment to each key) -/
abbrev Map (α : Type) := List (Bytes × α)
def Map.nil {α : Type} : Map α := []
/-- `map[string]T{}` -/
def Map.empty {α : Type} : Map α := []
/-- `m[k] = v` -/
def Map.set {α : Type} (m : Map α) (k : Bytes) (v : α) : Map α := m.filter (fun kv => kv.1 != k) ++ [(k, v)]

/-! ### package strings / unicode/utf8: rune-wise mapping -/

/-- `utf8.AppendRune(nil, r)`: the UTF-8 encoding of code point `r`; surrogates and values above U+10FFFF are
    encoded as U+FFFD -/
def encodeRune (r : Nat) : Bytes :=
  if r < 0x80 then [r.toUInt8]
  else if r < 0x800 then [(0xC0 + r / 64).toUInt8, (0x80 + r % 64).toUInt8]
  else if 0x10FFFF < r ∨ (0xD800 ≤ r ∧ r ≤ 0xDFFF) then [0xEF, 0xBF, 0xBD]
  else if r < 0x10000 then [(0xE0 + r / 4096).toUInt8, (0x80 + r / 64 % 64).toUInt8, (0x80 + r % 64).toUInt8]
  else [(0xF0 + r / 262144).toUInt8, (0x80 + r / 4096 % 64).toUInt8, (0x80 + r / 64 % 64).toUInt8, (0x80 + r % 64).toUInt8]

/-- worker of `stringsMap` (`fuel` ≥ the length of the string) -/
def stringsMapAux (f : Nat → Nat) : Nat → Bytes → Bytes
  | 0, _ => []
  | _, [] => []
  | fuel + 1, b :: rest =>
    let rw := decodeRune (b :: rest)
    encodeRune (f rw.1) ++ stringsMapAux f fuel ((b :: rest).drop rw.2)

/-- `strings.Map(mapping, s)` for a mapping that never returns a negative value: the string is decoded rune by rune
    with Go's rules (`decodeRune` of Model/Create.lean: an invalid byte is U+FFFD of width 1), every rune is replaced by
    the encoding of its image -/
def stringsMap (f : Nat → Nat) (s : Bytes) : Bytes := stringsMapAux f s.length s

/-- `strings.ToLower(s)`: `strings.Map(unicode.ToLower, s)` (the ASCII fast path of the Go implementation gives the
    same result); `unicode.ToLower` on code points is the parameter -/
def stringsToLower (toLower : Nat → Nat) (s : Bytes) : Bytes := stringsMap toLower s

/-! ### package strconv, net/url -/

/-- `strconv.ParseUint(s, 10, 64)`: the model's `parseUint64` (non-empty, decimal digits only, at most 2^64-1);
    which error is returned is not modelled -/
def parseUint64 (s : Bytes) : Except Err5 UInt64 :=
  match Updog.parseUint64 s with
  | none => .error (.ext 0)
  | some n => .ok n.toUInt64

namespace Url
/-- `url.Values` (after `url.Parse(...).Query()`, which is trusted): for every key its FIRST value -/
abbrev Values := List (Bytes × Bytes)
/-- `v.Get(key)`: the first value of `key`, "" if there is none -/
def Values.Get (v : Values) (key : Bytes) : Bytes :=
  match v.find? (fun kv => kv.1 == key) with
  | some kv => kv.2
  | none => []
end Url

/-! ### package driver (driver/driver.go) and database/sql/driver -/
namespace Drv

/-- `driver.Value` (an `interface{}`) as far as the driver produces it -/
inductive Value where
  | nil
  | ofString (s : Bytes)
  | ofInt64 (i : Int)
  deriving DecidableEq, Repr, Inhabited

/-- `driver.NamedValue` -/
structure NamedValue where
  Ordinal : Int
  Value : Value
  deriving DecidableEq, Repr, Inhabited

structure row where
  fields : List Bytes
  count : UInt64
  deriving DecidableEq, Repr, Inhabited

structure rows where
  cols : List Bytes
  rows : List row
  closed : Bool
  idx : Int
  deriving DecidableEq, Repr, Inhabited

structure fileCacheKey where
  file : Bytes
  opts : Bytes
  deriving DecidableEq, Repr, Inhabited

/-- `*fileStmt`: the parsed query of a prepared statement (its connection `c` is only used for `c.idx.Execute`,
    which is a parameter of the translated code) -/
structure fileStmt where
  q : Parsed.Query

/-- what `openFile` has computed when it takes the lock -/
structure OpenFileOpts where
  key : fileCacheKey
  opts : List Lib.IndexOption
  deriving DecidableEq, Repr, Inhabited

/-! #### the driver's shared state: connection cache, reference counts, mutex

`openFile` and `fileConn.Close` work on heap objects shared between goroutines (`d.fileConnCache`, the `*fileConn`
objects, their atomic `refs`). The translation threads this state explicitly as a `World`. The model of
`Updog/Model/Driver.lean` treats each of the two functions as ONE atomic step, which is justified only if every access
to the shared state happens while `fileConnMtx` is held: every primitive that reads or writes the cache map or a
reference count sets `raced` when the mutex is not held, and the equivalence theorems prove `raced = false`. -/

/-- a `*fileConn` (address of a heap object) -/
abbrev ConnId := Nat
/-- a non-nil `*updog.Index` (an open index handle); `*updog.Index` itself is `Option IdxId` -/
abbrev IdxId := Nat

/-- the fields of a `fileConn` object (`drv` always points to the one driver) -/
structure fileConn where
  idx : Option IdxId
  key : fileCacheKey
  refs : Int
  deriving Repr, Inhabited

structure World where
  /-- `fileConnMtx` is held by the running call -/
  held : Bool
  /-- the cache map or a reference count was accessed while the mutex was not held -/
  raced : Bool
  /-- `d.fileConnCache` -/
  cache : fileCacheKey → Option ConnId
  /-- the heap of `fileConn` objects -/
  conns : ConnId → fileConn
  /-- the next free address -/
  nextConn : ConnId
  /-- the index handles: `some file` = open on that file -/
  openIdx : IdxId → Option Bytes
  nextIdx : IdxId

/-- `d.fileConnMtx.Lock()` -/
def lock (w : World) : World := { w with held := true }
/-- `d.fileConnMtx.Unlock()` -/
def unlock (w : World) : World := { w with held := false }
/-- an access to the cache map or a reference count -/
def touch (w : World) : World := { w with raced := w.raced || !w.held }
/-- `d.fileConnCache[key]` (`none` = no entry) -/
def cacheGet (w : World) (k : fileCacheKey) : Option ConnId := w.cache k
/-- `d.fileConnCache[key] = conn` -/
def cacheSet (w : World) (k : fileCacheKey) (c : ConnId) : World :=
  { w with cache := fun k' => if k' = k then some c else w.cache k' }
/-- `delete(d.fileConnCache, key)` -/
def cacheDelete (w : World) (k : fileCacheKey) : World :=
  { w with cache := fun k' => if k' = k then none else w.cache k' }
/-- `c.key` -/
def connKey (w : World) (c : ConnId) : fileCacheKey := (w.conns c).key
/-- `c.idx` -/
def connIdx (w : World) (c : ConnId) : Option IdxId := (w.conns c).idx
/-- `c.idx = v` -/
def setConnIdx (w : World) (c : ConnId) (v : Option IdxId) : World :=
  { w with conns := fun c' => if c' = c then { w.conns c with idx := v } else w.conns c' }
/-- `c.refs.Add(d)`: the new value (an access to a reference count; counts stay far below 2^31) -/
def refsAdd (w : World) (c : ConnId) (d : Int) : World × Int :=
  let w := touch w
  ({ w with conns := fun c' => if c' = c then { w.conns c with refs := (w.conns c).refs + d } else w.conns c' },
   (w.conns c).refs + d)
/-- `&fileConn{…}`: a new object at a fresh address -/
def newConn (w : World) (fc : fileConn) : World × ConnId :=
  ({ w with conns := fun c' => if c' = w.nextConn then fc else w.conns c', nextConn := w.nextConn + 1 }, w.nextConn)
/-- `updog.OpenIndex(file, opts...)`: succeeds exactly for `valid` files, yielding a new open handle (never blocks:
    read-only opens take a shared file lock) -/
def openIndex (valid : Bytes → Bool) (w : World) (file : Bytes) (_opts : List Lib.IndexOption) : World × Except Err5 (Option IdxId) :=
  if valid file then
    ({ w with openIdx := fun i => if i = w.nextIdx then some file else w.openIdx i, nextIdx := w.nextIdx + 1 }, .ok (some w.nextIdx))
  else (w, .error (.ext 3))
/-- `idx.Close()` on a non-nil index: the handle is closed -/
def closeIndex (w : World) (idx : Option IdxId) : World × Option Err5 :=
  match idx with
  | some i => ({ w with openIdx := fun j => if j = i then none else w.openIdx j }, none)
  | none => (w, none)

end Drv

end Updog.Go
