/-
Shared by the preludes of the translator's areas: how control leaves a translated loop.
-/
namespace Updog.Go

/-- what running (the rest of) a `for … range` loop did: left the function by a `return r` in its body, or ran to
    its end with the loop-carried variables `a` -/
inductive Flow (ρ α : Type) where
  | ret (r : ρ)
  | next (a : α)

end Updog.Go
