def hello := "world"
