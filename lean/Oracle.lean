/-
Line-protocol driver over the executable model (`Updog.Model.*`) and specification (`Updog.Spec.*`).
One request per line, one answer line per request. Byte strings are hex (`-` = empty).
-/
import Updog.Oracle.Idx
import Updog.Oracle.Lru
import Updog.Oracle.Parse
import Updog.Oracle.Fs
open Updog Updog.Oracle

structure St where
  idx : IdxSt := {}

def step (st : St) (line : String) : St × String :=
  match (line.splitOn " ").filter (· ≠ "") with
  | "idx" :: cmd :: args => let (s, o) := stepIdx st.idx cmd args; ({ st with idx := s }, o)
  | "srv" :: "q" :: args =>
    -- one hostile query (no group-by) against the current index: `Z` = query without expr
    match st.idx.ix with
    | none => (st, "bad-op")
    | some ix =>
      let w : Option (Option WExpr) := match args with
        | ["Z"] => some none
        | _ => match parseWExpr args with
          | some (e, []) => some (some e)
          | _ => none
      match w with
      | none => (st, "bad-op")
      | some w =>
        match (match w with | none => none | some w => w.complete) with
        | none => (st, "err")
        | some e => (st, fmtResult (executeFast xxhash64 ix ⟨e, []⟩))
  | "fs" :: cmd :: args => (st, stepFs cmd args)
  | "lru" :: args => (st, stepLru args)
  | "qp" :: cmd :: args => (st, stepParse cmd args)
  | _ => (st, "bad-op")

partial def loop (hin hout : IO.FS.Stream) (st : St) : IO Unit := do
  let line ← hin.getLine
  if line.isEmpty then return ()
  let (st', out) := step st (String.ofList (line.toList.filter (fun c => c != '\n' && c != '\r')))
  hout.putStrLn out
  hout.flush
  loop hin hout st'

def main : IO Unit := do
  loop (← IO.getStdin) (← IO.getStdout) {}
