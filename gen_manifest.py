#!/usr/bin/env python3
"""writes MANIFEST.json from lean/obligations.json (claimed properties) — keeps the manifest consistent."""
import json, os
V = os.path.dirname(os.path.abspath(__file__))
obl = json.load(open(os.path.join(V, "lean", "obligations.json")))
props = [json.loads(l) for l in open(os.path.join(V, "properties.jsonl"))]
checks, na = [], []
for p in props:
    pid = p["id"]
    o = obl.get(pid)
    if not o or o.get("unclaimed"):
        na.append({"property_id": pid, "reason": (o or {}).get("unclaimed", "check under construction in this round; not claimed yet")})
        continue
    checks.append({
        "property_id": pid,
        "quick_cmd": "./check %s --tier quick" % pid,
        "thorough_cmd": "./check %s --tier thorough" % pid,
        "evidence_file": "/verif/evidence/%s.json" % pid,
        "replay_cmd_template": "./check %s --replay {path}" % pid,
        "engine": "lean4-proof+correspondence",
        "level_claimed": {"category": "proof", "text": o.get("level_text", ""), "design_ref": "DESIGN.md §4 " + pid},
        "level_note": o.get("level_note", "Trusted: Lean 4.33 kernel (axioms propext/Classical.choice/Quot.sound only, audited every run); the go/ast fact extractor (fails closed); the Go harness and the Lean oracle's line protocol. Hand-written model, tied to /repo on every run by (1) Lean definitions regenerated from the Go source by the translator (GeneratedFns.lean) and proved equal to the model (Props/Gen), (2) regenerated facts (Generated.lean), (3) the differential run. " + ("True by construction of the model, not evidence on their own: " + ", ".join(t.split(".")[-1] for t in o["definitional"]["theorems"]) + " (" + o["definitional"]["note"] + "). " if o.get("definitional") else "") + ("Theorem hypotheses: " + "; ".join(o.get("assumptions", [])) + ". " if o.get("assumptions") else "") + ("Partial: " + o["partial"] + ". " if o.get("partial") else "") + "Modelled, not verified: " + "; ".join(o.get("modelled_not_verified", [])[:4]) + "."),
        "technique": o.get("technique", "Lean 4 theorem over a hand-written model + differential correspondence with the implementation"),
    })
m = {
    "version": 1,
    "setup_cmd": "cd /verif && ./setup.sh",
    "hooks": {"guard": "verif", "enable": "go build -tags verif (harness module with replace => /repo)",
              "baseline_off_cmd": "cd /repo && GOFLAGS=-mod=mod GOPROXY=off GOSUMDB=off GOTOOLCHAIN=local go test -vet=off -count=1 ./...",
              "source_commits": json.load(open(os.path.join(V, "hook_commits.json"))), "add_only": True},
    "engines": [{"name": "lean4-proof+correspondence", "path": "/verif/check", "serves_properties": [c["property_id"] for c in checks],
                 "kind_free_text": "Lean 4 model + property theorems (lake build, #print axioms audit), Go->Lean translator regenerating GeneratedFns.lean with equivalence theorems, go/ast fact extractor regenerating Generated.lean, Go harness driving the real code against the compiled Lean oracle"}],
    "checks": checks,
    "not_applicable": na,
    "notes": "exit 2 = infrastructure error (no verdict). known findings: /verif/known_findings.json",
}
json.dump(m, open(os.path.join(V, "MANIFEST.json"), "w"), indent=1)
print("claimed:", [c["property_id"] for c in checks])
