#!/usr/bin/env python3
"""applies each semantics-preserving patch in /verif/seeded/harmless to /repo, runs the checks of the properties anchored
in the touched files, reverts; reports which checks raise an alarm (they should not, except `no-failing-input-found`
where an extracted shape changed)."""
import json, glob, subprocess, os, re, sys
ENV = dict(os.environ, GOFLAGS="-mod=mod", GOPROXY="off", GOSUMDB="off", GOTOOLCHAIN="local", VERIF_EVIDENCE_DIR="/tmp/evidence-scratch")
props = [json.loads(l) for l in open("/verif/properties.jsonl")]
def sh(cmd, cwd):
    p = subprocess.run(cmd, cwd=cwd, shell=True, env=ENV, stdout=subprocess.PIPE, stderr=subprocess.STDOUT, text=True)
    return p.returncode, p.stdout
RES = "/verif/seeded/harmless-results.json"
res = json.load(open(RES)) if os.path.exists(RES) and sys.argv[1:] else {}
for patch in sorted(glob.glob("/verif/seeded/harmless/*.patch.diff")):
    nn = os.path.basename(patch)[:2]
    files = re.findall(r"^\+\+\+ b/(\S+)", open(patch).read(), re.M)
    pids = sorted({p["id"] for p in props for f in files if f in p["anchors"]["files"]})
    if sys.argv[1:] and nn not in sys.argv[1:]:
        continue
    rc, o = sh("git status --porcelain", "/repo")
    assert not o.strip(), o
    rc, o = sh("git apply " + patch, "/repo")
    out = {}
    try:
        if rc != 0:
            out["apply"] = o[-200:]
        else:
            for pid in pids:
                rc, o = sh("./check %s" % pid, "/verif")
                lines = [l for l in o.splitlines() if l.startswith(("VIOLATION", "BROKEN-OBLIGATION", "INFRA"))]
                out[pid] = "ok" if rc == 0 else ("exit %d: " % rc) + " | ".join(l[:160] for l in lines[:2])
    finally:
        sh("git checkout -- . && git clean -fdq", "/repo")
    res[nn] = {"files": files, "what": open(patch.replace(".patch.diff", ".txt")).read().strip()[:200], "checks": out}
    print(nn, files, {k: v[:120] for k, v in out.items()})
json.dump(dict(sorted(res.items())), open(RES, "w"), indent=1)
