#!/usr/bin/env python3
"""regenerates the per-property table (section 11.7) at the end of DESIGN.md from lean/obligations.json"""
import json, re
o = json.load(open("/verif/lean/obligations.json"))
lines = ["### 11.7 Per property: what is proved, what is only tied or explored (generated from lean/obligations.json)\n"]
for pid in sorted(o):
    e = o[pid]
    lines.append("**%s** — %d audited theorems (%s …). %s" % (pid, len(e["theorems"]), ", ".join(t.split(".")[-1] for t in e["theorems"][:6]), e["level_text"]))
    if e.get("definitional"):
        d = e["definitional"]
        lines.append("  *True by construction of the model (not counted as evidence on their own):* " + ", ".join(t.split(".")[-1] for t in d["theorems"]) + " — " + d["note"] + ".")
    if e.get("partial"):
        lines.append("  *Partial:* " + e["partial"] + ".")
    if e.get("assumptions"):
        lines.append("  *Hypotheses of the theorems:* " + "; ".join(e["assumptions"]) + ".")
    lines.append("")
txt = "\n".join(lines)
p = "/verif/DESIGN.md"
s = open(p).read()
marker = "### 11.7 Per property"
if marker in s:
    s = s[:s.index(marker)]
s = s.rstrip() + "\n\n" + txt
open(p, "w").write(s)
print("ok")
