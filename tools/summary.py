#!/usr/bin/env python3
"""writes seeded/SUMMARY.md from seeded/*/meta.json"""
import json, glob, os
rows = []
for f in sorted(glob.glob("/verif/seeded/*/meta.json")):
    m = json.load(open(f))
    for c, r in m["checks"].items():
        if not isinstance(r, dict):
            verdict = str(r)
        else:
            nf = any("no-failing-input-found" in l for l in r["lines"])
            verdict = {0: "MISSED", 1: "caught" + (" (obligation only, no failing input)" if nf else " with replay"), 2: "infra error"}.get(r["exit"], str(r["exit"])) + " in %ds" % r["wall_s"]
        th = (m.get("checks_thorough") or {}).get(c)
        if isinstance(th, dict) and isinstance(r, dict) and r["exit"] == 1 and nf and th.get("exit") == 1 and not any("no-failing-input-found" in l for l in th["lines"]):
            verdict += "; thorough tier: with replay in %ds" % th["wall_s"]
        rows.append((m["property"] + "-" + m["variant"], "yes" if m["confirmed"] else "NO", c, verdict, (m.get("summary") or "")[:160].replace("|", "/"), (m.get("needs") or "")[:140].replace("|", "/")))
with open("/verif/seeded/SUMMARY.md", "w") as f:
    f.write("# Seeded changes and the checks' verdicts\n\nEach change was produced by an independent sub-agent that saw only the property text and a scratch worktree; "
            "`confirmed` = builds, vets, passes the existing suite, its demonstration fails with the change and passes without (re-run by tools/mutant.py).\n\n")
    f.write("| id | confirmed | check | verdict | change | needs |\n|---|---|---|---|---|---|\n")
    for r in rows:
        f.write("| %s | %s | %s | %s | %s | %s |\n" % r)
print(len(rows), "rows;", sum(1 for r in rows if r[3].startswith("caught")), "caught;", sum(1 for r in rows if "obligation only" in r[3]), "obligation only (quick);", sum(1 for r in rows if r[3].startswith("MISSED")), "missed")
