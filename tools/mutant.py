#!/usr/bin/env python3
"""tools/mutant.py <Cxx> <A|B> [--checks C01,C05] [--tier quick]
Confirms a seeded change produced by a sub-agent in its scratch worktree (/tmp/mut/Cxx), then applies it to /repo,
runs the registered check(s), and reverts /repo. Results go to /verif/seeded/<Cxx>-<X>/."""
import sys, os, json, subprocess, shutil, re, time
ENV = dict(os.environ, GOFLAGS="-mod=mod", GOPROXY="off", GOSUMDB="off", GOTOOLCHAIN="local")
def sh(cmd, cwd, timeout=1800, env=None):
    try:
        p = subprocess.run(cmd, cwd=cwd, shell=True, env=env or ENV, stdout=subprocess.PIPE, stderr=subprocess.STDOUT, text=True, timeout=timeout)
        return p.returncode, p.stdout
    except subprocess.TimeoutExpired as e:
        return 124, (e.stdout or "") + "\nTIMEOUT"
pid, x = sys.argv[1], sys.argv[2]
checks = [pid]
tier = "quick"
for i, a in enumerate(sys.argv):
    if a == "--checks": checks = sys.argv[i+1].split(",")
    if a == "--tier": tier = sys.argv[i+1]
srcbase = "/tmp/mut"
for i, a in enumerate(sys.argv):
    if a == "--src": srcbase = sys.argv[i+1]
srcwt = "%s/%s" % (srcbase, pid)  # where the sub-agent worked (its out*/ directories)
wt = "/tmp/mutv/%s" % pid         # a separate clean worktree used only for confirmation
dst = "/verif/seeded/%s-%s" % (pid, x)
os.makedirs(dst, exist_ok=True)
created_wt = False
if "--no-confirm" not in sys.argv and not os.path.isdir(os.path.join(wt, ".git")) and not os.path.isfile(os.path.join(wt, ".git")):
    # the confirmation worktree is scratch: made on demand outside /repo and /verif, removed again at the end
    os.makedirs(os.path.dirname(wt), exist_ok=True)
    shutil.rmtree(wt, ignore_errors=True)
    sh("git -C /repo worktree add --detach %s HEAD" % wt, "/repo")
    created_wt = True
out = os.path.join(wt, "out")
shutil.rmtree(out, ignore_errors=True)
os.makedirs(out, exist_ok=True)
srcdir = None
for cand in ("out", "out2", "out1"):
    c = os.path.join(srcwt, cand)
    if os.path.exists(os.path.join(c, "%s.patch.diff" % x)) and os.path.exists(os.path.join(c, "%s.meta.json" % x)):
        srcdir = c
if srcdir is not None and not os.path.exists(os.path.join(dst, "patch.diff")):
    for f in os.listdir(srcdir):
        if f.startswith(x + "."):
            p0 = os.path.join(srcdir, f)
            if os.path.isdir(p0): shutil.copytree(p0, os.path.join(out, f))
            else: shutil.copy(p0, os.path.join(out, f))
else:
    # the copy kept under /verif/seeded is the source of truth
    shutil.copy(os.path.join(dst, "patch.diff"), os.path.join(out, "%s.patch.diff" % x))
    m0 = json.load(open(os.path.join(dst, "meta.json")))
    json.dump({k: m0.get(k) for k in ("property", "summary", "needs", "files", "demo_cmd")}, open(os.path.join(out, "%s.meta.json" % x), "w"))
    for f in os.listdir(dst):
        if f.startswith(x + ".demo"):
            p0 = os.path.join(dst, f)
            if os.path.isdir(p0): shutil.copytree(p0, os.path.join(out, f))
            else: shutil.copy(p0, os.path.join(out, f))
open(os.path.join(out, "go.mod"), "w").write("module out\n")
patch = os.path.join(out, "%s.patch.diff" % x)
meta = json.load(open(os.path.join(out, "%s.meta.json" % x)))
res = {"property": pid, "variant": x, "summary": meta.get("summary"), "needs": meta.get("needs"), "files": meta.get("files"), "demo_cmd": meta.get("demo_cmd")}
NOCONFIRM = "--no-confirm" in sys.argv
# ---- 1. confirm in the scratch worktree
if NOCONFIRM:
    old = json.load(open(os.path.join(dst, "meta.json")))
    for k in ("applies", "build_vet_tests_with_change", "demo_with_change", "demo_with_change_tail", "demo_without_change", "confirmed"):
        res[k] = old.get(k)
else:
    CLEAN = "git checkout -- . && git clean -fdq -e 'out*' -e '_out*'"
    sh(CLEAN, wt)
    hide = "mv out _out"; unhide = "mv _out out"
    rc, o = sh("git apply out/%s.patch.diff" % x, wt)
    res["applies"] = rc == 0
    sh(hide, wt)
    rc, o = sh("go build ./... && go vet ./... && go build -tags verif ./... && go test -count=1 ./... 2>&1 | tail -5", wt, timeout=1200)
    sh(unhide, wt)
    res["build_vet_tests_with_change"] = "ok" if rc == 0 and "FAIL" not in o else "FAILED: " + o[-500:]
    demo = meta.get("demo_cmd", "")
    rc1, o1 = sh("timeout 300 bash -c %r" % demo, wt, timeout=400)
    failed1 = rc1 != 0 or re.search(r"^(--- FAIL|FAIL|panic:|fatal error)", o1, re.M) is not None
    res["demo_with_change"] = "fails (expected)" if failed1 else "PASSES (unexpected)"
    res["demo_with_change_tail"] = o1[-400:]
    sh(CLEAN, wt)
    rc2, o2 = sh("timeout 300 bash -c %r" % demo, wt, timeout=400)
    failed2 = rc2 != 0 or re.search(r"^(--- FAIL|FAIL|panic:|fatal error)", o2, re.M) is not None
    res["demo_without_change"] = "passes (expected)" if not failed2 else "FAILS (unexpected): " + o2[-300:]
    sh(CLEAN, wt)
    res["confirmed"] = res["applies"] and res["build_vet_tests_with_change"] == "ok" and failed1 and not failed2
# ---- 2. run the checks against /repo with the change applied
CONFIRM_ONLY = "--confirm-only" in sys.argv
if not CONFIRM_ONLY:
    rc, o = sh("git status --porcelain", "/repo")
    if o.strip():
        print("refusing: /repo has uncommitted changes:\n" + o); sys.exit(2)
res["checks"] = {}
try:
  if not CONFIRM_ONLY:
      rc, o = sh("git apply %s" % patch, "/repo")
      if rc != 0:
          res["checks"]["apply-to-repo"] = "FAILED " + o[-300:]
      else:
          for c in checks:
              t0 = time.time()
              env = dict(ENV, VERIF_EVIDENCE_DIR="/tmp/evidence-scratch")
              rc, o = sh("./check %s --tier %s" % (c, tier), "/verif", timeout=3600, env=env)
              lines = [l for l in o.splitlines() if l.startswith(("VIOLATION", "KNOWN-FINDING", "BROKEN-OBLIGATION", "INFRA", "check "))]
              res["checks"][c] = {"exit": rc, "lines": lines[:12], "wall_s": round(time.time() - t0)}
              # keep the first replay for the record
              m = re.search(r"VIOLATION property=\S+ replay=(\S+)", o)
              if m and os.path.exists(m.group(1)):
                  shutil.copy(m.group(1), os.path.join(dst, "replay-%s.json" % c))
finally:
    if not CONFIRM_ONLY:
        sh("git checkout -- . && git clean -fdq", "/repo")
shutil.copy(patch, os.path.join(dst, "patch.diff"))
for f in os.listdir(out):
    if f.startswith(x + ".demo"):
        src = os.path.join(out, f)
        if os.path.isdir(src): shutil.copytree(src, os.path.join(dst, f), dirs_exist_ok=True)
        else: shutil.copy(src, os.path.join(dst, f))
res["detected_by"] = [c for c, r in res["checks"].items() if isinstance(r, dict) and r["exit"] == 1]
if tier != "quick" and os.path.exists(os.path.join(dst, "meta.json")):
    # a thorough-tier run is recorded next to the quick-tier verdict, not instead of it
    old = json.load(open(os.path.join(dst, "meta.json")))
    old["checks_thorough"] = res["checks"]
    res = dict(old, detected_by=old.get("detected_by", []))
json.dump(res, open(os.path.join(dst, "meta.json"), "w"), indent=1)
print(json.dumps({k: res[k] for k in ("property", "variant", "confirmed", "detected_by", "checks")}, indent=1)[:1500])
if created_wt:
    sh("git -C /repo worktree remove --force %s" % wt, "/repo")
