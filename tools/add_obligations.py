#!/usr/bin/env python3
"""tools/add_obligations.py <module> <prop,prop,...> <theorem> [<theorem> ...]
adds the theorems (namespace Updog.GeneratedEq unless qualified) and the module to the listed properties of
lean/obligations.json (idempotent; theorems are inserted before the Facts theorem)."""
import json, sys
p = "/verif/lean/obligations.json"
o = json.load(open(p))
module, props, thms = sys.argv[1], sys.argv[2].split(","), sys.argv[3:]
for pid in props:
    e = o[pid]
    for t in thms:
        full = t if t.startswith("Updog.") else "Updog.GeneratedEq." + t
        if full not in e["theorems"]:
            facts = [i for i, x in enumerate(e["theorems"]) if x.startswith("Updog.Facts.")]
            e["theorems"].insert(facts[0] if facts else len(e["theorems"]), full)
    if module not in e["modules"]:
        e["modules"].append(module)
json.dump(o, open(p, "w"), indent=1, ensure_ascii=False)
