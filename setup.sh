#!/bin/bash
# builds everything from files on disk (offline): Lean model/proofs/oracle, extractor, harness
set -e
V="$(cd "$(dirname "$0")" && pwd)"
export GOFLAGS=-mod=mod GOPROXY=off GOSUMDB=off GOTOOLCHAIN=local
cd "$V/lean" && lake build Updog oracle
mkdir -p $V/.build
if [ -d $V/extract ]; then (cd $V/extract && go build -o $V/.build/extract .); fi
cp /repo/go.sum $V/harness/go.sum
cd $V/harness && go build -tags verif -o $V/.build/harness .
echo setup-ok
