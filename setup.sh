#!/bin/bash
# builds everything from files on disk (offline): Lean model/proofs/oracle, extractor, harness
set -e
export GOFLAGS=-mod=mod GOPROXY=off GOSUMDB=off GOTOOLCHAIN=local
cd /verif/lean && lake build Updog oracle
mkdir -p /verif/.build
if [ -d /verif/extract ]; then (cd /verif/extract && go build -o /verif/.build/extract .); fi
cp /repo/go.sum /verif/harness/go.sum
cd /verif/harness && go build -tags verif -o /verif/.build/harness .
echo setup-ok
