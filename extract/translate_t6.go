// translate_t6.go: the group-by code of query.go ((*Query).populateGroupBy, (*Query).groupBy) and (*Index).GetSchema
// of index.go, translated statement by statement to Lean over Updog/Basic/GoPreludeT6.lean.
//
// Compared with translate.go this part knows richer types (package struct types ↦ Lean structures emitted from their
// Go declaration, slices of them, maps with string keys, *roaring.Bitmap ↦ Nat, error ↦ Option Go.Err) and richer
// statements (loops with several loop-carried variables, continue, return inside a loop ↦ a structurally recursive
// helper, comma-ok map lookups, the error check after GetCol, sort.Slice, make/copy/append with an aliasing check,
// assignments to fields of the pointer receiver ↦ state passing). Like translate.go it never guesses: anything outside
// the subset loses the function.
package main

import (
	"fmt"
	"go/ast"
	"go/token"
	"os"
	"path/filepath"
	"sort"
	"strconv"
	"strings"
)

// ---------------------------------------------------------------- types

type k6 int

const (
	k6Bad     k6 = iota
	k6Untyped    // untyped integer constant
	k6Nil        // the identifier nil
	k6Str        // string                 ↦ Bytes
	k6U64        // uint64                 ↦ UInt64
	k6Int        // int                    ↦ Int
	k6Bool       // bool                   ↦ Bool
	k6Bitmap     // *roaring.Bitmap        ↦ Nat
	k6Err        // error                  ↦ Option Go.Err
	k6Slice      // []T                    ↦ List T
	k6Map        // map[string]T           ↦ List (Bytes × T)
	k6Struct     // T / *T, T a struct type of the package ↦ structure T
)

type ty6 struct {
	k    k6
	elem *ty6   // slice element, map value
	name string // struct name
	ptr  bool   // *T (assignments through it are refused)
}

func (t *ty6) lean() string {
	switch t.k {
	case k6Str:
		return "Bytes"
	case k6U64:
		return "UInt64"
	case k6Int:
		return "Int"
	case k6Bool:
		return "Bool"
	case k6Bitmap:
		return "Nat"
	case k6Err:
		return "Option Go.Err"
	case k6Slice:
		return "List " + t.elem.atom()
	case k6Map:
		return "List (Bytes × " + t.elem.lean() + ")"
	case k6Struct:
		return t.name
	}
	return "?"
}

func (t *ty6) atom() string {
	s := t.lean()
	if strings.Contains(s, " ") {
		return "(" + s + ")"
	}
	return s
}

func same6(a, b *ty6) bool {
	if a == nil || b == nil || a.k != b.k {
		return false
	}
	switch a.k {
	case k6Slice, k6Map:
		return same6(a.elem, b.elem)
	case k6Struct:
		return a.name == b.name
	}
	return true
}

type val6 struct {
	text string
	t    *ty6
	k    int64 // constant value when t.k == k6Untyped
}

type bind6 struct {
	lean  string
	t     *ty6
	fresh *bool // non-nil and true: a slice created in this block that nothing else refers to yet
}

type env6 map[string]bind6

func (e env6) with(name string, b bind6) env6 {
	n := env6{}
	for k, v := range e {
		n[k] = v
	}
	n[name] = b
	return n
}

func (e env6) without(names ...string) env6 {
	n := env6{}
	for k, v := range e {
		n[k] = v
	}
	for _, x := range names {
		delete(n, x)
	}
	return n
}

func (e env6) leanUsed(lean string) bool {
	for _, b := range e {
		if b.lean == lean {
			return true
		}
	}
	return false
}

// ---------------------------------------------------------------- struct types of the package

type field6 struct {
	name string
	t    *ty6
}

type structs6 struct {
	tr      *translator
	fields  map[string][]field6
	rel     map[string]string
	errs    map[string]error
	busy    map[string]bool
	emitted map[string]bool
	order   []string // dependency order (a struct after the structs its fields mention)
}

var reg6 = map[*translator]*structs6{}

func (tr *translator) structs6() *structs6 {
	if r, ok := reg6[tr]; ok {
		return r
	}
	r := &structs6{tr: tr, fields: map[string][]field6{}, rel: map[string]string{}, errs: map[string]error{},
		busy: map[string]bool{}, emitted: map[string]bool{}}
	reg6[tr] = r
	return r
}

// pkgFiles: the non-test Go files of the root package
func (tr *translator) pkgFiles6() []string {
	ents, err := os.ReadDir(tr.repo)
	if err != nil {
		return nil
	}
	var out []string
	for _, e := range ents {
		if e.IsDir() || !strings.HasSuffix(e.Name(), ".go") || strings.HasSuffix(e.Name(), "_test.go") {
			continue
		}
		out = append(out, e.Name())
	}
	sort.Strings(out)
	return out
}

// typeSpec6: the declaration `type name …` of the root package
func (tr *translator) typeSpec6(name string) (*ast.File, string, *ast.TypeSpec) {
	for _, rel := range tr.pkgFiles6() {
		f := tr.load(rel)
		if f == nil {
			continue
		}
		for _, d := range f.Decls {
			gd, ok := d.(*ast.GenDecl)
			if !ok || gd.Tok != token.TYPE {
				continue
			}
			for _, s := range gd.Specs {
				if ts, ok := s.(*ast.TypeSpec); ok && ts.Name.Name == name {
					return f, filepath.ToSlash(rel), ts
				}
			}
		}
	}
	return nil, "", nil
}

var builtin6 = map[string]k6{"string": k6Str, "uint64": k6U64, "int": k6Int, "bool": k6Bool, "error": k6Err}

// goType: a Go type expression (as written in file f) ↦ type of the subset
func (r *structs6) goType(f *ast.File, e ast.Expr) (*ty6, error) {
	switch e := e.(type) {
	case *ast.Ident:
		_, _, ts := r.tr.typeSpec6(e.Name)
		if k, ok := builtin6[e.Name]; ok && ts == nil {
			return &ty6{k: k}, nil
		}
		if ts != nil {
			if _, ok := ts.Type.(*ast.StructType); ok {
				if err := r.resolve(e.Name); err != nil {
					return nil, err
				}
				return &ty6{k: k6Struct, name: e.Name}, nil
			}
		}
		return nil, lostf("type %s", e.Name)
	case *ast.StarExpr:
		if s, ok := e.X.(*ast.SelectorExpr); ok {
			if id, ok := s.X.(*ast.Ident); ok && id.Name == "roaring" && s.Sel.Name == "Bitmap" &&
				imports(f, "roaring", "github.com/RoaringBitmap/roaring") {
				return &ty6{k: k6Bitmap}, nil
			}
		}
		if id, ok := e.X.(*ast.Ident); ok {
			t, err := r.goType(f, id)
			if err != nil {
				return nil, err
			}
			if t.k == k6Struct {
				return &ty6{k: k6Struct, name: t.name, ptr: true}, nil
			}
		}
		return nil, lostf("pointer type %s", r.tr.src(e))
	case *ast.ArrayType:
		if e.Len != nil {
			return nil, lostf("array type %s", r.tr.src(e))
		}
		el, err := r.goType(f, e.Elt)
		if err != nil {
			return nil, err
		}
		return &ty6{k: k6Slice, elem: el}, nil
	case *ast.MapType:
		if id, ok := e.Key.(*ast.Ident); !ok || id.Name != "string" {
			return nil, lostf("map type %s (only string keys)", r.tr.src(e))
		} else if _, _, ts := r.tr.typeSpec6("string"); ts != nil {
			return nil, lostf("the package declares a type `string`")
		}
		el, err := r.goType(f, e.Value)
		if err != nil {
			return nil, err
		}
		return &ty6{k: k6Map, elem: el}, nil
	}
	return nil, lostf("type %s", r.tr.src(e))
}

// resolve: read the declaration of struct type `name`; every field must have a type of the subset
func (r *structs6) resolve(name string) error {
	if err, ok := r.errs[name]; ok {
		return err
	}
	if _, ok := r.fields[name]; ok {
		return nil
	}
	if r.busy[name] {
		return lostf("recursive struct type %s", name)
	}
	r.busy[name] = true
	defer delete(r.busy, name)
	f, rel, ts := r.tr.typeSpec6(name)
	fail := func(err error) error {
		r.errs[name] = err
		return err
	}
	if ts == nil {
		return fail(lostf("struct type %s not found", name))
	}
	st, ok := ts.Type.(*ast.StructType)
	if !ok || ts.TypeParams != nil {
		return fail(lostf("type %s is not a plain struct", name))
	}
	if _, err := leanIdent(name); err != nil || leanReserved[name] {
		return fail(lostf("struct name %s", name))
	}
	var fs []field6
	for _, fl := range st.Fields.List {
		if len(fl.Names) == 0 {
			return fail(lostf("struct %s has an embedded field", name))
		}
		t, err := r.goType(f, fl.Type)
		if err != nil {
			return fail(lostf("field %s of struct %s: %s", fl.Names[0].Name, name, err.Error()))
		}
		for _, id := range fl.Names {
			if ln, err := leanIdent(id.Name); err != nil || ln != id.Name {
				return fail(lostf("field name %s of struct %s", id.Name, name))
			}
			fs = append(fs, field6{id.Name, t})
		}
	}
	if len(fs) == 0 {
		return fail(lostf("struct %s has no fields", name))
	}
	r.fields[name] = fs
	r.rel[name] = rel
	r.order = append(r.order, name)
	return nil
}

func (r *structs6) field(name, field string) *ty6 {
	for _, f := range r.fields[name] {
		if f.name == field {
			return f.t
		}
	}
	return nil
}

// pending: Lean text of the structures resolved so far and not yet written
func (r *structs6) pending() string {
	var b strings.Builder
	for _, n := range r.order {
		if r.emitted[n] {
			continue
		}
		r.emitted[n] = true
		fmt.Fprintf(&b, "/-- Go struct type `%s` of %s -/\nstructure %s where\n", n, r.rel[n], n)
		for _, f := range r.fields[n] {
			fmt.Fprintf(&b, "  %s : %s\n", f.name, f.t.lean())
		}
		b.WriteString("  deriving Repr, DecidableEq\n\n")
	}
	return b.String()
}

// fieldTypeExpr: the type expression of field `field` of struct type `typ`, with the file declaring it
func (tr *translator) fieldTypeExpr6(typ, field string) (*ast.File, ast.Expr) {
	f, _, ts := tr.typeSpec6(typ)
	if ts == nil {
		return nil, nil
	}
	st, ok := ts.Type.(*ast.StructType)
	if !ok {
		return nil, nil
	}
	for _, fl := range st.Fields.List {
		for _, id := range fl.Names {
			if id.Name == field {
				return f, fl.Type
			}
		}
	}
	return nil, nil
}

// ---------------------------------------------------------------- one function

type kont6 struct {
	fall   string                   // term when control falls off the end of the block ("" = that is an error)
	cont   string                   // term for `continue` ("" = no enclosing loop)
	retRaw func(full string) string // how a complete return value leaves this point (nil = return not allowed)
}

type fn6 struct {
	tr         *translator
	reg        *structs6
	file       *ast.File
	rel        string
	lname      string          // Lean name of the definition
	recv       string          // receiver variable
	recvStruct string          // its struct type
	state      []string        // env keys ("q.f") of the receiver fields the function assigns, sorted
	idxVars    map[string]bool // variables of type *Index: `x.values.GetCol(k)` ↦ getCol k
	usesGetCol bool
	result     *ty6 // nil: no result
	helpers    []string
	nloop      int
	sortAtoms  map[string]bind6
	noEscape   int
	target     string // source text of the left-hand side of the assignment being translated
}

var reserved6 = map[string]bool{"rest_": true, "kv_": true, "st_": true, "r_": true, "getCol": true,
	"bytesLt": true, "some": true, "none": true, "Go": true, "List": true, "Option": true, "Bytes": true, "Nat": true, "Int": true}

// declare: a Lean name for the new Go variable `name` that hides no live variable
func (c *fn6) declare(name string, en env6) (string, error) {
	ln, err := leanIdent(name)
	if err != nil {
		return "", err
	}
	base := ln
	for i := 1; en.leanUsed(ln) || reserved6[ln] || c.reg.fields[ln] != nil || c.tr.done[ln] || ln == c.lname; i++ {
		ln = fmt.Sprintf("%s_%d", base, i)
	}
	return ln, nil
}

func (c *fn6) free(name string, en env6) bool {
	if _, ok := en[name]; ok {
		return false
	}
	return !c.tr.pkgDeclares(c.rel, name)
}

func (c *fn6) pkgSel(e ast.Expr, en env6, pkg, path, sel string) bool {
	s, ok := e.(*ast.SelectorExpr)
	if !ok || s.Sel.Name != sel {
		return false
	}
	id, ok := s.X.(*ast.Ident)
	return ok && id.Name == pkg && c.free(pkg, en) && imports(c.file, pkg, path)
}

func (c *fn6) builtin(e ast.Expr, en env6, name string) bool {
	id, ok := e.(*ast.Ident)
	return ok && id.Name == name && c.free(name, en)
}

func (c *fn6) zero(t *ty6) (string, error) {
	switch t.k {
	case k6Str:
		return "([] : Bytes)", nil
	case k6U64:
		return "(0 : UInt64)", nil
	case k6Int:
		return "(0 : Int)", nil
	case k6Bool:
		return "false", nil
	case k6Err:
		return "none", nil
	case k6Slice, k6Map:
		return "[]", nil
	case k6Struct:
		if t.ptr {
			return "", lostf("zero value of a pointer (nil)")
		}
		var parts []string
		for _, f := range c.reg.fields[t.name] {
			z, err := c.zero(f.t)
			if err != nil {
				return "", err
			}
			parts = append(parts, f.name+" := "+z)
		}
		return fmt.Sprintf("({ %s } : %s)", strings.Join(parts, ", "), t.name), nil
	}
	return "", lostf("zero value of %s (a nil pointer)", t.lean())
}

func (c *fn6) conv(v val6, t *ty6) (val6, error) {
	switch v.t.k {
	case k6Untyped:
		switch t.k {
		case k6Int:
			return val6{text: fmt.Sprintf("(%d : Int)", v.k), t: t}, nil
		case k6U64:
			if v.k >= 0 {
				return val6{text: fmt.Sprintf("(%d : UInt64)", v.k), t: t}, nil
			}
		}
		return val6{}, lostf("constant %d does not convert to %s", v.k, t.lean())
	case k6Nil:
		switch t.k {
		case k6Slice, k6Map:
			return val6{text: "[]", t: t}, nil
		case k6Err:
			return val6{text: "none", t: t}, nil
		}
		return val6{}, lostf("nil as %s", t.lean())
	}
	if !same6(v.t, t) {
		return val6{}, lostf("type mismatch: have %s, want %s", v.t.lean(), t.lean())
	}
	return v, nil
}

func (c *fn6) typed(e ast.Expr, en env6, t *ty6) (val6, error) {
	v, err := c.expr(e, en)
	if err != nil {
		return val6{}, err
	}
	return c.conv(v, t)
}

// quiet: translate an operand that is only read (len, range, copy source …): it creates no alias of a fresh slice
func (c *fn6) quiet(e ast.Expr, en env6) (val6, error) {
	c.noEscape++
	defer func() { c.noEscape-- }()
	return c.expr(e, en)
}

func (c *fn6) expr(e ast.Expr, en env6) (val6, error) {
	if b, ok := c.sortAtoms[c.tr.src(e)]; ok {
		return val6{text: b.lean, t: b.t}, nil
	}
	switch e := e.(type) {
	case *ast.ParenExpr:
		return c.expr(e.X, en)
	case *ast.BasicLit:
		switch e.Kind {
		case token.INT:
			k, err := strconv.ParseInt(e.Value, 0, 64)
			if err != nil {
				return val6{}, lostf("integer literal %s", e.Value)
			}
			return val6{t: &ty6{k: k6Untyped}, k: k}, nil
		case token.STRING:
			s, err := strconv.Unquote(e.Value)
			if err != nil {
				return val6{}, lostf("string literal %s", e.Value)
			}
			return val6{text: bytesLit(s), t: &ty6{k: k6Str}}, nil
		}
		return val6{}, lostf("literal %s", e.Value)
	case *ast.Ident:
		if b, ok := en[e.Name]; ok {
			if b.fresh != nil && c.noEscape == 0 {
				*b.fresh = false
			}
			return val6{text: b.lean, t: b.t}, nil
		}
		if e.Name == "nil" && c.free("nil", en) {
			return val6{t: &ty6{k: k6Nil}}, nil
		}
		if (e.Name == "true" || e.Name == "false") && c.free(e.Name, en) {
			return val6{text: e.Name, t: &ty6{k: k6Bool}}, nil
		}
		return val6{}, lostf("identifier %s is not a variable of the subset", e.Name)
	case *ast.SelectorExpr:
		if id, ok := e.X.(*ast.Ident); ok && id.Name == c.recv {
			if _, shadowed := en[id.Name]; !shadowed {
				if b, ok := en[c.recv+"."+e.Sel.Name]; ok {
					return val6{text: b.lean, t: b.t}, nil
				}
				return val6{}, lostf("receiver field %s", c.tr.src(e))
			}
		}
		x, err := c.quiet(e.X, en)
		if err != nil {
			return val6{}, err
		}
		if x.t.k != k6Struct {
			return val6{}, lostf("selector %s on %s", c.tr.src(e), x.t.lean())
		}
		ft := c.reg.field(x.t.name, e.Sel.Name)
		if ft == nil {
			return val6{}, lostf("struct %s has no field %s", x.t.name, e.Sel.Name)
		}
		return val6{text: x.text + "." + e.Sel.Name, t: ft}, nil
	case *ast.UnaryExpr:
		if e.Op == token.AND { // &T{…}: the struct value; nothing else refers to it
			if cl, ok := e.X.(*ast.CompositeLit); ok {
				v, err := c.composite(cl, en, nil)
				if err != nil {
					return val6{}, err
				}
				if v.t.k == k6Struct {
					return val6{text: v.text, t: &ty6{k: k6Struct, name: v.t.name, ptr: true}}, nil
				}
			}
			return val6{}, lostf("address-of %s", c.tr.src(e.X))
		}
		x, err := c.expr(e.X, en)
		if err != nil {
			return val6{}, err
		}
		if e.Op == token.NOT && x.t.k == k6Bool {
			return val6{text: "(!" + x.text + ")", t: x.t}, nil
		}
		if e.Op == token.SUB && x.t.k == k6Untyped {
			return val6{t: x.t, k: -x.k}, nil
		}
		return val6{}, lostf("unary %s", e.Op)
	case *ast.BinaryExpr:
		return c.binary(e, en)
	case *ast.CompositeLit:
		return c.composite(e, en, nil)
	case *ast.CallExpr:
		return c.call(e, en)
	}
	return val6{}, lostf("expression %s", c.tr.src(e))
}

func (c *fn6) binary(e *ast.BinaryExpr, en env6) (val6, error) {
	a, err := c.quiet(e.X, en)
	if err != nil {
		return val6{}, err
	}
	b, err := c.quiet(e.Y, en)
	if err != nil {
		return val6{}, err
	}
	tb := &ty6{k: k6Bool}
	if e.Op == token.LAND || e.Op == token.LOR {
		if a.t.k != k6Bool || b.t.k != k6Bool {
			return val6{}, lostf("%s on non-booleans", e.Op)
		}
		op := "&&"
		if e.Op == token.LOR {
			op = "||"
		}
		return val6{text: fmt.Sprintf("(%s %s %s)", a.text, op, b.text), t: tb}, nil
	}
	switch {
	case a.t.k == k6Untyped && b.t.k == k6Untyped:
		return val6{}, lostf("constant expression of two untyped constants")
	case a.t.k == k6Untyped:
		if a, err = c.conv(a, b.t); err != nil {
			return val6{}, err
		}
	case b.t.k == k6Untyped:
		if b, err = c.conv(b, a.t); err != nil {
			return val6{}, err
		}
	case !same6(a.t, b.t):
		return val6{}, lostf("operands of different types %s and %s", a.t.lean(), b.t.lean())
	}
	t := a.t
	num := t.k == k6Int || t.k == k6U64
	switch e.Op {
	case token.EQL, token.NEQ:
		if !(num || t.k == k6Bool || t.k == k6Str) {
			return val6{}, lostf("%s on %s", e.Op, t.lean())
		}
		op := "=="
		if e.Op == token.NEQ {
			op = "!="
		}
		return val6{text: fmt.Sprintf("(%s %s %s)", a.text, op, b.text), t: tb}, nil
	case token.LSS, token.LEQ, token.GTR, token.GEQ:
		if t.k == k6Str { // Go compares strings bytewise
			switch e.Op {
			case token.LSS:
				return val6{text: fmt.Sprintf("(bytesLt %s %s)", a.text, b.text), t: tb}, nil
			case token.GTR:
				return val6{text: fmt.Sprintf("(bytesLt %s %s)", b.text, a.text), t: tb}, nil
			case token.LEQ:
				return val6{text: fmt.Sprintf("(!(bytesLt %s %s))", b.text, a.text), t: tb}, nil
			default:
				return val6{text: fmt.Sprintf("(!(bytesLt %s %s))", a.text, b.text), t: tb}, nil
			}
		}
		if !num {
			return val6{}, lostf("%s on %s", e.Op, t.lean())
		}
		op := map[token.Token]string{token.LSS: "<", token.LEQ: "≤", token.GTR: ">", token.GEQ: "≥"}[e.Op]
		return val6{text: fmt.Sprintf("(decide (%s %s %s))", a.text, op, b.text), t: tb}, nil
	case token.ADD, token.SUB, token.MUL:
		if e.Op == token.ADD && t.k == k6Str {
			return val6{text: fmt.Sprintf("(%s ++ %s)", a.text, b.text), t: t}, nil
		}
		if t.k != k6Int {
			return val6{}, lostf("arithmetic %s on %s (only int, assumed not to overflow)", e.Op, t.lean())
		}
		return val6{text: fmt.Sprintf("(%s %s %s)", a.text, e.Op, b.text), t: t}, nil
	}
	return val6{}, lostf("operator %s", e.Op)
}

// composite: T{f: e, …} of a package struct (all fields written out, the missing ones with their zero value),
// []T{…}; `want` is the type of an element literal whose type is elided
func (c *fn6) composite(e *ast.CompositeLit, en env6, want *ty6) (val6, error) {
	t := want
	if e.Type != nil {
		var err error
		if t, err = c.reg.goType(c.file, e.Type); err != nil {
			return val6{}, err
		}
		if id, ok := e.Type.(*ast.Ident); ok {
			if _, local := en[id.Name]; local {
				return val6{}, lostf("type name %s is hidden by a variable", id.Name)
			}
		}
	}
	if t == nil {
		return val6{}, lostf("composite literal without a type")
	}
	switch t.k {
	case k6Struct:
		if t.ptr {
			return val6{}, lostf("composite literal of pointer type")
		}
		given := map[string]string{}
		for _, el := range e.Elts {
			kv, ok := el.(*ast.KeyValueExpr)
			if !ok {
				return val6{}, lostf("struct literal %s without field names", t.name)
			}
			id, ok := kv.Key.(*ast.Ident)
			if !ok {
				return val6{}, lostf("struct literal key %s", c.tr.src(kv.Key))
			}
			ft := c.reg.field(t.name, id.Name)
			if ft == nil {
				return val6{}, lostf("struct %s has no field %s", t.name, id.Name)
			}
			if _, dup := given[id.Name]; dup {
				return val6{}, lostf("field %s given twice", id.Name)
			}
			var v val6
			var err error
			if cl, ok := kv.Value.(*ast.CompositeLit); ok && cl.Type == nil {
				v, err = c.composite(cl, en, ft)
			} else {
				v, err = c.typed(kv.Value, en, ft)
			}
			if err != nil {
				return val6{}, err
			}
			given[id.Name] = v.text
		}
		var parts []string
		for _, f := range c.reg.fields[t.name] {
			txt, ok := given[f.name]
			if !ok {
				z, err := c.zero(f.t)
				if err != nil {
					return val6{}, lostf("field %s of the %s literal is left at its zero value: %s", f.name, t.name, err.Error())
				}
				txt = z
			}
			parts = append(parts, f.name+" := "+txt)
		}
		return val6{text: fmt.Sprintf("({ %s } : %s)", strings.Join(parts, ", "), t.name), t: t}, nil
	case k6Slice:
		var items []string
		for _, el := range e.Elts {
			if _, ok := el.(*ast.KeyValueExpr); ok {
				return val6{}, lostf("slice literal with keys")
			}
			var v val6
			var err error
			if cl, ok := el.(*ast.CompositeLit); ok && cl.Type == nil {
				v, err = c.composite(cl, en, t.elem)
			} else {
				v, err = c.typed(el, en, t.elem)
			}
			if err != nil {
				return val6{}, err
			}
			items = append(items, v.text)
		}
		return val6{text: "[" + strings.Join(items, ", ") + "]", t: t}, nil
	}
	return val6{}, lostf("composite literal of type %s", t.lean())
}

// freshSlice: is e an expression that creates a slice nothing else refers to?
func (c *fn6) freshSlice(e ast.Expr, en env6) bool {
	switch e := e.(type) {
	case *ast.ParenExpr:
		return c.freshSlice(e.X, en)
	case *ast.CompositeLit:
		_, ok := e.Type.(*ast.ArrayType)
		return ok
	case *ast.CallExpr:
		if c.builtin(e.Fun, en, "make") {
			return true
		}
		if c.pkgSel(e.Fun, en, "slices", "slices", "Clone") && len(e.Args) == 1 {
			return true
		}
		if c.builtin(e.Fun, en, "append") && len(e.Args) >= 1 {
			return c.emptyFresh(e.Args[0], en)
		}
	}
	return false
}

// emptyFresh: []T{} or []T(nil)
func (c *fn6) emptyFresh(e ast.Expr, en env6) bool {
	switch e := e.(type) {
	case *ast.ParenExpr:
		return c.emptyFresh(e.X, en)
	case *ast.CompositeLit:
		_, ok := e.Type.(*ast.ArrayType)
		return ok && len(e.Elts) == 0
	case *ast.CallExpr:
		if _, ok := e.Fun.(*ast.ArrayType); ok && len(e.Args) == 1 {
			return c.builtin(e.Args[0], en, "nil")
		}
	}
	return false
}

func (c *fn6) call(e *ast.CallExpr, en env6) (val6, error) {
	n := len(e.Args)
	switch {
	case c.builtin(e.Fun, en, "len") && n == 1:
		x, err := c.quiet(e.Args[0], en)
		if err != nil {
			return val6{}, err
		}
		switch x.t.k {
		case k6Str, k6Slice, k6Map:
			return val6{text: fmt.Sprintf("(Go.len %s)", x.text), t: &ty6{k: k6Int}}, nil
		}
		return val6{}, lostf("len of %s", x.t.lean())
	case c.builtin(e.Fun, en, "append") && n >= 1:
		return c.appendCall(e, en)
	case c.builtin(e.Fun, en, "make") && (n == 2 || n == 3):
		t, err := c.reg.goType(c.file, e.Args[0])
		if err != nil {
			return val6{}, err
		}
		if t.k != k6Slice {
			return val6{}, lostf("make(%s, …)", c.tr.src(e.Args[0]))
		}
		ln, err := c.typed(e.Args[1], en, &ty6{k: k6Int})
		if err != nil {
			return val6{}, err
		}
		if n == 3 { // the capacity must be a pure int expression of the subset; it has no observable value
			if _, err := c.typed(e.Args[2], en, &ty6{k: k6Int}); err != nil {
				return val6{}, err
			}
		}
		z, err := c.zero(t.elem)
		if err != nil {
			return val6{}, err
		}
		return val6{text: fmt.Sprintf("(Go.makeSlice %s %s)", z, ln.text), t: t}, nil
	case c.pkgSel(e.Fun, en, "slices", "slices", "Clone") && n == 1:
		x, err := c.quiet(e.Args[0], en)
		if err != nil {
			return val6{}, err
		}
		if x.t.k != k6Slice {
			return val6{}, lostf("slices.Clone of %s", x.t.lean())
		}
		return x, nil
	case c.pkgSel(e.Fun, en, "roaring", "github.com/RoaringBitmap/roaring", "And") && n == 2:
		a, err := c.typed(e.Args[0], en, &ty6{k: k6Bitmap})
		if err != nil {
			return val6{}, err
		}
		b, err := c.typed(e.Args[1], en, &ty6{k: k6Bitmap})
		if err != nil {
			return val6{}, err
		}
		return val6{text: fmt.Sprintf("(Go.bmAnd %s %s)", a.text, b.text), t: a.t}, nil
	case c.pkgSel(e.Fun, en, "fmt", "fmt", "Errorf") && n >= 1:
		lit, ok := e.Args[0].(*ast.BasicLit)
		if !ok || lit.Kind != token.STRING {
			return val6{}, lostf("fmt.Errorf with a non-literal format")
		}
		f, err := c.expr(lit, en)
		if err != nil {
			return val6{}, err
		}
		var items []string
		for _, a := range e.Args[1:] {
			v, err := c.typed(a, en, &ty6{k: k6Str})
			if err != nil {
				return val6{}, err
			}
			items = append(items, v.text)
		}
		return val6{text: fmt.Sprintf("(some (Go.errorf %s [%s]))", f.text, strings.Join(items, ", ")), t: &ty6{k: k6Err}}, nil
	}
	if s, ok := e.Fun.(*ast.SelectorExpr); ok && s.Sel.Name == "GetCardinality" && n == 0 {
		x, err := c.quiet(s.X, en)
		if err != nil {
			return val6{}, err
		}
		if x.t.k == k6Bitmap {
			return val6{text: fmt.Sprintf("(Go.bmCard %s)", x.text), t: &ty6{k: k6U64}}, nil
		}
	}
	return val6{}, lostf("call %s is not in the whitelist", c.tr.src(e.Fun))
}

// appendCall: append(x, items…) ↦ x ++ [items]. Lists have value semantics, Go slices share their backing array, so
// this is sound only if nothing else can observe the array of x afterwards:
//   - `x = append(x, …)` (accumulator: the old x is dead), or
//   - x is a local slice created in this block by make / append([]T{}, …) / slices.Clone / a literal, used since
//     only as the destination of copy, in len(…), or as a range operand (the copy idiom).
func (c *fn6) appendCall(e *ast.CallExpr, en env6) (val6, error) {
	first := e.Args[0]
	var x val6
	var err error
	switch {
	case c.emptyFresh(first, en):
		var t *ty6
		switch f := first.(type) {
		case *ast.CompositeLit:
			t, err = c.reg.goType(c.file, f.Type)
		case *ast.CallExpr:
			t, err = c.reg.goType(c.file, f.Fun)
		default:
			err = lostf("append to %s", c.tr.src(first))
		}
		if err != nil {
			return val6{}, err
		}
		x = val6{text: "[]", t: t}
	case c.target != "" && c.tr.src(first) == c.target:
		if x, err = c.quiet(first, en); err != nil {
			return val6{}, err
		}
	default:
		id, ok := first.(*ast.Ident)
		if !ok {
			return val6{}, lostf("append(%s, …) is neither `x = append(x, …)` nor an append to a freshly copied slice: the result may share its array with %s",
				c.tr.src(first), c.tr.src(first))
		}
		b, ok := en[id.Name]
		if !ok || b.fresh == nil || !*b.fresh {
			return val6{}, lostf("append(%s, …) is neither `%s = append(%s, …)` nor an append to a freshly copied slice: the result may share its array with %s",
				id.Name, id.Name, id.Name, id.Name)
		}
		if x, err = c.quiet(first, en); err != nil {
			return val6{}, err
		}
		*b.fresh = false // a second append to it could share the array with this one
	}
	if x.t.k != k6Slice {
		return val6{}, lostf("append to %s", x.t.lean())
	}
	if len(e.Args) == 1 {
		return x, nil
	}
	if e.Ellipsis.IsValid() {
		if len(e.Args) != 2 {
			return val6{}, lostf("append with ... and %d arguments", len(e.Args))
		}
		y, err := c.quiet(e.Args[1], en)
		if err != nil {
			return val6{}, err
		}
		if !same6(y.t, x.t) {
			return val6{}, lostf("append(%s, %s...)", x.t.lean(), y.t.lean())
		}
		return val6{text: fmt.Sprintf("(%s ++ %s)", x.text, y.text), t: x.t}, nil
	}
	var items []string
	for _, a := range e.Args[1:] {
		var y val6
		if cl, ok := a.(*ast.CompositeLit); ok && cl.Type == nil {
			y, err = c.composite(cl, en, x.t.elem)
		} else {
			y, err = c.typed(a, en, x.t.elem)
		}
		if err != nil {
			return val6{}, err
		}
		items = append(items, y.text)
	}
	return val6{text: fmt.Sprintf("(%s ++ [%s])", x.text, strings.Join(items, ", ")), t: x.t}, nil
}

// ---------------------------------------------------------------- statements

// lvalue: a variable, a field of a local struct value, or a field of the pointer receiver
type lval6 struct {
	key   string // env key of the variable that is rebound
	b     bind6
	field string // "" = the variable itself
	ft    *ty6   // type of the assigned location
}

func (c *fn6) lvalue(e ast.Expr, en env6) (lval6, error) {
	switch e := e.(type) {
	case *ast.ParenExpr:
		return c.lvalue(e.X, en)
	case *ast.Ident:
		b, ok := en[e.Name]
		if !ok {
			return lval6{}, lostf("assignment to %s, which is not a variable of the subset", e.Name)
		}
		return lval6{key: e.Name, b: b, ft: b.t}, nil
	case *ast.SelectorExpr:
		id, ok := e.X.(*ast.Ident)
		if !ok {
			return lval6{}, lostf("assignment to %s", c.tr.src(e))
		}
		if _, local := en[id.Name]; !local && id.Name == c.recv {
			key := c.recv + "." + e.Sel.Name
			b, ok := en[key]
			if !ok {
				return lval6{}, lostf("assignment to receiver field %s", c.tr.src(e))
			}
			return lval6{key: key, b: b, ft: b.t}, nil
		}
		b, ok := en[id.Name]
		if !ok {
			return lval6{}, lostf("assignment to %s, which is not a variable of the subset", c.tr.src(e))
		}
		if b.t.k != k6Struct {
			return lval6{}, lostf("assignment to %s", c.tr.src(e))
		}
		if b.t.ptr {
			return lval6{}, lostf("assignment to %s through the pointer %s changes a shared object", c.tr.src(e), id.Name)
		}
		ft := c.reg.field(b.t.name, e.Sel.Name)
		if ft == nil {
			return lval6{}, lostf("struct %s has no field %s", b.t.name, e.Sel.Name)
		}
		return lval6{key: id.Name, b: b, field: e.Sel.Name, ft: ft}, nil
	}
	return lval6{}, lostf("assignment to %s", c.tr.src(e))
}

// store: `let` that rebinds the variable of lv with the new value v of the assigned location
func (c *fn6) store(lv lval6, v string, depth int) string {
	if lv.field == "" {
		return fmt.Sprintf("%slet %s : %s := %s\n", ind(depth), lv.b.lean, lv.b.t.lean(), v)
	}
	return fmt.Sprintf("%slet %s : %s := { %s with %s := %s }\n", ind(depth), lv.b.lean, lv.b.t.lean(), lv.b.lean, lv.field, v)
}

func diverts6(stmts []ast.Stmt) bool {
	if len(stmts) == 0 {
		return false
	}
	switch s := stmts[len(stmts)-1].(type) {
	case *ast.ReturnStmt:
		return true
	case *ast.BranchStmt:
		return s.Tok == token.CONTINUE && s.Label == nil
	case *ast.IfStmt:
		if eb, ok := s.Else.(*ast.BlockStmt); ok {
			return diverts6(s.Body.List) && diverts6(eb.List)
		}
	}
	return false
}

// hasJump6: a return, or a branch statement (continue/break/goto) anywhere in stmts (function literals excluded)
func hasJump6(stmts []ast.Stmt) bool {
	found := false
	for _, s := range stmts {
		ast.Inspect(s, func(n ast.Node) bool {
			switch n.(type) {
			case *ast.FuncLit:
				return false
			case *ast.ReturnStmt, *ast.BranchStmt:
				found = true
			}
			return true
		})
	}
	return found
}

// rootKey6: env key of the variable an assignment to e rebinds
func (c *fn6) rootKey6(e ast.Expr) string {
	switch e := e.(type) {
	case *ast.ParenExpr:
		return c.rootKey6(e.X)
	case *ast.Ident:
		return e.Name
	case *ast.SelectorExpr:
		if id, ok := e.X.(*ast.Ident); ok && id.Name == c.recv {
			return c.recv + "." + e.Sel.Name
		}
		return c.rootKey6(e.X)
	case *ast.IndexExpr:
		return c.rootKey6(e.X)
	case *ast.StarExpr:
		return c.rootKey6(e.X)
	}
	return ""
}

// mutated: env keys of the variables of en that stmts may assign (over-approximation: names only), sorted
func (c *fn6) mutated(stmts []ast.Stmt, en env6) []string {
	set := map[string]bool{}
	add := func(e ast.Expr) {
		if k := c.rootKey6(e); k != "" {
			if _, ok := en[k]; ok {
				set[k] = true
			}
		}
	}
	for _, s := range stmts {
		ast.Inspect(s, func(n ast.Node) bool {
			switch n := n.(type) {
			case *ast.FuncLit:
				return false
			case *ast.AssignStmt:
				if n.Tok != token.DEFINE {
					for _, l := range n.Lhs {
						add(l)
					}
				}
			case *ast.IncDecStmt:
				add(n.X)
			case *ast.RangeStmt:
				if n.Tok == token.ASSIGN {
					if n.Key != nil {
						add(n.Key)
					}
					if n.Value != nil {
						add(n.Value)
					}
				}
			case *ast.ExprStmt:
				if call, ok := n.X.(*ast.CallExpr); ok && len(call.Args) >= 1 {
					// copy(dst, …), sort.Slice(x, …), sort.Strings(x) … change their first argument
					add(call.Args[0])
				}
			}
			return true
		})
	}
	var out []string
	for k := range set {
		out = append(out, k)
	}
	sort.Strings(out)
	return out
}

// referenced: env keys of en that occur in stmts (names only), sorted
func (c *fn6) referenced(stmts []ast.Stmt, en env6) []string {
	set := map[string]bool{}
	for _, s := range stmts {
		ast.Inspect(s, func(n ast.Node) bool {
			switch n := n.(type) {
			case *ast.Ident:
				if _, ok := en[n.Name]; ok {
					set[n.Name] = true
				}
			case *ast.SelectorExpr:
				if id, ok := n.X.(*ast.Ident); ok && id.Name == c.recv {
					if _, ok := en[c.recv+"."+n.Sel.Name]; ok {
						set[c.recv+"."+n.Sel.Name] = true
					}
				}
			}
			return true
		})
	}
	var out []string
	for k := range set {
		out = append(out, k)
	}
	sort.Strings(out)
	return out
}

func (c *fn6) usesGetColIn(stmts []ast.Stmt) bool {
	found := false
	for _, s := range stmts {
		ast.Inspect(s, func(n ast.Node) bool {
			if sel, ok := n.(*ast.SelectorExpr); ok && sel.Sel.Name == "GetCol" {
				found = true
			}
			return true
		})
	}
	return found
}

func tuple6(names []string) string {
	if len(names) == 0 {
		return "()"
	}
	if len(names) == 1 {
		return names[0]
	}
	return "(" + strings.Join(names, ", ") + ")"
}

func tupleType6(types []string) string {
	if len(types) == 0 {
		return "Unit"
	}
	return strings.Join(types, " × ")
}

// retType: Lean type of the whole definition: the Go result, then the new values of the assigned receiver fields
func (c *fn6) retType(en env6) string {
	var ts []string
	if c.result != nil {
		ts = append(ts, c.result.atom())
	}
	for _, k := range c.state {
		ts = append(ts, en[k].t.atom())
	}
	return tupleType6(ts)
}

// pack: the complete value of `return v`
func (c *fn6) pack(v string, en env6) string {
	var parts []string
	if v != "" {
		parts = append(parts, v)
	}
	for _, k := range c.state {
		parts = append(parts, en[k].lean)
	}
	return tuple6(parts)
}

func (c *fn6) block(stmts []ast.Stmt, en env6, k kont6, depth int) (string, error) {
	if len(stmts) == 0 {
		if k.fall == "" {
			return "", lostf("control reaches the end without a return")
		}
		return ind(depth) + k.fall + "\n", nil
	}
	s, rest := stmts[0], stmts[1:]
	switch s := s.(type) {
	case *ast.ReturnStmt:
		if len(rest) != 0 {
			return "", lostf("statements after return")
		}
		if k.retRaw == nil {
			return "", lostf("return at a place where the translation cannot leave the function")
		}
		v := ""
		if c.result != nil {
			if len(s.Results) != 1 {
				return "", lostf("return with %d results", len(s.Results))
			}
			var r val6
			var err error
			if cl, ok := s.Results[0].(*ast.CompositeLit); ok && cl.Type == nil {
				err = lostf("return of an untyped literal")
			} else {
				r, err = c.typed(s.Results[0], en, c.result)
			}
			if err != nil {
				return "", err
			}
			v = r.text
		} else if len(s.Results) != 0 {
			return "", lostf("return with %d results", len(s.Results))
		}
		return ind(depth) + k.retRaw(c.pack(v, en)) + "\n", nil

	case *ast.BranchStmt:
		if s.Tok != token.CONTINUE || s.Label != nil {
			return "", lostf("statement %s", c.tr.src(s))
		}
		if len(rest) != 0 {
			return "", lostf("statements after continue")
		}
		if k.cont == "" {
			return "", lostf("continue outside a translated loop")
		}
		return ind(depth) + k.cont + "\n", nil

	case *ast.DeclStmt: // var x T
		gd, ok := s.Decl.(*ast.GenDecl)
		if !ok || gd.Tok != token.VAR || len(gd.Specs) != 1 {
			return "", lostf("declaration %s", c.tr.src(s))
		}
		vs := gd.Specs[0].(*ast.ValueSpec)
		if len(vs.Names) != 1 || len(vs.Values) != 0 || vs.Type == nil {
			return "", lostf("declaration %s", c.tr.src(s))
		}
		t, err := c.reg.goType(c.file, vs.Type)
		if err != nil {
			return "", err
		}
		z, err := c.zero(t)
		if err != nil {
			return "", err
		}
		ln, err := c.declare(vs.Names[0].Name, en)
		if err != nil {
			return "", err
		}
		r, err := c.block(rest, en.with(vs.Names[0].Name, bind6{lean: ln, t: t}), k, depth)
		if err != nil {
			return "", err
		}
		return fmt.Sprintf("%slet %s : %s := %s\n%s", ind(depth), ln, t.lean(), z, r), nil

	case *ast.AssignStmt:
		if len(s.Lhs) == 2 && len(s.Rhs) == 1 && s.Tok == token.DEFINE {
			return c.twoResult(s, rest, en, k, depth)
		}
		if len(s.Lhs) != 1 || len(s.Rhs) != 1 {
			return "", lostf("assignment %s", c.tr.src(s))
		}
		switch s.Tok {
		case token.DEFINE:
			id, ok := s.Lhs[0].(*ast.Ident)
			if !ok || id.Name == "_" {
				return "", lostf("assignment %s", c.tr.src(s))
			}
			v, err := c.expr(s.Rhs[0], en)
			if err != nil {
				return "", err
			}
			if v.t.k == k6Untyped {
				if v, err = c.conv(v, &ty6{k: k6Int}); err != nil {
					return "", err
				}
			}
			if v.t.k == k6Nil {
				return "", lostf("%s := nil", id.Name)
			}
			ln, err := c.declare(id.Name, en)
			if err != nil {
				return "", err
			}
			b := bind6{lean: ln, t: v.t}
			if v.t.k == k6Slice && c.freshSlice(s.Rhs[0], en) {
				fr := true
				b.fresh = &fr
			}
			r, err := c.block(rest, en.with(id.Name, b), k, depth)
			if err != nil {
				return "", err
			}
			return fmt.Sprintf("%slet %s : %s := %s\n%s", ind(depth), ln, v.t.lean(), v.text, r), nil
		case token.ASSIGN:
			lv, err := c.lvalue(s.Lhs[0], en)
			if err != nil {
				return "", err
			}
			c.target = c.tr.src(s.Lhs[0])
			v, err := c.typed(s.Rhs[0], en, lv.ft)
			c.target = ""
			if err != nil {
				return "", err
			}
			en2 := en
			if lv.field == "" && lv.b.fresh != nil { // the variable now holds whatever the right-hand side is
				nb := lv.b
				nb.fresh = nil
				en2 = en.with(lv.key, nb)
			}
			r, err := c.block(rest, en2, k, depth)
			if err != nil {
				return "", err
			}
			return c.store(lv, v.text, depth) + r, nil
		}
		return "", lostf("assignment operator %s", s.Tok)

	case *ast.ExprStmt:
		call, ok := s.X.(*ast.CallExpr)
		if !ok {
			return "", lostf("statement %s", c.tr.src(s))
		}
		return c.callStmt(call, rest, en, k, depth)

	case *ast.IfStmt:
		if s.Init != nil {
			return "", lostf("if with an init statement")
		}
		cond, err := c.typed(s.Cond, en, &ty6{k: k6Bool})
		if err != nil {
			return "", err
		}
		var els []ast.Stmt
		switch e := s.Else.(type) {
		case nil:
		case *ast.BlockStmt:
			els = e.List
		default:
			return "", lostf("else-if chain")
		}
		switch {
		case diverts6(s.Body.List):
			if s.Else != nil && diverts6(els) && len(rest) != 0 {
				return "", lostf("statements after an if/else that always leaves")
			}
			kd := k
			kd.fall = ""
			a, err := c.block(s.Body.List, en, kd, depth+1)
			if err != nil {
				return "", err
			}
			b, err := c.block(append(append([]ast.Stmt{}, els...), rest...), en, k, depth)
			if err != nil {
				return "", err
			}
			return fmt.Sprintf("%sif %s then\n%s%selse\n%s", ind(depth), cond.text, a, ind(depth), b), nil
		case !hasJump6(s.Body.List) && !hasJump6(els):
			keys := c.mutated(append(append([]ast.Stmt{}, s.Body.List...), els...), en)
			if len(keys) == 0 {
				return "", lostf("if without effect on the variables of the subset")
			}
			var names, types []string
			for _, key := range keys {
				names = append(names, en[key].lean)
				types = append(types, en[key].t.atom())
			}
			kb := kont6{fall: tuple6(names)}
			a, err := c.block(s.Body.List, en, kb, depth+2)
			if err != nil {
				return "", err
			}
			b, err := c.block(els, en, kb, depth+2)
			if err != nil {
				return "", err
			}
			en2 := en
			for _, key := range keys { // assigned inside a branch: no longer known to be fresh
				if nb := en[key]; nb.fresh != nil {
					nb.fresh = nil
					en2 = en2.with(key, nb)
				}
			}
			r, err := c.block(rest, en2, k, depth)
			if err != nil {
				return "", err
			}
			return fmt.Sprintf("%slet %s : %s :=\n%sif %s then\n%s%selse\n%s%s", ind(depth), tuple6(names), tupleType6(types),
				ind(depth+1), cond.text, a, ind(depth+1), b, r), nil
		}
		return "", lostf("if whose branches mix leaving (return/continue) and falling through")

	case *ast.RangeStmt:
		return c.rangeLoop(s, rest, en, k, depth)
	}
	return "", lostf("statement %s", c.tr.src(s))
}

// callStmt: copy(dst, src); sort.Slice(x, less) / sort.SliceStable / sort.Strings(x)
func (c *fn6) callStmt(call *ast.CallExpr, rest []ast.Stmt, en env6, k kont6, depth int) (string, error) {
	n := len(call.Args)
	switch {
	case c.builtin(call.Fun, en, "copy") && n == 2:
		id, ok := call.Args[0].(*ast.Ident)
		if !ok {
			return "", lostf("copy into %s (only into a local slice variable)", c.tr.src(call.Args[0]))
		}
		lv, err := c.lvalue(id, en)
		if err != nil {
			return "", err
		}
		if lv.b.t.k != k6Slice {
			return "", lostf("copy into %s", lv.b.t.lean())
		}
		if lv.b.fresh == nil || !*lv.b.fresh {
			return "", lostf("copy into %s, which is not a slice freshly created in this block (it may share its array)", id.Name)
		}
		src, err := c.quiet(call.Args[1], en)
		if err != nil {
			return "", err
		}
		if !same6(src.t, lv.b.t) {
			return "", lostf("copy(%s, %s)", lv.b.t.lean(), src.t.lean())
		}
		r, err := c.block(rest, en, k, depth)
		if err != nil {
			return "", err
		}
		return c.store(lv, fmt.Sprintf("Go.copy %s %s", lv.b.lean, src.text), depth) + r, nil

	case (c.pkgSel(call.Fun, en, "sort", "sort", "Slice") || c.pkgSel(call.Fun, en, "sort", "sort", "SliceStable")) && n == 2:
		lv, err := c.lvalue(call.Args[0], en)
		if err != nil {
			return "", err
		}
		if lv.ft.k != k6Slice {
			return "", lostf("sort.Slice of %s", lv.ft.lean())
		}
		x, err := c.quiet(call.Args[0], en)
		if err != nil {
			return "", err
		}
		fl, ok := call.Args[1].(*ast.FuncLit)
		if !ok {
			return "", lostf("sort.Slice with a less function that is not a function literal")
		}
		var ps []string
		for _, f := range fl.Type.Params.List {
			if c.tr.src(f.Type) != "int" || !c.free("int", en) {
				return "", lostf("less function is not func(i, j int) bool")
			}
			for _, id := range f.Names {
				ps = append(ps, id.Name)
			}
		}
		if len(ps) != 2 || ps[0] == "_" || ps[1] == "_" || ps[0] == ps[1] || fl.Type.Results == nil ||
			len(fl.Type.Results.List) != 1 || c.tr.src(fl.Type.Results.List[0].Type) != "bool" {
			return "", lostf("less function is not func(i, j int) bool")
		}
		if len(fl.Body.List) != 1 {
			return "", lostf("less function is not a single return")
		}
		rs, ok := fl.Body.List[0].(*ast.ReturnStmt)
		if !ok || len(rs.Results) != 1 {
			return "", lostf("less function is not a single return")
		}
		// inside less, x[i] / x[j] are the two elements compared; x itself, i and j are not variables
		xsrc := c.tr.src(call.Args[0])
		inner := en.without(lv.key, ps[0], ps[1])
		na, err := c.declare("e_"+ps[0], inner)
		if err != nil {
			return "", err
		}
		nb, err := c.declare("e_"+ps[1], inner.with("\x00a", bind6{lean: na}))
		if err != nil {
			return "", err
		}
		if c.sortAtoms != nil {
			return "", lostf("nested sort.Slice")
		}
		c.sortAtoms = map[string]bind6{
			xsrc + "[" + ps[0] + "]": {lean: na, t: lv.ft.elem},
			xsrc + "[" + ps[1] + "]": {lean: nb, t: lv.ft.elem},
		}
		body, err := c.typed(rs.Results[0], inner, &ty6{k: k6Bool})
		c.sortAtoms = nil
		if err != nil {
			return "", lostf("less function of sort.Slice: %s", err.Error())
		}
		r, err := c.block(rest, en, k, depth)
		if err != nil {
			return "", err
		}
		return c.store(lv, fmt.Sprintf("Go.sortSlice (fun (%s %s : %s) => %s) %s", na, nb, lv.ft.elem.atom(), body.text, x.text), depth) + r, nil

	case c.pkgSel(call.Fun, en, "sort", "sort", "Strings") && n == 1:
		lv, err := c.lvalue(call.Args[0], en)
		if err != nil {
			return "", err
		}
		if lv.ft.k != k6Slice || lv.ft.elem.k != k6Str {
			return "", lostf("sort.Strings of %s", lv.ft.lean())
		}
		x, err := c.quiet(call.Args[0], en)
		if err != nil {
			return "", err
		}
		r, err := c.block(rest, en, k, depth)
		if err != nil {
			return "", err
		}
		return c.store(lv, fmt.Sprintf("Go.sortSlice (fun (e_i e_j : Bytes) => (bytesLt e_i e_j)) %s", x.text), depth) + r, nil
	}
	return "", lostf("call statement %s", c.tr.src(call.Fun))
}

// twoResult:  v, ok := m[k]               followed by  if !ok { … leaves … }
//
//	v, err := x.values.GetCol(k) followed by  if err != nil { … leaves … }      (x of type *Index)
func (c *fn6) twoResult(s *ast.AssignStmt, rest []ast.Stmt, en env6, k kont6, depth int) (string, error) {
	a, ok1 := s.Lhs[0].(*ast.Ident)
	b, ok2 := s.Lhs[1].(*ast.Ident)
	if !ok1 || !ok2 || a.Name == "_" || b.Name == "_" || a.Name == b.Name {
		return "", lostf("two-result assignment %s", c.tr.src(s))
	}
	var scrut, wantCond, what string
	var vt *ty6
	switch rhs := s.Rhs[0].(type) {
	case *ast.IndexExpr:
		m, err := c.quiet(rhs.X, en)
		if err != nil {
			return "", err
		}
		if m.t.k != k6Map {
			return "", lostf("comma-ok index of %s", m.t.lean())
		}
		key, err := c.typed(rhs.Index, en, &ty6{k: k6Str})
		if err != nil {
			return "", err
		}
		scrut, wantCond, vt, what = fmt.Sprintf("Go.mapLookup %s %s", m.text, key.text), "!"+b.Name, m.t.elem, "map lookup"
	case *ast.CallExpr:
		sel, ok := rhs.Fun.(*ast.SelectorExpr)
		if !ok || sel.Sel.Name != "GetCol" || len(rhs.Args) != 1 {
			return "", lostf("two-result call %s is not in the whitelist", c.tr.src(rhs.Fun))
		}
		vs, ok := sel.X.(*ast.SelectorExpr)
		if !ok || vs.Sel.Name != "values" {
			return "", lostf("two-result call %s is not in the whitelist", c.tr.src(rhs.Fun))
		}
		id, ok := vs.X.(*ast.Ident)
		if _, local := en[idName6(id)]; !ok || local || !c.idxVars[id.Name] {
			return "", lostf("%s is not the column getter of the index", c.tr.src(sel.X))
		}
		key, err := c.typed(rhs.Args[0], en, &ty6{k: k6U64})
		if err != nil {
			return "", err
		}
		c.usesGetCol = true
		scrut, wantCond, vt, what = fmt.Sprintf("getCol %s", key.text), b.Name+" != nil", &ty6{k: k6Bitmap}, "GetCol"
	default:
		return "", lostf("two-result assignment %s", c.tr.src(s))
	}
	if len(rest) == 0 {
		return "", lostf("second result of the %s is not checked next", what)
	}
	chk, ok := rest[0].(*ast.IfStmt)
	if !ok || chk.Init != nil || chk.Else != nil || c.tr.src(chk.Cond) != wantCond || !diverts6(chk.Body.List) {
		return "", lostf("%s is not followed by `if %s { … return/continue }`", what, wantCond)
	}
	// failure branch: neither the value nor the flag is in scope (any use of them loses the function)
	enBad := en.without(a.Name, b.Name)
	kb := k
	kb.fall = ""
	bad, err := c.block(chk.Body.List, enBad, kb, depth+1)
	if err != nil {
		return "", err
	}
	ln, err := c.declare(a.Name, enBad)
	if err != nil {
		return "", err
	}
	good, err := c.block(rest[1:], enBad.with(a.Name, bind6{lean: ln, t: vt}), k, depth+1)
	if err != nil {
		return "", err
	}
	good = strings.TrimSuffix(good, "\n") + ")\n"
	return fmt.Sprintf("%s(match %s with\n%s| none =>\n%s%s| some %s =>\n%s", ind(depth), scrut, ind(depth), bad, ind(depth), ln, good), nil
}

func idName6(id *ast.Ident) string {
	if id == nil {
		return ""
	}
	return id.Name
}

// rangeLoop: for _, x := range xs / for k, v := range m.
// Without `return` in the body ↦ List.foldl over the loop-carried variables (those of en the body assigns);
// with `return` ↦ a structurally recursive helper yielding Go.Flow.
func (c *fn6) rangeLoop(s *ast.RangeStmt, rest []ast.Stmt, en env6, k kont6, depth int) (string, error) {
	if s.Tok != token.DEFINE {
		return "", lostf("range loop without `:=`")
	}
	xs, err := c.quiet(s.X, en)
	if err != nil {
		return "", err
	}
	name := func(e ast.Expr) (string, error) {
		if e == nil {
			return "_", nil
		}
		id, ok := e.(*ast.Ident)
		if !ok {
			return "", lostf("range variable %s", c.tr.src(e))
		}
		return id.Name, nil
	}
	kn, err := name(s.Key)
	if err != nil {
		return "", err
	}
	vn, err := name(s.Value)
	if err != nil {
		return "", err
	}
	inner := en
	var elemT, pat, pre string
	switch xs.t.k {
	case k6Slice:
		if kn != "_" {
			return "", lostf("range loop over a slice that uses the index")
		}
		elemT = xs.t.elem.atom()
		pat = "_"
		if vn != "_" {
			ln, err := c.declare(vn, en)
			if err != nil {
				return "", err
			}
			pat = ln
			inner = inner.with(vn, bind6{lean: ln, t: xs.t.elem})
		}
	case k6Map:
		// the entries in the order of the list representing the map (Go: unspecified order)
		elemT = "(Bytes × " + xs.t.elem.lean() + ")"
		pat = "kv_"
		if kn == "_" && vn == "_" {
			pat = "_"
		}
		if kn != "_" {
			ln, err := c.declare(kn, inner)
			if err != nil {
				return "", err
			}
			pre += fmt.Sprintf("%slet %s : Bytes := kv_.1\n", ind(depth+1), ln)
			inner = inner.with(kn, bind6{lean: ln, t: &ty6{k: k6Str}})
		}
		if vn != "_" {
			ln, err := c.declare(vn, inner)
			if err != nil {
				return "", err
			}
			pre += fmt.Sprintf("%slet %s : %s := kv_.2\n", ind(depth+1), ln, xs.t.elem.lean())
			inner = inner.with(vn, bind6{lean: ln, t: xs.t.elem})
		}
	default:
		return "", lostf("range over %s", xs.t.lean())
	}
	keys := c.mutated(s.Body.List, en)
	var names, types []string
	for _, key := range keys {
		names = append(names, en[key].lean)
		types = append(types, en[key].t.atom())
		if nb := inner[key]; nb.fresh != nil { // carried through a loop: no longer known to be fresh
			nb.fresh = nil
			inner = inner.with(key, nb)
		}
	}
	after := en
	for _, key := range keys {
		if nb := after[key]; nb.fresh != nil {
			nb.fresh = nil
			after = after.with(key, nb)
		}
	}
	if !hasReturn(s.Body.List) {
		if len(keys) == 0 {
			return "", lostf("loop without effect on the variables of the subset")
		}
		acc, accT := tuple6(names), tupleType6(types)
		lam, open := acc, ""
		if len(keys) > 1 {
			lam = "st_"
			open = fmt.Sprintf("%slet %s : %s := st_\n", ind(depth+1), acc, accT)
		}
		kb := kont6{fall: acc, cont: acc}
		body, err := c.block(s.Body.List, inner, kb, depth+1)
		if err != nil {
			return "", err
		}
		r, err := c.block(rest, after, k, depth)
		if err != nil {
			return "", err
		}
		body = strings.TrimSuffix(body, "\n")
		return fmt.Sprintf("%slet %s : %s := List.foldl (fun (%s : %s) (%s : %s) =>\n%s%s%s) %s %s\n%s", ind(depth), acc, accT,
			lam, accT, pat, elemT, open, pre, body, acc, xs.text, r), nil
	}
	// a loop the function can return from
	if k.retRaw == nil {
		return "", lostf("return inside a loop at a place where the translation cannot leave the function")
	}
	c.nloop++
	hname := fmt.Sprintf("%s.loop%d", c.lname, c.nloop)
	isMut := map[string]bool{}
	for _, key := range keys {
		isMut[key] = true
	}
	var roDecl, roArgs []string
	if c.usesGetColIn(s.Body.List) {
		roDecl = append(roDecl, "(getCol : UInt64 → Option Nat)")
		roArgs = append(roArgs, "getCol")
	}
	for _, key := range c.referenced(s.Body.List, en) {
		if !isMut[key] {
			roDecl = append(roDecl, fmt.Sprintf("(%s : %s)", en[key].lean, en[key].t.lean()))
			roArgs = append(roArgs, en[key].lean)
		}
	}
	for _, key := range c.state { // a return inside the loop yields the receiver state too
		if !isMut[key] {
			dup := false
			for _, a := range roArgs {
				dup = dup || a == en[key].lean
			}
			if !dup {
				roDecl = append(roDecl, fmt.Sprintf("(%s : %s)", en[key].lean, en[key].t.lean()))
				roArgs = append(roArgs, en[key].lean)
			}
		}
	}
	stT := tupleType6(types)
	flowT := fmt.Sprintf("Go.Flow %s %s", atom6(c.retType(en)), atom6(stT))
	recur := strings.Join(append(append([]string{hname}, roArgs...), append([]string{"rest_"}, names...)...), " ")
	kb := kont6{fall: recur, cont: recur, retRaw: func(full string) string { return ".ret " + full }}
	body, err := c.block(s.Body.List, inner, kb, 2)
	if err != nil {
		return "", err
	}
	if pre != "" {
		pre = strings.ReplaceAll(pre, ind(depth+1)+"let", ind(2)+"let")
	}
	var h strings.Builder
	fmt.Fprintf(&h, "/-- the loop `for %s := range %s` of `%s` (%s): what running it over the remaining elements does -/\n",
		strings.TrimSpace(kn+", "+vn), c.tr.src(s.X), c.lname, c.rel)
	fmt.Fprintf(&h, "def %s %s : %s → %s\n", hname, strings.Join(roDecl, " "),
		"List "+elemT, strings.Join(append(append([]string{}, types...), flowT), " → "))
	fmt.Fprintf(&h, "  | []%s => .next %s\n", joinComma6(names), tuple6(names))
	fmt.Fprintf(&h, "  | %s :: rest_%s =>\n%s%s", pat, joinComma6(names), pre, body)
	c.helpers = append(c.helpers, h.String())
	r, err := c.block(rest, after, k, depth+1)
	if err != nil {
		return "", err
	}
	r = strings.TrimSuffix(r, "\n") + ")\n"
	call := strings.Join(append(append([]string{hname}, roArgs...), append([]string{xs.text}, names...)...), " ")
	return fmt.Sprintf("%s(match %s with\n%s| .ret r_ => %s\n%s| .next %s =>\n%s", ind(depth), call, ind(depth), k.retRaw("r_"),
		ind(depth), tuple6(names), r), nil
}

func atom6(s string) string {
	if strings.Contains(s, " ") {
		return "(" + s + ")"
	}
	return s
}

func joinSp6(names []string) string {
	if len(names) == 0 {
		return ""
	}
	return strings.Join(names, " ") + " "
}

func joinComma6(names []string) string {
	if len(names) == 0 {
		return ""
	}
	return ", " + strings.Join(names, ", ")
}

// ---------------------------------------------------------------- targets

// method6 translates the method `recvStruct.name` of file rel into the Lean definition lname.
// Fields of the pointer receiver the body reads or assigns become parameters `<recv>_<field>`; the new values of the
// assigned ones are returned next to the result. A parameter of type *Index may only be used as `x.values.GetCol(k)`,
// which becomes the parameter `getCol`. lockField: a field of the receiver (a sync.RWMutex) whose RLock/RUnlock
// statements are skipped (locking is not modelled).
func (tr *translator) method6(rel, recvStruct, name, lname, lockField string) (string, error) {
	f, fd := tr.fn(rel, recvStruct, name)
	if fd == nil {
		return "", lostf("method %s.%s not found in %s", recvStruct, name, rel)
	}
	if fd.Type.TypeParams != nil || len(fd.Recv.List) != 1 || len(fd.Recv.List[0].Names) != 1 {
		return "", lostf("signature of %s.%s", recvStruct, name)
	}
	if _, ok := fd.Recv.List[0].Type.(*ast.StarExpr); !ok {
		return "", lostf("%s.%s does not have a pointer receiver", recvStruct, name)
	}
	c := &fn6{tr: tr, reg: tr.structs6(), file: f, rel: rel, lname: lname, recv: fd.Recv.List[0].Names[0].Name,
		recvStruct: recvStruct, idxVars: map[string]bool{}}
	if c.recv == "_" {
		c.recv = ""
	}
	body := fd.Body.List
	// locking statements at the start: x.mtx.RLock(); defer x.mtx.RUnlock()
	if lockField != "" {
		lf, lt := tr.fieldTypeExpr6(recvStruct, lockField)
		if lt == nil || tr.src(lt) != "sync.RWMutex" || !imports(lf, "sync", "sync") {
			return "", lostf("field %s.%s is not a sync.RWMutex", recvStruct, lockField)
		}
		if len(body) < 2 {
			return "", lostf("%s.%s does not start by taking the read lock", recvStruct, name)
		}
		es, ok1 := body[0].(*ast.ExprStmt)
		ds, ok2 := body[1].(*ast.DeferStmt)
		if !ok1 || !ok2 || tr.src(es.X) != c.recv+"."+lockField+".RLock()" || tr.src(ds.Call) != c.recv+"."+lockField+".RUnlock()" {
			return "", lostf("%s.%s does not start with `%s.%s.RLock(); defer %s.%s.RUnlock()`", recvStruct, name, c.recv, lockField, c.recv, lockField)
		}
		body = body[2:]
	}
	en := env6{}
	var params []string
	// receiver fields used in the body
	used, assigned := map[string]bool{}, map[string]bool{}
	if c.recv != "" {
		ast.Inspect(&ast.BlockStmt{List: body}, func(n ast.Node) bool {
			switch n := n.(type) {
			case *ast.SelectorExpr:
				if id, ok := n.X.(*ast.Ident); ok && id.Name == c.recv {
					used[n.Sel.Name] = true
				}
			case *ast.AssignStmt:
				if n.Tok != token.DEFINE {
					for _, l := range n.Lhs {
						if key := c.rootKey6(l); strings.HasPrefix(key, c.recv+".") {
							assigned[strings.TrimPrefix(key, c.recv+".")] = true
						}
					}
				}
			case *ast.ExprStmt:
				if call, ok := n.X.(*ast.CallExpr); ok && len(call.Args) >= 1 {
					if key := c.rootKey6(call.Args[0]); strings.HasPrefix(key, c.recv+".") {
						assigned[strings.TrimPrefix(key, c.recv+".")] = true
					}
				}
			}
			return true
		})
	}
	var fields []string
	for fld := range used {
		fields = append(fields, fld)
	}
	sort.Strings(fields)
	var recvParams []string
	for _, fld := range fields {
		ff, te := tr.fieldTypeExpr6(recvStruct, fld)
		if te == nil {
			continue // not a field (a method call on the receiver): using it loses the function
		}
		if recvStruct == "Index" && fld == "values" && tr.src(te) == "colGetter" && tr.isColGetter6() {
			c.idxVars[c.recv] = true
			continue
		}
		t, err := c.reg.goType(ff, te)
		if err != nil {
			continue // a field of a type outside the subset: using it loses the function
		}
		ln, err := leanIdent(c.recv + "_" + fld)
		if err != nil {
			return "", err
		}
		en[c.recv+"."+fld] = bind6{lean: ln, t: t}
		recvParams = append(recvParams, fmt.Sprintf("(%s : %s)", ln, t.lean()))
		if assigned[fld] {
			c.state = append(c.state, c.recv+"."+fld)
		}
	}
	for fld := range assigned {
		if _, ok := en[c.recv+"."+fld]; !ok {
			return "", lostf("assignment to receiver field %s.%s of a type outside the subset", c.recv, fld)
		}
	}
	sort.Strings(c.state)
	// parameters
	if fd.Type.Params != nil {
		for _, fl := range fd.Type.Params.List {
			for _, id := range fl.Names {
				if id.Name == "_" {
					continue
				}
				if tr.src(fl.Type) == "*Index" && tr.isColGetter6() {
					if _, te := tr.fieldTypeExpr6("Index", "values"); te != nil && tr.src(te) == "colGetter" {
						c.idxVars[id.Name] = true
						continue
					}
				}
				t, err := c.reg.goType(f, fl.Type)
				if err != nil {
					continue // not a variable of the subset: using it loses the function
				}
				ln, err := c.declare(id.Name, en)
				if err != nil {
					return "", err
				}
				en[id.Name] = bind6{lean: ln, t: t}
				params = append(params, fmt.Sprintf("(%s : %s)", ln, t.lean()))
			}
		}
	}
	// result (a named result is a variable that starts at its zero value)
	pre := ""
	if fd.Type.Results != nil && len(fd.Type.Results.List) > 0 {
		if len(fd.Type.Results.List) != 1 || len(fd.Type.Results.List[0].Names) > 1 {
			return "", lostf("result list of %s.%s", recvStruct, name)
		}
		rl := fd.Type.Results.List[0]
		t, err := c.reg.goType(f, rl.Type)
		if err != nil {
			return "", lostf("result type of %s.%s: %s", recvStruct, name, err.Error())
		}
		c.result = t
		if len(rl.Names) == 1 && rl.Names[0].Name != "_" {
			z, err := c.zero(t)
			if err != nil {
				return "", err
			}
			ln, err := c.declare(rl.Names[0].Name, en)
			if err != nil {
				return "", err
			}
			en[rl.Names[0].Name] = bind6{lean: ln, t: t}
			pre = fmt.Sprintf("%slet %s : %s := %s\n", ind(1), ln, t.lean(), z)
		}
	}
	k := kont6{retRaw: func(full string) string { return full }}
	if c.result == nil {
		k.fall = c.pack("", en)
	}
	text, err := c.block(body, en, k, 1)
	if err != nil {
		return "", err
	}
	var b strings.Builder
	b.WriteString(c.reg.pending())
	for _, h := range c.helpers {
		b.WriteString(h + "\n")
	}
	doc := fmt.Sprintf("`(*%s).%s` of %s", recvStruct, name, rel)
	if len(recvParams) > 0 {
		doc += fmt.Sprintf("; `%s_f` stands for the field `%s.f` of the receiver", c.recv, c.recv)
	}
	if len(c.state) > 0 {
		doc += "; returns the result and the new value of the assigned receiver fields"
	}
	if c.usesGetCol {
		doc += "; `getCol k` stands for `idx.values.GetCol(k)` (`none`: it returned an error)"
		params = append([]string{"(getCol : UInt64 → Option Nat)"}, params...)
	}
	if lockField != "" {
		doc += "; the read lock is not modelled"
	}
	all := append(append([]string{}, recvParams...), params...)
	if c.usesGetCol { // getCol first
		all = append([]string{params[0]}, append(recvParams, params[1:]...)...)
	}
	fmt.Fprintf(&b, "/-- %s -/\ndef %s %s : %s :=\n%s%s", doc, lname, strings.Join(all, " "), c.retType(en), pre, text)
	return b.String(), nil
}

// isColGetter6: `type colGetter interface { GetCol(key uint64) (*roaring.Bitmap, error) }`
func (tr *translator) isColGetter6() bool {
	_, _, ts := tr.typeSpec6("colGetter")
	if ts == nil {
		return false
	}
	it, ok := ts.Type.(*ast.InterfaceType)
	if !ok || len(it.Methods.List) != 1 || len(it.Methods.List[0].Names) != 1 || it.Methods.List[0].Names[0].Name != "GetCol" {
		return false
	}
	ft, ok := it.Methods.List[0].Type.(*ast.FuncType)
	if !ok || ft.Params.NumFields() != 1 || ft.Results.NumFields() != 2 {
		return false
	}
	return tr.src(ft.Params.List[0].Type) == "uint64" && tr.src(ft.Results.List[0].Type) == "*roaring.Bitmap" &&
		tr.src(ft.Results.List[1].Type) == "error"
}

// translateT6 registers the group-by functions and GetSchema
func (tr *translator) translateT6(emit func(string, unit, error) bool, wrap func(bool, string, string)) {
	for _, t := range [][5]string{
		{"query.go", "Query", "populateGroupBy", "Query_populateGroupBy", ""},
		{"query.go", "Query", "groupBy", "Query_groupBy", ""},
		{"index.go", "Index", "GetSchema", "Index_GetSchema", "mtx"},
	} {
		text, err := tr.method6(t[0], t[1], t[2], t[3], t[4])
		if err != nil {
			emit(t[3], unit{}, err)
			continue
		}
		wrap(true, t[3], text)
	}
}
