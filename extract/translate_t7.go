// translate_t7.go: the functions that OPEN and CLOSE database files, on top of the machinery of translate_t3.go
// (same embedding: worlds, heap, mutexTouch, Ext coders, defer replayed at every return):
//
//	internal/openfile/openfile.go  OpenFile
//	writer.go                      NewIndexWriter, (*IndexWriter).Flush
//	writer_big.go                  NewBigIndexWriter, (*BigIndexWriter).Close, (*BigIndexWriter).Flush
//	index.go                       OpenIndex, (*Index).Close
//
// What is new relative to translate_t3.go (every hook there is marked `// [t7]`):
//   - the world `$fs` (Go.T7.Fs) and `bbolt.Open`, which CREATES the world `$bolt`: a target that opens its database
//     does not take `bolt` as a parameter, and any use of the database before the Open statement loses the function;
//   - a second database world `$tbolt` for BigIndexWriter.tempDB / tempTx: every db / tx / bucket / cursor value
//     carries the world it belongs to (t3t.world), derived from the field or parameter it comes from;
//   - `return f(…)` with an effectful call, `fmt.Errorf("… %d", n)`, `bm.RunOptimize()`, `&schema{…}`;
//   - calls of functions that range over a map (`WriteToBoltDatabase`): the enumeration parameter is handed through.
package main

import (
	"fmt"
	"go/ast"
	"go/token"
	"os"
	"path/filepath"
	"strconv"
	"strings"
)

func init() {
	t3worldType["$tbolt"] = &t3t{kind: "world", lean: "Go.T3.Bolt"} // the temporary database of a BigIndexWriter
	t3worldType["$fs"] = &t3t{kind: "world", lean: "Go.T7.Fs"}      // the directory
}

// ---------------------------------------------------------------- worlds of database values

// t7boltOf: the Bolt world a db / tx / bucket / cursor value belongs to
func t7boltOf(t *t3t) string {
	if t != nil && t.world != "" {
		return t.world
	}
	return "$bolt"
}

// t7typ: the type `base` (t3db, t3tx, t3bucket, t3cursor) in world w
func t7typ(base *t3t, w string) *t3t {
	if w == "" || w == "$bolt" {
		return base
	}
	cp := *base
	cp.world = w
	return &cp
}

// t7in: the type `base` in the world of `like`
func t7in(base, like *t3t) *t3t { return t7typ(base, t7boltOf(like)) }

func t7contains(xs []string, x string) bool {
	for _, y := range xs {
		if y == x {
			return true
		}
	}
	return false
}

// t7fieldWorld: in a target with two databases the fields tempDB / tempTx of BigIndexWriter belong to $tbolt
func (c *t3ctx) t7fieldWorld(sname, f string, t *t3t) *t3t {
	if c.t7dual && sname == "BigIndexWriter" && (f == "tempDB" && t.kind == "db" || f == "tempTx" && t.kind == "tx") {
		return t7typ(t, "$tbolt")
	}
	return t
}

// ---------------------------------------------------------------- additional expression / effect forms

// t7pure: fmt.Errorf("literal… %d", n) with an int argument
func (c *t3ctx) t7pure(e *ast.CallExpr, sc t3sc) (t3v, bool, error) {
	if !(c.pkgSel(e.Fun, sc, "fmt", "fmt", "Errorf") && len(e.Args) == 2) {
		return t3v{}, false, nil
	}
	lit, ok := e.Args[0].(*ast.BasicLit)
	if !ok || lit.Kind != token.STRING {
		return t3v{}, false, nil
	}
	f, err := strconv.Unquote(lit.Value)
	if err != nil || !strings.HasSuffix(f, "%d") || strings.Count(f, "%") != 1 {
		return t3v{}, false, nil
	}
	n, err := c.typed(e.Args[1], sc, t3int)
	if err != nil {
		return t3v{}, true, err
	}
	return t3v{text: fmt.Sprintf("(Go.T7.errorfInt %s %s)", bytesLit(strings.TrimSuffix(f, "%d")), n.text), typ: t3error}, true, nil
}

const t7openfilePath = "github.com/akrennmair/updog/internal/openfile"

// t7openFileFn: a value of type func(string, int, os.FileMode) (*os.File, error), as Option Go.T7.OpenFileFn
func (c *t3ctx) t7openFileFn(e ast.Expr, sc t3sc) (string, error) {
	if id, ok := e.(*ast.Ident); ok && id.Name == "nil" && c.free("nil", sc) {
		return "(none : Option Go.T7.OpenFileFn)", nil
	}
	if c.pkgSel(e, sc, "os", "os", "OpenFile") {
		return "(some Go.T7.osOpenFileFn)", nil
	}
	call, ok := e.(*ast.CallExpr)
	if !ok || len(call.Args) != 1 || !c.pkgSel(call.Fun, sc, "openfile", t7openfilePath, "OpenFile") {
		return "", lostf("open function %s is neither nil, os.OpenFile nor openfile.OpenFile(openfile.Options{…})", c.tr.src(e))
	}
	if !c.tr.done["openFile"] {
		return "", lostf("openfile.OpenFile was not translated")
	}
	cl, ok := call.Args[0].(*ast.CompositeLit)
	if !ok || !c.pkgSel(cl.Type, sc, "openfile", t7openfilePath, "Options") {
		return "", lostf("argument %s of openfile.OpenFile is not an openfile.Options{…} literal", c.tr.src(call.Args[0]))
	}
	var parts []string
	seen := map[string]bool{}
	for _, el := range cl.Elts {
		kv, ok := el.(*ast.KeyValueExpr)
		if !ok {
			return "", lostf("positional openfile.Options literal")
		}
		name := c.tr.src(kv.Key)
		if !t7contains(t7openFileFields, name) || seen[name] {
			return "", lostf("field %s of openfile.Options", name)
		}
		seen[name] = true
		v, err := c.typed(kv.Value, sc, t3bool)
		if err != nil {
			return "", err
		}
		parts = append(parts, fmt.Sprintf("%s := %s", name, v.text))
	}
	lit := "({} : Go.T7.OpenFileOptions)"
	if len(parts) != 0 {
		lit = fmt.Sprintf("({ %s } : Go.T7.OpenFileOptions)", strings.Join(parts, ", "))
	}
	return fmt.Sprintf("(some (openFile %s))", lit), nil
}

// t7boltOptions: nil or &bbolt.Options{ReadOnly: …, OpenFile: …}; any other field loses the function
func (c *t3ctx) t7boltOptions(e ast.Expr, sc t3sc) (string, error) {
	if id, ok := e.(*ast.Ident); ok && id.Name == "nil" && c.free("nil", sc) {
		return "({} : Go.T7.BoltOptions)", nil
	}
	u, ok := e.(*ast.UnaryExpr)
	if !ok || u.Op != token.AND {
		return "", lostf("options %s of bbolt.Open are not a &bbolt.Options{…} literal", c.tr.src(e))
	}
	cl, ok := u.X.(*ast.CompositeLit)
	if !ok || !c.pkgSel(cl.Type, sc, "bbolt", "go.etcd.io/bbolt", "Options") {
		return "", lostf("options %s of bbolt.Open are not a &bbolt.Options{…} literal", c.tr.src(e))
	}
	var parts []string
	seen := map[string]bool{}
	for _, el := range cl.Elts {
		kv, ok := el.(*ast.KeyValueExpr)
		if !ok {
			return "", lostf("positional bbolt.Options literal")
		}
		name := c.tr.src(kv.Key)
		if seen[name] {
			return "", lostf("field %s of bbolt.Options twice", name)
		}
		seen[name] = true
		switch name {
		case "ReadOnly":
			v, err := c.typed(kv.Value, sc, t3bool)
			if err != nil {
				return "", err
			}
			parts = append(parts, "ReadOnly := "+v.text)
		case "OpenFile":
			v, err := c.t7openFileFn(kv.Value, sc)
			if err != nil {
				return "", err
			}
			parts = append(parts, "OpenFile := "+v)
		default:
			return "", lostf("field %s of bbolt.Options is not modelled", name)
		}
	}
	if len(parts) == 0 {
		return "({} : Go.T7.BoltOptions)", nil
	}
	return fmt.Sprintf("({ %s } : Go.T7.BoltOptions)", strings.Join(parts, ", ")), nil
}

var t7waitGroup = &t3t{kind: "waitgroup", lean: "Go.T7.WaitGroup"}

// t7goStmt: `go func(p…) { body }(args…)` with a body that does not return a value: the goroutine runs to completion
// where it is started (ONE of the schedules; see Go.T7.WaitGroup for what that leaves out). The arguments are evaluated
// in the caller, the literal sees the caller's variables, its deferred calls run at its end.
func (c *t3ctx) t7goStmt(s *ast.GoStmt, sc t3sc, outer t3cont) ([]string, error) {
	fl, ok := s.Call.Fun.(*ast.FuncLit)
	if !ok {
		return nil, lostf("go statement %s does not start a function literal", c.tr.src(s.Call.Fun))
	}
	if fl.Type.Results.NumFields() != 0 || hasReturn(fl.Body.List) {
		return nil, lostf("goroutine with results or return statements")
	}
	if fl.Type.Params.NumFields() != len(s.Call.Args) || s.Call.Ellipsis.IsValid() {
		return nil, lostf("go statement with %d arguments", len(s.Call.Args))
	}
	if sc.wrapRet != nil {
		return nil, lostf("go statement inside a loop that may return")
	}
	in := c.newScope(sc)
	in.defers = nil
	in.fr = &t3frame{}
	lines := []string{"-- go " + c.tr.src(fl.Type)}
	i := 0
	if fl.Type.Params != nil {
		for _, fld := range fl.Type.Params.List {
			t, err := c.goType(fld.Type)
			if err != nil {
				return nil, err
			}
			if t.kind == "struct" {
				return nil, lostf("goroutine that takes a pointer to a struct")
			}
			if len(fld.Names) == 0 {
				return nil, lostf("unnamed parameter")
			}
			for _, pn := range fld.Names {
				a, err := c.typed(s.Call.Args[i], sc, t)
				if err != nil {
					return nil, err
				}
				var b *t3bind
				if in, b, err = c.declare(in, pn.Name, t); err != nil {
					return nil, err
				}
				lines = append(lines, fmt.Sprintf("let %s : %s := %s", b.lean, t.lean, a.text))
				i++
			}
		}
	}
	body, err := c.stmts(fl.Body.List, in, func(end t3sc) ([]string, error) {
		var run func(i int, at t3sc) ([]string, error)
		run = func(i int, at t3sc) ([]string, error) {
			if i < 0 {
				return outer(sc)
			}
			return end.defers[i](at, func(at2 t3sc) ([]string, error) { return run(i-1, at2) })
		}
		return run(len(end.defers)-1, end)
	})
	return append(lines, body...), err
}

// t7effect: bbolt.Open(path, mode, options) and bm.RunOptimize()
func (c *t3ctx) t7effect(call *ast.CallExpr, sc t3sc) (*t3eff, error) {
	if c.pkgSel(call.Fun, sc, "bbolt", "go.etcd.io/bbolt", "Open") && len(call.Args) == 3 {
		fs, err := c.world(sc, "$fs")
		if err != nil {
			return nil, err
		}
		nb, ok := c.t7opened["$bolt"]
		if !ok {
			return nil, lostf("bbolt.Open in a target that does not open a database")
		}
		if _, open := sc.en["$bolt"]; open {
			return nil, lostf("a second bbolt.Open")
		}
		if sc.wrapRet != nil || sc.fr == nil || sc.fr.closure {
			return nil, lostf("bbolt.Open outside the top level of the function")
		}
		path, err := c.typed(call.Args[0], sc, t3bytes)
		if err != nil {
			return nil, err
		}
		mode, err := c.expr(call.Args[1], sc)
		if err != nil {
			return nil, err
		}
		if mode.typ.kind != "untyped" || mode.k < 0 {
			return nil, lostf("file mode %s of bbolt.Open is not a constant", c.tr.src(call.Args[1]))
		}
		opts, err := c.t7boltOptions(call.Args[2], sc)
		if err != nil {
			return nil, err
		}
		return t3one(fmt.Sprintf("Go.T7.boltOpen %s %s (%d : Nat) %s", fs.lean, path.text, mode.k, opts),
			t3out{kind: "world", b: fs}, t3out{kind: "world", b: nb, w: "$bolt"}, t3out{kind: "res", typ: t3db}, t3out{kind: "res", typ: t3error}), nil
	}
	if eff, err := c.t7inline(call, sc); eff != nil || err != nil {
		return eff, err
	}
	if sel, ok := call.Fun.(*ast.SelectorExpr); ok { // sync.WaitGroup
		if v, err := c.expr(sel.X, sc); err == nil && v.typ.kind == "waitgroup" {
			var text string
			switch {
			case sel.Sel.Name == "Add" && len(call.Args) == 1:
				d, err := c.typed(call.Args[0], sc, t3int)
				if err != nil {
					return nil, err
				}
				text = fmt.Sprintf("Go.T7.wgAdd %s %s", v.text, d.text)
			case sel.Sel.Name == "Done" && len(call.Args) == 0:
				text = fmt.Sprintf("Go.T7.wgDone %s", v.text)
			case sel.Sel.Name == "Wait" && len(call.Args) == 0:
				text = fmt.Sprintf("Go.T7.wgWait %s", v.text)
			default:
				return nil, lostf("method %s of sync.WaitGroup", sel.Sel.Name)
			}
			o, _, err := c.wbOut(sel.X, sc)
			if err != nil {
				return nil, err
			}
			return t3one(text, o), nil
		}
	}
	if x, ok := t3method(call, "RunOptimize", 0); ok {
		v, err := c.expr(x, sc)
		if err != nil || v.typ.kind != "ptrBitmap" {
			return nil, nil
		}
		hp, err := c.world(sc, "$hp")
		if err != nil {
			return nil, err
		}
		return t3one(fmt.Sprintf("Go.T7.bitmapRunOptimize %s %s", hp.lean, v.text), t3out{kind: "world", b: hp}), nil
	}
	return nil, nil
}

// t7inline: a call of an unexported helper function of the package that is not a target of its own: its body is
// translated in place (parameters bound to the argument values, nothing else of the caller in scope, the caller's
// deferred calls not run at its returns); the value is the tuple of the worlds and the helper's results.
func (c *t3ctx) t7inline(call *ast.CallExpr, sc t3sc) (*t3eff, error) {
	id, ok := call.Fun.(*ast.Ident)
	if !ok || ast.IsExported(id.Name) || id.Name == "verifPoint" {
		return nil, nil
	}
	if _, local := sc.en[id.Name]; local {
		return nil, nil
	}
	if _, known := t3sigs[id.Name]; known {
		return nil, nil
	}
	var fd *ast.FuncDecl
	var file *ast.File
	for _, rel := range c.tr.pkgFiles(c.rel) {
		if f, d := c.tr.fn(rel, "", id.Name); d != nil {
			fd, file = d, f
		}
	}
	if fd == nil {
		return nil, nil
	}
	if c.t7inl[id.Name] {
		return nil, lostf("recursive helper %s", id.Name)
	}
	if sc.fr == nil {
		return nil, lostf("call of the helper %s where the function cannot return", id.Name)
	}
	if fd.Type.Params.NumFields() != len(call.Args) || call.Ellipsis.IsValid() {
		return nil, lostf("call of %s with %d arguments", id.Name, len(call.Args))
	}
	// the scope of the helper: the worlds, then its parameters
	inner := t3sc{en: t3env{}}
	c.nextSc++
	inner.scope = c.nextSc
	fr := &t3frame{}
	var outs []t3out
	for _, b := range sc.fr.outs {
		if b.typ.kind != "world" {
			continue
		}
		for w, wb := range sc.en {
			if wb.id == b.id && strings.HasPrefix(w, "$") {
				inner.en = inner.en.with(w, wb)
				fr.outs = append(fr.outs, wb)
				outs = append(outs, t3out{kind: "world", b: wb})
			}
		}
	}
	oldFile, oldGuard := c.file, c.guarded
	c.file, c.guarded = file, ""
	if c.t7inl == nil {
		c.t7inl = map[string]bool{}
	}
	c.t7inl[id.Name] = true
	defer func() { c.file, c.guarded = oldFile, oldGuard; delete(c.t7inl, id.Name) }()
	var lines []string
	i := 0
	for _, fld := range fd.Type.Params.List {
		t, err := c.goType(fld.Type)
		if err != nil {
			return nil, err
		}
		if t.kind == "struct" {
			return nil, lostf("helper %s takes a pointer to a struct", id.Name)
		}
		if len(fld.Names) == 0 {
			return nil, lostf("unnamed parameter of %s", id.Name)
		}
		for _, pn := range fld.Names {
			c.file = oldFile
			a, err := c.expr(call.Args[i], sc)
			c.file = file
			if err != nil {
				return nil, err
			}
			switch t.kind {
			case "db", "tx", "bucket", "cursor": // a handle parameter belongs to the database of its argument
				t = t7in(t, a.typ)
			}
			if a, err = c.conv(a, t); err != nil {
				return nil, err
			}
			var b *t3bind
			if inner, b, err = c.declare(inner, pn.Name, t); err != nil {
				return nil, err
			}
			lines = append(lines, fmt.Sprintf("let %s : %s := %s", b.lean, t.lean, a.text))
			i++
		}
	}
	if fd.Type.Results != nil {
		for _, fld := range fd.Type.Results.List {
			if len(fld.Names) != 0 {
				return nil, lostf("named results of %s", id.Name)
			}
			t, err := c.goType(fld.Type)
			if err != nil {
				return nil, err
			}
			if t.kind == "struct" {
				t = t3opt(t)
			}
			fr.results = append(fr.results, t)
			outs = append(outs, t3out{kind: "res", typ: t})
		}
	}
	fr.retType = t3retType(fr)
	inner.fr = fr
	body, err := c.stmts(fd.Body.List, inner, func(end t3sc) ([]string, error) {
		if len(fr.results) != 0 {
			return nil, lostf("control reaches the end of %s without a return", id.Name)
		}
		return c.doReturn(&ast.ReturnStmt{}, end)
	})
	if err != nil {
		return nil, err
	}
	all := append([]string{"("}, t3indent(append(lines, body...))...)
	all[len(all)-1] += ")"
	return &t3eff{lines: all, outs: outs}, nil
}

// pkgFiles: the non-test Go files of the package directory of rel
func (tr *translator) pkgFiles(rel string) []string {
	dir := filepath.Dir(rel)
	ents, err := os.ReadDir(filepath.Join(tr.repo, dir))
	if err != nil {
		return nil
	}
	var out []string
	for _, e := range ents {
		if e.IsDir() || !strings.HasSuffix(e.Name(), ".go") || strings.HasSuffix(e.Name(), "_test.go") {
			continue
		}
		out = append(out, filepath.Join(dir, e.Name()))
	}
	return out
}

// t7returnCall: `return f(args…)` where f(args…) is an effect with as many results as the function:
// the statements `go_ret1, … := f(args…); return go_ret1, …` (nil: not of that form)
func (c *t3ctx) t7returnCall(rs *ast.ReturnStmt, sc t3sc) ([]ast.Stmt, error) {
	if len(rs.Results) != 1 || sc.fr == nil {
		return nil, nil
	}
	call, ok := rs.Results[0].(*ast.CallExpr)
	if !ok {
		return nil, nil
	}
	var eff *t3eff
	if _, err := c.collect(func() error {
		var err error
		eff, err = c.effect(call, sc)
		return err
	}); err != nil {
		return nil, err
	}
	if eff == nil {
		return nil, nil
	}
	n := 0
	for _, o := range eff.outs {
		if o.kind == "res" {
			n++
		}
	}
	if n != len(sc.fr.results) || n == 0 {
		return nil, lostf("return %s: %d results for a function with %d", c.tr.src(call), n, len(sc.fr.results))
	}
	var lhs, res []ast.Expr
	for i := 1; i <= n; i++ {
		name := fmt.Sprintf("go_ret%d", i)
		if _, used := sc.en[name]; used {
			return nil, lostf("a variable is called %s", name)
		}
		lhs = append(lhs, ast.NewIdent(name))
		res = append(res, ast.NewIdent(name))
	}
	return []ast.Stmt{
		&ast.AssignStmt{Lhs: lhs, Tok: token.DEFINE, Rhs: []ast.Expr{call}},
		&ast.ReturnStmt{Results: res},
	}, nil
}

// t7openedAtReturn: a function that opens its database returns the world; it must exist where the function returns
func (c *t3ctx) t7openedAtReturn(fr *t3frame, sc t3sc) error {
	if fr.closure {
		return nil
	}
	for w := range c.t7opened {
		if _, ok := sc.en[w]; !ok {
			return lostf("return before bbolt.Open: the world %s does not exist yet", strings.TrimPrefix(w, "$"))
		}
	}
	return nil
}

// ---------------------------------------------------------------- openfile.OpenFile

var t7openFileFields = []string{"FailIfFileExists", "FailIfFileDoesntExist"}

// t7openFile: `func OpenFile(opts Options) func(string, int, os.FileMode) (*os.File, error)` whose body is a chain of
// `if <cond over opts> { return F }` ending in `return F`, each F being `os.OpenFile` or a function literal
// `func(p, flags, m) { return os.OpenFile(p, E(flags), m) }`; F is rendered as the flag transformer `fun flags => E`.
func (tr *translator) t7openFile() (string, error) {
	const rel = "internal/openfile/openfile.go"
	f, fd := tr.fn(rel, "", "OpenFile")
	if fd == nil {
		return "", lostf("function OpenFile not found in %s", rel)
	}
	if fd.Type.Params.NumFields() != 1 || len(fd.Type.Params.List[0].Names) != 1 || tr.src(fd.Type.Params.List[0].Type) != "Options" ||
		fd.Type.Results.NumFields() != 1 || tr.src(fd.Type.Results.List[0].Type) != "func(string, int, os.FileMode) (*os.File, error)" {
		return "", lostf("signature of OpenFile")
	}
	opts := fd.Type.Params.List[0].Names[0].Name
	optsLean, err := leanIdent(opts)
	if err != nil {
		return "", err
	}
	// the struct Options: exactly the boolean fields the prelude models, in that order
	var fields []string
	ast.Inspect(f, func(n ast.Node) bool {
		ts, ok := n.(*ast.TypeSpec)
		if !ok || ts.Name.Name != "Options" {
			return true
		}
		if st, ok := ts.Type.(*ast.StructType); ok {
			for _, fl := range st.Fields.List {
				for _, id := range fl.Names {
					fields = append(fields, id.Name+":"+tr.src(fl.Type))
				}
			}
		}
		return false
	})
	want := []string{}
	for _, n := range t7openFileFields {
		want = append(want, n+":bool")
	}
	if strings.Join(fields, ",") != strings.Join(want, ",") {
		return "", lostf("struct Options has the fields %v, the prelude models %v", fields, want)
	}
	c := tr.newCtx(rel, f)
	for _, n := range t7openFileFields {
		c.atoms[opts+"."+n] = binding{optsLean + "." + n, tBool}
	}
	fn := func(e ast.Expr) (string, error) {
		if c.pkgSel(e, env{}, "os", "os", "OpenFile") {
			return "Go.T7.osOpenFileFn", nil
		}
		lit, ok := e.(*ast.FuncLit)
		if !ok {
			return "", lostf("returned value %s is neither os.OpenFile nor a function literal", tr.src(e))
		}
		if tr.src(lit.Type) != "func(pathname string, flags int, mode os.FileMode) (*os.File, error)" {
			var names []string
			for _, fl := range lit.Type.Params.List {
				for _, id := range fl.Names {
					names = append(names, id.Name+" "+tr.src(fl.Type))
				}
			}
			if len(names) != 3 || !strings.HasSuffix(names[0], " string") || !strings.HasSuffix(names[1], " int") || !strings.HasSuffix(names[2], " os.FileMode") ||
				lit.Type.Results.NumFields() != 2 || tr.src(lit.Type.Results.List[0].Type) != "*os.File" || tr.src(lit.Type.Results.List[1].Type) != "error" {
				return "", lostf("function literal %s", tr.src(lit.Type))
			}
		}
		var names []string
		for _, fl := range lit.Type.Params.List {
			for _, id := range fl.Names {
				names = append(names, id.Name)
			}
		}
		if len(names) != 3 {
			return "", lostf("function literal %s", tr.src(lit.Type))
		}
		if len(lit.Body.List) != 1 {
			return "", lostf("function literal is not a single return")
		}
		rs, ok := lit.Body.List[0].(*ast.ReturnStmt)
		if !ok || len(rs.Results) != 1 {
			return "", lostf("function literal is not a single return")
		}
		fl, err := leanIdent(names[1])
		if err != nil {
			return "", err
		}
		if fl == optsLean {
			return "", lostf("flags parameter shadows %s", opts)
		}
		en := env{names[0]: binding{"?", tBad}, names[1]: binding{fl, tFlags}, names[2]: binding{"?", tBad}}
		call, ok := rs.Results[0].(*ast.CallExpr)
		if !ok || len(call.Args) != 3 || !c.pkgSel(call.Fun, en, "os", "os", "OpenFile") ||
			tr.src(call.Args[0]) != names[0] || tr.src(call.Args[2]) != names[2] {
			return "", lostf("returned value is not os.OpenFile(%s, …, %s)", names[0], names[2])
		}
		v, err := c.typed(call.Args[1], en, tFlags)
		if err != nil {
			return "", err
		}
		return fmt.Sprintf("(fun (%s : Nat) => %s)", fl, v.text), nil
	}
	// the body as a list of arms (condition, returned function) in evaluation order; the last arm has no condition.
	// `if c { return F }` chains and a tagless `switch { case c: return F … default: return F }` are the same thing.
	type arm struct {
		cond ast.Expr
		ret  ast.Expr
	}
	var arms []arm
	single := func(body []ast.Stmt) (ast.Expr, bool) {
		if len(body) != 1 {
			return nil, false
		}
		rs, ok := body[0].(*ast.ReturnStmt)
		if !ok || len(rs.Results) != 1 {
			return nil, false
		}
		return rs.Results[0], true
	}
	stmts := fd.Body.List
	closed := false
	for _, s := range stmts {
		if closed {
			return "", lostf("statement %s after the final return", tr.src(s))
		}
		switch s := s.(type) {
		case *ast.ReturnStmt:
			if len(s.Results) != 1 {
				return "", lostf("statement %s", tr.src(s))
			}
			arms = append(arms, arm{nil, s.Results[0]})
			closed = true
		case *ast.IfStmt:
			r, ok := single(s.Body.List)
			if s.Init != nil || s.Else != nil || !ok {
				return "", lostf("statement %s", tr.src(s))
			}
			arms = append(arms, arm{s.Cond, r})
		case *ast.SwitchStmt:
			if s.Init != nil || s.Tag != nil {
				return "", lostf("statement %s", tr.src(s))
			}
			var def ast.Expr
			for _, cs := range s.Body.List {
				cc := cs.(*ast.CaseClause)
				r, ok := single(cc.Body)
				if !ok {
					return "", lostf("case %s", tr.src(cc))
				}
				switch len(cc.List) {
				case 0:
					def = r
				case 1:
					arms = append(arms, arm{cc.List[0], r})
				default:
					return "", lostf("case %s", tr.src(cc))
				}
			}
			if def != nil { // default is taken when no case holds, wherever it stands
				arms = append(arms, arm{nil, def})
				closed = true
			}
		default:
			return "", lostf("statement %s", tr.src(s))
		}
	}
	if !closed {
		return "", lostf("control reaches the end without a return")
	}
	var b strings.Builder
	fmt.Fprintf(&b, "/-- `OpenFile` of %s; a returned function `func(path, flags, mode)` is given by the flag word it passes to `os.OpenFile(path, ·, mode)` -/\n", rel)
	fmt.Fprintf(&b, "def openFile (%s : Go.T7.OpenFileOptions) : Go.T7.OpenFileFn :=\n", optsLean)
	for _, a := range arms {
		t, err := fn(a.ret)
		if err != nil {
			return "", err
		}
		if a.cond == nil {
			b.WriteString("  " + t + "\n")
			continue
		}
		cond, err := c.typed(a.cond, env{}, tBool)
		if err != nil {
			return "", err
		}
		fmt.Fprintf(&b, "  if %s then\n    %s\n  else\n", cond.text, t)
	}
	return b.String(), nil
}

// ---------------------------------------------------------------- targets

func (tr *translator) translateT7(emit func(string, unit, error) bool, wrap func(bool, string, string)) {
	if text, err := tr.t7openFile(); err != nil {
		emit("openFile", unit{}, err)
	} else {
		wrap(true, "openFile", text)
	}
	targets := []t3target{
		{rel: "writer.go", recv: "IndexWriter", name: "optimize", lean: "indexWriterOptimize", mode: "writer", recvOut: true, t7: true,
			worlds: []string{"$hp"},
			doc:    "`(*IndexWriter).optimize` of writer.go; every goroutine runs to completion where it is started; `rng_values` is the list of the pairs of `idx.values` in the order `range` yields them"},
		{rel: "writer.go", name: "NewIndexWriter", lean: "newIndexWriter", mode: "writer", t7: true,
			doc: "`NewIndexWriter` of writer.go"},
		{rel: "writer.go", recv: "IndexWriter", name: "Flush", lean: "indexWriterFlush", mode: "writer", useX: true, recvOut: true, t7: true,
			worlds: []string{"$fs", "$bolt", "$hp"}, opened: []string{"$bolt"},
			doc: "`(*IndexWriter).Flush` of writer.go; `fs` is the directory, `bolt` the database `bbolt.Open` returns; `rng_values` as in `writeToBoltDatabase`"},
		{rel: "writer_big.go", name: "NewBigIndexWriter", lean: "newBigIndexWriter", mode: "writer", t7: true, t7dual: true,
			worlds: []string{"$tbolt"}, dbWorlds: []string{"$bolt", "$tbolt"},
			doc: "`NewBigIndexWriter` of writer_big.go; `tbolt` is the temporary database `tempDB` (the output database `db` is not touched)"},
		{rel: "writer_big.go", recv: "BigIndexWriter", name: "Close", lean: "bigIndexWriterClose", mode: "writer", recvOut: true, t7: true, t7dual: true,
			worlds: []string{"$tbolt"},
			doc:    "`(*BigIndexWriter).Close` of writer_big.go; `tbolt` is the temporary database"},
		{rel: "writer_big.go", recv: "BigIndexWriter", name: "Flush", lean: "bigIndexWriterFlush", mode: "writer", useX: true, recvOut: true, t7: true, t7dual: true,
			worlds: []string{"$bolt", "$tbolt", "$hp"},
			doc:    "`(*BigIndexWriter).Flush` of writer_big.go; `bolt` is the output database `idx.db`, `tbolt` the temporary database `idx.tempDB`"},
		{rel: "index.go", name: "OpenIndex", lean: "openIndex", mode: "open", useX: true, t7: true,
			worlds: []string{"$fs", "$bolt", "$hp"}, opened: []string{"$bolt"},
			doc: "`OpenIndex` of index.go; `fs` is the directory, `bolt` the database `bbolt.Open` returns"},
		{rel: "index.go", recv: "Index", name: "Close", lean: "indexClose", mode: "open", recvOut: true, t7: true,
			worlds: []string{"$bolt"},
			doc:    "`(*Index).Close` of index.go"},
	}
	for _, tg := range targets {
		text, _, err := tr.t3func(tg)
		if err != nil {
			emit(tg.lean, unit{}, err)
			continue
		}
		wrap(true, tg.lean, text)
	}
}
