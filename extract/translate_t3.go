// translate_t3.go: translation of the EFFECTFUL functions of writer.go / types.go / index.go / writer_big.go
// (maps, pointers, mutexes, defer, bbolt) into state-passing Lean over Updog/Basic/GoPreludeT3.lean.
//
// A Go function becomes a Lean function from the worlds it touches (bolt : the bbolt database, hp : the heap of
// *roaring.Bitmap / *column objects), its receiver (by value) and its parameters to the new worlds, the updated
// receiver and the Go results. Every let-line of the output is derived from one Go statement; a statement outside
// the subset makes the function lost.
package main

import (
	"fmt"
	"go/ast"
	"go/token"
	"os"
	"path/filepath"
	"sort"
	"strconv"
	"strings"
)

// ---------------------------------------------------------------- types

type t3t struct {
	kind  string // bytes nbytes int u32 u64 byte bool error ptrBitmap ptrColumn map struct opt array slice addr db tx bucket cursor mutex cache metrics iface schemaVal func untyped nil
	lean  string
	key   *t3t
	val   *t3t
	sname string
	n     int
	world string // [t7] for db / tx / bucket / cursor values: the Bolt world they belong to ("" = "$bolt")
}

var (
	t3bytes     = &t3t{kind: "bytes", lean: "Bytes"}
	t3nbytes    = &t3t{kind: "nbytes", lean: "Option Bytes"}
	t3int       = &t3t{kind: "int", lean: "Int"}
	t3u32       = &t3t{kind: "u32", lean: "UInt32"}
	t3u64       = &t3t{kind: "u64", lean: "UInt64"}
	t3byte      = &t3t{kind: "byte", lean: "UInt8"}
	t3bool      = &t3t{kind: "bool", lean: "Bool"}
	t3error     = &t3t{kind: "error", lean: "Go.T3.Error"}
	t3ptrBitmap = &t3t{kind: "ptrBitmap", lean: "Go.T3.Ptr"}
	t3ptrColumn = &t3t{kind: "ptrColumn", lean: "Go.T3.Ptr"}
	t3db        = &t3t{kind: "db", lean: "Go.T3.DBRef"}
	t3tx        = &t3t{kind: "tx", lean: "Go.T3.TxRef"}
	t3bucket    = &t3t{kind: "bucket", lean: "Go.T3.BucketRef"}
	t3cursor    = &t3t{kind: "cursor", lean: "Go.T3.Cursor"}
	t3mutex     = &t3t{kind: "mutex", lean: "Go.T3.Mutex"}
	t3cache     = &t3t{kind: "cache", lean: "Go.T3.CacheRef"}
	t3metrics   = &t3t{kind: "metrics", lean: "Go.T3.MetricsRef"}
	t3colGetter = &t3t{kind: "iface", lean: "Go.T3.ColGetter", sname: "colGetter"}
	t3schemaVal = &t3t{kind: "schemaVal", lean: "Go.T3.SchemaVal"}
	t3indexOpt  = &t3t{kind: "func", lean: "Go.T3.IndexOption", sname: "IndexOption"}
	t3untyped   = &t3t{kind: "untyped", lean: "?"}
	t3nil       = &t3t{kind: "nil", lean: "?"}
	t3unit      = &t3t{kind: "unit", lean: "Unit"}
)

func t3map(k, v *t3t) *t3t {
	return &t3t{kind: "map", lean: fmt.Sprintf("Go.T3.GoMap %s %s", t3atom(k.lean), t3atom(v.lean)), key: k, val: v}
}
func t3opt(v *t3t) *t3t   { return &t3t{kind: "opt", lean: "Option " + t3atom(v.lean), val: v} }
func t3addr(v *t3t) *t3t  { return &t3t{kind: "addr", lean: "?", val: v} }
func t3slice(v *t3t) *t3t { return &t3t{kind: "slice", lean: "List " + t3atom(v.lean), val: v} }
func t3array(n int) *t3t  { return &t3t{kind: "array", lean: "Bytes", n: n} }

func t3atom(s string) string {
	if strings.ContainsAny(s, " ×") {
		return "(" + s + ")"
	}
	return s
}

// the structs of the prelude: Go struct name ↦ Lean structure, and the Lean type every modelled field must have
var t3structLean = map[string]string{
	"IndexWriter": "Go.T3.IndexWriter", "schema": "Go.T3.SchemaObj", "column": "Go.T3.Column", "Index": "Go.T3.Index",
	"onDemandColGetter": "Go.T3.OnDemandColGetter", "preloadedColGetter": "Go.T3.PreloadedColGetter",
	"BigIndexWriter": "Go.T3.BigIndexWriter",
}

var t3fieldLean = map[string]map[string]string{
	"IndexWriter": {"mtx": "Go.T3.Mutex", "schema": "Go.T3.SchemaObj", "values": "Go.T3.GoMap UInt64 Go.T3.Ptr",
		"nextRowID": "UInt32", "filename": "Bytes"},
	"schema": {"Columns": "Go.T3.GoMap Bytes Go.T3.Ptr"},
	"column": {"Values": "Go.T3.GoMap Bytes UInt64"},
	"Index": {"mtx": "Go.T3.Mutex", "schema": "Option Go.T3.SchemaVal", "nextRowID": "UInt32", "db": "Go.T3.DBRef",
		"values": "Go.T3.ColGetter", "cache": "Go.T3.CacheRef", "metrics": "Go.T3.MetricsRef"},
	"onDemandColGetter":  {"db": "Go.T3.DBRef"},
	"preloadedColGetter": {"values": "Go.T3.GoMap UInt64 Go.T3.Ptr"},
	"BigIndexWriter": {"mtx": "Go.T3.Mutex", "schema": "Go.T3.SchemaObj", "db": "Go.T3.DBRef", "tempDB": "Go.T3.DBRef",
		"tempTx": "Go.T3.TxRef", "nextRowID": "UInt32"},
}

func t3struct(name string) *t3t { return &t3t{kind: "struct", lean: t3structLean[name], sname: name} }

// which implementation structs convert to which interface constructor
var t3ifaceCtor = map[string]string{"onDemandColGetter": "Go.T3.ColGetter.onDemand", "preloadedColGetter": "Go.T3.ColGetter.preloaded"}

func (t *t3t) zero() (string, error) {
	switch t.kind {
	case "bytes":
		return "([] : Bytes)", nil
	case "nbytes":
		return "(none : Option Bytes)", nil
	case "int":
		return "(0 : Int)", nil
	case "u32":
		return "(0 : UInt32)", nil
	case "u64":
		return "(0 : UInt64)", nil
	case "byte":
		return "(0 : UInt8)", nil
	case "bool":
		return "false", nil
	case "error":
		return "Go.T3.nilError", nil
	case "ptrBitmap", "ptrColumn":
		return "Go.T3.nilPtr", nil
	case "array":
		return fmt.Sprintf("(Go.T3.zeroBytes %d)", t.n), nil
	case "schemaVal":
		return "([] : Go.T3.SchemaVal)", nil
	case "map":
		return "Go.T3.makeMap", nil
	case "struct":
		return fmt.Sprintf("({} : %s)", t.lean), nil
	case "opt", "db", "tx", "bucket":
		return fmt.Sprintf("(none : %s)", t.lean), nil
	case "waitgroup": // [t7]
		return "({} : Go.T7.WaitGroup)", nil
	}
	return "", lostf("zero value of %s", t.lean)
}

// ---------------------------------------------------------------- context

type t3bind struct {
	lean  string
	typ   *t3t
	id    int
	scope int
}

type t3env map[string]*t3bind

func (e t3env) with(name string, b *t3bind) t3env {
	n := t3env{}
	for k, v := range e {
		n[k] = v
	}
	n[name] = b
	return n
}

// a deferred piece of code: given the scope at the return and the continuation, the lines that run it
type t3defer func(sc t3sc, k t3cont) ([]string, error)

// function frame: how a `return` is built
type t3frame struct {
	results []*t3t
	outs    []*t3bind // variables whose current Lean values are returned in front of the results
	stOuts  []*t3bind // for closures given to db.View: the captured variables, returned as one tuple after bolt
	closure bool
	retType string // Lean type of the tuple a `return` builds
}

// scope: everything a statement needs to know; copied, never mutated
type t3sc struct {
	en      t3env
	defers  []t3defer
	scope   int
	fr      *t3frame
	wrapRet func(string) string // inside a loop body that may return
}

type t3cont func(sc t3sc) ([]string, error)

// functions translated so far, callable from later targets: "recvStruct.method" or "function"
var t3sigs = map[string]*t3sig{}

type t3sig struct {
	lean     string
	useH     bool
	useX     bool
	worlds   []string
	recv     *t3t
	recvOut  bool
	params   []*t3t
	paramOut []bool
	results  []*t3t
	rngs     []lparamT3 // [t7] map enumerations the function takes in front of its worlds
}

type t3ctx struct {
	tr        *translator
	file      *ast.File
	rel       string
	mode      string // "writer" | "open"
	useH      bool
	useX      bool
	worlds    map[string]bool // worlds this target may touch
	consts    map[string]int64
	nextID    int
	nextSc    int
	lean      string // Lean name of the target (prefix of the loop helpers)
	guarded   string // Go name of the receiver whose struct has a mutex `mtx` ("" = none)
	guardedID int
	loopNo    map[ast.Node]int  // number of each loop statement, in order of first translation
	aux       map[string]string // loop helper definitions, by name
	auxOrd    []string
	mod       map[int]bool
	rngs      []lparamT3
	rngSeen   map[string]bool
	names     map[string]int // Lean names handed out (for shadowing)
	usedH     bool
	usedX     bool
	t7        bool               // [t7] a target of translate_t7.go: the additional forms are on
	t7dual    bool               // [t7] BigIndexWriter.tempDB / tempTx live in the world $tbolt
	t7opened  map[string]*t3bind // [t7] worlds that bbolt.Open creates inside the function
	t7inl     map[string]bool    // [t7] helper functions being translated in place
}

type lparamT3 struct{ lean, typ string }

var t3worldType = map[string]*t3t{
	"$bolt": {kind: "world", lean: "Go.T3.Bolt"},
	"$hp":   {kind: "world", lean: "Go.T3.Heap"},
}

func (c *t3ctx) fresh(goName string, en t3env) (string, error) {
	ln, err := leanIdent(goName)
	if err != nil {
		return "", err
	}
	switch ln {
	case "bolt", "hp", "X", "st", "go_result", "kv":
		ln = ln + "'"
	}
	inUse := func(s string) bool {
		for _, b := range en {
			if b.lean == s {
				return true
			}
		}
		return false
	}
	if !inUse(ln) {
		return ln, nil
	}
	for i := 1; ; i++ {
		s := fmt.Sprintf("%s_%d", ln, i)
		if !inUse(s) {
			return s, nil
		}
	}
}

func (c *t3ctx) declare(sc t3sc, goName string, t *t3t) (t3sc, *t3bind, error) {
	ln, err := c.fresh(goName, sc.en)
	if err != nil {
		return sc, nil, err
	}
	c.nextID++
	b := &t3bind{lean: ln, typ: t, id: c.nextID, scope: sc.scope}
	sc.en = sc.en.with(goName, b)
	return sc, b, nil
}

func (c *t3ctx) touch(b *t3bind) {
	if c.mod != nil {
		c.mod[b.id] = true
	}
}

func (c *t3ctx) world(sc t3sc, w string) (*t3bind, error) {
	b, ok := sc.en[w]
	if !ok || !c.worlds[w] {
		return nil, lostf("touches the world %s, which this target does not take", strings.TrimPrefix(w, "$"))
	}
	return b, nil
}

// collect: run f with a fresh modification collector; returns the ids modified
func (c *t3ctx) collect(f func() error) (map[int]bool, error) {
	old := c.mod
	c.mod = map[int]bool{}
	err := f()
	got := c.mod
	c.mod = old
	if old != nil {
		for id := range got {
			old[id] = true
		}
	}
	return got, err
}

// outer bindings of `en` (deterministic order) whose ids are in mod
func t3modified(en t3env, mod map[int]bool) []*t3bind {
	var out []*t3bind
	seen := map[int]bool{}
	for _, b := range en {
		if mod[b.id] && !seen[b.id] {
			seen[b.id] = true
			out = append(out, b)
		}
	}
	sort.Slice(out, func(i, j int) bool {
		wi, wj := out[i].typ.kind == "world", out[j].typ.kind == "world"
		if wi != wj {
			return wi
		}
		return out[i].id < out[j].id
	})
	return out
}

func t3tuple(bs []*t3bind) (names, types string) {
	if len(bs) == 0 {
		return "()", "Unit"
	}
	var ns, ts []string
	for _, b := range bs {
		ns = append(ns, b.lean)
		ts = append(ts, t3atom(b.typ.lean))
	}
	if len(bs) == 1 {
		return ns[0], bs[0].typ.lean
	}
	return "(" + strings.Join(ns, ", ") + ")", strings.Join(ts, " × ")
}

func t3indent(lines []string) []string {
	out := make([]string, len(lines))
	for i, l := range lines {
		out[i] = "  " + l
	}
	return out
}

// findStruct: the declaration of struct type `name` in the package directory of rel
func (tr *translator) t3findStruct(rel, name string) (*ast.File, *ast.StructType) {
	dir := filepath.Dir(rel)
	ents, err := os.ReadDir(filepath.Join(tr.repo, dir))
	if err != nil {
		return nil, nil
	}
	for _, e := range ents {
		if e.IsDir() || !strings.HasSuffix(e.Name(), ".go") || strings.HasSuffix(e.Name(), "_test.go") {
			continue
		}
		f := tr.load(filepath.Join(dir, e.Name()))
		if f == nil {
			continue
		}
		for _, d := range f.Decls {
			gd, ok := d.(*ast.GenDecl)
			if !ok || gd.Tok != token.TYPE {
				continue
			}
			for _, s := range gd.Specs {
				ts := s.(*ast.TypeSpec)
				if st, ok := ts.Type.(*ast.StructType); ok && ts.Name.Name == name {
					return f, st
				}
			}
		}
	}
	return nil, nil
}

// goType: a Go type expression ↦ the subset
func (c *t3ctx) goType(e ast.Expr) (*t3t, error) {
	s := c.tr.src(e)
	switch s {
	case "string", "[]byte", "[]uint8", "bytes.Buffer":
		return t3bytes, nil
	case "int":
		return t3int, nil
	case "uint32":
		return t3u32, nil
	case "uint64":
		return t3u64, nil
	case "byte", "uint8":
		return t3byte, nil
	case "bool":
		return t3bool, nil
	case "error":
		return t3error, nil
	case "*roaring.Bitmap":
		return t3ptrBitmap, nil
	case "*column":
		return t3ptrColumn, nil
	case "*bbolt.DB":
		return t3db, nil
	case "*bbolt.Tx":
		return t3tx, nil
	case "*bbolt.Bucket":
		return t3bucket, nil
	case "*bbolt.Cursor":
		return t3cursor, nil
	case "sync.RWMutex", "sync.Mutex":
		return t3mutex, nil
	case "Cache":
		return t3cache, nil
	case "*IndexMetrics":
		return t3metrics, nil
	case "colGetter":
		return t3colGetter, nil
	case "IndexOption":
		return t3indexOpt, nil
	case "...IndexOption", "[]IndexOption":
		return t3slice(t3indexOpt), nil
	case "schema":
		if c.mode == "open" {
			return t3schemaVal, nil
		}
		return t3struct("schema"), nil
	case "*schema":
		if c.mode == "open" {
			return t3opt(t3schemaVal), nil
		}
		return t3struct("schema"), nil
	case "*IndexWriter", "*Index", "*onDemandColGetter", "*preloadedColGetter", "*BigIndexWriter":
		return t3struct(strings.TrimPrefix(s, "*")), nil
	}
	switch e := e.(type) {
	case *ast.MapType:
		k, err := c.goType(e.Key)
		if err != nil {
			return nil, err
		}
		v, err := c.goType(e.Value)
		if err != nil {
			return nil, err
		}
		return t3map(k, v), nil
	case *ast.ArrayType:
		if e.Len != nil && c.tr.src(e.Elt) == "byte" {
			if n, err := strconv.Atoi(c.tr.src(e.Len)); err == nil && n > 0 && n <= 64 {
				return t3array(n), nil
			}
		}
	}
	if c.t7 && s == "sync.WaitGroup" { // [t7]
		return t7waitGroup, nil
	}
	return nil, lostf("type %s is outside the subset", s)
}

// fieldType: type of field `f` of Go struct `sname`, read from its declaration and checked against the prelude
func (c *t3ctx) fieldType(sname, f string) (*t3t, error) {
	_, st := c.tr.t3findStruct(c.rel, sname)
	if st == nil {
		return nil, lostf("struct %s not found", sname)
	}
	for _, fl := range st.Fields.List {
		for _, id := range fl.Names {
			if id.Name != f {
				continue
			}
			t, err := c.goType(fl.Type)
			if err != nil {
				return nil, err
			}
			want, ok := t3fieldLean[sname][f]
			if !ok || want != t.lean {
				return nil, lostf("field %s.%s has type %s (%s), the prelude models %q", sname, f, c.tr.src(fl.Type), t.lean, want)
			}
			t = c.t7fieldWorld(sname, f, t) // [t7] the temporary database of a BigIndexWriter is a world of its own
			return t, nil
		}
	}
	return nil, lostf("struct %s has no field %s", sname, f)
}

// ---------------------------------------------------------------- values, conversion

type t3v struct {
	text string
	typ  *t3t
	k    int64
}

func (c *t3ctx) conv(v t3v, to *t3t) (t3v, error) {
	f := v.typ
	if f.kind == to.kind && f.lean == to.lean {
		if t7boltOf(f) != t7boltOf(to) { // [t7] a handle of one database is not a handle of the other
			return t3v{}, lostf("a %s of the database %s used as one of %s", f.kind, strings.TrimPrefix(t7boltOf(f), "$"), strings.TrimPrefix(t7boltOf(to), "$"))
		}
		return v, nil
	}
	switch {
	case f.kind == "untyped":
		switch to.kind {
		case "int":
			return t3v{text: fmt.Sprintf("(%d : Int)", v.k), typ: to}, nil
		case "u32":
			if v.k >= 0 && v.k <= 0xFFFFFFFF {
				return t3v{text: fmt.Sprintf("(%d : UInt32)", v.k), typ: to}, nil
			}
		case "u64":
			if v.k >= 0 {
				return t3v{text: fmt.Sprintf("(%d : UInt64)", v.k), typ: to}, nil
			}
		case "byte":
			if v.k >= 0 && v.k <= 255 {
				return t3v{text: fmt.Sprintf("(%d : UInt8)", v.k), typ: to}, nil
			}
		}
		return t3v{}, lostf("constant %d does not convert to %s", v.k, to.lean)
	case f.kind == "nil":
		switch to.kind {
		case "error":
			return t3v{text: "Go.T3.nilError", typ: to}, nil
		case "ptrBitmap", "ptrColumn":
			return t3v{text: "Go.T3.nilPtr", typ: to}, nil
		case "nbytes", "opt", "db", "tx", "bucket":
			return t3v{text: fmt.Sprintf("(none : %s)", to.lean), typ: to}, nil
		case "iface":
			return t3v{text: "Go.T3.ColGetter.nil", typ: to}, nil
		case "cache":
			return t3v{text: "Go.T3.CacheRef.nil", typ: to}, nil
		case "metrics":
			return t3v{text: "Go.T3.MetricsRef.nil", typ: to}, nil
		}
	case f.kind == "array" && to.kind == "bytes", f.kind == "bytes" && to.kind == "array":
		return t3v{text: v.text, typ: to}, nil
	case f.kind == "nbytes" && to.kind == "bytes":
		return t3v{text: fmt.Sprintf("(Go.T3.bytesOf %s)", v.text), typ: to}, nil
	case f.kind == "addr" && to.kind == "opt" && f.val.lean == to.val.lean:
		return t3v{text: fmt.Sprintf("(some %s)", v.text), typ: to}, nil
	case f.kind == "addr" && f.val.kind == "struct":
		return c.conv(t3v{text: v.text, typ: f.val}, to)
	case f.kind == "struct" && to.kind == "opt" && to.val.kind == "struct" && to.val.sname == f.sname:
		return t3v{text: fmt.Sprintf("(some %s)", v.text), typ: to}, nil
	case f.kind == "struct" && to.kind == "iface":
		if ctor, ok := t3ifaceCtor[f.sname]; ok {
			return t3v{text: fmt.Sprintf("(%s %s)", ctor, v.text), typ: to}, nil
		}
	}
	return t3v{}, lostf("type mismatch: have %s (%s), want %s (%s)", f.lean, f.kind, to.lean, to.kind)
}

// ---------------------------------------------------------------- pure expressions

func (c *t3ctx) free(name string, sc t3sc) bool {
	if _, ok := sc.en[name]; ok {
		return false
	}
	return !c.tr.pkgDeclares(c.rel, name)
}

func (c *t3ctx) pkgSel(e ast.Expr, sc t3sc, pkg, path, sel string) bool {
	s, ok := e.(*ast.SelectorExpr)
	if !ok || s.Sel.Name != sel {
		return false
	}
	id, ok := s.X.(*ast.Ident)
	if !ok || id.Name != pkg {
		return false
	}
	if _, local := sc.en[pkg]; local {
		return false
	}
	return imports(c.file, pkg, path)
}

func (c *t3ctx) builtin(e ast.Expr, sc t3sc, name string) bool {
	id, ok := e.(*ast.Ident)
	return ok && id.Name == name && c.free(name, sc)
}

// method call X.m(args…): returns X and the arguments when e has that shape
func t3method(e *ast.CallExpr, m string, nargs int) (ast.Expr, bool) {
	s, ok := e.Fun.(*ast.SelectorExpr)
	if !ok || s.Sel.Name != m || len(e.Args) != nargs {
		return nil, false
	}
	return s.X, true
}

// package-level `var name = []byte{…}` of the package, as Lean bytes literal
func (tr *translator) t3pkgBytesVar(rel, name string) (string, bool) {
	f := tr.load(rel)
	if f == nil {
		return "", false
	}
	for _, d := range f.Decls {
		gd, ok := d.(*ast.GenDecl)
		if !ok || gd.Tok != token.VAR {
			continue
		}
		for _, s := range gd.Specs {
			vs := s.(*ast.ValueSpec)
			if vs.Type != nil || len(vs.Values) != len(vs.Names) {
				continue
			}
			for i, id := range vs.Names {
				if id.Name != name {
					continue
				}
				cl, ok := vs.Values[i].(*ast.CompositeLit)
				if !ok || tr.src(cl.Type) != "[]byte" {
					return "", false
				}
				var parts []string
				for _, el := range cl.Elts {
					bl, ok := el.(*ast.BasicLit)
					if !ok {
						return "", false
					}
					var k int64
					switch bl.Kind {
					case token.CHAR:
						r, _, _, err := strconv.UnquoteChar(bl.Value[1:len(bl.Value)-1], '\'')
						if err != nil {
							return "", false
						}
						k = int64(r)
					case token.INT:
						var err error
						if k, err = strconv.ParseInt(bl.Value, 0, 64); err != nil {
							return "", false
						}
					default:
						return "", false
					}
					if k < 0 || k > 255 {
						return "", false
					}
					parts = append(parts, strconv.FormatInt(k, 10))
				}
				return "([" + strings.Join(parts, ", ") + "] : Bytes)", true
			}
		}
	}
	return "", false
}

func (c *t3ctx) typed(e ast.Expr, sc t3sc, t *t3t) (t3v, error) {
	v, err := c.expr(e, sc)
	if err != nil {
		return t3v{}, err
	}
	return c.conv(v, t)
}

func (c *t3ctx) expr(e ast.Expr, sc t3sc) (t3v, error) {
	switch e := e.(type) {
	case *ast.ParenExpr:
		return c.expr(e.X, sc)
	case *ast.BasicLit:
		switch e.Kind {
		case token.INT:
			k, err := strconv.ParseInt(e.Value, 0, 64)
			if err != nil {
				return t3v{}, lostf("integer literal %s", e.Value)
			}
			return t3v{typ: t3untyped, k: k}, nil
		case token.CHAR:
			r, _, _, err := strconv.UnquoteChar(e.Value[1:len(e.Value)-1], '\'')
			if err != nil {
				return t3v{}, lostf("char literal %s", e.Value)
			}
			return t3v{typ: t3untyped, k: int64(r)}, nil
		case token.STRING:
			s, err := strconv.Unquote(e.Value)
			if err != nil {
				return t3v{}, lostf("string literal %s", e.Value)
			}
			return t3v{text: bytesLit(s), typ: t3bytes}, nil
		}
		return t3v{}, lostf("literal %s", e.Value)
	case *ast.Ident:
		if b, ok := sc.en[e.Name]; ok {
			return t3v{text: b.lean, typ: b.typ}, nil
		}
		if !c.free(e.Name, sc) {
			if k, ok := c.consts[e.Name]; ok {
				return t3v{typ: t3untyped, k: k}, nil
			}
			if c.tr.done[e.Name] {
				if _, ok := c.tr.t3pkgBytesVar("writer.go", e.Name); ok {
					return t3v{text: e.Name, typ: t3bytes}, nil
				}
			}
			return t3v{}, lostf("identifier %s is not a variable of the subset", e.Name)
		}
		switch e.Name {
		case "true", "false":
			return t3v{text: e.Name, typ: t3bool}, nil
		case "nil":
			return t3v{typ: t3nil}, nil
		}
		return t3v{}, lostf("identifier %s is not a variable of the subset", e.Name)
	case *ast.SelectorExpr:
		x, err := c.expr(e.X, sc)
		if err != nil {
			return t3v{}, err
		}
		switch x.typ.kind {
		case "struct":
			ft, err := c.fieldType(x.typ.sname, e.Sel.Name)
			if err != nil {
				return t3v{}, err
			}
			return t3v{text: x.text + "." + e.Sel.Name, typ: ft}, nil
		case "ptrColumn":
			ft, err := c.fieldType("column", e.Sel.Name)
			if err != nil {
				return t3v{}, err
			}
			hp, err := c.world(sc, "$hp")
			if err != nil {
				return t3v{}, err
			}
			return t3v{text: fmt.Sprintf("(Go.T3.columnAt %s %s).%s", hp.lean, x.text, e.Sel.Name), typ: ft}, nil
		}
		return t3v{}, lostf("selector %s on %s", c.tr.src(e), x.typ.kind)
	case *ast.UnaryExpr:
		if e.Op == token.AND {
			if cl, ok := e.X.(*ast.CompositeLit); ok {
				switch c.tr.src(cl.Type) {
				case "nullCache":
					if len(cl.Elts) == 0 {
						return t3v{text: "Go.T3.CacheRef.nullCache", typ: t3cache}, nil
					}
				case "IndexMetrics":
					if len(cl.Elts) == 0 {
						return t3v{text: "Go.T3.MetricsRef.fresh", typ: t3metrics}, nil
					}
				case "column":
					return t3v{}, lostf("&column{…} allocates: only as the right-hand side of an assignment")
				}
			}
			x, err := c.expr(e.X, sc)
			if err != nil {
				return t3v{}, err
			}
			if x.typ.kind == "struct" || x.typ.kind == "schemaVal" {
				return t3v{text: x.text, typ: t3addr(x.typ)}, nil
			}
			return t3v{}, lostf("address of %s", x.typ.kind)
		}
		x, err := c.expr(e.X, sc)
		if err != nil {
			return t3v{}, err
		}
		switch {
		case e.Op == token.NOT && x.typ.kind == "bool":
			return t3v{text: "(!" + x.text + ")", typ: t3bool}, nil
		case e.Op == token.SUB && x.typ.kind == "untyped":
			return t3v{typ: t3untyped, k: -x.k}, nil
		}
		return t3v{}, lostf("unary %s on %s", e.Op, x.typ.kind)
	case *ast.BinaryExpr:
		return c.binary(e, sc)
	case *ast.IndexExpr:
		m, err := c.expr(e.X, sc)
		if err != nil {
			return t3v{}, err
		}
		if m.typ.kind != "map" {
			return t3v{}, lostf("index into %s", m.typ.kind)
		}
		k, err := c.typed(e.Index, sc, m.typ.key)
		if err != nil {
			return t3v{}, err
		}
		z, err := m.typ.val.zero()
		if err != nil {
			return t3v{}, err
		}
		return t3v{text: fmt.Sprintf("(Go.T3.mapGet %s %s %s)", m.text, k.text, z), typ: m.typ.val}, nil
	case *ast.SliceExpr:
		if e.Slice3 {
			return t3v{}, lostf("3-index slice")
		}
		x, err := c.expr(e.X, sc)
		if err != nil {
			return t3v{}, err
		}
		if x.typ.kind == "nbytes" {
			if x, err = c.conv(x, t3bytes); err != nil {
				return t3v{}, err
			}
		}
		if x.typ.kind != "bytes" && x.typ.kind != "array" {
			return t3v{}, lostf("slice of %s", x.typ.kind)
		}
		var lo, hi t3v
		if e.Low != nil {
			if lo, err = c.typed(e.Low, sc, t3int); err != nil {
				return t3v{}, err
			}
		}
		if e.High != nil {
			if hi, err = c.typed(e.High, sc, t3int); err != nil {
				return t3v{}, err
			}
		}
		switch {
		case e.Low == nil && e.High == nil:
			return t3v{text: x.text, typ: t3bytes}, nil
		case e.High == nil:
			return t3v{text: fmt.Sprintf("(Go.sliceFrom %s %s)", x.text, lo.text), typ: t3bytes}, nil
		case e.Low == nil:
			return t3v{text: fmt.Sprintf("(Go.sliceTo %s %s)", x.text, hi.text), typ: t3bytes}, nil
		}
		return t3v{text: fmt.Sprintf("(Go.slice %s %s %s)", x.text, lo.text, hi.text), typ: t3bytes}, nil
	case *ast.CompositeLit:
		return c.composite(e, sc)
	case *ast.CallExpr:
		return c.pureCall(e, sc)
	}
	return t3v{}, lostf("expression %s", c.tr.src(e))
}

func (c *t3ctx) composite(e *ast.CompositeLit, sc t3sc) (t3v, error) {
	ts := c.tr.src(e.Type)
	switch ts {
	case "[]byte":
		var parts []string
		for _, el := range e.Elts {
			v, err := c.typed(el, sc, t3byte)
			if err != nil {
				return t3v{}, err
			}
			parts = append(parts, v.text)
		}
		return t3v{text: "([" + strings.Join(parts, ", ") + "] : Bytes)", typ: t3bytes}, nil
	}
	if _, ok := e.Type.(*ast.MapType); ok {
		t, err := c.goType(e.Type)
		if err != nil {
			return t3v{}, err
		}
		if len(e.Elts) != 0 {
			return t3v{}, lostf("non-empty map literal")
		}
		return t3v{text: "Go.T3.makeMap", typ: t}, nil
	}
	if ln, ok := t3structLean[ts]; ok && (ts != "schema" || c.t7 && c.mode == "writer") { // [t7] &schema{…} of the constructors
		var parts []string
		for _, el := range e.Elts {
			kv, ok := el.(*ast.KeyValueExpr)
			if !ok {
				return t3v{}, lostf("positional struct literal %s", ts)
			}
			fname := c.tr.src(kv.Key)
			ft, err := c.fieldType(ts, fname)
			if err != nil {
				return t3v{}, err
			}
			v, err := c.typed(kv.Value, sc, ft)
			if err != nil {
				return t3v{}, err
			}
			parts = append(parts, fmt.Sprintf("%s := %s", fname, v.text))
		}
		if len(parts) == 0 {
			return t3v{text: fmt.Sprintf("({} : %s)", ln), typ: t3struct(ts)}, nil
		}
		return t3v{text: fmt.Sprintf("({ %s } : %s)", strings.Join(parts, ", "), ln), typ: t3struct(ts)}, nil
	}
	return t3v{}, lostf("composite literal %s", ts)
}

func (c *t3ctx) binary(e *ast.BinaryExpr, sc t3sc) (t3v, error) {
	a, err := c.expr(e.X, sc)
	if err != nil {
		return t3v{}, err
	}
	b, err := c.expr(e.Y, sc)
	if err != nil {
		return t3v{}, err
	}
	if e.Op == token.LAND || e.Op == token.LOR {
		if a.typ.kind != "bool" || b.typ.kind != "bool" {
			return t3v{}, lostf("%s on non-booleans", e.Op)
		}
		op := "&&"
		if e.Op == token.LOR {
			op = "||"
		}
		return t3v{text: fmt.Sprintf("(%s %s %s)", a.text, op, b.text), typ: t3bool}, nil
	}
	// comparison with nil
	if (e.Op == token.EQL || e.Op == token.NEQ) && (a.typ.kind == "nil" || b.typ.kind == "nil") {
		x := a
		if a.typ.kind == "nil" {
			x = b
		}
		var isNil string
		switch x.typ.kind {
		case "error":
			isNil = fmt.Sprintf("(!(Go.T3.isErr %s))", x.text)
			if e.Op == token.NEQ {
				return t3v{text: fmt.Sprintf("(Go.T3.isErr %s)", x.text), typ: t3bool}, nil
			}
		case "nbytes", "opt", "db", "tx", "bucket", "ptrBitmap", "ptrColumn":
			isNil = fmt.Sprintf("(Option.isNone %s)", x.text)
			if e.Op == token.NEQ {
				return t3v{text: fmt.Sprintf("(Option.isSome %s)", x.text), typ: t3bool}, nil
			}
		case "iface":
			isNil = fmt.Sprintf("(Go.T3.ColGetter.isNil %s)", x.text)
			if e.Op == token.NEQ {
				return t3v{text: "(!" + isNil + ")", typ: t3bool}, nil
			}
		default:
			return t3v{}, lostf("comparison of %s with nil", x.typ.kind)
		}
		return t3v{text: isNil, typ: t3bool}, nil
	}
	switch {
	case a.typ.kind == "untyped" && b.typ.kind == "untyped":
		return t3v{}, lostf("constant expression of two untyped constants")
	case a.typ.kind == "untyped":
		if a, err = c.conv(a, b.typ); err != nil {
			return t3v{}, err
		}
	case b.typ.kind == "untyped":
		if b, err = c.conv(b, a.typ); err != nil {
			return t3v{}, err
		}
	case a.typ.kind != b.typ.kind:
		return t3v{}, lostf("operands of different types %s and %s", a.typ.kind, b.typ.kind)
	}
	t := a.typ
	num := t.kind == "int" || t.kind == "u32" || t.kind == "u64" || t.kind == "byte"
	switch e.Op {
	case token.EQL, token.NEQ:
		if !(num || t.kind == "bool" || t.kind == "bytes") {
			return t3v{}, lostf("== on %s", t.kind)
		}
		op := "=="
		if e.Op == token.NEQ {
			op = "!="
		}
		return t3v{text: fmt.Sprintf("(%s %s %s)", a.text, op, b.text), typ: t3bool}, nil
	case token.LSS, token.LEQ, token.GTR, token.GEQ:
		if !num {
			return t3v{}, lostf("%s on %s", e.Op, t.kind)
		}
		op := map[token.Token]string{token.LSS: "<", token.LEQ: "≤", token.GTR: ">", token.GEQ: "≥"}[e.Op]
		return t3v{text: fmt.Sprintf("(decide (%s %s %s))", a.text, op, b.text), typ: t3bool}, nil
	case token.ADD, token.SUB:
		if !num {
			return t3v{}, lostf("arithmetic %s on %s", e.Op, t.kind)
		}
		return t3v{text: fmt.Sprintf("(%s %s %s)", a.text, e.Op, b.text), typ: t}, nil
	case token.REM:
		switch t.kind {
		case "int":
			return t3v{text: fmt.Sprintf("(Go.T3.intMod %s %s)", a.text, b.text), typ: t}, nil
		case "u32", "u64":
			return t3v{text: fmt.Sprintf("(%s %% %s)", a.text, b.text), typ: t}, nil
		}
	}
	return t3v{}, lostf("operator %s on %s", e.Op, t.kind)
}

// calls without effect on any world
func (c *t3ctx) pureCall(e *ast.CallExpr, sc t3sc) (t3v, error) {
	n := len(e.Args)
	if c.t7 { // [t7] fmt.Errorf("… %d", n)
		if v, ok, err := c.t7pure(e, sc); ok || err != nil {
			return v, err
		}
	}
	switch {
	case c.builtin(e.Fun, sc, "len") && n == 1:
		x, err := c.expr(e.Args[0], sc)
		if err != nil {
			return t3v{}, err
		}
		switch x.typ.kind {
		case "nbytes":
			return t3v{text: fmt.Sprintf("(Go.len (Go.T3.bytesOf %s))", x.text), typ: t3int}, nil
		case "bytes", "array", "map", "slice":
			return t3v{text: fmt.Sprintf("(Go.len %s)", x.text), typ: t3int}, nil
		}
		return t3v{}, lostf("len of %s", x.typ.kind)
	case c.builtin(e.Fun, sc, "append") && n == 2 && e.Ellipsis.IsValid():
		x, err := c.typed(e.Args[0], sc, t3bytes)
		if err != nil {
			return t3v{}, err
		}
		y, err := c.typed(e.Args[1], sc, t3bytes)
		if err != nil {
			return t3v{}, err
		}
		return t3v{text: fmt.Sprintf("(%s ++ %s)", x.text, y.text), typ: t3bytes}, nil
	case c.builtin(e.Fun, sc, "make") && n == 1:
		if _, ok := e.Args[0].(*ast.MapType); ok {
			t, err := c.goType(e.Args[0])
			if err != nil {
				return t3v{}, err
			}
			return t3v{text: "Go.T3.makeMap", typ: t}, nil
		}
		return t3v{}, lostf("make(%s)", c.tr.src(e.Args[0]))
	}
	if at, ok := e.Fun.(*ast.ArrayType); ok && n == 1 && at.Len == nil && c.tr.src(at.Elt) == "byte" && c.free("byte", sc) {
		return c.typed(e.Args[0], sc, t3bytes)
	}
	switch {
	case c.pkgSel(e.Fun, sc, "errors", "errors", "New") && n == 1:
		m, err := c.typed(e.Args[0], sc, t3bytes)
		if err != nil {
			return t3v{}, err
		}
		return t3v{text: fmt.Sprintf("(Go.T3.errorsNew %s)", m.text), typ: t3error}, nil
	case c.pkgSel(e.Fun, sc, "fmt", "fmt", "Errorf") && n == 2:
		lit, ok := e.Args[0].(*ast.BasicLit)
		if !ok || lit.Kind != token.STRING {
			return t3v{}, lostf("fmt.Errorf with a non-literal format")
		}
		f, err := strconv.Unquote(lit.Value)
		if err != nil || !strings.HasSuffix(f, "%w") || strings.Count(f, "%") != 1 {
			return t3v{}, lostf("fmt.Errorf format %s is not \"…%%w\"", lit.Value)
		}
		w, err := c.typed(e.Args[1], sc, t3error)
		if err != nil {
			return t3v{}, err
		}
		return t3v{text: fmt.Sprintf("(Go.T3.errorf %s %s)", bytesLit(strings.TrimSuffix(f, "%w")), w.text), typ: t3error}, nil
	case c.pkgSel(e.Fun, sc, "bytes", "bytes", "HasPrefix") && n == 2:
		s, err := c.typed(e.Args[0], sc, t3bytes)
		if err != nil {
			return t3v{}, err
		}
		p, err := c.typed(e.Args[1], sc, t3bytes)
		if err != nil {
			return t3v{}, err
		}
		return t3v{text: fmt.Sprintf("(Go.T3.hasPrefix %s %s)", s.text, p.text), typ: t3bool}, nil
	}
	// binary.BigEndian.Uint32 / Uint64
	if s, ok := e.Fun.(*ast.SelectorExpr); ok && n == 1 && c.pkgSel(s.X, sc, "binary", "encoding/binary", "BigEndian") {
		switch s.Sel.Name {
		case "Uint32", "Uint64":
			b, err := c.typed(e.Args[0], sc, t3bytes)
			if err != nil {
				return t3v{}, err
			}
			if s.Sel.Name == "Uint32" {
				return t3v{text: fmt.Sprintf("(Go.T3.beUint32 %s)", b.text), typ: t3u32}, nil
			}
			return t3v{text: fmt.Sprintf("(Go.T3.beUint64 %s)", b.text), typ: t3u64}, nil
		}
	}
	// getValueIndex(k, v)
	if id, ok := e.Fun.(*ast.Ident); ok && id.Name == "getValueIndex" && n == 2 && c.tr.done["getValueIndex"] {
		if _, local := sc.en[id.Name]; !local {
			if !c.useH {
				return t3v{}, lostf("getValueIndex in a target without H")
			}
			a, err := c.typed(e.Args[0], sc, t3bytes)
			if err != nil {
				return t3v{}, err
			}
			b, err := c.typed(e.Args[1], sc, t3bytes)
			if err != nil {
				return t3v{}, err
			}
			c.usedH = true
			return t3v{text: fmt.Sprintf("(getValueIndex H %s %s)", a.text, b.text), typ: t3u64}, nil
		}
	}
	// methods that only read the worlds
	if x, ok := t3method(e, "Bytes", 0); ok {
		v, err := c.expr(x, sc)
		if err != nil {
			return t3v{}, err
		}
		if v.typ.kind == "bytes" {
			return v, nil
		}
		return t3v{}, lostf(".Bytes() on %s", v.typ.kind)
	}
	if x, ok := t3method(e, "Bucket", 1); ok {
		tx, err := c.expr(x, sc)
		if err != nil {
			return t3v{}, err
		}
		if tx.typ.kind == "tx" {
			bolt, err := c.world(sc, t7boltOf(tx.typ)) // [t7] was "$bolt"
			if err != nil {
				return t3v{}, err
			}
			nm, err := c.typed(e.Args[0], sc, t3bytes)
			if err != nil {
				return t3v{}, err
			}
			return t3v{text: fmt.Sprintf("(Go.T3.txBucket %s %s %s)", bolt.lean, tx.text, nm.text), typ: t7in(t3bucket, tx.typ)}, nil // [t7] typ was t3bucket
		}
		return t3v{}, lostf(".Bucket on %s", tx.typ.kind)
	}
	if x, ok := t3method(e, "Get", 1); ok {
		bk, err := c.expr(x, sc)
		if err != nil {
			return t3v{}, err
		}
		if bk.typ.kind == "bucket" {
			bolt, err := c.world(sc, t7boltOf(bk.typ)) // [t7] was "$bolt"
			if err != nil {
				return t3v{}, err
			}
			k, err := c.typed(e.Args[0], sc, t3bytes)
			if err != nil {
				return t3v{}, err
			}
			return t3v{text: fmt.Sprintf("(Go.T3.bucketGet %s %s %s)", bolt.lean, bk.text, k.text), typ: t3nbytes}, nil
		}
		return t3v{}, lostf(".Get on %s", bk.typ.kind)
	}
	if x, ok := t3method(e, "Cursor", 0); ok {
		bk, err := c.expr(x, sc)
		if err != nil {
			return t3v{}, err
		}
		if bk.typ.kind == "bucket" {
			return t3v{text: fmt.Sprintf("(Go.T3.bucketCursor %s)", bk.text), typ: t7in(t3cursor, bk.typ)}, nil // [t7] typ was t3cursor
		}
		return t3v{}, lostf(".Cursor on %s", bk.typ.kind)
	}
	return t3v{}, lostf("call %s is not a pure call of the subset", c.tr.src(e.Fun))
}

// ---------------------------------------------------------------- lvalues

type t3lv struct {
	typ  *t3t
	read string
	set  func(v string) ([]string, error) // the let-lines that store the Lean term v
}

func (c *t3ctx) lvalue(e ast.Expr, sc t3sc) (*t3lv, error) {
	switch e := e.(type) {
	case *ast.ParenExpr:
		return c.lvalue(e.X, sc)
	case *ast.Ident:
		b, ok := sc.en[e.Name]
		if !ok {
			return nil, lostf("assignment to %s, which is not a variable of the subset", e.Name)
		}
		return &t3lv{typ: b.typ, read: b.lean, set: func(v string) ([]string, error) {
			c.touch(b)
			return []string{fmt.Sprintf("let %s : %s := %s", b.lean, b.typ.lean, v)}, nil
		}}, nil
	case *ast.SelectorExpr:
		// through a *column pointer
		if x, err := c.expr(e.X, sc); err == nil && x.typ.kind == "ptrColumn" {
			ft, err := c.fieldType("column", e.Sel.Name)
			if err != nil {
				return nil, err
			}
			hp, err := c.world(sc, "$hp")
			if err != nil {
				return nil, err
			}
			at := fmt.Sprintf("(Go.T3.columnAt %s %s)", hp.lean, x.text)
			return &t3lv{typ: ft, read: at + "." + e.Sel.Name, set: func(v string) ([]string, error) {
				c.touch(hp)
				return []string{fmt.Sprintf("let %s : Go.T3.Heap := Go.T3.columnSet %s %s { %s with %s := %s }", hp.lean, hp.lean, x.text, at, e.Sel.Name, v)}, nil
			}}, nil
		}
		base, err := c.lvalue(e.X, sc)
		if err != nil {
			return nil, err
		}
		if base.typ.kind != "struct" {
			return nil, lostf("field of %s", base.typ.kind)
		}
		ft, err := c.fieldType(base.typ.sname, e.Sel.Name)
		if err != nil {
			return nil, err
		}
		return &t3lv{typ: ft, read: base.read + "." + e.Sel.Name, set: func(v string) ([]string, error) {
			return base.set(fmt.Sprintf("{ %s with %s := %s }", base.read, e.Sel.Name, v))
		}}, nil
	case *ast.IndexExpr:
		m, err := c.lvalue(e.X, sc)
		if err != nil {
			return nil, err
		}
		if m.typ.kind != "map" {
			return nil, lostf("element assignment into %s", m.typ.kind)
		}
		k, err := c.typed(e.Index, sc, m.typ.key)
		if err != nil {
			return nil, err
		}
		z, err := m.typ.val.zero()
		if err != nil {
			return nil, err
		}
		return &t3lv{typ: m.typ.val, read: fmt.Sprintf("(Go.T3.mapGet %s %s %s)", m.read, k.text, z), set: func(v string) ([]string, error) {
			return m.set(fmt.Sprintf("Go.T3.mapSet %s %s %s", m.read, k.text, t3atomTerm(v)))
		}}, nil
	}
	return nil, lostf("assignment to %s", c.tr.src(e))
}

func t3atomTerm(s string) string {
	if strings.HasPrefix(s, "(") || strings.HasPrefix(s, "{") || !strings.Contains(s, " ") {
		return s
	}
	return "(" + s + ")"
}

// ---------------------------------------------------------------- effects

type t3out struct {
	kind  string // "world" | "wb" | "res" | "pat"
	b     *t3bind
	lv    *t3lv
	typ   *t3t
	pat   string
	binds []*t3bind
	w     string // [t7] kind "world": the name of a world this effect brings into being ("" = an existing one)
}

// an effectful (or multi-result) right-hand side: a Lean term (lines) evaluating to the tuple of `outs`
type t3eff struct {
	lines []string
	outs  []t3out
}

type t3tgt struct {
	discard bool
	declare string
	lv      *t3lv
	bind    *t3bind // lv is a plain variable
}

func t3one(text string, outs ...t3out) *t3eff { return &t3eff{lines: []string{text}, outs: outs} }

// wbOut: an output written back into the location e (a struct passed by value / an array / a mutex)
func (c *t3ctx) wbOut(e ast.Expr, sc t3sc) (t3out, *t3lv, error) {
	lv, err := c.lvalue(e, sc)
	if err != nil {
		return t3out{}, nil, err
	}
	o := t3out{kind: "wb", lv: lv, typ: lv.typ}
	if id, ok := e.(*ast.Ident); ok {
		o.b = sc.en[id.Name]
	}
	return o, lv, nil
}

// slice bounds of `A[lo:hi]` for PutUint64/PutUint32: the variable A and the bounds as Int terms
func (c *t3ctx) putTarget(e ast.Expr, sc t3sc) (ast.Expr, string, string, error) {
	se, ok := e.(*ast.SliceExpr)
	if !ok || se.Slice3 {
		return nil, "", "", lostf("destination %s is not a slice expression of a variable", c.tr.src(e))
	}
	a, err := c.expr(se.X, sc)
	if err != nil {
		return nil, "", "", err
	}
	if a.typ.kind != "array" && a.typ.kind != "bytes" {
		return nil, "", "", lostf("destination %s", a.typ.kind)
	}
	lo, hi := "(0 : Int)", fmt.Sprintf("(Go.len %s)", a.text)
	if se.Low != nil {
		v, err := c.typed(se.Low, sc, t3int)
		if err != nil {
			return nil, "", "", err
		}
		lo = v.text
	}
	if se.High != nil {
		v, err := c.typed(se.High, sc, t3int)
		if err != nil {
			return nil, "", "", err
		}
		hi = v.text
	}
	return se.X, lo, hi, nil
}

// effect: e as an effectful right-hand side; (nil, nil) if e is not one of the effect forms
func (c *t3ctx) effect(e ast.Expr, sc t3sc) (*t3eff, error) {
	// &column{…}: allocation
	if u, ok := e.(*ast.UnaryExpr); ok && u.Op == token.AND {
		if cl, ok := u.X.(*ast.CompositeLit); ok && c.tr.src(cl.Type) == "column" {
			v, err := c.composite(cl, sc)
			if err != nil {
				return nil, err
			}
			hp, err := c.world(sc, "$hp")
			if err != nil {
				return nil, err
			}
			return t3one(fmt.Sprintf("Go.T3.newColumn %s %s", hp.lean, v.text), t3out{kind: "world", b: hp}, t3out{kind: "res", typ: t3ptrColumn}), nil
		}
		return nil, nil
	}
	call, ok := e.(*ast.CallExpr)
	if !ok {
		return nil, nil
	}
	n := len(call.Args)
	world := func(w string) (*t3bind, error) { return c.world(sc, w) }
	if c.t7 { // [t7] bbolt.Open, bm.RunOptimize
		if eff, err := c.t7effect(call, sc); eff != nil || err != nil {
			return eff, err
		}
	}
	// roaring.New()
	if c.pkgSel(call.Fun, sc, "roaring", "github.com/RoaringBitmap/roaring", "New") && n == 0 {
		hp, err := world("$hp")
		if err != nil {
			return nil, err
		}
		return t3one(fmt.Sprintf("Go.T3.roaringNew %s", hp.lean), t3out{kind: "world", b: hp}, t3out{kind: "res", typ: t3ptrBitmap}), nil
	}
	// verifPoint("site")
	if id, ok := call.Fun.(*ast.Ident); ok && id.Name == "verifPoint" && n == 1 {
		if _, local := sc.en[id.Name]; !local {
			bolt, err := world("$bolt")
			if err != nil {
				return nil, err
			}
			s, err := c.typed(call.Args[0], sc, t3bytes)
			if err != nil {
				return nil, err
			}
			return t3one(fmt.Sprintf("Go.T3.verifPoint %s %s", bolt.lean, s.text), t3out{kind: "world", b: bolt}), nil
		}
	}
	// binary.BigEndian.PutUint64(A[lo:hi], v) / PutUint32
	if s, ok := call.Fun.(*ast.SelectorExpr); ok && n == 2 && c.pkgSel(s.X, sc, "binary", "encoding/binary", "BigEndian") &&
		(s.Sel.Name == "PutUint64" || s.Sel.Name == "PutUint32") {
		av, lo, hi, err := c.putTarget(call.Args[0], sc)
		if err != nil {
			return nil, err
		}
		vt := t3u64
		if s.Sel.Name == "PutUint32" {
			vt = t3u32
		}
		v, err := c.typed(call.Args[1], sc, vt)
		if err != nil {
			return nil, err
		}
		o, lv, err := c.wbOut(av, sc)
		if err != nil {
			return nil, err
		}
		return t3one(fmt.Sprintf("Go.T3.be%s %s %s %s %s", s.Sel.Name, lv.read, lo, hi, v.text), o), nil
	}
	// gob.NewEncoder(&buf).Encode(sch) / gob.NewDecoder(bytes.NewReader(b)).Decode(&sch)
	if x, ok := t3method(call, "Encode", 1); ok {
		if enc, ok := x.(*ast.CallExpr); ok && len(enc.Args) == 1 && c.pkgSel(enc.Fun, sc, "gob", "encoding/gob", "NewEncoder") {
			u, ok := enc.Args[0].(*ast.UnaryExpr)
			if !ok || u.Op != token.AND {
				return nil, lostf("gob.NewEncoder(%s): not the address of a buffer variable", c.tr.src(enc.Args[0]))
			}
			o, lv, err := c.wbOut(u.X, sc)
			if err != nil {
				return nil, err
			}
			if lv.typ.kind != "bytes" {
				return nil, lostf("gob.NewEncoder on %s", lv.typ.kind)
			}
			s, err := c.expr(call.Args[0], sc)
			if err != nil {
				return nil, err
			}
			if !(s.typ.kind == "struct" && s.typ.sname == "schema") {
				return nil, lostf("gob encoding of %s", s.typ.kind)
			}
			hp, err := world("$hp")
			if err != nil {
				return nil, err
			}
			if !c.useX {
				return nil, lostf("gob in a target without X")
			}
			c.usedX = true
			return t3one(fmt.Sprintf("Go.T3.gobEncode X %s (Go.T3.schemaValue %s %s)", lv.read, hp.lean, s.text), o, t3out{kind: "res", typ: t3error}), nil
		}
	}
	if x, ok := t3method(call, "Decode", 1); ok {
		if dec, ok := x.(*ast.CallExpr); ok && len(dec.Args) == 1 && c.pkgSel(dec.Fun, sc, "gob", "encoding/gob", "NewDecoder") {
			rd, ok := dec.Args[0].(*ast.CallExpr)
			if !ok || len(rd.Args) != 1 || !c.pkgSel(rd.Fun, sc, "bytes", "bytes", "NewReader") {
				return nil, lostf("gob.NewDecoder(%s): not bytes.NewReader(…)", c.tr.src(dec.Args[0]))
			}
			b, err := c.typed(rd.Args[0], sc, t3bytes)
			if err != nil {
				return nil, err
			}
			u, ok := call.Args[0].(*ast.UnaryExpr)
			if !ok || u.Op != token.AND {
				return nil, lostf("Decode(%s): not the address of a variable", c.tr.src(call.Args[0]))
			}
			o, lv, err := c.wbOut(u.X, sc)
			if err != nil {
				return nil, err
			}
			if lv.typ.kind != "schemaVal" {
				return nil, lostf("gob decoding into %s", lv.typ.kind)
			}
			if !c.useX {
				return nil, lostf("gob in a target without X")
			}
			c.usedX = true
			return t3one(fmt.Sprintf("Go.T3.gobDecode X %s %s", lv.read, b.text), o, t3out{kind: "res", typ: t3error}), nil
		}
	}
	// methods on values of the prelude's types
	if s, ok := call.Fun.(*ast.SelectorExpr); ok {
		if eff, err := c.methodEffect(call, s, sc); eff != nil || err != nil {
			return eff, err
		}
	}
	// plain function of the package / function-typed variable
	if id, ok := call.Fun.(*ast.Ident); ok {
		if b, local := sc.en[id.Name]; local {
			if b.typ.kind == "func" && b.typ.sname == "IndexOption" && n == 1 {
				sig := &t3sig{lean: b.lean, worlds: []string{"$bolt", "$hp"}, params: []*t3t{t3struct("Index")}, paramOut: []bool{true}, results: []*t3t{t3error}}
				return c.sigCall(sig, nil, call.Args, sc)
			}
			return nil, nil
		}
		if sig, ok := t3sigs[id.Name]; ok {
			return c.sigCall(sig, nil, call.Args, sc)
		}
	}
	return nil, nil
}

func (c *t3ctx) methodEffect(call *ast.CallExpr, s *ast.SelectorExpr, sc t3sc) (*t3eff, error) {
	n := len(call.Args)
	x, err := c.expr(s.X, sc)
	if err != nil {
		return nil, nil // not a value of the subset: let the caller report the call
	}
	world := func(w string) (*t3bind, error) { return c.world(sc, w) }
	m := s.Sel.Name
	switch x.typ.kind {
	case "mutex":
		if (m == "Lock" || m == "Unlock") && n == 0 {
			o, lv, err := c.wbOut(s.X, sc)
			if err != nil {
				return nil, err
			}
			return t3one(fmt.Sprintf("Go.T3.mutex%s %s", m, lv.read), o), nil
		}
	case "ptrBitmap":
		hp, err := world("$hp")
		if err != nil {
			return nil, err
		}
		switch {
		case m == "Add" && n == 1:
			v, err := c.typed(call.Args[0], sc, t3u32)
			if err != nil {
				return nil, err
			}
			return t3one(fmt.Sprintf("Go.T3.bitmapAdd %s %s %s", hp.lean, x.text, v.text), t3out{kind: "world", b: hp}), nil
		case m == "ToBytes" && n == 0:
			if !c.useX {
				return nil, lostf("roaring serialisation in a target without X")
			}
			c.usedX = true
			return t3one(fmt.Sprintf("Go.T3.bitmapToBytes X %s %s", hp.lean, x.text), t3out{kind: "res", typ: t3bytes}, t3out{kind: "res", typ: t3error}), nil
		case m == "FromBuffer" && n == 1:
			if !c.useX {
				return nil, lostf("roaring serialisation in a target without X")
			}
			c.usedX = true
			b, err := c.typed(call.Args[0], sc, t3bytes)
			if err != nil {
				return nil, err
			}
			return t3one(fmt.Sprintf("Go.T3.bitmapFromBuffer X %s %s %s", hp.lean, x.text, b.text),
				t3out{kind: "world", b: hp}, t3out{kind: "res", typ: t3int}, t3out{kind: "res", typ: t3error}), nil
		}
	case "db":
		bolt, err := world(t7boltOf(x.typ)) // [t7] was "$bolt"
		if err != nil {
			return nil, err
		}
		switch {
		case m == "Begin" && n == 1:
			w, err := c.typed(call.Args[0], sc, t3bool)
			if err != nil {
				return nil, err
			}
			return t3one(fmt.Sprintf("Go.T3.dbBegin %s %s %s", bolt.lean, x.text, w.text),
				t3out{kind: "world", b: bolt}, t3out{kind: "res", typ: t7in(t3tx, x.typ)}, t3out{kind: "res", typ: t3error}), nil // [t7] typ was t3tx
		case m == "Close" && n == 0:
			return t3one(fmt.Sprintf("Go.T3.dbClose %s %s", bolt.lean, x.text), t3out{kind: "world", b: bolt}, t3out{kind: "res", typ: t3error}), nil
		case (m == "View" || m == "Update") && n == 1:
			return c.txClosure(call, x, m, sc)
		}
	case "tx":
		bolt, err := world(t7boltOf(x.typ)) // [t7] was "$bolt"
		if err != nil {
			return nil, err
		}
		switch {
		case m == "CreateBucketIfNotExists" && n == 1:
			nm, err := c.typed(call.Args[0], sc, t3bytes)
			if err != nil {
				return nil, err
			}
			return t3one(fmt.Sprintf("Go.T3.txCreateBucketIfNotExists %s %s %s", bolt.lean, x.text, nm.text),
				t3out{kind: "world", b: bolt}, t3out{kind: "res", typ: t7in(t3bucket, x.typ)}, t3out{kind: "res", typ: t3error}), nil // [t7] typ was t3bucket
		case (m == "Commit" || m == "Rollback") && n == 0:
			return t3one(fmt.Sprintf("Go.T3.tx%s %s %s", m, bolt.lean, x.text), t3out{kind: "world", b: bolt}, t3out{kind: "res", typ: t3error}), nil
		}
	case "bucket":
		if m == "Put" && n == 2 {
			bolt, err := world(t7boltOf(x.typ)) // [t7] was "$bolt"
			if err != nil {
				return nil, err
			}
			k, err := c.typed(call.Args[0], sc, t3bytes)
			if err != nil {
				return nil, err
			}
			v, err := c.typed(call.Args[1], sc, t3bytes)
			if err != nil {
				return nil, err
			}
			return t3one(fmt.Sprintf("Go.T3.bucketPut %s %s %s %s", bolt.lean, x.text, k.text, v.text), t3out{kind: "world", b: bolt}, t3out{kind: "res", typ: t3error}), nil
		}
	case "cursor":
		bolt, err := world(t7boltOf(x.typ)) // [t7] was "$bolt"
		if err != nil {
			return nil, err
		}
		var text string
		switch {
		case m == "Seek" && n == 1:
			k, err := c.typed(call.Args[0], sc, t3bytes)
			if err != nil {
				return nil, err
			}
			text = fmt.Sprintf("Go.T3.cursorSeek %s %s %s", bolt.lean, x.text, k.text)
		case (m == "Next" || m == "First") && n == 0:
			text = fmt.Sprintf("Go.T3.cursor%s %s %s", m, bolt.lean, x.text)
		default:
			return nil, nil
		}
		o, _, err := c.wbOut(s.X, sc)
		if err != nil {
			return nil, err
		}
		return t3one(text, o, t3out{kind: "res", typ: t3nbytes}, t3out{kind: "res", typ: t3nbytes}), nil
	case "struct":
		if x.typ.sname == "IndexWriter" && m == "optimize" && n == 0 {
			hp, err := world("$hp")
			if err != nil {
				return nil, err
			}
			return t3one(fmt.Sprintf("Go.T3.optimize %s %s", hp.lean, x.text), t3out{kind: "world", b: hp}), nil
		}
		if sig, ok := t3sigs[x.typ.sname+"."+m]; ok {
			return c.sigCall(sig, s.X, call.Args, sc)
		}
	}
	return nil, nil
}

// call of a function translated earlier
func (c *t3ctx) sigCall(sig *t3sig, recv ast.Expr, args []ast.Expr, sc t3sc) (*t3eff, error) {
	if len(args) != len(sig.params) {
		return nil, lostf("call of %s with %d arguments", sig.lean, len(args))
	}
	parts := []string{sig.lean}
	var outs []t3out
	if sig.useH {
		if !c.useH {
			return nil, lostf("%s needs H", sig.lean)
		}
		c.usedH = true
		parts = append(parts, "H")
	}
	if sig.useX {
		if !c.useX {
			return nil, lostf("%s needs X", sig.lean)
		}
		c.usedX = true
		parts = append(parts, "X")
	}
	for _, r := range sig.rngs { // [t7] the enumeration of a map the callee ranges over is handed through
		if !c.t7 {
			return nil, lostf("%s ranges over a map: callers cannot supply the enumeration", sig.lean)
		}
		if !c.rngSeen[r.lean] {
			c.rngSeen[r.lean] = true
			c.rngs = append(c.rngs, r)
		}
		parts = append(parts, r.lean)
	}
	for _, w := range sig.worlds {
		b, err := c.world(sc, w)
		if err != nil {
			return nil, err
		}
		parts = append(parts, b.lean)
		outs = append(outs, t3out{kind: "world", b: b})
	}
	if sig.recv != nil {
		if sig.recvOut {
			o, lv, err := c.wbOut(recv, sc)
			if err != nil {
				return nil, err
			}
			if lv.typ.lean != sig.recv.lean {
				return nil, lostf("receiver of %s has type %s", sig.lean, lv.typ.lean)
			}
			parts = append(parts, lv.read)
			outs = append(outs, o)
		} else {
			v, err := c.typed(recv, sc, sig.recv)
			if err != nil {
				return nil, err
			}
			parts = append(parts, v.text)
		}
	}
	for i, a := range args {
		if sig.paramOut[i] {
			o, lv, err := c.wbOut(a, sc)
			if err != nil {
				return nil, err
			}
			if lv.typ.lean != sig.params[i].lean {
				return nil, lostf("argument %d of %s has type %s", i, sig.lean, lv.typ.lean)
			}
			parts = append(parts, lv.read)
			outs = append(outs, o)
			continue
		}
		v, err := c.typed(a, sc, sig.params[i])
		if err != nil {
			return nil, err
		}
		parts = append(parts, v.text)
	}
	for _, r := range sig.results {
		outs = append(outs, t3out{kind: "res", typ: r})
	}
	return t3one(strings.Join(parts, " "), outs...), nil
}

// db.View(func(tx *bbolt.Tx) error { … }) / db.Update(…)
func (c *t3ctx) txClosure(call *ast.CallExpr, db t3v, m string, sc t3sc) (*t3eff, error) {
	fl, ok := call.Args[0].(*ast.FuncLit)
	if !ok {
		return nil, lostf("db.%s with something else than a function literal", m)
	}
	if fl.Type.Params.NumFields() != 1 || len(fl.Type.Params.List[0].Names) != 1 || c.tr.src(fl.Type.Params.List[0].Type) != "*bbolt.Tx" ||
		fl.Type.Results.NumFields() != 1 || c.tr.src(fl.Type.Results.List[0].Type) != "error" {
		return nil, lostf("db.%s: the function literal is not func(tx *bbolt.Tx) error", m)
	}
	bolt, err := c.world(sc, t7boltOf(db.typ)) // [t7] was "$bolt"
	if err != nil {
		return nil, err
	}
	inner := sc
	inner.defers = nil
	inner.wrapRet = nil
	c.nextSc++
	inner.scope = c.nextSc
	inner, txb, err := c.declare(inner, fl.Type.Params.List[0].Names[0].Name, t7in(t3tx, db.typ)) // [t7] typ was t3tx
	if err != nil {
		return nil, err
	}
	// pass 1: which captured variables does the body assign?
	fr := &t3frame{results: []*t3t{t3error}, closure: true, outs: []*t3bind{bolt}}
	fr.retType = t3retType(fr)
	inner.fr = fr
	noEnd := func(t3sc) ([]string, error) { return nil, lostf("control reaches the end of the function literal") }
	mod, err := c.collect(func() error {
		_, err := c.stmts(fl.Body.List, inner, noEnd)
		return err
	})
	if err != nil {
		return nil, err
	}
	delete(mod, bolt.id)
	st := t3modified(sc.en, mod)
	fr2 := &t3frame{results: []*t3t{t3error}, closure: true, outs: []*t3bind{bolt}, stOuts: st}
	fr2.retType = t3retType(fr2)
	inner.fr = fr2
	body, err := c.stmts(fl.Body.List, inner, noEnd)
	if err != nil {
		return nil, err
	}
	names, types := t3tuple(st)
	lines := []string{fmt.Sprintf("Go.T3.db%s %s %s %s (fun (%s : Go.T3.Bolt) (%s : Go.T3.TxRef) (st : %s) =>", m, bolt.lean, db.text, names, bolt.lean, txb.lean, types)}
	if len(st) > 0 {
		lines = append(lines, fmt.Sprintf("  let %s := st", names))
	}
	lines = append(lines, t3indent(body)...)
	lines[len(lines)-1] += ")"
	for _, b := range st {
		c.touch(b)
	}
	return &t3eff{lines: lines, outs: []t3out{{kind: "world", b: bolt}, {kind: "pat", pat: names, binds: st}, {kind: "res", typ: t3error}}}, nil
}

// bind: the let-lines that run eff and store its results into tgts (nil tgts: every result is discarded)
func (c *t3ctx) bind(eff *t3eff, tgts []t3tgt, sc t3sc) ([]string, t3sc, error) {
	nres := 0
	for _, o := range eff.outs {
		if o.kind == "res" {
			nres++
		}
	}
	if tgts != nil && len(tgts) != nres {
		return nil, sc, lostf("%d variables for %d results", len(tgts), nres)
	}
	var parts, post []string
	ri := 0
	tmpN := 0
	tmp := func() string { tmpN++; return fmt.Sprintf("tmp%d", tmpN) }
	useful := false
	for _, o := range eff.outs {
		switch o.kind {
		case "world":
			c.touch(o.b)
			parts = append(parts, o.b.lean)
			useful = true
			if o.w != "" { // [t7] bbolt.Open brings the world into being
				sc.en = sc.en.with(o.w, o.b)
			}
		case "pat":
			for _, b := range o.binds {
				c.touch(b)
			}
			parts = append(parts, o.pat)
			if len(o.binds) > 0 {
				useful = true
			}
		case "wb":
			useful = true
			if o.b != nil {
				c.touch(o.b)
				parts = append(parts, o.b.lean)
			} else {
				t := tmp()
				parts = append(parts, t)
				ls, err := o.lv.set(t)
				if err != nil {
					return nil, sc, err
				}
				post = append(post, ls...)
			}
		case "res":
			var tg t3tgt
			if tgts == nil {
				tg = t3tgt{discard: true}
			} else {
				tg = tgts[ri]
			}
			ri++
			switch {
			case tg.discard:
				parts = append(parts, "_")
			case tg.declare != "":
				typ := o.typ
				if typ.kind == "addr" && typ.val.kind == "struct" { // x := &T{…}: the struct by value
					typ = typ.val
				}
				if typ.kind == "untyped" || typ.kind == "nil" || typ.kind == "addr" {
					return nil, sc, lostf("declaration of %s from a value without a type of the subset", tg.declare)
				}
				var b *t3bind
				var err error
				sc, b, err = c.declare(sc, tg.declare, typ)
				if err != nil {
					return nil, sc, err
				}
				parts = append(parts, b.lean)
				useful = true
			default:
				useful = true
				if tg.bind != nil && tg.bind.typ.lean == o.typ.lean && tg.bind.typ.kind == o.typ.kind {
					c.touch(tg.bind)
					parts = append(parts, tg.bind.lean)
				} else {
					t := tmp()
					parts = append(parts, t)
					v, err := c.conv(t3v{text: t, typ: o.typ}, tg.lv.typ)
					if err != nil {
						return nil, sc, err
					}
					ls, err := tg.lv.set(v.text)
					if err != nil {
						return nil, sc, err
					}
					post = append(post, ls...)
				}
			}
		}
	}
	if !useful {
		return nil, sc, lostf("statement without effect on the variables of the subset")
	}
	pat := parts[0]
	if len(parts) > 1 {
		pat = "(" + strings.Join(parts, ", ") + ")"
	}
	lines := []string{fmt.Sprintf("let %s := %s", pat, eff.lines[0])}
	for _, l := range eff.lines[1:] {
		lines = append(lines, "    "+l)
	}
	return append(lines, post...), sc, nil
}

// rhsEffect: any right-hand side as an effect (pure expressions become a one-result effect)
func (c *t3ctx) rhsEffect(e ast.Expr, nlhs int, sc t3sc) (*t3eff, error) {
	if nlhs == 2 {
		if ix, ok := e.(*ast.IndexExpr); ok { // v, ok := m[k]
			m, err := c.expr(ix.X, sc)
			if err != nil {
				return nil, err
			}
			if m.typ.kind != "map" {
				return nil, lostf("comma-ok index into %s", m.typ.kind)
			}
			k, err := c.typed(ix.Index, sc, m.typ.key)
			if err != nil {
				return nil, err
			}
			z, err := m.typ.val.zero()
			if err != nil {
				return nil, err
			}
			return t3one(fmt.Sprintf("Go.T3.mapLookup %s %s %s", m.text, k.text, z), t3out{kind: "res", typ: m.typ.val}, t3out{kind: "res", typ: t3bool}), nil
		}
	}
	eff, err := c.effect(e, sc)
	if err != nil || eff != nil {
		return eff, err
	}
	v, err := c.expr(e, sc)
	if err != nil {
		return nil, err
	}
	if v.typ.kind == "untyped" {
		if v, err = c.conv(v, t3int); err != nil {
			return nil, err
		}
	}
	return t3one(v.text, t3out{kind: "res", typ: v.typ}), nil
}

// ---------------------------------------------------------------- statements

func (c *t3ctx) newScope(sc t3sc) t3sc {
	c.nextSc++
	sc.scope = c.nextSc
	return sc
}

func (c *t3ctx) targets(lhs []ast.Expr, define bool, sc t3sc) ([]t3tgt, error) {
	var out []t3tgt
	fresh := 0
	for _, l := range lhs {
		id, isID := l.(*ast.Ident)
		if isID && id.Name == "_" {
			out = append(out, t3tgt{discard: true})
			continue
		}
		if define {
			if !isID {
				return nil, lostf(":= to %s", c.tr.src(l))
			}
			if b, ok := sc.en[id.Name]; !ok || b.scope != sc.scope {
				out = append(out, t3tgt{declare: id.Name})
				fresh++
				continue
			}
		}
		lv, err := c.lvalue(l, sc)
		if err != nil {
			return nil, err
		}
		tg := t3tgt{lv: lv}
		if isID {
			tg.bind = sc.en[id.Name]
		}
		out = append(out, tg)
	}
	return out, nil
}

func (c *t3ctx) stmts(list []ast.Stmt, sc t3sc, k t3cont) ([]string, error) {
	if len(list) == 0 {
		return k(sc)
	}
	s := list[0]
	if rs, ok := s.(*ast.ReturnStmt); ok && c.t7 { // [t7] `return f(…)` with an effectful call: `r… := f(…); return r…`
		if repl, err := c.t7returnCall(rs, sc); err != nil {
			return nil, err
		} else if repl != nil {
			return c.stmts(append(repl, list[1:]...), sc, k)
		}
	}
	// accesses to the fields of a mutex-guarded receiver are recorded against its mutex
	var guardOf []ast.Node
	switch s := s.(type) {
	case *ast.ReturnStmt, *ast.ExprStmt, *ast.AssignStmt, *ast.DeclStmt, *ast.IncDecStmt:
		guardOf = []ast.Node{s}
	case *ast.IfStmt:
		guardOf = []ast.Node{s.Cond}
	case *ast.RangeStmt:
		guardOf = []ast.Node{s.X}
	case *ast.ForStmt:
		if s.Cond != nil {
			guardOf = []ast.Node{s.Cond}
		}
	}
	if g, err := c.guardLines(sc, guardOf); err != nil {
		return nil, err
	} else if len(g) > 0 {
		r, err := c.stmtsNoGuard(list, sc, k)
		return append(g, r...), err
	}
	return c.stmtsNoGuard(list, sc, k)
}

// guardLines: `R.mtx` is touched when one of the nodes mentions a field or method `R.x` (x ≠ mtx) of the guarded receiver R
func (c *t3ctx) guardLines(sc t3sc, nodes []ast.Node) ([]string, error) {
	if c.guarded == "" || len(nodes) == 0 {
		return nil, nil
	}
	b, ok := sc.en[c.guarded]
	if !ok || b.typ.kind != "struct" || b.id != c.guardedID {
		return nil, nil
	}
	found := false
	for _, n := range nodes {
		ast.Inspect(n, func(x ast.Node) bool {
			switch x := x.(type) {
			case *ast.FuncLit:
				return false
			case *ast.SelectorExpr:
				if id, ok := x.X.(*ast.Ident); ok && id.Name == c.guarded && x.Sel.Name != "mtx" {
					found = true
				}
			}
			return true
		})
	}
	if !found {
		return nil, nil
	}
	c.touch(b)
	return []string{fmt.Sprintf("let %s : %s := { %s with mtx := Go.T3.mutexTouch %s.mtx }", b.lean, b.typ.lean, b.lean, b.lean)}, nil
}

func (c *t3ctx) stmtsNoGuard(list []ast.Stmt, sc t3sc, k t3cont) ([]string, error) {
	s, rest := list[0], list[1:]
	next := func(sc2 t3sc) ([]string, error) { return c.stmts(rest, sc2, k) }
	// after a nested construct the variables declared inside it are gone
	outer := func(t3sc) ([]string, error) { return c.stmts(rest, sc, k) }
	switch s := s.(type) {
	case *ast.EmptyStmt:
		return next(sc)
	case *ast.ReturnStmt:
		if len(rest) != 0 {
			return nil, lostf("statements after return")
		}
		return c.doReturn(s, sc)
	case *ast.ExprStmt:
		eff, err := c.effect(s.X, sc)
		if err != nil {
			return nil, err
		}
		if eff == nil {
			return nil, lostf("statement %s is not an effect of the subset", c.tr.src(s))
		}
		lines, sc2, err := c.bind(eff, nil, sc)
		if err != nil {
			return nil, err
		}
		r, err := next(sc2)
		return append(lines, r...), err
	case *ast.AssignStmt:
		if s.Tok != token.DEFINE && s.Tok != token.ASSIGN {
			return nil, lostf("assignment operator %s", s.Tok)
		}
		if len(s.Rhs) != 1 {
			return nil, lostf("assignment %s", c.tr.src(s))
		}
		eff, err := c.rhsEffect(s.Rhs[0], len(s.Lhs), sc)
		if err != nil {
			return nil, err
		}
		tgts, err := c.targets(s.Lhs, s.Tok == token.DEFINE, sc)
		if err != nil {
			return nil, err
		}
		// single pure value into an existing location: convert to its type
		if len(tgts) == 1 && tgts[0].lv != nil && len(eff.outs) == 1 && eff.outs[0].kind == "res" {
			v, err := c.expr(s.Rhs[0], sc)
			if err == nil {
				if v, err = c.conv(v, tgts[0].lv.typ); err != nil {
					return nil, err
				}
				lines, err := tgts[0].lv.set(v.text)
				if err != nil {
					return nil, err
				}
				r, err := next(sc)
				return append(lines, r...), err
			}
		}
		lines, sc2, err := c.bind(eff, tgts, sc)
		if err != nil {
			return nil, err
		}
		r, err := next(sc2)
		return append(lines, r...), err
	case *ast.DeclStmt:
		gd, ok := s.Decl.(*ast.GenDecl)
		if !ok || gd.Tok != token.VAR {
			return nil, lostf("declaration %s", c.tr.src(s))
		}
		var lines []string
		for _, sp := range gd.Specs {
			vs := sp.(*ast.ValueSpec)
			if vs.Type == nil || len(vs.Values) != 0 {
				return nil, lostf("declaration %s", c.tr.src(s))
			}
			t, err := c.goType(vs.Type)
			if err != nil {
				return nil, err
			}
			z, err := t.zero()
			if err != nil {
				return nil, err
			}
			for _, id := range vs.Names {
				var b *t3bind
				if sc, b, err = c.declare(sc, id.Name, t); err != nil {
					return nil, err
				}
				lines = append(lines, fmt.Sprintf("let %s : %s := %s", b.lean, t.lean, z))
			}
		}
		r, err := next(sc)
		return append(lines, r...), err
	case *ast.IncDecStmt:
		lv, err := c.lvalue(s.X, sc)
		if err != nil {
			return nil, err
		}
		one, err := c.conv(t3v{typ: t3untyped, k: 1}, lv.typ)
		if err != nil {
			return nil, err
		}
		op := "+"
		if s.Tok == token.DEC {
			op = "-"
		}
		lines, err := lv.set(fmt.Sprintf("%s %s %s", lv.read, op, one.text))
		if err != nil {
			return nil, err
		}
		r, err := next(sc)
		return append(lines, r...), err
	case *ast.DeferStmt:
		if sc.wrapRet != nil || sc.fr == nil || sc.fr.closure {
			return nil, lostf("defer outside the top level of the function")
		}
		reg := sc.en
		var d t3defer
		if fl, ok := s.Call.Fun.(*ast.FuncLit); ok {
			if len(s.Call.Args) != 0 || fl.Type.Params.NumFields() != 0 || fl.Type.Results.NumFields() != 0 {
				return nil, lostf("deferred function literal with parameters or results")
			}
			if hasReturn(fl.Body.List) {
				return nil, lostf("return inside a deferred function literal")
			}
			d = func(at t3sc, k2 t3cont) ([]string, error) {
				in := c.newScope(at)
				in.en = reg
				in.fr = nil
				return c.stmts(fl.Body.List, in, func(t3sc) ([]string, error) { at2 := at; at2.en = reg; return k2(at2) })
			}
		} else {
			if len(s.Call.Args) != 0 {
				return nil, lostf("deferred call with arguments")
			}
			st := &ast.ExprStmt{X: s.Call}
			d = func(at t3sc, k2 t3cont) ([]string, error) {
				in := at
				in.en = reg
				in.fr = nil
				return c.stmts([]ast.Stmt{st}, in, func(t3sc) ([]string, error) { at2 := at; at2.en = reg; return k2(at2) })
			}
		}
		// the deferred code must be translatable where it is registered
		if _, err := c.collect(func() error {
			_, err := d(sc, func(t3sc) ([]string, error) { return nil, nil })
			return err
		}); err != nil {
			return nil, err
		}
		sc2 := sc
		sc2.defers = append(append([]t3defer{}, sc.defers...), d)
		r, err := next(sc2)
		return append([]string{"-- " + c.tr.src(s)}, r...), err
	case *ast.BlockStmt:
		return c.stmts(s.List, c.newScope(sc), outer)
	case *ast.IfStmt:
		return c.ifStmt(s, sc, outer, len(rest) != 0)
	case *ast.RangeStmt:
		return c.rangeStmt(s, sc, outer)
	case *ast.ForStmt:
		return c.forStmt(s, sc, outer)
	case *ast.GoStmt: // [t7]
		if c.t7 {
			return c.t7goStmt(s, sc, outer)
		}
	}
	return nil, lostf("statement %s", c.tr.src(s))
}

func (c *t3ctx) doReturn(s *ast.ReturnStmt, sc t3sc) ([]string, error) {
	fr := sc.fr
	if fr == nil {
		return nil, lostf("return where the function cannot return")
	}
	if len(s.Results) != len(fr.results) {
		return nil, lostf("return with %d results", len(s.Results))
	}
	var vals, types []string
	for i, r := range s.Results {
		v, err := c.typed(r, sc, fr.results[i])
		if err != nil {
			return nil, err
		}
		vals = append(vals, v.text)
		types = append(types, t3atom(fr.results[i].lean))
	}
	for _, b := range sc.en {
		if b.lean == "go_result" {
			return nil, lostf("a variable is called go_result")
		}
	}
	if err := c.t7openedAtReturn(fr, sc); err != nil { // [t7] a world made by bbolt.Open must exist at every return
		return nil, err
	}
	var lines []string
	switch len(vals) {
	case 0:
		lines = append(lines, "let go_result : Unit := ()")
	case 1:
		lines = append(lines, fmt.Sprintf("let go_result : %s := %s", fr.results[0].lean, vals[0]))
	default:
		lines = append(lines, fmt.Sprintf("let go_result : %s := (%s)", strings.Join(types, " × "), strings.Join(vals, ", ")))
	}
	var run func(i int, at t3sc) ([]string, error)
	run = func(i int, at t3sc) ([]string, error) {
		if i < 0 {
			var parts []string
			for _, b := range fr.outs {
				parts = append(parts, b.lean)
			}
			if fr.closure {
				names, _ := t3tuple(fr.stOuts)
				parts = append(parts, names)
			}
			parts = append(parts, "go_result")
			t := "(" + strings.Join(parts, ", ") + ")"
			if sc.wrapRet != nil {
				t = sc.wrapRet(t)
			}
			return []string{t}, nil
		}
		return sc.defers[i](at, func(at2 t3sc) ([]string, error) { return run(i-1, at2) })
	}
	r, err := run(len(sc.defers)-1, sc)
	return append(lines, r...), err
}

func (c *t3ctx) ifStmt(s *ast.IfStmt, sc t3sc, rest t3cont, hasRest bool) ([]string, error) {
	in := c.newScope(sc)
	var pre []string
	if s.Init != nil {
		// the init statement, then the if proper
		var got []string
		var inner t3sc
		_, err := c.stmts([]ast.Stmt{s.Init}, in, func(sc2 t3sc) ([]string, error) { inner = sc2; return nil, nil })
		if err != nil {
			return nil, err
		}
		got, err = c.stmts([]ast.Stmt{s.Init}, in, func(sc2 t3sc) ([]string, error) { return []string{"\x00"}, nil })
		if err != nil {
			return nil, err
		}
		pre = got[:len(got)-1]
		in = inner
	}
	cond, err := c.typed(s.Cond, in, t3bool)
	if err != nil {
		return nil, err
	}
	var els []ast.Stmt
	switch e := s.Else.(type) {
	case nil:
	case *ast.BlockStmt:
		els = e.List
	case *ast.IfStmt:
		els = []ast.Stmt{e}
	default:
		return nil, lostf("else branch %s", c.tr.src(s.Else))
	}
	thenRet, elseRet := definitelyReturns(s.Body.List), s.Else != nil && definitelyReturns(els)
	thenSc, elseSc := c.newScope(in), c.newScope(in)
	noRest := func(t3sc) ([]string, error) { return nil, lostf("control falls out of a branch that always returns") }
	build := func(a, b []string, flatElse bool) []string {
		out := append([]string{}, pre...)
		out = append(out, "if "+cond.text+" then")
		out = append(out, t3indent(a)...)
		out = append(out, "else")
		if flatElse {
			return append(out, b...)
		}
		return append(out, t3indent(b)...)
	}
	switch {
	case thenRet && elseRet:
		if hasRest {
			return nil, lostf("statements after an if/else that always returns")
		}
		a, err := c.stmts(s.Body.List, thenSc, noRest)
		if err != nil {
			return nil, err
		}
		b, err := c.stmts(els, elseSc, noRest)
		if err != nil {
			return nil, err
		}
		return build(a, b, false), nil
	case thenRet:
		a, err := c.stmts(s.Body.List, thenSc, noRest)
		if err != nil {
			return nil, err
		}
		b, err := c.stmts(els, elseSc, rest)
		if err != nil {
			return nil, err
		}
		return build(a, b, true), nil
	case elseRet:
		a, err := c.stmts(s.Body.List, thenSc, rest)
		if err != nil {
			return nil, err
		}
		b, err := c.stmts(els, elseSc, noRest)
		if err != nil {
			return nil, err
		}
		return build(a, b, false), nil
	case !hasReturn(s.Body.List) && !hasReturn(els):
		dummy := func(t3sc) ([]string, error) { return nil, nil }
		mod, err := c.collect(func() error {
			if _, err := c.stmts(s.Body.List, thenSc, dummy); err != nil {
				return err
			}
			_, err := c.stmts(els, elseSc, dummy)
			return err
		})
		if err != nil {
			return nil, err
		}
		vars := t3modified(in.en, mod)
		if len(vars) == 0 {
			return nil, lostf("if without effect on the variables of the subset")
		}
		names, _ := t3tuple(vars)
		fin := func(t3sc) ([]string, error) { return []string{names}, nil }
		a, err := c.stmts(s.Body.List, thenSc, fin)
		if err != nil {
			return nil, err
		}
		b, err := c.stmts(els, elseSc, fin)
		if err != nil {
			return nil, err
		}
		out := append([]string{}, pre...)
		out = append(out, fmt.Sprintf("let %s :=", names))
		out = append(out, "  if "+cond.text+" then")
		out = append(out, t3indent(t3indent(a))...)
		out = append(out, "  else")
		out = append(out, t3indent(t3indent(b))...)
		r, err := rest(sc)
		return append(out, r...), err
	}
	// a branch may return or fall through: the continuation is translated in both branches
	a, err := c.stmts(s.Body.List, thenSc, rest)
	if err != nil {
		return nil, err
	}
	b, err := c.stmts(els, elseSc, rest)
	if err != nil {
		return nil, err
	}
	return build(a, b, false), nil
}

// the type of the whole return tuple of the current frame is not needed: ρ of a loop is inferred from the match
func (c *t3ctx) loopWrap(sc t3sc) (t3sc, func(string) string) {
	outerWrap := sc.wrapRet
	in := sc
	in.wrapRet = func(t string) string { return "Go.T3.Ctl.ret " + t }
	after := func(r string) string {
		if outerWrap != nil {
			return outerWrap(r)
		}
		return r
	}
	return in, after
}

func (c *t3ctx) rangeStmt(s *ast.RangeStmt, sc t3sc, rest t3cont) ([]string, error) {
	if s.Tok != token.DEFINE {
		return nil, lostf("range loop without :=")
	}
	var list string
	var keyT, valT *t3t
	isMap := false
	x, err := c.expr(s.X, sc)
	if err != nil {
		return nil, err
	}
	switch x.typ.kind {
	case "map":
		isMap = true
		keyT, valT = x.typ.key, x.typ.val
		if id, ok := s.X.(*ast.Ident); ok {
			list = sc.en[id.Name].lean // a map parameter is given as the list of its pairs, in iteration order
		} else if sel, ok := s.X.(*ast.SelectorExpr); ok {
			list = "rng_" + sel.Sel.Name
			if !c.rngSeen[list] {
				c.rngSeen[list] = true
				c.rngs = append(c.rngs, lparamT3{list, fmt.Sprintf("List (%s × %s)", keyT.lean, valT.lean)})
			}
		} else {
			return nil, lostf("range over %s", c.tr.src(s.X))
		}
	case "slice":
		valT = x.typ.val
		list = x.text
	default:
		return nil, lostf("range over %s", x.typ.kind)
	}
	in := c.newScope(sc)
	var elemLines []string
	elemVar, elemType := "kv", ""
	declare := func(e ast.Expr, t *t3t, proj string) error {
		if e == nil {
			return nil
		}
		id, ok := e.(*ast.Ident)
		if !ok {
			return lostf("loop variable %s", c.tr.src(e))
		}
		if id.Name == "_" {
			return nil
		}
		var b *t3bind
		var err error
		if in, b, err = c.declare(in, id.Name, t); err != nil {
			return err
		}
		if proj == "" {
			elemVar = b.lean
		} else {
			elemLines = append(elemLines, fmt.Sprintf("let %s : %s := kv.%s", b.lean, t.lean, proj))
		}
		return nil
	}
	if isMap {
		elemType = fmt.Sprintf("%s × %s", t3atom(keyT.lean), t3atom(valT.lean))
		if err := declare(s.Key, keyT, "1"); err != nil {
			return nil, err
		}
		if err := declare(s.Value, valT, "2"); err != nil {
			return nil, err
		}
	} else {
		elemType = valT.lean
		if id, ok := s.Key.(*ast.Ident); !ok || id.Name != "_" {
			return nil, lostf("index variable of a range over a slice")
		}
		if err := declare(s.Value, valT, ""); err != nil {
			return nil, err
		}
	}
	returns := hasReturn(s.Body.List)
	bodySc, after := in, func(r string) string { return r }
	if returns {
		bodySc, after = c.loopWrap(in)
	}
	dummy := func(t3sc) ([]string, error) { return nil, nil }
	mod, err := c.collect(func() error {
		_, err := c.stmts(s.Body.List, bodySc, dummy)
		return err
	})
	if err != nil {
		return nil, err
	}
	vars := t3modified(sc.en, mod)
	if len(vars) == 0 {
		return nil, lostf("loop without effect on the variables of the subset")
	}
	names, types := t3tuple(vars)
	endText := names
	if returns {
		endText = "Go.T3.Ctl.next " + names
	}
	body, err := c.stmts(s.Body.List, bodySc, func(t3sc) ([]string, error) { return []string{endText}, nil })
	if err != nil {
		return nil, err
	}
	name := c.loopName(s)
	fparams, fargs := c.freeParams(sc.en, vars)
	inner := []string{fmt.Sprintf("let %s := st", names)}
	inner = append(inner, elemLines...)
	inner = append(inner, body...)
	resT := types
	if returns {
		rho := "Unit"
		if sc.fr != nil {
			rho = sc.fr.retType
		}
		resT = fmt.Sprintf("Go.T3.Ctl (%s) (%s)", rho, types)
	}
	var ab strings.Builder
	fmt.Fprintf(&ab, "/-- body of `for %s, %s := range %s` in %s -/\ndef %s %s (st : %s) (%s : %s) :\n    %s :=\n",
		c.tr.src(s.Key), c.tr.src(s.Value), c.tr.src(s.X), c.lean, name, fparams, types, elemVar, elemType, resT)
	for _, l := range inner {
		ab.WriteString("  " + l + "\n")
	}
	c.addAux(name, ab.String())
	r, err := rest(sc)
	if err != nil {
		return nil, err
	}
	call := name
	if fargs != "" {
		call = "(" + name + " " + fargs + ")"
	}
	var out []string
	if !returns {
		out = append(out, fmt.Sprintf("let %s := List.foldl %s %s %s", names, call, names, list))
		return append(out, r...), nil
	}
	out = append(out, fmt.Sprintf("match Go.T3.forRange %s %s %s with", list, names, call))
	out = append(out, "| Go.T3.Ctl.ret r => "+after("r"))
	out = append(out, fmt.Sprintf("| Go.T3.Ctl.next %s =>", names))
	return append(out, t3indent(r)...), nil
}

// for init; cond; post { body } where post advances a bolt cursor
func (c *t3ctx) forStmt(s *ast.ForStmt, sc t3sc, rest t3cont) ([]string, error) {
	if s.Init == nil || s.Cond == nil || s.Post == nil {
		return nil, lostf("for loop without init, condition or post statement")
	}
	post, ok := s.Post.(*ast.AssignStmt)
	if !ok || len(post.Rhs) != 1 {
		return nil, lostf("post statement %s", c.tr.src(s.Post))
	}
	pc, ok := post.Rhs[0].(*ast.CallExpr)
	if !ok {
		return nil, lostf("post statement %s does not advance a cursor", c.tr.src(s.Post))
	}
	curE, ok := t3method(pc, "Next", 0)
	if !ok {
		return nil, lostf("post statement %s does not advance a cursor", c.tr.src(s.Post))
	}
	in := c.newScope(sc)
	var initSc t3sc
	pre, err := c.stmts([]ast.Stmt{s.Init}, in, func(sc2 t3sc) ([]string, error) { initSc = sc2; return []string{"\x00"}, nil })
	if err != nil {
		return nil, err
	}
	pre = pre[:len(pre)-1]
	cur, err := c.expr(curE, initSc)
	if err != nil {
		return nil, err
	}
	if cur.typ.kind != "cursor" {
		return nil, lostf("post statement %s does not advance a cursor", c.tr.src(s.Post))
	}
	bolt, err := c.world(initSc, t7boltOf(cur.typ)) // [t7] was "$bolt"
	if err != nil {
		return nil, err
	}
	fuel := fmt.Sprintf("(Go.T3.cursorFuel %s %s)", bolt.lean, cur.text)
	bodySc, after := c.loopWrap(initSc)
	bodyStmts := append(append([]ast.Stmt{}, s.Body.List...), s.Post)
	dummy := func(t3sc) ([]string, error) { return nil, nil }
	mod, err := c.collect(func() error {
		_, err := c.stmts(bodyStmts, c.newScope(bodySc), dummy)
		return err
	})
	if err != nil {
		return nil, err
	}
	vars := t3modified(initSc.en, mod)
	if len(vars) == 0 {
		return nil, lostf("loop without effect on the variables of the subset")
	}
	names, types := t3tuple(vars)
	// after the loop the variables of the init statement are out of scope
	var afterParts []string
	for _, b := range vars {
		if b.scope == in.scope {
			afterParts = append(afterParts, "_")
		} else {
			afterParts = append(afterParts, b.lean)
		}
	}
	afterPat := afterParts[0]
	if len(afterParts) > 1 {
		afterPat = "(" + strings.Join(afterParts, ", ") + ")"
	}
	condSc := initSc
	cond, err := c.typed(s.Cond, condSc, t3bool)
	if err != nil {
		return nil, err
	}
	body, err := c.stmts(bodyStmts, c.newScope(bodySc), func(t3sc) ([]string, error) { return []string{"Go.T3.Ctl.next " + names}, nil })
	if err != nil {
		return nil, err
	}
	name := c.loopName(s)
	fparams, fargs := c.freeParams(initSc.en, vars)
	rho := "Unit"
	if sc.fr != nil {
		rho = sc.fr.retType
	}
	var ab strings.Builder
	fmt.Fprintf(&ab, "/-- condition `%s` of the for loop in %s -/\ndef %s_cond %s (st : %s) : Bool :=\n  let %s := st\n  %s\n",
		c.tr.src(s.Cond), c.lean, name, fparams, types, names, cond.text)
	c.addAux(name+"_cond", ab.String())
	ab.Reset()
	fmt.Fprintf(&ab, "/-- body and post statement `%s` of the for loop in %s -/\ndef %s_body %s (st : %s) :\n    Go.T3.Ctl (%s) (%s) :=\n  let %s := st\n",
		c.tr.src(s.Post), c.lean, name, fparams, types, rho, types, names)
	for _, l := range body {
		ab.WriteString("  " + l + "\n")
	}
	c.addAux(name+"_body", ab.String())
	r, err := rest(sc)
	if err != nil {
		return nil, err
	}
	sp := ""
	if fargs != "" {
		sp = " " + fargs
	}
	out := append([]string{}, pre...)
	out = append(out, fmt.Sprintf("match Go.T3.forWhile %s %s (%s_cond%s) (%s_body%s) with", fuel, names, name, sp, name, sp))
	out = append(out, "| Go.T3.Ctl.ret r => "+after("r"))
	out = append(out, fmt.Sprintf("| Go.T3.Ctl.next %s =>", afterPat))
	return append(out, t3indent(r)...), nil
}

// ---------------------------------------------------------------- loop helpers (lambda lifting)

// frameRetType: the Lean type of what a `return` of frame fr builds
func t3retType(fr *t3frame) string {
	var ts []string
	for _, b := range fr.outs {
		ts = append(ts, t3atom(b.typ.lean))
	}
	if fr.closure {
		_, types := t3tuple(fr.stOuts)
		ts = append(ts, t3atom(types))
	}
	if len(fr.results) == 0 {
		ts = append(ts, "Unit")
	} else if len(fr.results) == 1 {
		ts = append(ts, t3atom(fr.results[0].lean))
	} else {
		var rs []string
		for _, r := range fr.results {
			rs = append(rs, t3atom(r.lean))
		}
		ts = append(ts, strings.Join(rs, " × "))
	}
	return strings.Join(ts, " × ")
}

// loopName: the name of the helper of loop statement n
func (c *t3ctx) loopName(n ast.Node) string {
	if c.loopNo == nil {
		c.loopNo = map[ast.Node]int{}
	}
	if _, ok := c.loopNo[n]; !ok {
		c.loopNo[n] = len(c.loopNo) + 1
	}
	return fmt.Sprintf("%s_loop%d", c.lean, c.loopNo[n])
}

// freeParams: the variables visible at a loop that are not carried by it, as parameters and as arguments
func (c *t3ctx) freeParams(en t3env, carried []*t3bind) (params, args string) {
	skip := map[int]bool{}
	for _, b := range carried {
		skip[b.id] = true
	}
	var bs []*t3bind
	seen := map[int]bool{}
	for _, b := range en {
		if !skip[b.id] && !seen[b.id] {
			seen[b.id] = true
			bs = append(bs, b)
		}
	}
	sort.Slice(bs, func(i, j int) bool { return bs[i].id < bs[j].id })
	var ps, as []string
	if c.useH {
		ps = append(ps, "(H : Bytes → UInt64)")
		as = append(as, "H")
	}
	if c.useX {
		ps = append(ps, "(X : Go.T3.Ext)")
		as = append(as, "X")
	}
	for _, b := range bs {
		ps = append(ps, fmt.Sprintf("(%s : %s)", b.lean, b.typ.lean))
		as = append(as, b.lean)
	}
	return strings.Join(ps, " "), strings.Join(as, " ")
}

func (c *t3ctx) addAux(name, text string) {
	if c.aux == nil {
		c.aux = map[string]string{}
	}
	if _, ok := c.aux[name]; !ok {
		c.auxOrd = append(c.auxOrd, name)
	}
	c.aux[name] = text
}

// ---------------------------------------------------------------- targets

type t3target struct {
	rel, recv, name string // the Go function (recv = "" for a plain function)
	lean            string // Lean name
	key             string // key in t3sigs ("" = not callable from later targets)
	mode            string // "writer" | "open"
	useH, useX      bool
	worlds          []string
	recvOut         bool
	litResult       bool // the function is `return func(idx *Index) error {…}`: translate that function literal
	doc             string
	t7              bool     // [t7]
	t7dual          bool     // [t7]
	opened          []string // [t7] worlds (among `worlds`) that are not parameters: bbolt.Open creates them
	dbWorlds        []string // [t7] the worlds of the parameters of type *bbolt.DB, in order
}

func (tr *translator) t3func(tg t3target) (string, *t3sig, error) {
	f, fd := tr.fn(tg.rel, tg.recv, tg.name)
	if fd == nil {
		return "", nil, lostf("function %s not found in %s", tg.name, tg.rel)
	}
	c := &t3ctx{tr: tr, file: f, rel: tg.rel, mode: tg.mode, useH: tg.useH, useX: tg.useX, worlds: map[string]bool{},
		consts: tr.pkgConsts(f), rngSeen: map[string]bool{}, lean: tg.lean,
		t7: tg.t7, t7dual: tg.t7dual, t7opened: map[string]*t3bind{}} // [t7]
	dbParamNo := 0 // [t7]
	sc := t3sc{en: t3env{}}
	c.nextSc++
	sc.scope = c.nextSc
	fr := &t3frame{}
	sig := &t3sig{lean: tg.lean, useH: tg.useH, useX: tg.useX, worlds: tg.worlds, recvOut: tg.recvOut}
	var params []string
	for _, w := range tg.worlds {
		c.worlds[w] = true
		c.nextID++
		b := &t3bind{lean: strings.TrimPrefix(w, "$"), typ: t3worldType[w], id: c.nextID, scope: sc.scope}
		if t7contains(tg.opened, w) { // [t7] returned, but neither a parameter nor visible before bbolt.Open
			c.t7opened[w] = b
			fr.outs = append(fr.outs, b)
			continue
		}
		sc.en = sc.en.with(w, b)
		fr.outs = append(fr.outs, b)
		params = append(params, fmt.Sprintf("(%s : %s)", b.lean, b.typ.lean))
	}
	ftype, body := fd.Type, fd.Body
	var recvBind *t3bind
	if tg.litResult {
		if fd.Recv != nil || fd.Type.Params.NumFields() != 0 || len(fd.Body.List) != 1 {
			return "", nil, lostf("%s is not a single `return func…`", tg.name)
		}
		rs, ok := fd.Body.List[0].(*ast.ReturnStmt)
		if !ok || len(rs.Results) != 1 {
			return "", nil, lostf("%s is not a single `return func…`", tg.name)
		}
		fl, ok := rs.Results[0].(*ast.FuncLit)
		if !ok {
			return "", nil, lostf("%s is not a single `return func…`", tg.name)
		}
		ftype, body = fl.Type, fl.Body
	} else if fd.Recv != nil {
		if len(fd.Recv.List) != 1 || len(fd.Recv.List[0].Names) != 1 {
			return "", nil, lostf("receiver of %s", tg.name)
		}
		rt, err := c.goType(fd.Recv.List[0].Type)
		if err != nil {
			return "", nil, err
		}
		if rt.kind != "struct" {
			return "", nil, lostf("receiver type %s", rt.kind)
		}
		var b *t3bind
		if sc, b, err = c.declare(sc, fd.Recv.List[0].Names[0].Name, rt); err != nil {
			return "", nil, err
		}
		recvBind = b
		if _, ok := t3fieldLean[rt.sname]["mtx"]; ok {
			if _, err := c.fieldType(rt.sname, "mtx"); err == nil {
				c.guarded, c.guardedID = fd.Recv.List[0].Names[0].Name, b.id
			}
		}
		sig.recv = rt
		if tg.recvOut {
			fr.outs = append(fr.outs, b)
		}
		params = append(params, fmt.Sprintf("(%s : %s)", b.lean, rt.lean))
	}
	if ftype.Params != nil {
		for _, fld := range ftype.Params.List {
			t, err := c.goType(fld.Type)
			if err != nil {
				return "", nil, err
			}
			if len(fld.Names) == 0 {
				return "", nil, lostf("unnamed parameter")
			}
			for _, id := range fld.Names {
				if t.kind == "db" && tg.dbWorlds != nil { // [t7] which database a *bbolt.DB parameter is, by position
					if dbParamNo >= len(tg.dbWorlds) {
						return "", nil, lostf("more *bbolt.DB parameters than databases")
					}
					t = t7typ(t3db, tg.dbWorlds[dbParamNo])
					dbParamNo++
				}
				var b *t3bind
				if sc, b, err = c.declare(sc, id.Name, t); err != nil {
					return "", nil, err
				}
				out := t.kind == "struct"
				if out {
					fr.outs = append(fr.outs, b)
				}
				sig.params = append(sig.params, t)
				sig.paramOut = append(sig.paramOut, out)
				params = append(params, fmt.Sprintf("(%s : %s)", b.lean, t.lean))
			}
		}
	}
	if ftype.Results != nil {
		for _, fld := range ftype.Results.List {
			if len(fld.Names) != 0 {
				return "", nil, lostf("named results")
			}
			t, err := c.goType(fld.Type)
			if err != nil {
				return "", nil, err
			}
			if t.kind == "struct" { // a *T result may be nil
				t = t3opt(t)
			}
			fr.results = append(fr.results, t)
		}
	}
	sig.results = fr.results
	fr.retType = t3retType(fr)
	sc.fr = fr
	noEnd := func(end t3sc) ([]string, error) {
		if c.t7 && len(fr.results) == 0 { // [t7] a function without results may fall off its end
			return c.doReturn(&ast.ReturnStmt{}, end)
		}
		return nil, lostf("control reaches the end without a return")
	}
	var lines []string
	mod, err := c.collect(func() error {
		var err error
		lines, err = c.stmts(body.List, sc, noEnd)
		return err
	})
	if err != nil {
		return "", nil, err
	}
	if recvBind != nil && !tg.recvOut && mod[recvBind.id] {
		return "", nil, lostf("the receiver is modified but this target does not return it")
	}
	var retTypes []string
	for _, b := range fr.outs {
		retTypes = append(retTypes, t3atom(b.typ.lean))
	}
	for _, r := range fr.results {
		retTypes = append(retTypes, t3atom(r.lean))
	}
	if len(fr.results) == 0 {
		retTypes = append(retTypes, "Unit")
	}
	var head []string
	if tg.useH {
		head = append(head, "(H : Bytes → UInt64)")
	}
	if tg.useX {
		head = append(head, "(X : Go.T3.Ext)")
	}
	for _, r := range c.rngs {
		head = append(head, fmt.Sprintf("(%s : %s)", r.lean, r.typ))
	}
	head = append(head, params...)
	var b strings.Builder
	for _, n := range c.auxOrd {
		b.WriteString(c.aux[n] + "\n")
	}
	fmt.Fprintf(&b, "/-- %s -/\ndef %s %s :\n    %s :=\n", strings.ReplaceAll(tg.doc, "-/", "- /"), tg.lean, strings.Join(head, " "), strings.Join(retTypes, " × "))
	for _, l := range lines {
		b.WriteString("  " + l + "\n")
	}
	if len(c.rngs) != 0 {
		sig.rngs = c.rngs // [t7] was `sig = nil`: callers outside translate_t7.go still cannot call it (see sigCall)
	}
	return b.String(), sig, nil
}

func (tr *translator) translateT3(emit func(string, unit, error) bool, wrap func(bool, string, string)) {
	t3sigs = map[string]*t3sig{}
	for _, v := range []string{"keySchema", "keyNextRowID", "keyPrefixValue"} {
		lit, ok := tr.t3pkgBytesVar("writer.go", v)
		if !ok {
			emit(v, unit{}, lostf("package variable %s of writer.go is not a []byte{…} literal of constants", v))
			continue
		}
		wrap(true, v, fmt.Sprintf("/-- `%s` of writer.go -/\ndef %s : Bytes := %s\n", v, v, lit))
	}
	hp, bolt := []string{"$hp"}, []string{"$bolt", "$hp"}
	targets := []t3target{
		{rel: "types.go", recv: "schema", name: "add", lean: "schemaAdd", key: "schema.add", mode: "writer", useH: true, worlds: hp, recvOut: true,
			doc: "`(*schema).add` of types.go"},
		{rel: "writer.go", recv: "IndexWriter", name: "getValueBitmap", lean: "getValueBitmap", key: "IndexWriter.getValueBitmap", mode: "writer", worlds: hp, recvOut: true,
			doc: "`(*IndexWriter).getValueBitmap` of writer.go"},
		{rel: "writer.go", recv: "IndexWriter", name: "AddRow", lean: "indexWriterAddRow", mode: "writer", useH: true, worlds: hp, recvOut: true,
			doc: "`(*IndexWriter).AddRow` of writer.go; `values` is the list of the pairs of the map in the order `range` yields them"},
		{rel: "writer.go", recv: "IndexWriter", name: "WriteToBoltDatabase", lean: "writeToBoltDatabase", key: "IndexWriter.WriteToBoltDatabase" /* [t7] */, mode: "writer", useX: true, worlds: bolt, recvOut: true,
			doc: "`(*IndexWriter).WriteToBoltDatabase` of writer.go; `rng_values` is the list of the pairs of `idx.values` in the order `range` yields them"},
		{rel: "index.go", name: "newOnDemandColGetter", lean: "newOnDemandColGetter", key: "newOnDemandColGetter", mode: "open",
			doc: "`newOnDemandColGetter` of index.go"},
		{rel: "index.go", recv: "onDemandColGetter", name: "GetCol", lean: "onDemandGetCol", mode: "open", useX: true, worlds: bolt,
			doc: "`(*onDemandColGetter).GetCol` of index.go"},
		{rel: "index.go", name: "newPreloadedColGetter", lean: "newPreloadedColGetter", key: "newPreloadedColGetter", mode: "open", useX: true, worlds: bolt,
			doc: "`newPreloadedColGetter` of index.go"},
		{rel: "index.go", recv: "preloadedColGetter", name: "GetCol", lean: "preloadedGetCol", mode: "open",
			doc: "`(*preloadedColGetter).GetCol` of index.go"},
		{rel: "index.go", name: "WithPreloadedData", lean: "withPreloadedData", mode: "open", useX: true, worlds: bolt, litResult: true,
			doc: "the `IndexOption` returned by `WithPreloadedData` of index.go"},
		{rel: "index.go", name: "OpenIndexFromBoltDatabase", lean: "openIndexFromBoltDatabase", key: "OpenIndexFromBoltDatabase" /* [t7] */, mode: "open", useX: true, worlds: bolt,
			doc: "`OpenIndexFromBoltDatabase` of index.go"},
		{rel: "writer_big.go", recv: "BigIndexWriter", name: "AddRow", lean: "bigIndexWriterAddRow", mode: "writer", useH: true, worlds: bolt, recvOut: true,
			doc: "`(*BigIndexWriter).AddRow` of writer_big.go; `bolt` is the temporary database"},
	}
	for _, tg := range targets {
		text, sig, err := tr.t3func(tg)
		if err != nil {
			emit(tg.lean, unit{}, err)
			continue
		}
		wrap(true, tg.lean, text)
		if tg.key != "" && sig != nil {
			t3sigs[tg.key] = sig
		}
	}
}
