// translate_t5.go: the translator for the glue code around the library (internal/convert, driver/driver.go,
// cmd/updog/server.go, cmd/updog/create.go, internal/queryparser/walk.go).
//
// It is a second, more general statement/expression translator next to the one of translate.go: values carry the
// canonical Go type they have (a string such as "[]*pb.Result_Group"), struct types become Lean structures of
// Updog/Basic/GoPreludeT5.lean, `(T, error)` becomes `Except Go.Err5 T`, loops become folds over the carried
// variables, type switches on the protobuf oneof become `match`, recursive functions get fuel, callbacks are
// translated in state-passing style. Every Lean term is derived from the AST found in the repository; anything
// outside the subset loses the function (fail closed).
package main

import (
	"fmt"
	"go/ast"
	"go/token"
	"path/filepath"
	"sort"
	"strconv"
	"strings"
)

// ---------------------------------------------------------------- type table

type t5field struct{ name, typ string }

// one member of a oneof / interface type switch: Go case type ↦ Lean constructor; field = the single field of the
// Go wrapper struct, payload = its type. goType "" = the nil interface value.
type t5case struct{ goType, ctor, field, payload string }

type t5ty struct {
	lean     string
	ns       string            // Lean namespace of the field / getter functions
	fields   []t5field         // struct fields in declaration order (exported ones)
	isStruct bool              // a Lean structure with exactly these fields: literals and updates allowed
	methods  map[string]string // niladic getter ↦ canonical result type
	zero     string            // Lean term of the Go zero value
	oneof    []t5case
	ifaceOf  map[string]string // for interface types: dynamic Go type ↦ Lean coercion function
	wrapper  bool              // a oneof wrapper struct, represented by the value of its single field
	depth    string            // Lean function giving the fuel a recursion over this type needs
	decl     [2]string         // (file, Go type name) of the struct declaration to compare fields with
	setValue string            // for nodes: Lean function for `e.Value = v`
	mfuncs   map[string]*t5fn  // methods with arguments
}

type t5v struct {
	text string
	typ  string // canonical Go type; "untyped" = integer constant k; "nil" = the untyped nil
	k    int64
}

type t5b struct {
	lean string
	typ  string
}

type t5env map[string]t5b

func (e t5env) with(name string, b t5b) t5env {
	n := t5env{}
	for k, v := range e {
		n[k] = v
	}
	n[name] = b
	return n
}

func (e t5env) without(names ...string) t5env {
	n := t5env{}
	for k, v := range e {
		n[k] = v
	}
	for _, x := range names {
		delete(n, x)
	}
	return n
}

// signature of a callable the translated code may use
type t5fn struct {
	lean     string   // Lean function
	pre      []string // leading Lean arguments (fuel, parameters standing for externals)
	params   []string // canonical parameter types
	results  []string // canonical result types; ["T","error"] ↦ Except, ["error"] ↦ Option
	cb       int      // index of a callback parameter (-1: none): the call is state-passing
	cbArg    string   // canonical type of the callback's argument
	self     bool     // the function being translated (recursive call: uses the fuel variable)
	variadic bool
	world    bool // takes the world as its last leading argument and returns (World × result)
	wlast    bool // [t8] a translated world function: it returns (result, World) — the world is the LAST component
}

var t5scalars = map[string][2]string{ // canonical type ↦ (Lean type, zero)
	"string": {"Bytes", "([] : Bytes)"}, "int": {"Int", "(0 : Int)"}, "int32": {"Int", "(0 : Int)"},
	"int64": {"Int", "(0 : Int)"}, "uint64": {"UInt64", "(0 : UInt64)"}, "bool": {"Bool", "false"},
	"error": {"(Option Go.Err5)", "none"}, "rune": {"Nat", "(0 : Nat)"},
}

func t5isInt(t string) bool { return t == "int" || t == "int32" || t == "int64" }

// the packages whose types the subset knows, by import path ↦ canonical prefix
var t5pkgs = map[string]string{
	"github.com/akrennmair/updog":                      "updog",
	"github.com/akrennmair/updog/proto/updog/v1":       "pb",
	"github.com/akrennmair/updog/internal/convert":     "convert",
	"github.com/akrennmair/updog/internal/queryparser": "queryparser",
	"database/sql/driver":                              "driver",
	"net/url":                                          "url",
	"strconv":                                          "strconv",
	"strings":                                          "strings",
	"fmt":                                              "fmt",
	"io":                                               "io",
	"errors":                                           "errors",
	"google.golang.org/protobuf/proto":                 "protolib",
	"context":                                          "context",
}

// the protobuf query messages have two views (see GoPreludeT5.lean): "w" = through getters, "p" = parsed tree
var t5viewed = map[string]bool{"pb.Query": true, "pb.Query_Expression": true, "pb.Query_Expression_Equal": true,
	"pb.Query_Expression_Not": true, "pb.Query_Expression_And": true, "pb.Query_Expression_Or": true,
	"pb.Query_Expression_Eq": true, "pb.Query_Expression_Not_": true, "pb.Query_Expression_And_": true,
	"pb.Query_Expression_Or_": true, "pb.isQuery_Expression_Value": true, "pb.QueryRequest": true}

func t5typeTable() map[string]*t5ty {
	const pbgo = "proto/updog/v1/updog.pb.go"
	m := map[string]*t5ty{}
	st := func(key, lean string, decl [2]string, fields ...t5field) *t5ty {
		t := &t5ty{lean: lean, ns: lean, fields: fields, isStruct: true, decl: decl}
		m[key] = t
		return t
	}
	f := func(n, t string) t5field { return t5field{n, t} }
	// package updog
	st("updog.ResultField", "Go.Lib.ResultField", [2]string{"query.go", "ResultField"}, f("Column", "string"), f("Value", "string"))
	st("updog.ResultGroup", "Go.Lib.ResultGroup", [2]string{"query.go", "ResultGroup"}, f("Fields", "[]updog.ResultField"), f("Count", "uint64"))
	st("updog.Result", "Go.Lib.Result", [2]string{"query.go", "Result"}, f("Count", "uint64"), f("Groups", "[]updog.ResultGroup"))
	st("updog.Query", "Go.Lib.Query", [2]string{"query.go", "Query"}, f("Expr", "updog.Expression"), f("GroupBy", "[]string"))
	st("updog.ExprEqual", "Go.Lib.ExprEqual", [2]string{"query.go", "ExprEqual"}, f("Column", "string"), f("Value", "string"))
	st("updog.ExprNot", "Go.Lib.ExprNot", [2]string{"query.go", "ExprNot"}, f("Expr", "updog.Expression"))
	st("updog.ExprAnd", "Go.Lib.ExprAnd", [2]string{"query.go", "ExprAnd"}, f("Exprs", "[]updog.Expression"))
	st("updog.ExprOr", "Go.Lib.ExprOr", [2]string{"query.go", "ExprOr"}, f("Exprs", "[]updog.Expression"))
	m["updog.Expression"] = &t5ty{lean: "Go.Lib.Expression", ns: "Go.Lib.Expression", zero: "Go.Lib.Expression.nil",
		ifaceOf: map[string]string{"*updog.ExprEqual": "Go.Lib.ExprEqual.toExpression", "*updog.ExprNot": "Go.Lib.ExprNot.toExpression",
			"*updog.ExprAnd": "Go.Lib.ExprAnd.toExpression", "*updog.ExprOr": "Go.Lib.ExprOr.toExpression"}}
	m["updog.IndexOption"] = &t5ty{lean: "Go.Lib.IndexOption", ns: "Go.Lib.IndexOption"}
	m["*updog.LRUCache"] = &t5ty{lean: "Go.Lib.LRUCache", ns: "Go.Lib.LRUCache"}
	// protobuf results
	st("pb.Result_Group_ResultField", "Go.Pb.Result_Group_ResultField", [2]string{pbgo, "Result_Group_ResultField"}, f("Column", "string"), f("Value", "string"))
	st("pb.Result_Group", "Go.Pb.Result_Group", [2]string{pbgo, "Result_Group"}, f("Fields", "[]*pb.Result_Group_ResultField"), f("Count", "uint64"))
	st("pb.Result", "Go.Pb.Result", [2]string{pbgo, "Result"}, f("QueryId", "int32"), f("TotalCount", "uint64"), f("Groups", "[]*pb.Result_Group"))
	st("pb.QueryResponse", "Go.Pb.QueryResponse", [2]string{pbgo, "QueryResponse"}, f("Results", "[]*pb.Result"))
	// protobuf queries, getter view
	m["pb.QueryRequest@w"] = &t5ty{lean: "Go.Wire.QueryRequest", ns: "Go.Wire.QueryRequest", fields: []t5field{f("Queries", "[]*pb.Query@w")},
		decl: [2]string{pbgo, "QueryRequest"}}
	m["pb.Query@w"] = &t5ty{lean: "Go.Wire.Query", ns: "Go.Wire.Query", fields: []t5field{f("Id", "int32")},
		methods: map[string]string{"GetExpr": "*pb.Query_Expression@w", "GetGroupBy": "[]string"}}
	m["pb.Query_Expression@w"] = &t5ty{lean: "Go.Wire.Expression", ns: "Go.Wire.Expression", depth: "Go.Wire.Expression.depth",
		methods: map[string]string{"GetValue": "pb.isQuery_Expression_Value@w"}}
	m["pb.isQuery_Expression_Value@w"] = &t5ty{lean: "Go.Wire.Value", ns: "Go.Wire.Value", oneof: []t5case{
		{"*pb.Query_Expression_Eq@w", "Eq", "Eq", "*pb.Query_Expression_Equal@w"},
		{"*pb.Query_Expression_Not_@w", "Not_", "Not", "*pb.Query_Expression_Not@w"},
		{"*pb.Query_Expression_And_@w", "And_", "And", "*pb.Query_Expression_And@w"},
		{"*pb.Query_Expression_Or_@w", "Or_", "Or", "*pb.Query_Expression_Or@w"},
		{"", "nil", "", ""}}}
	m["pb.Query_Expression_Equal@w"] = &t5ty{lean: "Go.Wire.Equal", ns: "Go.Wire.Equal", methods: map[string]string{"GetColumn": "string", "GetValue": "string"}}
	m["pb.Query_Expression_Not@w"] = &t5ty{lean: "Go.Wire.Not", ns: "Go.Wire.Not", methods: map[string]string{"GetExpr": "*pb.Query_Expression@w"}}
	m["pb.Query_Expression_And@w"] = &t5ty{lean: "Go.Wire.And", ns: "Go.Wire.And", methods: map[string]string{"GetExprs": "[]*pb.Query_Expression@w"}}
	m["pb.Query_Expression_Or@w"] = &t5ty{lean: "Go.Wire.Or", ns: "Go.Wire.Or", methods: map[string]string{"GetExprs": "[]*pb.Query_Expression@w"}}
	// protobuf queries, parsed view
	m["pb.Query@p"] = &t5ty{lean: "Go.Parsed.Query", ns: "Go.Parsed.Query", fields: []t5field{f("Expr", "*pb.Query_Expression@p"), f("GroupBy", "[]string")}}
	m["pb.Query_Expression@p"] = &t5ty{lean: "Go.Parsed.Expression", ns: "Go.Parsed.Expression", depth: "Go.Parsed.Expression.depth",
		fields: []t5field{f("Value", "pb.isQuery_Expression_Value@p")}, setValue: "Go.Parsed.Expression.setValue"}
	m["pb.isQuery_Expression_Value@p"] = &t5ty{lean: "Go.Parsed.Value", ns: "Go.Parsed.Value", oneof: []t5case{
		{"*pb.Query_Expression_Eq@p", "Eq", "Eq", "*pb.Query_Expression_Equal@p"},
		{"*pb.Query_Expression_Not_@p", "Not_", "Not", "*pb.Query_Expression_Not@p"},
		{"*pb.Query_Expression_And_@p", "And_", "And", "*pb.Query_Expression_And@p"},
		{"*pb.Query_Expression_Or_@p", "Or_", "Or", "*pb.Query_Expression_Or@p"}}}
	st("pb.Query_Expression_Equal@p", "Go.Parsed.Equal", [2]string{pbgo, "Query_Expression_Equal"}, f("Column", "string"), f("Value", "string"), f("Placeholder", "int32"))
	st("pb.Query_Expression_Not@p", "Go.Parsed.Not", [2]string{pbgo, "Query_Expression_Not"}, f("Expr", "*pb.Query_Expression@p"))
	st("pb.Query_Expression_And@p", "Go.Parsed.And", [2]string{pbgo, "Query_Expression_And"}, f("Exprs", "[]*pb.Query_Expression@p"))
	st("pb.Query_Expression_Or@p", "Go.Parsed.Or", [2]string{pbgo, "Query_Expression_Or"}, f("Exprs", "[]*pb.Query_Expression@p"))
	for _, v := range []string{"w", "p"} {
		for _, w := range [][3]string{{"Eq", "Eq", "Equal"}, {"Not_", "Not", "Not"}, {"And_", "And", "And"}, {"Or_", "Or", "Or"}} {
			m["pb.Query_Expression_"+w[0]+"@"+v] = &t5ty{wrapper: true, lean: map[string]string{"w": "Go.Wire.", "p": "Go.Parsed."}[v] + w[2], fields: []t5field{f(w[1], "*pb.Query_Expression_"+w[2]+"@"+v)},
				decl: [2]string{pbgo, "Query_Expression_" + w[0]}}
		}
	}
	t5driverTypes(m)
	return m
}

// ---------------------------------------------------------------- context

type t5ctx struct {
	tr       *translator
	file     *ast.File
	rel      string
	pkg      string // canonical prefix of the file's own package
	view     string // "w" or "p"
	types    map[string]*t5ty
	funcs    map[string]*t5fn // flat source of the callee ↦ signature
	vals     map[string]t5v   // flat source of a package-level value ↦ Lean term
	res      []string         // canonical result types of the function being translated
	state    []string         // Go variables whose final value is returned together with the result
	stVar    string           // non-empty: the hidden callback state (Lean variable) threaded through
	retWrap  func(string) string
	retLean  string // Lean type the current return statements produce (after retWrap)
	fuelVar  string
	tmp      int
	checked  map[string]bool
	inlining map[string]bool  // helpers being inlined
	world    string           // non-empty: the Lean variable holding the driver's shared state (Go.Drv.World)
	hoisted  map[ast.Node]t5v // effectful sub-expressions already evaluated into temporaries
	t8       *t8state         // [t8] non-nil: the extensions of translate_t8.go are active (for {…}, break, defer, world methods)
	t8nest   int              // [t8] > 0: inside a nested statement list whose continuation does not lead to the function's end
	t8loop   *t8loopInfo      // [t8] the innermost `for { … }` loop being translated
}

func (tr *translator) t5new(rel, pkg, view string) (*t5ctx, error) {
	f := tr.load(rel)
	if f == nil {
		return nil, lostf("file %s not found or not parsable", rel)
	}
	return &t5ctx{tr: tr, file: f, rel: rel, pkg: pkg, view: view, types: t5typeTable(), funcs: map[string]*t5fn{},
		vals: map[string]t5v{}, retWrap: func(s string) string { return s }, checked: map[string]bool{}}, nil
}

func (c *t5ctx) fresh(p string) string {
	c.tmp++
	return fmt.Sprintf("%s%d_", p, c.tmp)
}

// pkgOf: the canonical prefix of the package an identifier used as `id.X` denotes ("" if it is not an import)
func (c *t5ctx) pkgOf(id string, en t5env) string {
	if _, ok := en[id]; ok {
		return ""
	}
	for _, im := range c.file.Imports {
		p, _ := strconv.Unquote(im.Path.Value)
		n := p[strings.LastIndex(p, "/")+1:]
		if p == "github.com/akrennmair/updog/proto/updog/v1" {
			n = "updogv1"
		}
		if im.Name != nil {
			n = im.Name.Name
		}
		if n == id {
			if cp, ok := t5pkgs[p]; ok {
				return cp
			}
			return "?" + p
		}
	}
	return ""
}

// canon: the canonical type string of a Go type expression
func (c *t5ctx) canon(e ast.Expr) (string, error) {
	switch e := e.(type) {
	case *ast.Ident:
		if _, ok := t5scalars[e.Name]; ok || e.Name == "byte" || e.Name == "rune" || e.Name == "any" {
			if c.tr.pkgDeclares(c.rel, e.Name) {
				return "", lostf("type name %s is redeclared by the package", e.Name)
			}
			return e.Name, nil
		}
		return c.viewed(c.pkg + "." + e.Name), nil
	case *ast.SelectorExpr:
		id, ok := e.X.(*ast.Ident)
		if !ok {
			return "", lostf("type %s", c.tr.src(e))
		}
		p := c.pkgOf(id.Name, nil)
		if p == "" || strings.HasPrefix(p, "?") {
			return "", lostf("type %s of an unknown package", c.tr.src(e))
		}
		return c.viewed(p + "." + e.Sel.Name), nil
	case *ast.StarExpr:
		t, err := c.canon(e.X)
		return "*" + t, err
	case *ast.ArrayType:
		if e.Len != nil {
			return "", lostf("array type %s", c.tr.src(e))
		}
		t, err := c.canon(e.Elt)
		return "[]" + t, err
	case *ast.Ellipsis:
		t, err := c.canon(e.Elt)
		return "[]" + t, err
	case *ast.MapType:
		k, err := c.canon(e.Key)
		if err != nil {
			return "", err
		}
		v, err := c.canon(e.Value)
		return "map[" + k + "]" + v, err
	case *ast.FuncType:
		var ps, rs []string
		if e.Params != nil {
			for _, fl := range e.Params.List {
				t, err := c.canon(fl.Type)
				if err != nil {
					return "", err
				}
				n := len(fl.Names)
				if n == 0 {
					n = 1
				}
				for i := 0; i < n; i++ {
					ps = append(ps, t)
				}
			}
		}
		if e.Results != nil {
			for _, fl := range e.Results.List {
				t, err := c.canon(fl.Type)
				if err != nil {
					return "", err
				}
				rs = append(rs, t)
			}
		}
		return "func(" + strings.Join(ps, ",") + ")" + strings.Join(rs, ","), nil
	}
	return "", lostf("type %s", c.tr.src(e))
}

func (c *t5ctx) viewed(t string) string {
	if t5viewed[t] {
		return t + "@" + c.view
	}
	return t
}

// ty: the descriptor of a canonical type; pointers to known struct types are the struct (value semantics)
func (c *t5ctx) ty(key string) (*t5ty, error) {
	if s, ok := t5scalars[key]; ok {
		return &t5ty{lean: s[0], zero: s[1]}, nil
	}
	if t, ok := c.types[key]; ok {
		if err := c.checkDecl(key, t); err != nil {
			return nil, err
		}
		return t, nil
	}
	if strings.HasPrefix(key, "*") {
		if t, ok := c.types[key[1:]]; ok {
			if err := c.checkDecl(key[1:], t); err != nil {
				return nil, err
			}
			return t, nil
		}
	}
	if strings.HasPrefix(key, "[]") {
		et, err := c.ty(key[2:])
		if err != nil {
			return nil, err
		}
		if et.lean == "" {
			return nil, lostf("slice of %s", key[2:])
		}
		return &t5ty{lean: "(List " + et.lean + ")", zero: "([] : List " + et.lean + ")"}, nil
	}
	if strings.HasPrefix(key, "map[string]") {
		vt, err := c.ty(key[len("map[string]"):])
		if err != nil {
			return nil, err
		}
		return &t5ty{lean: "(Go.Map " + vt.lean + ")", zero: "(Go.Map.nil : Go.Map " + vt.lean + ")"}, nil
	}
	return nil, lostf("type %s is not in the subset", key)
}

// checkDecl compares the field list the table assumes with the Go struct declaration (exported fields, in order)
func (c *t5ctx) checkDecl(key string, t *t5ty) error {
	if t.decl[0] == "" || c.checked[key] {
		return nil
	}
	f := c.tr.load(t.decl[0])
	if f == nil {
		return lostf("declaration of %s: %s not found", key, t.decl[0])
	}
	var got []string
	found := false
	for _, d := range f.Decls {
		gd, ok := d.(*ast.GenDecl)
		if !ok || gd.Tok != token.TYPE {
			continue
		}
		for _, s := range gd.Specs {
			ts := s.(*ast.TypeSpec)
			stt, ok := ts.Type.(*ast.StructType)
			if ts.Name.Name != t.decl[1] || !ok {
				continue
			}
			found = true
			for _, fl := range stt.Fields.List {
				for _, id := range fl.Names {
					if ast.IsExported(id.Name) || t.decl[0] == "driver/driver.go" {
						got = append(got, id.Name+" "+c.tr.src(fl.Type))
					}
				}
				if len(fl.Names) == 0 && t.decl[0] == "driver/driver.go" {
					got = append(got, "embedded "+c.tr.src(fl.Type))
				}
			}
		}
	}
	if !found {
		return lostf("struct %s not declared in %s", t.decl[1], t.decl[0])
	}
	var want []string
	for _, fl := range t.fields {
		want = append(want, fl.name+" "+t5declType(fl.typ, t.decl[0]))
	}
	if strings.Join(got, "; ") != strings.Join(want, "; ") {
		return lostf("struct %s of %s has fields {%s}, the translator assumes {%s}", t.decl[1], t.decl[0], strings.Join(got, "; "), strings.Join(want, "; "))
	}
	c.checked[key] = true
	return nil
}

// t5declType: how a canonical type is written in the declaring package
func t5declType(t string, file string) string {
	if strings.HasPrefix(t, "map[") {
		if i := strings.Index(t, "]"); i > 0 {
			return "map[" + t5declType(t[4:i], file) + "]" + t5declType(t[i+1:], file)
		}
	}
	if i := strings.Index(t, "@"); i >= 0 {
		t = t[:i]
	}
	pre := ""
	for strings.HasPrefix(t, "[]") || strings.HasPrefix(t, "*") {
		if t[0] == '*' {
			pre, t = pre+"*", t[1:]
		} else {
			pre, t = pre+"[]", t[2:]
		}
	}
	if i := strings.Index(t, "."); i >= 0 && !strings.HasPrefix(t, "map[") && !strings.HasPrefix(t, "func(") {
		p := t[:i]
		switch {
		case file == "driver/driver.go" && p == "pb":
			t = "updogv1." + t[i+1:]
		case file == "driver/driver.go" && p == "updog":
		case p == "pb" || p == "updog" || p == "drv":
			t = t[i+1:]
		}
	}
	return pre + t
}

func (c *t5ctx) leanType(key string) (string, error) {
	t, err := c.ty(key)
	if err != nil {
		return "", err
	}
	if t.lean == "" {
		return "", lostf("type %s has no Lean counterpart", key)
	}
	return t.lean, nil
}

func (c *t5ctx) zero(key string) (string, error) {
	t, err := c.ty(key)
	if err != nil {
		return "", err
	}
	if t.zero != "" {
		return t.zero, nil
	}
	if t.isStruct {
		var parts []string
		for _, fl := range t.fields {
			z, err := c.zero(fl.typ)
			if err != nil {
				return "", err
			}
			parts = append(parts, fl.name+" := "+z)
		}
		return "({ " + strings.Join(parts, ", ") + " } : " + t.lean + ")", nil
	}
	return "", lostf("zero value of %s", key)
}

// conv: assignability of v to type `to`
func (c *t5ctx) conv(v t5v, to string) (t5v, error) {
	if v.typ == to {
		return v, nil
	}
	switch v.typ {
	case "untyped":
		switch to {
		case "int", "int64":
			return t5v{text: fmt.Sprintf("(%d : Int)", v.k), typ: to}, nil
		case "int32":
			if v.k >= -2147483648 && v.k <= 2147483647 {
				return t5v{text: fmt.Sprintf("(%d : Int)", v.k), typ: to}, nil
			}
		case "uint64":
			if v.k >= 0 {
				return t5v{text: fmt.Sprintf("(%d : UInt64)", v.k), typ: to}, nil
			}
		case "rune":
			if v.k >= 0 && v.k <= 0x10FFFF {
				return t5v{text: fmt.Sprintf("(%d : Nat)", v.k), typ: to}, nil
			}
		}
		return t5v{}, lostf("constant %d does not convert to %s", v.k, to)
	case "nil":
		if strings.HasPrefix(to, "[]") || to == "error" || strings.HasPrefix(to, "map[") {
			z, err := c.zero(to)
			return t5v{text: z, typ: to}, err
		}
		if t, ok := c.types[to]; ok && (t.ifaceOf != nil || (strings.HasPrefix(to, "*") && t.zero != "")) {
			return t5v{text: t.zero, typ: to}, nil
		}
		return t5v{}, lostf("nil as a value of type %s", to)
	}
	if v.typ == "errval" && to == "error" {
		return t5v{text: "(some " + v.text + ")", typ: to}, nil
	}
	// pointer and value of a struct are the same Lean value
	if strings.TrimPrefix(v.typ, "*") == strings.TrimPrefix(to, "*") && (strings.HasPrefix(v.typ, "*") != strings.HasPrefix(to, "*")) {
		return t5v{}, lostf("mixing %s and %s", v.typ, to)
	}
	if t, ok := c.types[to]; ok && t.ifaceOf != nil {
		if f, ok := t.ifaceOf[v.typ]; ok {
			return t5v{text: "(" + f + " " + v.text + ")", typ: to}, nil
		}
	}
	// a parsed protobuf query handed to code that reads it through getters
	if v.typ == "*pb.Query@p" && to == "*pb.Query@w" {
		return t5v{text: "(Go.Parsed.Query.toWire " + v.text + ")", typ: to}, nil
	}
	return t5v{}, lostf("type mismatch: have %s, want %s", v.typ, to)
}

// ---------------------------------------------------------------- expressions

func (c *t5ctx) free(name string, en t5env) bool {
	if _, ok := en[name]; ok {
		return false
	}
	return !c.tr.pkgDeclares(c.rel, name)
}

func (c *t5ctx) isBuiltin(e ast.Expr, en t5env, name string) bool {
	id, ok := e.(*ast.Ident)
	return ok && id.Name == name && c.free(name, en)
}

// flat: the source of a callee / selector with the package alias replaced by its canonical prefix
func (c *t5ctx) flat(e ast.Expr, en t5env) string {
	if s, ok := e.(*ast.SelectorExpr); ok {
		if id, ok := s.X.(*ast.Ident); ok {
			if p := c.pkgOf(id.Name, en); p != "" {
				return p + "." + s.Sel.Name
			}
		}
	}
	return c.tr.src(e)
}

func (c *t5ctx) ex(e ast.Expr, en t5env) (t5v, error) {
	if v, ok := c.hoisted[e]; ok {
		return v, nil
	}
	if c.world != "" {
		if v, ok, err := c.worldExpr(e, en); ok {
			return v, err
		}
	}
	switch e := e.(type) {
	case *ast.ParenExpr:
		return c.ex(e.X, en)
	case *ast.BasicLit:
		switch e.Kind {
		case token.INT:
			k, err := strconv.ParseInt(e.Value, 0, 64)
			if err != nil {
				return t5v{}, lostf("integer literal %s", e.Value)
			}
			return t5v{typ: "untyped", k: k}, nil
		case token.STRING:
			s, err := strconv.Unquote(e.Value)
			if err != nil {
				return t5v{}, lostf("string literal %s", e.Value)
			}
			return t5v{text: bytesLit(s), typ: "string"}, nil
		case token.CHAR:
			r, _, _, err := strconv.UnquoteChar(e.Value[1:len(e.Value)-1], '\'')
			if err != nil {
				return t5v{}, lostf("char literal %s", e.Value)
			}
			return t5v{typ: "untyped", k: int64(r)}, nil
		}
		return t5v{}, lostf("literal %s", e.Value)
	case *ast.Ident:
		if b, ok := en[e.Name]; ok {
			return t5v{text: b.lean, typ: b.typ}, nil
		}
		if (e.Name == "true" || e.Name == "false") && c.free(e.Name, en) {
			return t5v{text: e.Name, typ: "bool"}, nil
		}
		if e.Name == "nil" && c.free("nil", en) {
			return t5v{typ: "nil"}, nil
		}
		return t5v{}, lostf("identifier %s is not a variable of the subset", e.Name)
	case *ast.SelectorExpr:
		if v, ok := c.vals[c.flat(e, en)]; ok {
			return v, nil
		}
		if id, ok := e.X.(*ast.Ident); ok && c.pkgOf(id.Name, en) != "" {
			return t5v{}, lostf("package member %s", c.tr.src(e))
		}
		x, err := c.ex(e.X, en)
		if err != nil {
			return t5v{}, err
		}
		return c.field(x, e.Sel.Name)
	case *ast.UnaryExpr:
		if e.Op == token.AND {
			switch x := e.X.(type) {
			case *ast.CompositeLit:
				v, err := c.ex(x, en)
				if err != nil {
					return t5v{}, err
				}
				return t5v{text: v.text, typ: "*" + v.typ}, nil
			case *ast.Ident: // &local of a struct type: the value itself
				v, err := c.ex(x, en)
				if err != nil {
					return t5v{}, err
				}
				if t, err := c.ty(v.typ); err != nil || !t.isStruct || strings.HasPrefix(v.typ, "*") {
					return t5v{}, lostf("address of %s", x.Name)
				}
				return t5v{text: v.text, typ: "*" + v.typ}, nil
			}
			return t5v{}, lostf("address-of %s", c.tr.src(e.X))
		}
		x, err := c.ex(e.X, en)
		if err != nil {
			return t5v{}, err
		}
		switch {
		case e.Op == token.NOT && x.typ == "bool":
			return t5v{text: "(!" + x.text + ")", typ: "bool"}, nil
		case e.Op == token.SUB && x.typ == "untyped":
			return t5v{typ: "untyped", k: -x.k}, nil
		}
		return t5v{}, lostf("unary %s on %s", e.Op, x.typ)
	case *ast.BinaryExpr:
		return c.bin(e, en)
	case *ast.IndexExpr:
		x, err := c.ex(e.X, en)
		if err != nil {
			return t5v{}, err
		}
		if !strings.HasPrefix(x.typ, "[]") {
			return t5v{}, lostf("index into %s", x.typ)
		}
		i, err := c.exIdx(e.Index, en)
		if err != nil {
			return t5v{}, err
		}
		return t5v{text: fmt.Sprintf("(Go.indexL %s %s)", x.text, i.text), typ: x.typ[2:]}, nil
	case *ast.CompositeLit:
		return c.lit(e, en, "")
	case *ast.CallExpr:
		return c.call(e, en)
	}
	return t5v{}, lostf("expression %s", c.tr.src(e))
}

// exIdx: an index expression (any integer type; all are Int in Lean)
func (c *t5ctx) exIdx(e ast.Expr, en t5env) (t5v, error) {
	v, err := c.ex(e, en)
	if err != nil {
		return t5v{}, err
	}
	if t5isInt(v.typ) {
		return v, nil
	}
	return c.conv(v, "int")
}

func (c *t5ctx) exT(e ast.Expr, en t5env, to string) (t5v, error) {
	v, err := c.ex(e, en)
	if err != nil {
		return t5v{}, err
	}
	return c.conv(v, to)
}

// field: x.F
func (c *t5ctx) field(x t5v, name string) (t5v, error) {
	t, err := c.ty(x.typ)
	if err != nil {
		return t5v{}, err
	}
	for _, fl := range t.fields {
		if fl.name == name {
			if t.wrapper {
				return t5v{text: x.text, typ: fl.typ}, nil
			}
			return t5v{text: fmt.Sprintf("(%s.%s %s)", t.ns, name, x.text), typ: fl.typ}, nil
		}
	}
	return t5v{}, lostf("field %s of %s", name, x.typ)
}

func (c *t5ctx) bin(e *ast.BinaryExpr, en t5env) (t5v, error) {
	a, err := c.ex(e.X, en)
	if err != nil {
		return t5v{}, err
	}
	b, err := c.ex(e.Y, en)
	if err != nil {
		return t5v{}, err
	}
	if e.Op == token.LAND || e.Op == token.LOR {
		if a.typ != "bool" || b.typ != "bool" {
			return t5v{}, lostf("%s on non-booleans", e.Op)
		}
		op := "&&"
		if e.Op == token.LOR {
			op = "||"
		}
		return t5v{text: fmt.Sprintf("(%s %s %s)", a.text, op, b.text), typ: "bool"}, nil
	}
	if c.t8 != nil && (e.Op == token.EQL || e.Op == token.NEQ) && a.typ == "error" && b.typ == "nil" { // [t8] err == nil / err != nil
		if e.Op == token.EQL {
			return t5v{text: "(Option.isNone " + a.text + ")", typ: "bool"}, nil
		}
		return t5v{text: "(Option.isSome " + a.text + ")", typ: "bool"}, nil
	}
	switch {
	case a.typ == "untyped" && b.typ == "untyped":
		return t5v{}, lostf("constant expression of two untyped constants")
	case a.typ == "untyped":
		if a, err = c.conv(a, b.typ); err != nil {
			return t5v{}, err
		}
	case b.typ == "untyped":
		if b, err = c.conv(b, a.typ); err != nil {
			return t5v{}, err
		}
	case a.typ != b.typ:
		return t5v{}, lostf("operands of different types %s and %s", a.typ, b.typ)
	}
	t := a.typ
	ordered := t5isInt(t) || t == "uint64" || t == "rune"
	switch e.Op {
	case token.EQL, token.NEQ:
		if !(ordered || t == "bool" || t == "string") {
			return t5v{}, lostf("== on %s", t)
		}
		op := "=="
		if e.Op == token.NEQ {
			op = "!="
		}
		return t5v{text: fmt.Sprintf("(%s %s %s)", a.text, op, b.text), typ: "bool"}, nil
	case token.LSS, token.LEQ, token.GTR, token.GEQ:
		if !ordered {
			return t5v{}, lostf("%s on %s", e.Op, t)
		}
		op := map[token.Token]string{token.LSS: "<", token.LEQ: "≤", token.GTR: ">", token.GEQ: "≥"}[e.Op]
		return t5v{text: fmt.Sprintf("(decide (%s %s %s))", a.text, op, b.text), typ: "bool"}, nil
	case token.ADD, token.SUB:
		if e.Op == token.ADD && t == "string" {
			return t5v{text: fmt.Sprintf("(%s ++ %s)", a.text, b.text), typ: "string"}, nil
		}
		if !t5isInt(t) {
			return t5v{}, lostf("arithmetic %s on %s (only int types, assumed not to overflow)", e.Op, t)
		}
		return t5v{text: fmt.Sprintf("(%s %s %s)", a.text, e.Op, b.text), typ: t}, nil
	case token.REM: // [t8] Go's % truncates towards zero (Int.tmod); x % 0 panics in Go (Int.tmod x 0 = x)
		if !t5isInt(t) || c.t8 == nil {
			return t5v{}, lostf("%% on %s", t)
		}
		return t5v{text: fmt.Sprintf("(Int.tmod %s %s)", a.text, b.text), typ: t}, nil
	}
	return t5v{}, lostf("operator %s", e.Op)
}

// lit: composite literal; elemType is used for elided types inside slice literals
func (c *t5ctx) lit(e *ast.CompositeLit, en t5env, elided string) (t5v, error) {
	key := elided
	if e.Type != nil {
		k, err := c.canon(e.Type)
		if err != nil {
			return t5v{}, err
		}
		key = k
	}
	if key == "" {
		return t5v{}, lostf("composite literal without a type")
	}
	if strings.HasPrefix(key, "[]") {
		et := key[2:]
		lt, err := c.leanType(key)
		if err != nil {
			return t5v{}, err
		}
		var items []string
		for _, el := range e.Elts {
			var v t5v
			var err error
			if cl, ok := el.(*ast.CompositeLit); ok && cl.Type == nil {
				v, err = c.lit(cl, en, et)
			} else if _, ok := el.(*ast.KeyValueExpr); ok {
				return t5v{}, lostf("keyed slice literal")
			} else {
				v, err = c.exT(el, en, et)
			}
			if err != nil {
				return t5v{}, err
			}
			items = append(items, v.text)
		}
		return t5v{text: "([" + strings.Join(items, ", ") + "] : " + lt[1:len(lt)-1] + ")", typ: key}, nil
	}
	if strings.HasPrefix(key, "map[string]") {
		if len(e.Elts) != 0 {
			return t5v{}, lostf("non-empty map literal")
		}
		lt, err := c.leanType(key)
		if err != nil {
			return t5v{}, err
		}
		return t5v{text: "(Go.Map.empty : " + lt[1:len(lt)-1] + ")", typ: key}, nil
	}
	t, err := c.ty(key)
	if err != nil {
		return t5v{}, err
	}
	if !t.isStruct || strings.HasPrefix(key, "*") {
		return t5v{}, lostf("composite literal of %s", key)
	}
	given := map[string]string{}
	for _, el := range e.Elts {
		kv, ok := el.(*ast.KeyValueExpr)
		if !ok {
			return t5v{}, lostf("positional struct literal")
		}
		id, ok := kv.Key.(*ast.Ident)
		if !ok {
			return t5v{}, lostf("struct literal key %s", c.tr.src(kv.Key))
		}
		ft := ""
		for _, fl := range t.fields {
			if fl.name == id.Name {
				ft = fl.typ
			}
		}
		if ft == "" {
			return t5v{}, lostf("field %s of %s", id.Name, key)
		}
		if _, dup := given[id.Name]; dup {
			return t5v{}, lostf("duplicate field %s", id.Name)
		}
		v, err := c.exT(kv.Value, en, ft)
		if err != nil {
			return t5v{}, err
		}
		given[id.Name] = v.text
	}
	var parts []string
	for _, fl := range t.fields {
		v, ok := given[fl.name]
		if !ok {
			z, err := c.zero(fl.typ)
			if err != nil {
				return t5v{}, err
			}
			v = z
		}
		parts = append(parts, fl.name+" := "+v)
	}
	return t5v{text: "({ " + strings.Join(parts, ", ") + " } : " + t.lean + ")", typ: key}, nil
}

func (c *t5ctx) call(e *ast.CallExpr, en t5env) (t5v, error) {
	n := len(e.Args)
	switch {
	case c.isBuiltin(e.Fun, en, "len") && n == 1:
		x, err := c.ex(e.Args[0], en)
		if err != nil {
			return t5v{}, err
		}
		if x.typ != "string" && !strings.HasPrefix(x.typ, "[]") {
			return t5v{}, lostf("len of %s", x.typ)
		}
		return t5v{text: fmt.Sprintf("(Go.len %s)", x.text), typ: "int"}, nil
	case (c.isBuiltin(e.Fun, en, "int") || c.isBuiltin(e.Fun, en, "int64") || c.isBuiltin(e.Fun, en, "int32")) && n == 1:
		to := e.Fun.(*ast.Ident).Name
		x, err := c.ex(e.Args[0], en)
		if err != nil {
			return t5v{}, err
		}
		switch {
		case x.typ == "untyped":
			return c.conv(x, to)
		case x.typ == to, to != "int32" && t5isInt(x.typ): // widening (int is 64 bit)
			return t5v{text: x.text, typ: to}, nil
		case to == "int32" && t5isInt(x.typ):
			return t5v{text: fmt.Sprintf("(Go.toInt32 %s)", x.text), typ: to}, nil
		case x.typ == "uint64" && to == "int32":
			return t5v{text: fmt.Sprintf("(Go.u64ToInt32 %s)", x.text), typ: to}, nil
		case x.typ == "uint64":
			return t5v{text: fmt.Sprintf("(Go.u64ToInt64 %s)", x.text), typ: to}, nil
		}
		return t5v{}, lostf("conversion %s(%s)", to, x.typ)
	case c.isBuiltin(e.Fun, en, "append") && n >= 2:
		x, err := c.ex(e.Args[0], en)
		if err != nil {
			return t5v{}, err
		}
		if !strings.HasPrefix(x.typ, "[]") {
			return t5v{}, lostf("append to %s", x.typ)
		}
		if e.Ellipsis.IsValid() {
			if n != 2 {
				return t5v{}, lostf("append with ... and %d arguments", n)
			}
			y, err := c.exT(e.Args[1], en, x.typ)
			if err != nil {
				return t5v{}, err
			}
			return t5v{text: fmt.Sprintf("(%s ++ %s)", x.text, y.text), typ: x.typ}, nil
		}
		var items []string
		for _, a := range e.Args[1:] {
			y, err := c.exT(a, en, x.typ[2:])
			if err != nil {
				return t5v{}, err
			}
			items = append(items, y.text)
		}
		return t5v{text: fmt.Sprintf("(%s ++ [%s])", x.text, strings.Join(items, ", ")), typ: x.typ}, nil
	case c.isBuiltin(e.Fun, en, "make") && (n == 2 || n == 3):
		key, err := c.canon(e.Args[0])
		if err != nil {
			return t5v{}, err
		}
		if !strings.HasPrefix(key, "[]") {
			return t5v{}, lostf("make(%s, …)", key)
		}
		lt, err := c.leanType(key)
		if err != nil {
			return t5v{}, err
		}
		ln, err := c.exT(e.Args[1], en, "int")
		if err != nil {
			return t5v{}, err
		}
		if n == 3 { // the capacity must be a pure int expression; it has no observable value
			if _, err := c.exT(e.Args[2], en, "int"); err != nil {
				return t5v{}, err
			}
		}
		return t5v{text: fmt.Sprintf("(Go.makeL %s : %s)", ln.text, lt[1:len(lt)-1]), typ: key}, nil
	}
	// methods with arguments of the table types (x.M(args…) ↦ (M x args…))
	if s, ok := e.Fun.(*ast.SelectorExpr); ok {
		if id, isId := s.X.(*ast.Ident); !isId || c.pkgOf(id.Name, en) == "" {
			if _, known := c.funcs[c.flat(e.Fun, en)]; !known {
				if x, err := c.ex(s.X, en); err == nil {
					if t, err := c.ty(x.typ); err == nil && t.mfuncs != nil {
						if fn, ok := t.mfuncs[s.Sel.Name]; ok {
							if len(fn.results) != 1 {
								return t5v{}, lostf("method %s with %d results used as a value", s.Sel.Name, len(fn.results))
							}
							f2 := *fn
							f2.pre = append(append([]string{}, fn.pre...), x.text)
							text, err := c.apply(&f2, e, en)
							if err != nil {
								return t5v{}, err
							}
							return t5v{text: text, typ: fn.results[0]}, nil
						}
					}
				}
			}
		}
	}
	// niladic getters of the message types
	if s, ok := e.Fun.(*ast.SelectorExpr); ok && n == 0 {
		if id, isId := s.X.(*ast.Ident); !isId || c.pkgOf(id.Name, en) == "" {
			if _, known := c.funcs[c.flat(e.Fun, en)]; !known {
				x, err := c.ex(s.X, en)
				if err != nil {
					return t5v{}, err
				}
				t, err := c.ty(x.typ)
				if err != nil {
					return t5v{}, err
				}
				if rt, ok := t.methods[s.Sel.Name]; ok {
					return t5v{text: fmt.Sprintf("(%s.%s %s)", t.ns, s.Sel.Name, x.text), typ: rt}, nil
				}
				return t5v{}, lostf("method %s of %s", s.Sel.Name, x.typ)
			}
		}
	}
	// fmt.Errorf / errors.New with a constant format: the error is identified by the format
	if fl := c.flat(e.Fun, en); (fl == "fmt.Errorf" && n >= 1) || (fl == "errors.New" && n == 1) {
		lit, ok := e.Args[0].(*ast.BasicLit)
		if !ok || lit.Kind != token.STRING {
			return t5v{}, lostf("%s with a non-literal format", fl)
		}
		s, err := strconv.Unquote(lit.Value)
		if err != nil {
			return t5v{}, lostf("format %s", lit.Value)
		}
		for _, a := range e.Args[1:] { // the arguments must be expressions of the subset; their values are dropped
			if _, err := c.ex(a, en); err != nil {
				return t5v{}, err
			}
		}
		return t5v{text: "(Go.Err5.errorf " + bytesLit(s) + ")", typ: "errval"}, nil
	}
	if fn, ok := c.funcs[c.flat(e.Fun, en)]; ok && fn.cb < 0 {
		if id, isId := e.Fun.(*ast.Ident); isId {
			if _, local := en[id.Name]; local {
				return t5v{}, lostf("call of the local variable %s", id.Name)
			}
		}
		if len(fn.results) != 1 {
			return t5v{}, lostf("call %s with %d results used as a value", c.tr.src(e.Fun), len(fn.results))
		}
		text, err := c.apply(fn, e, en)
		if err != nil {
			return t5v{}, err
		}
		return t5v{text: text, typ: fn.results[0]}, nil
	}
	if v, ok, err := c.inline(e, en); ok {
		return v, err
	}
	return t5v{}, lostf("call %s is not in the whitelist", c.tr.src(e.Fun))
}

// inline: a call of an unexported helper function declared in the same file whose body is in the subset is
// translated by inlining the translated body (parameters bound by `let`)
func (c *t5ctx) inline(e *ast.CallExpr, en t5env) (t5v, bool, error) {
	id, ok := e.Fun.(*ast.Ident)
	if !ok {
		return t5v{}, false, nil
	}
	if _, local := en[id.Name]; local {
		return t5v{}, false, nil
	}
	_, fd := c.tr.fn(c.rel, "", id.Name)
	if fd == nil || ast.IsExported(id.Name) {
		return t5v{}, false, nil
	}
	if c.inlining[id.Name] {
		return t5v{}, true, lostf("helper %s is recursive", id.Name)
	}
	if fd.Type.Results.NumFields() != 1 || len(fd.Type.Results.List[0].Names) != 0 || e.Ellipsis.IsValid() {
		return t5v{}, true, lostf("helper %s: only single-result helpers are inlined", id.Name)
	}
	rt, err := c.canon(fd.Type.Results.List[0].Type)
	if err != nil {
		return t5v{}, true, err
	}
	rlt, err := c.leanType(rt)
	if err != nil {
		return t5v{}, true, err
	}
	type par struct {
		name string
		typ  ast.Expr
	}
	var ps []par
	for _, fl := range fd.Type.Params.List {
		for _, n := range fl.Names {
			ps = append(ps, par{n.Name, fl.Type})
		}
		if len(fl.Names) == 0 {
			return t5v{}, true, lostf("helper %s has unnamed parameters", id.Name)
		}
	}
	if len(ps) != len(e.Args) {
		return t5v{}, true, lostf("helper %s called with %d arguments", id.Name, len(e.Args))
	}
	const d = 8
	lets := ""
	enP := t5env{}
	for i, p := range ps {
		key, err := c.canon(p.typ)
		if err != nil {
			return t5v{}, true, err
		}
		if strings.HasPrefix(key, "func(") {
			return t5v{}, true, lostf("helper %s takes a callback", id.Name)
		}
		for _, a := range e.Args[i+1:] {
			if t5idents([]ast.Stmt{&ast.ExprStmt{X: a}})[p.name] {
				return t5v{}, true, lostf("helper %s: parameter name %s occurs in a later argument", id.Name, p.name)
			}
		}
		v, err := c.exT(e.Args[i], en, key)
		if err != nil {
			return t5v{}, true, err
		}
		line, e2, err := c.declare(p.name, v, enP, d)
		if err != nil {
			return t5v{}, true, err
		}
		lets += line
		enP = e2
	}
	sub := *c
	sub.t8nest++ // [t8]
	sub.res = []string{rt}
	sub.state = nil
	sub.retWrap = func(s string) string { return s }
	sub.retLean = rlt
	sub.inlining = map[string]bool{id.Name: true}
	for k := range c.inlining {
		sub.inlining[k] = true
	}
	body, err := sub.blk(fd.Body.List, enP, nil, d)
	c.tmp = sub.tmp
	if err != nil {
		return t5v{}, true, lostf("helper %s: %v", id.Name, err)
	}
	return t5v{text: "(\n" + lets + body + ind(d-1) + ")", typ: rt}, true, nil
}

// apply: the Lean application of a known function to the translated arguments (without callback state)
func (c *t5ctx) apply(fn *t5fn, e *ast.CallExpr, en t5env) (string, error) {
	parts := []string{fn.lean}
	for _, p := range fn.pre {
		if p == "$fuel" {
			if c.fuelVar == "" {
				return "", lostf("recursive call outside a fuel context")
			}
			p = c.fuelVar
		}
		if p == "$w" {
			if c.world == "" {
				return "", lostf("call outside a world context")
			}
			p = c.world
		}
		parts = append(parts, p)
	}
	if fn.variadic {
		k := len(fn.params) - 1
		if len(e.Args) < k {
			return "", lostf("call %s with %d arguments", c.tr.src(e.Fun), len(e.Args))
		}
		for i := 0; i < k; i++ {
			v, err := c.exT(e.Args[i], en, fn.params[i])
			if err != nil {
				return "", err
			}
			parts = append(parts, v.text)
		}
		if e.Ellipsis.IsValid() {
			if len(e.Args) != k+1 {
				return "", lostf("call %s with ... and %d arguments", c.tr.src(e.Fun), len(e.Args))
			}
			v, err := c.exT(e.Args[k], en, fn.params[k])
			if err != nil {
				return "", err
			}
			parts = append(parts, v.text)
		} else {
			var items []string
			for _, a := range e.Args[k:] {
				v, err := c.exT(a, en, fn.params[k][2:])
				if err != nil {
					return "", err
				}
				items = append(items, v.text)
			}
			parts = append(parts, "["+strings.Join(items, ", ")+"]")
		}
		return "(" + strings.Join(parts, " ") + ")", nil
	}
	if len(e.Args) != len(fn.params) || e.Ellipsis.IsValid() {
		return "", lostf("call %s with %d arguments", c.tr.src(e.Fun), len(e.Args))
	}
	for i, a := range e.Args {
		if strings.HasPrefix(fn.params[i], "const:") { // the argument must be this constant; it selects the primitive
			v, err := c.ex(a, en)
			if err != nil {
				return "", err
			}
			if v.typ != "untyped" || fmt.Sprint(v.k) != fn.params[i][6:] {
				return "", lostf("argument %d of %s is not the constant %s", i+1, c.tr.src(e.Fun), fn.params[i][6:])
			}
			continue
		}
		if strings.HasPrefix(fn.params[i], "pure:") { // a function literal without captured state ↦ a Lean lambda
			lit, ok := a.(*ast.FuncLit)
			if !ok {
				return "", lostf("argument %d of %s is not a function literal", i+1, c.tr.src(e.Fun))
			}
			t, err := c.pureLit(lit, fn.params[i][5:])
			if err != nil {
				return "", err
			}
			parts = append(parts, t)
			continue
		}
		if i == fn.cb {
			id, ok := a.(*ast.Ident)
			if !ok {
				return "", lostf("callback argument %s", c.tr.src(a))
			}
			b, ok := en[id.Name]
			if !ok || !strings.HasPrefix(b.typ, "func(") {
				return "", lostf("callback argument %s", id.Name)
			}
			parts = append(parts, b.lean)
			continue
		}
		v, err := c.exT(a, en, fn.params[i])
		if err != nil {
			return "", err
		}
		parts = append(parts, v.text)
	}
	return "(" + strings.Join(parts, " ") + ")", nil
}

// effCall: is e a call with a callback effect — a call of a callback variable or of a function that is handed one?
// Returns the Lean term of type (result × σ), given the current state variable, and the canonical result type.
func (c *t5ctx) effCall(e ast.Expr, en t5env) (text string, typ string, ok bool, err error) {
	call, isCall := e.(*ast.CallExpr)
	if !isCall || c.stVar == "" {
		return "", "", false, nil
	}
	if id, isId := call.Fun.(*ast.Ident); isId {
		if b, local := en[id.Name]; local {
			if !strings.HasPrefix(b.typ, "func(") {
				return "", "", false, nil
			}
			// f(x) of a callback variable `func(T) bool`
			i := strings.Index(b.typ, ")")
			pt, rt := b.typ[5:i], b.typ[i+1:]
			if len(call.Args) != 1 || strings.Contains(pt, ",") || rt == "" || strings.Contains(rt, ",") {
				return "", "", true, lostf("call of callback %s", id.Name)
			}
			a, err := c.exT(call.Args[0], en, pt)
			if err != nil {
				return "", "", true, err
			}
			return fmt.Sprintf("(%s %s %s)", b.lean, c.stVar, a.text), rt, true, nil
		}
	}
	if fn, known := c.funcs[c.flat(call.Fun, en)]; known && fn.cb >= 0 {
		if len(call.Args) > fn.cb {
			if _, isLit := call.Args[fn.cb].(*ast.FuncLit); isLit {
				return "", "", false, nil // handled by closureCall
			}
		}
		if len(fn.results) != 1 {
			return "", "", true, lostf("callback-taking function %s with %d results", c.tr.src(call.Fun), len(fn.results))
		}
		t, err := c.apply(fn, call, en)
		if err != nil {
			return "", "", true, err
		}
		return "(" + t[1:len(t)-1] + " " + c.stVar + ")", fn.results[0], true, nil
	}
	return "", "", false, nil
}

// ---------------------------------------------------------------- statements

// t5idents: every identifier occurring in the statements (used for conservative capture checks)
func t5idents(stmts []ast.Stmt) map[string]bool {
	out := map[string]bool{}
	for _, s := range stmts {
		ast.Inspect(s, func(n ast.Node) bool {
			if id, ok := n.(*ast.Ident); ok {
				out[id.Name] = true
			}
			return true
		})
	}
	return out
}

func t5rootIdent(e ast.Expr) *ast.Ident {
	for {
		switch x := e.(type) {
		case *ast.Ident:
			return x
		case *ast.SelectorExpr:
			e = x.X
		case *ast.IndexExpr:
			e = x.X
		case *ast.ParenExpr:
			e = x.X
		case *ast.StarExpr:
			e = x.X
		default:
			return nil
		}
	}
}

// t5assigned: variables assigned (x = …, x.f = …, x[i] = …, x++, x += …) and declared (:=, var, range) in stmts,
// not looking into function literals
func t5assigned(stmts []ast.Stmt) (assigned, declared map[string]bool) {
	assigned, declared = map[string]bool{}, map[string]bool{}
	for _, s := range stmts {
		ast.Inspect(s, func(n ast.Node) bool {
			switch n := n.(type) {
			case *ast.FuncLit:
				return false
			case *ast.AssignStmt:
				for _, l := range n.Lhs {
					if id, ok := l.(*ast.Ident); ok && n.Tok == token.DEFINE {
						declared[id.Name] = true
					} else if id := t5rootIdent(l); id != nil {
						assigned[id.Name] = true
					}
				}
			case *ast.RangeStmt:
				for _, l := range []ast.Expr{n.Key, n.Value} {
					if id, ok := l.(*ast.Ident); ok && n.Tok == token.DEFINE {
						declared[id.Name] = true
					}
				}
			case *ast.IncDecStmt:
				if id := t5rootIdent(n.X); id != nil {
					assigned[id.Name] = true
				}
			case *ast.DeclStmt:
				if gd, ok := n.Decl.(*ast.GenDecl); ok {
					for _, sp := range gd.Specs {
						if vs, ok := sp.(*ast.ValueSpec); ok {
							for _, id := range vs.Names {
								declared[id.Name] = true
							}
						}
					}
				}
			case *ast.TypeSwitchStmt:
				if as, ok := n.Assign.(*ast.AssignStmt); ok {
					if id, ok := as.Lhs[0].(*ast.Ident); ok {
						declared[id.Name] = true
					}
				}
			}
			return true
		})
	}
	return
}

// t5returns: does control never fall off the end of stmts?
func t5returns(stmts []ast.Stmt) bool {
	if len(stmts) == 0 {
		return false
	}
	switch s := stmts[len(stmts)-1].(type) {
	case *ast.ReturnStmt:
		return true
	case *ast.IfStmt:
		switch el := s.Else.(type) {
		case *ast.BlockStmt:
			return t5returns(s.Body.List) && t5returns(el.List)
		case *ast.IfStmt:
			return t5returns(s.Body.List) && t5returns([]ast.Stmt{el})
		}
	case *ast.TypeSwitchStmt:
		hasDefault := false
		for _, cs := range s.Body.List {
			cc := cs.(*ast.CaseClause)
			if cc.List == nil {
				hasDefault = true
			}
			if !t5returns(cc.Body) {
				return false
			}
		}
		return hasDefault
	case *ast.BlockStmt:
		return t5returns(s.List)
	}
	return false
}

// usesStateCall: do the statements contain a call with a callback effect?
func (c *t5ctx) usesStateCall(stmts []ast.Stmt, en t5env) bool {
	if c.stVar == "" {
		return false
	}
	found := false
	for _, s := range stmts {
		ast.Inspect(s, func(n ast.Node) bool {
			if call, ok := n.(*ast.CallExpr); ok {
				if id, ok := call.Fun.(*ast.Ident); ok {
					if b, ok := en[id.Name]; ok && strings.HasPrefix(b.typ, "func(") {
						found = true
					}
				}
				if fn, ok := c.funcs[c.flat(call.Fun, en)]; ok && fn.cb >= 0 {
					found = true
				}
			}
			return true
		})
	}
	return found
}

type t5k func(en t5env, depth int) (string, error) // continuation: the term control yields when it falls off the end

// tuple of the carried variables
func (c *t5ctx) carried(vars []string, en t5env) (tuple, typ string, err error) {
	var names, types []string
	for _, v := range vars {
		b := en[v]
		lt := ""
		if v == "$st" {
			b = t5b{lean: c.stVar}
			lt = "σ"
		} else if v == "$w" {
			b = t5b{lean: c.world}
			lt = "Go.Drv.World"
		} else {
			lt, err = c.leanType(b.typ)
			if err != nil {
				return "", "", err
			}
		}
		names = append(names, b.lean)
		types = append(types, lt)
	}
	if len(names) == 1 {
		return names[0], types[0], nil
	}
	return "(" + strings.Join(names, ", ") + ")", "(" + strings.Join(types, " × ") + ")", nil
}

// carriedVars: the outer variables a nested statement list assigns (sorted), plus the callback state if it is used
func (c *t5ctx) carriedVars(stmts []ast.Stmt, en t5env) ([]string, error) {
	as, de := t5assigned(stmts)
	var vars []string
	for v := range as {
		if de[v] {
			if _, outer := en[v]; outer {
				return nil, lostf("variable %s is declared inside a nested block and shadows an assigned outer variable", v)
			}
			continue // local to the nested block
		}
		if _, ok := en[v]; !ok {
			return nil, lostf("assignment to %s, which is not a variable of the subset", v)
		}
		vars = append(vars, v)
	}
	sort.Strings(vars)
	if c.world != "" {
		vars = append(vars, "$w")
	}
	if c.usesStateCall(stmts, en) {
		vars = append(vars, "$st")
	}
	return vars, nil
}

// destructure: `let <tuple> := term` for the carried variables, as single lets (projections)
func (c *t5ctx) destructure(vars []string, en t5env, typ, term string, depth int) string {
	if len(vars) == 1 {
		n := c.pseudo(vars[0], en)
		return fmt.Sprintf("%slet %s : %s := %s\n", ind(depth), n, typ, term)
	}
	p := c.fresh("p")
	out := fmt.Sprintf("%slet %s : %s := %s\n", ind(depth), p, typ, term)
	proj := p
	for i, v := range vars {
		n := c.pseudo(v, en)
		if i == len(vars)-1 {
			out += fmt.Sprintf("%slet %s := %s\n", ind(depth), n, proj)
		} else {
			out += fmt.Sprintf("%slet %s := %s.1\n", ind(depth), n, proj)
			proj = proj + ".2"
		}
	}
	return out
}

func (c *t5ctx) retType() (string, error) {
	var base string
	switch {
	case len(c.res) == 0:
		base = ""
	case len(c.res) == 1 && c.res[0] == "error":
		base = "(Option Go.Err5)"
	case len(c.res) == 1:
		lt, err := c.leanType(c.res[0])
		if err != nil {
			return "", err
		}
		base = lt
	case len(c.res) == 2 && c.res[1] == "error":
		lt, err := c.leanType(c.res[0])
		if err != nil {
			return "", err
		}
		base = "(Except Go.Err5 " + lt + ")"
	default:
		return "", lostf("result list (%s)", strings.Join(c.res, ", "))
	}
	return base, nil
}

// ret: the Lean term of `return results…` (value, then the state variables, then the callback state)
func (c *t5ctx) ret(results []ast.Expr, en t5env) (string, error) {
	var parts []string
	switch {
	case len(c.res) == 0:
		if len(results) != 0 {
			return "", lostf("return with a value in a function without result")
		}
	case len(c.res) == 1 && c.res[0] == "error":
		if len(results) != 1 {
			return "", lostf("return with %d results", len(results))
		}
		v, err := c.exT(results[0], en, "error")
		if err != nil {
			return "", err
		}
		parts = append(parts, v.text)
	case len(c.res) == 1:
		if len(results) != 1 {
			return "", lostf("return with %d results", len(results))
		}
		if t, _, isEff, err := c.effCall(results[0], en); isEff {
			if err != nil {
				return "", err
			}
			if len(c.state) != 0 {
				return "", lostf("return of a callback-effect call in a function with state variables")
			}
			return c.retWrap(t), nil // (value, state) as the callee returns it
		}
		v, err := c.exT(results[0], en, c.res[0])
		if err != nil {
			return "", err
		}
		parts = append(parts, v.text)
	case len(c.res) == 2 && c.res[1] == "error":
		if len(results) == 1 && c.t8 != nil { // [t8] `return f(…)` of a function with the same two results
			return c.t8tailCall(results[0], en)
		}
		if len(results) != 2 {
			return "", lostf("return with %d results", len(results))
		}
		e1, err := c.ex(results[1], en)
		if err != nil {
			return "", err
		}
		switch e1.typ {
		case "nil":
			v, err := c.exT(results[0], en, c.res[0])
			if err != nil {
				return "", err
			}
			parts = append(parts, "(Except.ok "+v.text+")")
		case "errval":
			v0, err := c.ex(results[0], en)
			if err != nil {
				return "", err
			}
			if v0.typ != "nil" {
				return "", lostf("return of a value together with an error")
			}
			parts = append(parts, "(Except.error "+e1.text+")")
		default:
			return "", lostf("returned error %s is neither nil nor known to be non-nil", c.tr.src(results[1]))
		}
	default:
		return "", lostf("result list")
	}
	for _, s := range c.state {
		b, ok := en[s]
		if !ok {
			return "", lostf("state variable %s is shadowed or out of scope at a return", s)
		}
		parts = append(parts, b.lean)
	}
	if c.world != "" {
		parts = append(parts, c.world)
	}
	if c.stVar != "" {
		parts = append(parts, c.stVar)
	}
	if len(parts) == 0 {
		return c.retWrap("()"), nil
	}
	if len(parts) == 1 {
		return c.retWrap(parts[0]), nil
	}
	return c.retWrap("(" + strings.Join(parts, ", ") + ")"), nil
}

// assignTo: `lhs = v` for lhs = x | x.f | x.f.g | x[i]; returns the let line(s)
func (c *t5ctx) assignTo(lhs ast.Expr, rhs func(to string) (t5v, error), en t5env, depth int) (string, error) {
	switch l := lhs.(type) {
	case *ast.Ident:
		b, ok := en[l.Name]
		if !ok {
			return "", lostf("assignment to %s, which is not a variable of the subset", l.Name)
		}
		v, err := rhs(b.typ)
		if err != nil {
			return "", err
		}
		lt, err := c.leanType(b.typ)
		if err != nil {
			return "", err
		}
		return fmt.Sprintf("%slet %s : %s := %s\n", ind(depth), b.lean, lt, v.text), nil
	case *ast.SelectorExpr:
		// x.f = v  ↦  x = { x with f := v }   (recursively for x.f.g)
		x, err := c.ex(l.X, en)
		if err != nil {
			return "", err
		}
		t, err := c.ty(x.typ)
		if err != nil {
			return "", err
		}
		ft := ""
		for _, fl := range t.fields {
			if fl.name == l.Sel.Name {
				ft = fl.typ
			}
		}
		if ft == "" {
			return "", lostf("field %s of %s", l.Sel.Name, x.typ)
		}
		if t.wrapper { // v.Eq.f = …: the wrapper is its payload
			return c.assignTo(l.X, func(to string) (t5v, error) { return rhs(ft) }, en, depth)
		}
		if !t.isStruct {
			return "", lostf("assignment to field %s of %s", l.Sel.Name, x.typ)
		}
		v, err := rhs(ft)
		if err != nil {
			return "", err
		}
		return c.assignTo(l.X, func(to string) (t5v, error) {
			return t5v{text: fmt.Sprintf("{ %s with %s := %s }", x.text, l.Sel.Name, v.text), typ: to}, nil
		}, en, depth)
	case *ast.IndexExpr:
		x, err := c.ex(l.X, en)
		if err != nil {
			return "", err
		}
		if strings.HasPrefix(x.typ, "map[string]") {
			kx, err := c.exT(l.Index, en, "string")
			if err != nil {
				return "", err
			}
			v, err := rhs(x.typ[len("map[string]"):])
			if err != nil {
				return "", err
			}
			return c.assignTo(l.X, func(to string) (t5v, error) {
				return t5v{text: fmt.Sprintf("(Go.Map.set %s %s %s)", x.text, kx.text, v.text), typ: to}, nil
			}, en, depth)
		}
		if !strings.HasPrefix(x.typ, "[]") {
			return "", lostf("element assignment to %s", x.typ)
		}
		i, err := c.exIdx(l.Index, en)
		if err != nil {
			return "", err
		}
		v, err := rhs(x.typ[2:])
		if err != nil {
			return "", err
		}
		return c.assignTo(l.X, func(to string) (t5v, error) {
			return t5v{text: fmt.Sprintf("(Go.setIndexL %s %s %s)", x.text, i.text, v.text), typ: to}, nil
		}, en, depth)
	}
	return "", lostf("assignment to %s", c.tr.src(lhs))
}

func (c *t5ctx) declare(name string, v t5v, en t5env, depth int) (string, t5env, error) {
	ln, err := leanIdent(name)
	if err != nil {
		return "", nil, err
	}
	if ln == c.stVar || ln == c.fuelVar {
		return "", nil, lostf("variable name %s clashes with a generated name", name)
	}
	if v.typ == "untyped" {
		if v, err = c.conv(v, "int"); err != nil {
			return "", nil, err
		}
	}
	if v.typ == "nil" || v.typ == "errval" && false {
		return "", nil, lostf("declaration of %s from nil", name)
	}
	lt, err := c.leanType(v.typ)
	if err != nil {
		return "", nil, err
	}
	return fmt.Sprintf("%slet %s : %s := %s\n", ind(depth), ln, lt, v.text), en.with(name, t5b{ln, v.typ}), nil
}

// blk translates a statement list; k = nil means control must not fall off the end
func (c *t5ctx) blk(stmts []ast.Stmt, en t5env, k t5k, depth int) (string, error) {
	if len(stmts) == 0 {
		if k == nil {
			if len(c.res) == 0 {
				return c.retBare(en, depth)
			}
			return "", lostf("control reaches the end without a return")
		}
		return k(en, depth)
	}
	s, rest := stmts[0], stmts[1:]
	cont := func(en t5env, depth int) (string, error) { return c.blk(rest, en, k, depth) }
	switch s := s.(type) {
	case *ast.ReturnStmt:
		if len(rest) != 0 {
			return "", lostf("statements after return")
		}
		pre := ""
		for _, r := range s.Results {
			p, err := c.hoist(r, en, depth)
			if err != nil {
				return "", err
			}
			pre += p
		}
		t, err := c.ret(s.Results, en)
		if err != nil {
			return "", err
		}
		return pre + ind(depth) + t + "\n", nil

	case *ast.BlockStmt:
		_, de := t5assigned(s.List)
		ids := t5idents(rest)
		for d := range de {
			if ids[d] {
				return "", lostf("block-local %s is also used after the block", d)
			}
		}
		return c.blk(s.List, en, cont, depth)

	case *ast.DeclStmt:
		gd, ok := s.Decl.(*ast.GenDecl)
		if !ok || gd.Tok != token.VAR || len(gd.Specs) != 1 {
			return "", lostf("declaration %s", c.tr.src(s))
		}
		vs := gd.Specs[0].(*ast.ValueSpec)
		if len(vs.Names) != 1 || len(vs.Values) != 0 || vs.Type == nil {
			return "", lostf("declaration %s", c.tr.src(s))
		}
		key, err := c.canon(vs.Type)
		if err != nil {
			return "", err
		}
		z, err := c.zero(key)
		if err != nil {
			return "", err
		}
		line, en2, err := c.declare(vs.Names[0].Name, t5v{text: z, typ: key}, en, depth)
		if err != nil {
			return "", err
		}
		r, err := c.blk(rest, en2, k, depth)
		return line + r, err

	case *ast.IncDecStmt:
		line, err := c.assignTo(s.X, func(to string) (t5v, error) {
			if !t5isInt(to) {
				return t5v{}, lostf("%s on %s", s.Tok, to)
			}
			x, err := c.ex(s.X, en)
			if err != nil {
				return t5v{}, err
			}
			op := "+"
			if s.Tok == token.DEC {
				op = "-"
			}
			return t5v{text: fmt.Sprintf("(%s %s (1 : Int))", x.text, op), typ: to}, nil
		}, en, depth)
		if err != nil {
			return "", err
		}
		r, err := cont(en, depth)
		return line + r, err

	case *ast.ExprStmt:
		return c.exprStmt(s, rest, en, k, depth)

	case *ast.AssignStmt:
		return c.assign(s, rest, en, k, depth)

	case *ast.IfStmt:
		return c.ifStmt(s, rest, en, k, depth)

	case *ast.RangeStmt:
		return c.rangeStmt(s, rest, en, k, depth)

	case *ast.TypeSwitchStmt:
		return c.typeSwitch(s, rest, en, k, depth)

	case *ast.DeferStmt:
		return c.deferStmt(s, rest, en, k, depth)

	case *ast.ForStmt: // [t8]
		return c.t8for(s, rest, en, k, depth)

	case *ast.BranchStmt: // [t8]
		return c.t8branch(s, rest, en, k, depth)

	case *ast.SwitchStmt: // [t8]
		return c.t8switch(s, rest, en, k, depth)
	}
	return "", lostf("statement %s", c.tr.src(s))
}

// retBare: falling off the end of a function without results
func (c *t5ctx) retBare(en t5env, depth int) (string, error) {
	t, err := c.ret(nil, en)
	if err != nil {
		return "", err
	}
	return ind(depth) + t + "\n", nil
}

func (c *t5ctx) assign(s *ast.AssignStmt, rest []ast.Stmt, en t5env, k t5k, depth int) (string, error) {
	cont := func(en t5env, depth int) (string, error) { return c.blk(rest, en, k, depth) }
	if len(s.Lhs) == 2 && len(s.Rhs) == 1 && s.Tok == token.DEFINE {
		return c.twoRes(s, rest, en, k, depth)
	}
	if len(s.Lhs) != 1 || len(s.Rhs) != 1 {
		return "", lostf("assignment %s", c.tr.src(s))
	}
	// `_ = call` / `x := call` with a callback effect or a closure argument
	if t, handled, err := c.stateCallStmt(s.Lhs[0], s.Tok, s.Rhs[0], rest, en, k, depth); handled {
		return t, err
	}
	hpre, err := c.hoist(s.Rhs[0], en, depth)
	if err != nil {
		return "", err
	}
	if c.world != "" && s.Tok == token.ASSIGN {
		if line, ok, err := c.worldAssign(s.Lhs[0], s.Rhs[0], en, depth); ok {
			if err != nil {
				return "", err
			}
			r, err := cont(en, depth)
			return hpre + line + r, err
		}
	}
	switch s.Tok {
	case token.DEFINE:
		id, ok := s.Lhs[0].(*ast.Ident)
		if !ok || id.Name == "_" {
			return "", lostf("assignment %s", c.tr.src(s))
		}
		v, err := c.ex(s.Rhs[0], en)
		if err != nil {
			return "", err
		}
		line, en2, err := c.declare(id.Name, v, en, depth)
		if err != nil {
			return "", err
		}
		r, err := c.blk(rest, en2, k, depth)
		return hpre + line + r, err
	case token.ASSIGN:
		if hpre != "" {
			return "", lostf("assignment of an effectful expression to %s", c.tr.src(s.Lhs[0]))
		}
		line, err := c.assignTo(s.Lhs[0], func(to string) (t5v, error) { return c.exT(s.Rhs[0], en, to) }, en, depth)
		if err != nil {
			return "", err
		}
		r, err := cont(en, depth)
		return line + r, err
	case token.ADD_ASSIGN:
		line, err := c.assignTo(s.Lhs[0], func(to string) (t5v, error) {
			x, err := c.ex(s.Lhs[0], en)
			if err != nil {
				return t5v{}, err
			}
			y, err := c.exT(s.Rhs[0], en, to)
			if err != nil {
				return t5v{}, err
			}
			switch {
			case to == "string":
				return t5v{text: fmt.Sprintf("(%s ++ %s)", x.text, y.text), typ: to}, nil
			case t5isInt(to):
				return t5v{text: fmt.Sprintf("(%s + %s)", x.text, y.text), typ: to}, nil
			}
			return t5v{}, lostf("+= on %s", to)
		}, en, depth)
		if err != nil {
			return "", err
		}
		r, err := cont(en, depth)
		return line + r, err
	}
	return "", lostf("assignment operator %s", s.Tok)
}

// twoRes: `a, err := f(…)` followed by `if err != nil { … return … }`
func (c *t5ctx) twoRes(s *ast.AssignStmt, rest []ast.Stmt, en t5env, k t5k, depth int) (string, error) {
	a, ok1 := s.Lhs[0].(*ast.Ident)
	er, ok2 := s.Lhs[1].(*ast.Ident)
	call, ok3 := s.Rhs[0].(*ast.CallExpr)
	if !ok1 || !ok2 || !ok3 || a.Name == "_" || er.Name == "_" {
		return "", lostf("two-result assignment %s", c.tr.src(s))
	}
	fn, ok := c.funcs[c.flat(call.Fun, en)]
	if !ok { // [t8] methods of the external objects of translate_t8.go, resolved by the type of the receiver
		fn, ok = c.t8fn(call, en)
	}
	if !ok || len(fn.results) != 2 || fn.results[1] != "error" || fn.cb >= 0 {
		return "", lostf("two-result call %s is not in the whitelist", c.tr.src(call.Fun))
	}
	if len(rest) == 0 {
		return "", lostf("error result of %s is not checked next", c.tr.src(call.Fun))
	}
	chk, ok := rest[0].(*ast.IfStmt)
	if !ok || chk.Init != nil || chk.Else != nil || c.tr.src(chk.Cond) != er.Name+" != nil" || !t5returns(chk.Body.List) {
		return "", lostf("%s is not followed by `if %s != nil { … return … }`", c.tr.src(call.Fun), er.Name)
	}
	text, err := c.apply(fn, call, en)
	if err != nil {
		return "", err
	}
	wpre := ""
	if fn.world { // the callee also changes the shared state: it returns (World × Except …)
		if c.world == "" {
			return "", lostf("%s outside a world context", c.tr.src(call.Fun))
		}
		r := c.fresh("r")
		wpre = fmt.Sprintf("%slet %s := %s\n%slet %s : Go.Drv.World := %s.1\n", ind(depth), r, text, ind(depth), c.world, r)
		text = r + ".2"
		if fn.wlast { // [t8] a translated function returns (Except …, World)
			wpre = fmt.Sprintf("%slet %s := %s\n%slet %s : Go.Drv.World := %s.2\n", ind(depth), r, text, ind(depth), c.world, r)
			text = r + ".1"
		}
	}
	aln, err := leanIdent(a.Name)
	if err != nil {
		return "", err
	}
	eln, err := leanIdent(er.Name)
	if err != nil {
		return "", err
	}
	// error branch: the value is not in scope (any use of it loses the function); err is a non-nil error
	bad, err := c.blk(chk.Body.List, en.without(a.Name).with(er.Name, t5b{eln, "errval"}), nil, depth+1)
	if err != nil {
		return "", err
	}
	// success branch: err is nil and not in scope
	good, err := c.blk(rest[1:], en.without(er.Name).with(a.Name, t5b{aln, fn.results[0]}), k, depth+1)
	if err != nil {
		return "", err
	}
	return wpre + fmt.Sprintf("%smatch %s with\n%s| Except.error %s =>\n%s%s| Except.ok %s =>\n%s", ind(depth), text,
		ind(depth), eln, bad, ind(depth), aln, good), nil
}

// exprStmt: a call statement
func (c *t5ctx) exprStmt(s *ast.ExprStmt, rest []ast.Stmt, en t5env, k t5k, depth int) (string, error) {
	if t, handled, err := c.stateCallStmt(nil, token.ASSIGN, s.X, rest, en, k, depth); handled {
		return t, err
	}
	if t, handled, err := c.worldStmt(s.X, rest, en, k, depth); handled {
		return t, err
	}
	return "", lostf("statement %s", c.tr.src(s))
}

// stateCallStmt: `CALL`, `_ = CALL`, `x := CALL`, `x = CALL` where CALL has a callback effect, or is a call of a
// callback-taking function with a function literal (closure) argument
func (c *t5ctx) stateCallStmt(lhs ast.Expr, tok token.Token, rhs ast.Expr, rest []ast.Stmt, en t5env, k t5k, depth int) (string, bool, error) {
	call, ok := rhs.(*ast.CallExpr)
	if !ok {
		return "", false, nil
	}
	if fn, known := c.funcs[c.flat(call.Fun, en)]; known && fn.cb >= 0 && len(call.Args) > fn.cb {
		if lit, isLit := call.Args[fn.cb].(*ast.FuncLit); isLit {
			t, err := c.closureCall(fn, call, lit, lhs, rest, en, k, depth)
			return t, true, err
		}
	}
	t, rt, isEff, err := c.effCall(rhs, en)
	if !isEff {
		return "", false, nil
	}
	if err != nil {
		return "", true, err
	}
	r := c.fresh("r")
	out := fmt.Sprintf("%slet %s := %s\n%slet %s : σ := %s.2\n", ind(depth), r, t, ind(depth), c.stVar, r)
	en2 := en
	if lhs != nil {
		id, ok := lhs.(*ast.Ident)
		if !ok {
			return "", true, lostf("assignment of a callback-effect call to %s", c.tr.src(lhs))
		}
		if id.Name != "_" {
			if tok != token.DEFINE {
				return "", true, lostf("assignment (not declaration) of a callback-effect call")
			}
			line, e2, err := c.declare(id.Name, t5v{text: r + ".1", typ: rt}, en, depth)
			if err != nil {
				return "", true, err
			}
			out += line
			en2 = e2
		}
	}
	rr, err := c.blk(rest, en2, k, depth)
	return out + rr, true, err
}

// closureCall: F(args…, func(x T) R { body }) where body assigns captured variables: the captured, assigned
// variables are the state of the state-passing translation of F
func (c *t5ctx) closureCall(fn *t5fn, call *ast.CallExpr, lit *ast.FuncLit, lhs ast.Expr, rest []ast.Stmt, en t5env, k t5k, depth int) (string, error) {
	if lhs != nil {
		if id, ok := lhs.(*ast.Ident); !ok || id.Name != "_" {
			return "", lostf("result of %s is used", c.tr.src(call.Fun))
		}
	}
	if c.stVar != "" {
		return "", lostf("closure argument inside a callback-taking function")
	}
	if len(call.Args) != len(fn.params) {
		return "", lostf("call %s with %d arguments", c.tr.src(call.Fun), len(call.Args))
	}
	as, de := t5assigned(lit.Body.List)
	var captured []string
	for v := range as {
		if de[v] {
			return "", lostf("variable %s both declared and assigned inside the closure", v)
		}
		if _, ok := en[v]; !ok {
			return "", lostf("closure assigns %s, which is not a variable of the subset", v)
		}
		captured = append(captured, v)
	}
	sort.Strings(captured)
	if len(captured) != 1 {
		return "", lostf("closure captures and assigns %d variables (exactly one is supported)", len(captured))
	}
	cv := en[captured[0]]
	clt, err := c.leanType(cv.typ)
	if err != nil {
		return "", err
	}
	// the closure's own parameter and result
	if lit.Type.Params.NumFields() != 1 || len(lit.Type.Params.List[0].Names) != 1 || lit.Type.Results.NumFields() != 1 {
		return "", lostf("signature of the closure")
	}
	pname := lit.Type.Params.List[0].Names[0].Name
	pt, err := c.canon(lit.Type.Params.List[0].Type)
	if err != nil {
		return "", err
	}
	rt, err := c.canon(lit.Type.Results.List[0].Type)
	if err != nil {
		return "", err
	}
	if pt != fn.cbArg || rt != "bool" {
		return "", lostf("closure has type func(%s) %s, %s wants func(%s) bool", pt, rt, c.tr.src(call.Fun), fn.cbArg)
	}
	pln, err := leanIdent(pname)
	if err != nil {
		return "", err
	}
	plt, err := c.leanType(pt)
	if err != nil {
		return "", err
	}
	sub := *c
	sub.t8nest++ // [t8]
	sub.res = []string{rt}
	sub.state = []string{captured[0]}
	sub.stVar = ""
	sub.retWrap = func(s string) string { return s }
	body, err := sub.blk(lit.Body.List, en.with(pname, t5b{pln, pt}), nil, depth+2)
	c.tmp = sub.tmp
	if err != nil {
		return "", err
	}
	parts := []string{fn.lean}
	parts = append(parts, fn.pre...)
	for i, a := range call.Args {
		if i == fn.cb {
			parts = append(parts, fmt.Sprintf("(fun (%s : %s) (%s : %s) =>\n%s%s)", cv.lean, clt, pln, plt, body, ind(depth+1)))
			continue
		}
		v, err := c.exT(a, en, fn.params[i])
		if err != nil {
			return "", err
		}
		parts = append(parts, v.text)
	}
	parts = append(parts, cv.lean)
	out := fmt.Sprintf("%slet %s : %s := (%s).2\n", ind(depth), cv.lean, clt, strings.Join(parts, " "))
	r, err := c.blk(rest, en, k, depth)
	return out + r, err
}

// nested: translate an inner statement list (branch / loop body) that does not return, as an update of the carried
// variables; returns the term and the carried variables
func (c *t5ctx) nestedNoReturn(stmts []ast.Stmt, vars []string, en t5env, depth int) (string, error) {
	c.t8nest++                    // [t8]
	defer func() { c.t8nest-- }() // [t8]
	tuple, _, err := c.carried(vars, en)
	if err != nil {
		return "", err
	}
	return c.blk(stmts, en, func(en2 t5env, d int) (string, error) {
		for _, v := range vars {
			if v != "$st" && v != "$w" && en2[v] != en[v] {
				return "", lostf("carried variable %s is shadowed", v)
			}
		}
		return ind(d) + tuple + "\n", nil
	}, depth)
}

func (c *t5ctx) ifStmt(s *ast.IfStmt, rest []ast.Stmt, en t5env, k t5k, depth int) (string, error) {
	var els []ast.Stmt
	switch e := s.Else.(type) {
	case nil:
	case *ast.BlockStmt:
		els = e.List
	case *ast.IfStmt:
		els = []ast.Stmt{e}
	default:
		return "", lostf("else branch")
	}
	pre := ""
	if s.Init != nil {
		as, ok := s.Init.(*ast.AssignStmt)
		if !ok || as.Tok != token.DEFINE || len(as.Rhs) != 1 {
			return "", lostf("if with init statement %s", c.tr.src(s.Init))
		}
		if len(as.Lhs) == 2 {
			if c.t8 != nil { // [t8] `if v, err := CALL; err != nil { … return … }`
				if t, handled, err := c.t8ifTwoRes(s, as, els, rest, en, k, depth); handled {
					return t, err
				}
			}
			return c.ifCommaOk(s, as, els, rest, en, k, depth)
		}
		id, ok := as.Lhs[0].(*ast.Ident)
		if !ok || len(as.Lhs) != 1 || id.Name == "_" {
			return "", lostf("if with init statement %s", c.tr.src(s.Init))
		}
		if t5idents(rest)[id.Name] {
			return "", lostf("the if-scoped variable %s is also used after the if", id.Name)
		}
		hp, err := c.hoist(as.Rhs[0], en, depth) // [t8] the init expression may be an effectful call (empty without a world)
		if err != nil {
			return "", err
		}
		v, err := c.ex(as.Rhs[0], en)
		if err != nil {
			return "", err
		}
		line, en2, err := c.declare(id.Name, v, en, depth)
		if err != nil {
			return "", err
		}
		pre, en = line, en2
		pre = hp + pre // [t8]
	}
	return c.ifCore(pre, s.Cond, s.Body.List, els, rest, en, k, depth)
}

// ifCore: `if cond {a} else {b}; rest`
func (c *t5ctx) ifCore(pre string, condE ast.Expr, a, b, rest []ast.Stmt, en t5env, k t5k, depth int) (string, error) {
	// a condition `CALL` / `!CALL` with a callback effect is evaluated first
	var cond t5v
	neg := false
	ce := condE
	if u, ok := ce.(*ast.UnaryExpr); ok && u.Op == token.NOT {
		neg, ce = true, u.X
	}
	if t, rt, isEff, err := c.effCall(ce, en); isEff {
		if err != nil {
			return "", err
		}
		if rt != "bool" {
			return "", lostf("condition of type %s", rt)
		}
		r := c.fresh("r")
		pre += fmt.Sprintf("%slet %s := %s\n%slet %s : σ := %s.2\n", ind(depth), r, t, ind(depth), c.stVar, r)
		cond = t5v{text: r + ".1", typ: "bool"}
		if neg {
			cond.text = "(!" + r + ".1)"
		}
	} else {
		hp, err := c.hoist(condE, en, depth)
		if err != nil {
			return "", err
		}
		pre += hp
		v, err := c.exT(condE, en, "bool")
		if err != nil {
			return "", err
		}
		cond = v
	}
	if c.t8 != nil && (hasReturn(a) || hasReturn(b) || t8hasBreak(a) || t8hasBreak(b)) { // [t8] a branch leaves: scope-aware continuation, break
		return c.t8ifLeaves(pre, cond.text, a, b, rest, en, k, depth)
	}
	if !hasReturn(a) && !hasReturn(b) {
		vars, err := c.carriedVars(append(append([]ast.Stmt{}, a...), b...), en)
		if err != nil {
			return "", err
		}
		if len(vars) == 0 {
			return "", lostf("if without effect on the variables of the subset")
		}
		_, typ, err := c.carried(vars, en)
		if err != nil {
			return "", err
		}
		ta, err := c.nestedNoReturn(a, vars, en, depth+2)
		if err != nil {
			return "", err
		}
		tb, err := c.nestedNoReturn(b, vars, en, depth+2)
		if err != nil {
			return "", err
		}
		r, err := c.blk(rest, en, k, depth)
		if err != nil {
			return "", err
		}
		term := fmt.Sprintf("\n%sif %s then\n%s%selse\n%s", ind(depth+1), cond.text, ta, ind(depth+1), strings.TrimRight(tb, "\n"))
		return pre + c.destructure(vars, en, typ, term, depth) + r, nil
	}
	// a branch returns: the rest of the block is the continuation of every branch that falls through
	branch := func(stmts []ast.Stmt) (string, error) {
		if t5returns(stmts) {
			return c.blk(stmts, en, nil, depth+1)
		}
		if len(rest) > 0 {
			_, de := t5assigned(stmts)
			ids := t5idents(rest)
			for d := range de {
				if ids[d] {
					return "", lostf("branch-local %s is also used after the if", d)
				}
			}
		}
		return c.blk(stmts, en, func(en2 t5env, d int) (string, error) { return c.blk(rest, en2, k, d) }, depth+1)
	}
	ta, err := branch(a)
	if err != nil {
		return "", err
	}
	tb, err := branch(b)
	if err != nil {
		return "", err
	}
	return fmt.Sprintf("%s%sif %s then\n%s%selse\n%s", pre, ind(depth), cond.text, ta, ind(depth), tb), nil
}

// ifCommaOk: `if v, ok := x.(T); ok [&& cond] { a }` (type assertion on a oneof) and `if v, ok := m[k]; ok { a }`
func (c *t5ctx) ifCommaOk(s *ast.IfStmt, as *ast.AssignStmt, els, rest []ast.Stmt, en t5env, k t5k, depth int) (string, error) {
	vid, ok1 := as.Lhs[0].(*ast.Ident)
	okid, ok2 := as.Lhs[1].(*ast.Ident)
	if !ok1 || !ok2 || vid.Name == "_" || okid.Name == "_" {
		return "", lostf("if with init statement %s", c.tr.src(as))
	}
	// v and ok are scoped to the if; the translation binds v in a match arm only. Shadowing an outer variable of
	// the same name could capture uses in the continuation, so that is refused.
	if _, o1 := en[vid.Name]; o1 {
		return "", lostf("the if-scoped variable %s shadows an outer variable", vid.Name)
	}
	if _, o2 := en[okid.Name]; o2 {
		return "", lostf("the if-scoped variable %s shadows an outer variable", okid.Name)
	}
	// condition: ok, or ok && more
	var more ast.Expr
	switch cd := s.Cond.(type) {
	case *ast.Ident:
		if cd.Name != okid.Name {
			return "", lostf("condition %s of a comma-ok if", c.tr.src(s.Cond))
		}
	case *ast.BinaryExpr:
		l, isId := cd.X.(*ast.Ident)
		if cd.Op != token.LAND || !isId || l.Name != okid.Name {
			return "", lostf("condition %s of a comma-ok if", c.tr.src(s.Cond))
		}
		more = cd.Y
	default:
		return "", lostf("condition %s of a comma-ok if", c.tr.src(s.Cond))
	}
	if t5idents(append(append([]ast.Stmt{}, s.Body.List...), els...))[okid.Name] || (more != nil && t5idents([]ast.Stmt{&ast.ExprStmt{X: more}})[okid.Name]) {
		return "", lostf("%s is used beyond the condition", okid.Name)
	}
	vln, err := leanIdent(vid.Name)
	if err != nil {
		return "", err
	}
	switch rhs := as.Rhs[0].(type) {
	case *ast.TypeAssertExpr:
		if rhs.Type == nil {
			return "", lostf("type assertion %s", c.tr.src(rhs))
		}
		x, err := c.ex(rhs.X, en)
		if err != nil {
			return "", err
		}
		xt, err := c.ty(x.typ)
		if err != nil {
			return "", err
		}
		ct, err := c.canon(rhs.Type)
		if err != nil {
			return "", err
		}
		var hit *t5case
		for i := range xt.oneof {
			if xt.oneof[i].goType == ct {
				hit = &xt.oneof[i]
			}
		}
		if hit == nil {
			return "", lostf("type assertion of %s to %s", x.typ, ct)
		}
		if _, err := c.ty(ct); err != nil {
			return "", err
		}
		plt, err := c.leanType(hit.payload)
		if err != nil {
			return "", err
		}
		enIn := en.with(vid.Name, t5b{vln, ct})
		body := s.Body.List
		if hasReturn(body) || hasReturn(els) {
			return "", lostf("comma-ok type assertion whose branches return")
		}
		// the branches only update variables; assignments to fields of v write through to the asserted node
		all := append(append([]ast.Stmt{}, body...), els...)
		asg, _ := t5assigned(body)
		writesV := asg[vid.Name]
		var node *ast.Ident
		if writesV {
			sel, ok := rhs.X.(*ast.SelectorExpr)
			if !ok || sel.Sel.Name != "Value" {
				return "", lostf("assignment through %s, which is not asserted from a node's Value", vid.Name)
			}
			node, ok = sel.X.(*ast.Ident)
			if !ok {
				return "", lostf("assignment through %s, which is not asserted from a variable's Value", vid.Name)
			}
			nb, ok := en[node.Name]
			nt, err := c.ty(nb.typ)
			if !ok || err != nil || nt.setValue == "" {
				return "", lostf("assignment through %s: %s is not a node variable", vid.Name, node.Name)
			}
			if t5idents(els)[vid.Name] {
				return "", lostf("%s used in the else branch", vid.Name)
			}
		}
		vars, err := c.carriedVars(all, enIn)
		if err != nil {
			return "", err
		}
		// v itself is rebuilt into the node, not carried
		var outer []string
		for _, v := range vars {
			if v != vid.Name {
				outer = append(outer, v)
			}
		}
		if writesV {
			found := false
			for _, v := range outer {
				if v == node.Name {
					found = true
				}
			}
			if found {
				return "", lostf("the node %s is assigned while %s aliases its value", node.Name, vid.Name)
			}
			outer = append(outer, node.Name)
			sort.Strings(outer)
			// keep "$st" last
			for i, v := range outer {
				if v == "$st" {
					outer = append(append(outer[:i:i], outer[i+1:]...), "$st")
					break
				}
			}
		}
		if len(outer) == 0 {
			return "", lostf("if without effect on the variables of the subset")
		}
		tuple, typ, err := c.carried(outer, en)
		if err != nil {
			return "", err
		}
		fin := func(en2 t5env, d int) (string, error) {
			if !writesV {
				return ind(d) + tuple + "\n", nil
			}
			nb := en[node.Name]
			nt, _ := c.ty(nb.typ)
			line := fmt.Sprintf("%slet %s : %s := (%s %s (%s.%s %s))\n", ind(d), nb.lean, nt.lean, nt.setValue, nb.lean, xt.lean, hit.ctor, vln)
			return line + ind(d) + tuple + "\n", nil
		}
		var ta string
		if more != nil {
			cond, err := c.exT(more, enIn, "bool")
			if err != nil {
				return "", err
			}
			t1, err := c.blk(body, enIn, fin, depth+4)
			if err != nil {
				return "", err
			}
			var t2 string
			if t2, err = c.blk(els, en, func(en2 t5env, d int) (string, error) { return ind(d) + tuple + "\n", nil }, depth+4); err != nil {
				return "", err
			}
			ta = fmt.Sprintf("%sif %s then\n%s%selse\n%s", ind(depth+3), cond.text, t1, ind(depth+3), t2)
		} else {
			if ta, err = c.blk(body, enIn, fin, depth+3); err != nil {
				return "", err
			}
		}
		tb, err := c.blk(els, en, func(en2 t5env, d int) (string, error) { return ind(d) + tuple + "\n", nil }, depth+3)
		if err != nil {
			return "", err
		}
		r, err := c.blk(rest, en, k, depth)
		if err != nil {
			return "", err
		}
		term := fmt.Sprintf("\n%smatch %s with\n%s| %s.%s (%s : %s) =>\n%s%s| _ =>\n%s", ind(depth+1), x.text, ind(depth+1), xt.lean, hit.ctor, vln, plt,
			ta, ind(depth+1), strings.TrimRight(tb, "\n"))
		return c.destructure(outer, en, typ, term, depth) + r, nil
	case *ast.IndexExpr:
		return c.ifMapLookup(s, rhs, vid.Name, vln, more, els, rest, en, k, depth)
	}
	return "", lostf("if with init statement %s", c.tr.src(as))
}

func (c *t5ctx) rangeStmt(s *ast.RangeStmt, rest []ast.Stmt, en t5env, k t5k, depth int) (string, error) {
	if s.Tok != token.DEFINE {
		return "", lostf("range loop without :=")
	}
	kid, _ := s.Key.(*ast.Ident)
	vid, _ := s.Value.(*ast.Ident)
	if kid == nil || vid == nil || vid.Name == "_" {
		return "", lostf("range loop that is not `for _, v := range xs` / `for i, v := range xs`")
	}
	xs, err := c.ex(s.X, en)
	if err != nil {
		return "", err
	}
	if !strings.HasPrefix(xs.typ, "[]") {
		return "", lostf("range over %s", xs.typ)
	}
	et := xs.typ[2:]
	elt, err := c.leanType(et)
	if err != nil {
		return "", err
	}
	vln, err := leanIdent(vid.Name)
	if err != nil {
		return "", err
	}
	ids := t5idents(rest)
	if ids[vid.Name] && en[vid.Name].lean == "" || (kid.Name != "_" && ids[kid.Name] && en[kid.Name].lean == "") {
		// a loop variable name that is free afterwards would be a compile error in Go; nothing to check
	}
	enIn := en.with(vid.Name, t5b{vln, et})
	binder := fmt.Sprintf("(%s : %s)", vln, elt)
	list := xs.text
	unpack := ""
	if kid.Name != "_" {
		kln, err := leanIdent(kid.Name)
		if err != nil {
			return "", err
		}
		p := c.fresh("p")
		binder = fmt.Sprintf("(%s : Int × %s)", p, elt)
		list = "(Go.enum " + xs.text + ")"
		unpack = fmt.Sprintf("%slet %s : Int := %s.1\n%slet %s : %s := %s.2\n", ind(depth+2), kln, p, ind(depth+2), vln, elt, p)
		enIn = enIn.with(kid.Name, t5b{kln, "int"})
	}
	vars, err := c.carriedVars(s.Body.List, enIn)
	if err != nil {
		return "", err
	}
	{ // an assignment to the loop variables changes the per-iteration copy only
		var keep []string
		for _, v := range vars {
			if v != vid.Name && v != kid.Name {
				keep = append(keep, v)
			}
		}
		vars = keep
	}
	if len(vars) == 0 {
		return "", lostf("loop without effect on the variables of the subset")
	}
	tuple, typ, err := c.carried(vars, en)
	if err != nil {
		return "", err
	}
	if !hasReturn(s.Body.List) {
		body, err := c.nestedNoReturn(s.Body.List, vars, enIn, depth+2)
		if err != nil {
			return "", err
		}
		r, err := c.blk(rest, en, k, depth)
		if err != nil {
			return "", err
		}
		// the lambda rebinds the carried variables: fun (acc : T) x => let (a, b) := acc …
		accBind, accUnpack := "", ""
		if len(vars) == 1 {
			accBind = fmt.Sprintf("(%s : %s)", tuple, typ)
		} else {
			a := c.fresh("a")
			accBind = fmt.Sprintf("(%s : %s)", a, typ)
			accUnpack = c.destructureFrom(vars, en, a, depth+2)
		}
		term := fmt.Sprintf("List.foldl (fun %s %s =>\n%s%s%s%s) %s %s", accBind, binder, accUnpack, unpack, body, ind(depth+1), tuple, list)
		return c.destructure(vars, en, typ, term, depth) + r, nil
	}
	// the body may return from the function
	sub := *c
	sub.t8nest++ // [t8]
	outerWrap := c.retWrap
	sub.retWrap = func(s string) string { return "(Go.Loop.ret " + outerWrap(s) + ")" }
	body, err := sub.blk(s.Body.List, enIn, func(en2 t5env, d int) (string, error) {
		for _, v := range vars {
			if v != "$st" && v != "$w" && en2[v] != enIn[v] {
				return "", lostf("carried variable %s is shadowed", v)
			}
		}
		return ind(d) + "(Go.Loop.go " + tuple + ")\n", nil
	}, depth+2)
	c.tmp = sub.tmp
	if err != nil {
		return "", err
	}
	accBind, accUnpack := "", ""
	if len(vars) == 1 {
		accBind = fmt.Sprintf("(%s : %s)", tuple, typ)
	} else {
		a := c.fresh("a")
		accBind = fmt.Sprintf("(%s : %s)", a, typ)
		accUnpack = c.destructureFrom(vars, en, a, depth+2)
	}
	r, err := c.blk(rest, en, k, depth+1)
	if err != nil {
		return "", err
	}
	rv := c.fresh("r")
	a2 := c.fresh("a")
	after := ""
	if len(vars) == 1 {
		after = fmt.Sprintf("%s| Go.Loop.go %s =>\n%s", ind(depth), tuple, r)
	} else {
		after = fmt.Sprintf("%s| Go.Loop.go %s =>\n%s%s", ind(depth), a2, c.destructureFrom(vars, en, a2, depth+1), r)
	}
	return fmt.Sprintf("%smatch (Go.forRange %s %s (fun %s %s =>\n%s%s%s%s) : Go.Loop %s %s) with\n%s| Go.Loop.ret %s => %s\n%s",
		ind(depth), list, tuple, accBind, binder, accUnpack, unpack, body, ind(depth+1), c.retLean, typ, ind(depth), rv, rv, after), nil
}

// destructureFrom: lets binding the carried variables from the tuple variable a
func (c *t5ctx) destructureFrom(vars []string, en t5env, a string, depth int) string {
	out := ""
	proj := a
	for i, v := range vars {
		n := c.pseudo(v, en)
		if i == len(vars)-1 {
			out += fmt.Sprintf("%slet %s := %s\n", ind(depth), n, proj)
		} else {
			out += fmt.Sprintf("%slet %s := %s.1\n", ind(depth), n, proj)
			proj = proj + ".2"
		}
	}
	return out
}

// typeSwitch: `switch v := x.(type) { case *T: … default: … }` on a oneof / interface of the table
func (c *t5ctx) typeSwitch(s *ast.TypeSwitchStmt, rest []ast.Stmt, en t5env, k t5k, depth int) (string, error) {
	if s.Init != nil {
		return "", lostf("type switch with an init statement")
	}
	var bind string
	var ta *ast.TypeAssertExpr
	switch a := s.Assign.(type) {
	case *ast.AssignStmt:
		if len(a.Lhs) != 1 || len(a.Rhs) != 1 || a.Tok != token.DEFINE {
			return "", lostf("type switch %s", c.tr.src(a))
		}
		bind = a.Lhs[0].(*ast.Ident).Name
		ta, _ = a.Rhs[0].(*ast.TypeAssertExpr)
	case *ast.ExprStmt:
		ta, _ = a.X.(*ast.TypeAssertExpr)
	}
	if ta == nil || ta.Type != nil {
		return "", lostf("type switch %s", c.tr.src(s.Assign))
	}
	x, err := c.ex(ta.X, en)
	if err != nil {
		return "", err
	}
	xt, err := c.ty(x.typ)
	if err != nil {
		return "", err
	}
	if xt.oneof == nil {
		return "", lostf("type switch on %s", x.typ)
	}
	arms := map[string]*ast.CaseClause{}
	var def *ast.CaseClause
	for _, cs := range s.Body.List {
		cc := cs.(*ast.CaseClause)
		if cc.List == nil {
			def = cc
			continue
		}
		if len(cc.List) != 1 {
			return "", lostf("case with %d types", len(cc.List))
		}
		ct, err := c.canon(cc.List[0])
		if err != nil {
			return "", err
		}
		if _, dup := arms[ct]; dup {
			return "", lostf("duplicate case %s", ct)
		}
		ok := false
		for _, oc := range xt.oneof {
			if oc.goType == ct && ct != "" {
				ok = true
			}
		}
		if !ok {
			return "", lostf("case %s is not a member of %s", ct, x.typ)
		}
		arms[ct] = cc
		for _, st := range cc.Body {
			if bs, ok := st.(*ast.BranchStmt); ok {
				return "", lostf("%s in a type switch", bs.Tok)
			}
		}
	}
	bln := ""
	if bind != "" {
		if bln, err = leanIdent(bind); err != nil {
			return "", err
		}
		if t5idents(rest)[bind] {
			return "", lostf("the switch-scoped variable %s is also used after the switch", bind)
		}
	}
	allReturn := t5returns([]ast.Stmt{s})
	armK := k
	if len(rest) > 0 || k != nil {
		armK = func(en2 t5env, d int) (string, error) { return c.blk(rest, en2, k, d) }
	}
	if allReturn && len(rest) > 0 {
		return "", lostf("statements after a type switch that always returns")
	}
	out := fmt.Sprintf("%smatch %s with\n", ind(depth), x.text)
	for _, oc := range xt.oneof {
		cc := arms[oc.goType]
		enArm := en
		pat := xt.lean + "." + oc.ctor
		if oc.goType != "" {
			plt, err := c.leanType(oc.payload)
			if err != nil {
				return "", err
			}
			if cc != nil && bind != "" {
				if _, err := c.ty(oc.goType); err != nil {
					return "", err
				}
				pat += fmt.Sprintf(" (%s : %s)", bln, plt)
				enArm = en.with(bind, t5b{bln, oc.goType})
			} else {
				pat += " _"
			}
		}
		var body []ast.Stmt
		switch {
		case cc != nil:
			body = cc.Body
		case def != nil:
			body = def.Body
			enArm = en.without(bind)
		}
		if len(rest) > 0 {
			_, de := t5assigned(body)
			ids := t5idents(rest)
			for d := range de {
				if ids[d] {
					return "", lostf("case-local %s is also used after the switch", d)
				}
			}
		}
		var t string
		if t5returns(body) {
			t, err = c.blk(body, enArm, nil, depth+1)
		} else {
			t, err = c.blk(body, enArm, armK, depth+1)
		}
		if err != nil {
			return "", err
		}
		out += fmt.Sprintf("%s| %s =>\n%s", ind(depth), pat, t)
	}
	return out, nil
}

// ---------------------------------------------------------------- function targets

type t5target struct {
	rel, pkg, view string
	recv, name     string // the Go function
	lean           string // Lean name
	doc            string
	funcs          map[string]*t5fn
	vals           map[string]t5v
	state          []string                                   // parameters / receiver whose final value is returned with the result
	fuelParam      string                                     // recursive function: the parameter whose depth bounds the recursion
	extern         []string                                   // leading Lean binders standing for external calls
	externArgs     []string                                   // their names (passed on in recursive calls)
	skip           map[string]bool                            // parameters that are not translated (using them loses the function)
	body           func(fd *ast.FuncDecl) ([]ast.Stmt, error) // the statements to translate (default: the whole body)
	setup          func(c *t5ctx, fd *ast.FuncDecl) error
	pick           func(c *t5ctx, fd *ast.FuncDecl) (*ast.FuncDecl, error) // replace the declaration by a synthetic one (function literals)
	final          func(c *t5ctx) t5k                                      // what the translated statement list yields when control falls off its end
	res            []string                                                // override of the result types (fragments)
	world          bool                                                    // the function acts on the driver's shared state: first parameter (w : Go.Drv.World), returned last
}

func (c *t5ctx) leanTypeP(key string) (string, error) {
	if strings.HasPrefix(key, "func(") && c.stVar != "" {
		i := strings.Index(key, ")")
		pt, rt := key[5:i], key[i+1:]
		if strings.Contains(pt, ",") || rt == "" || strings.Contains(rt, ",") {
			return "", lostf("callback type %s", key)
		}
		p, err := c.leanType(pt)
		if err != nil {
			return "", err
		}
		r, err := c.leanType(rt)
		if err != nil {
			return "", err
		}
		return "(σ → " + p + " → " + r + " × σ)", nil
	}
	return c.leanType(key)
}

func (tr *translator) t5func(t t5target) (string, error) {
	c, err := tr.t5new(t.rel, t.pkg, t.view)
	if err != nil {
		return "", err
	}
	_, fd := tr.fn(t.rel, t.recv, t.name)
	if fd == nil {
		return "", lostf("function %s not found in %s", t.name, t.rel)
	}
	if t.pick != nil {
		if fd, err = t.pick(c, fd); err != nil {
			return "", err
		}
	}
	for k, v := range t.funcs {
		c.funcs[k] = v
	}
	for k, v := range t.vals {
		c.vals[k] = v
	}
	type par struct{ goName, lean, typ, lt string }
	var ps []par
	en := t5env{}
	addParam := func(name string, te ast.Expr) error {
		if t.skip[name] || name == "_" {
			return nil
		}
		key, err := c.canon(te)
		if err != nil {
			return err
		}
		ln, err := leanIdent(name)
		if err != nil {
			return err
		}
		if key == "*drv.updogDriver" {
			ln = "()" // the driver's state is the world
		}
		ps = append(ps, par{name, ln, key, ""})
		en[name] = t5b{ln, key}
		return nil
	}
	if fd.Recv != nil && len(fd.Recv.List) == 1 && len(fd.Recv.List[0].Names) == 1 {
		if err := addParam(fd.Recv.List[0].Names[0].Name, fd.Recv.List[0].Type); err != nil {
			return "", err
		}
	}
	cb := -1
	cbArg := ""
	if fd.Type.Params != nil {
		for _, fl := range fd.Type.Params.List {
			for _, id := range fl.Names {
				if err := addParam(id.Name, fl.Type); err != nil {
					return "", err
				}
			}
		}
	}
	for i, p := range ps {
		if strings.HasPrefix(p.typ, "func(") {
			if cb >= 0 {
				return "", lostf("two callback parameters")
			}
			cb = i
			c.stVar = "st"
			cbArg = p.typ[5:strings.Index(p.typ, ")")]
		}
	}
	for i := range ps {
		lt, err := c.leanTypeP(ps[i].typ)
		if err != nil {
			return "", err
		}
		ps[i].lt = lt
	}
	if fd.Type.Results != nil {
		for _, fl := range fd.Type.Results.List {
			if len(fl.Names) != 0 {
				return "", lostf("named results")
			}
			key, err := c.canon(fl.Type)
			if err != nil {
				return "", err
			}
			c.res = append(c.res, key)
		}
	}
	if t.res != nil {
		c.res = t.res
	}
	c.state = t.state
	for _, s := range t.state {
		if _, ok := en[s]; !ok {
			return "", lostf("state variable %s is not a parameter", s)
		}
	}
	base, err := c.retType()
	if err != nil {
		return "", err
	}
	rparts := []string{}
	if base != "" {
		rparts = append(rparts, base)
	}
	for _, s := range t.state {
		lt, err := c.leanType(en[s].typ)
		if err != nil {
			return "", err
		}
		rparts = append(rparts, lt)
	}
	if t.world {
		c.world = "w"
		rparts = append(rparts, "Go.Drv.World")
	}
	if c.stVar != "" {
		rparts = append(rparts, "σ")
	}
	ret := "Unit"
	if len(rparts) == 1 {
		ret = rparts[0]
	} else if len(rparts) > 1 {
		ret = "(" + strings.Join(rparts, " × ") + ")"
	}
	c.retLean = ret
	if t.setup != nil {
		if err := t.setup(c, fd); err != nil {
			return "", err
		}
	}
	stmts := fd.Body.List
	if t.body != nil {
		if stmts, err = t.body(fd); err != nil {
			return "", err
		}
	}
	sigma := ""
	if c.stVar != "" {
		sigma = " {σ : Type}"
	}
	ext := ""
	for _, e := range t.extern {
		ext += " " + e
	}
	doc := fmt.Sprintf("/-- %s -/\n", strings.ReplaceAll(t.doc, "-/", "- /"))
	var fin t5k
	if t.final != nil {
		fin = t.final(c)
	}
	if t.fuelParam == "" {
		body, err := c.blk(stmts, en, fin, 1)
		if err != nil {
			return "", err
		}
		var b strings.Builder
		fmt.Fprintf(&b, "%sdef %s%s%s", doc, t.lean, sigma, ext)
		if t.world {
			b.WriteString(" (w : Go.Drv.World)")
		}
		for _, p := range ps {
			if p.typ == "*drv.updogDriver" {
				continue // the driver is the world
			}
			fmt.Fprintf(&b, " (%s : %s)", p.lean, p.lt)
		}
		if c.stVar != "" {
			fmt.Fprintf(&b, " (%s : σ)", c.stVar)
		}
		fmt.Fprintf(&b, " : %s :=\n%s", ret, body)
		return b.String(), nil
	}
	// recursive: fuel
	fp := -1
	var ptypes []string
	for i, p := range ps {
		if p.goName == t.fuelParam {
			fp = i
		}
		ptypes = append(ptypes, p.typ)
	}
	if fp < 0 {
		return "", lostf("fuel parameter %s not found", t.fuelParam)
	}
	ft, err := c.ty(ps[fp].typ)
	if err != nil || ft.depth == "" {
		return "", lostf("no depth measure for %s", ps[fp].typ)
	}
	c.fuelVar = "fuel"
	pre := append(append([]string{}, t.externArgs...), "$fuel")
	c.funcs[t.name] = &t5fn{lean: t.lean + "F", pre: pre, params: ptypes, results: c.res, cb: cb, cbArg: cbArg, self: true}
	body, err := c.blk(stmts, en, nil, 2)
	if err != nil {
		return "", err
	}
	// the result when the fuel is exhausted (never reached from the wrapper): zero values, state unchanged
	var zparts []string
	switch {
	case len(c.res) == 1 && c.res[0] != "error":
		z, err := c.zero(c.res[0])
		if err != nil {
			return "", err
		}
		zparts = append(zparts, z)
	case len(c.res) == 1:
		zparts = append(zparts, "none")
	case len(c.res) == 2:
		return "", lostf("recursive function with an error result")
	}
	for _, s := range t.state {
		zparts = append(zparts, en[s].lean)
	}
	if c.stVar != "" {
		zparts = append(zparts, c.stVar)
	}
	zero := "()"
	if len(zparts) == 1 {
		zero = zparts[0]
	} else if len(zparts) > 1 {
		zero = "(" + strings.Join(zparts, ", ") + ")"
	}
	var b strings.Builder
	var names, types []string
	for _, p := range ps {
		names = append(names, p.lean)
		types = append(types, p.lt)
	}
	if c.stVar != "" {
		names = append(names, c.stVar)
		types = append(types, "σ")
	}
	fmt.Fprintf(&b, "/-- worker of `%s`: the recursion of the Go function, bounded by `fuel` -/\ndef %sF%s%s : Nat → %s → %s\n", t.lean, t.lean, sigma, ext,
		strings.Join(types, " → "), ret)
	fmt.Fprintf(&b, "  | 0, %s => %s\n", strings.Join(names, ", "), zero)
	fmt.Fprintf(&b, "  | fuel + 1, %s =>\n%s\n", strings.Join(names, ", "), body)
	fmt.Fprintf(&b, "%sdef %s%s%s", doc, t.lean, sigma, ext)
	for i, n := range names {
		fmt.Fprintf(&b, " (%s : %s)", n, types[i])
	}
	fmt.Fprintf(&b, " : %s :=\n  %sF %s(%s %s + 1) %s\n", ret, t.lean, t5join(t.externArgs), ft.depth, ps[fp].lean, strings.Join(names, " "))
	return b.String(), nil
}

func t5join(xs []string) string {
	if len(xs) == 0 {
		return ""
	}
	return strings.Join(xs, " ") + " "
}

// stubs filled in by the driver part
func t5driverTypes(m map[string]*t5ty) {
	const dg = "driver/driver.go"
	f := func(n, t string) t5field { return t5field{n, t} }
	m["drv.row"] = &t5ty{lean: "Go.Drv.row", ns: "Go.Drv.row", isStruct: true, decl: [2]string{dg, "row"},
		fields: []t5field{f("fields", "[]string"), f("count", "uint64")}}
	m["drv.rows"] = &t5ty{lean: "Go.Drv.rows", ns: "Go.Drv.rows", isStruct: true, decl: [2]string{dg, "rows"},
		fields: []t5field{f("cols", "[]string"), f("rows", "[]drv.row"), f("closed", "bool"), f("idx", "int")}}
	m["drv.fileCacheKey"] = &t5ty{lean: "Go.Drv.fileCacheKey", ns: "Go.Drv.fileCacheKey", isStruct: true, decl: [2]string{dg, "fileCacheKey"},
		fields: []t5field{f("file", "string"), f("opts", "string")}}
	m["driver.Value"] = &t5ty{lean: "Go.Drv.Value", ns: "Go.Drv.Value", zero: "Go.Drv.Value.nil",
		ifaceOf: map[string]string{"string": "Go.Drv.Value.ofString", "int64": "Go.Drv.Value.ofInt64"}}
	m["driver.NamedValue"] = &t5ty{lean: "Go.Drv.NamedValue", ns: "Go.Drv.NamedValue", fields: []t5field{f("Ordinal", "int"), f("Value", "driver.Value")}}
	m["url.Values"] = &t5ty{lean: "Go.Url.Values", ns: "Go.Url.Values", mfuncs: map[string]*t5fn{
		"Get": {lean: "Go.Url.Values.Get", params: []string{"string"}, results: []string{"string"}, cb: -1}}}
	m["drv.updogDriver"] = &t5ty{lean: "Unit", ns: "Go.Drv.updogDriver", decl: [2]string{dg, "updogDriver"},
		fields: []t5field{f("fileConnMtx", "sync.RWMutex"), f("fileConnCache", "map[drv.fileCacheKey]*drv.fileConn")}}
	m["drv.fileConn"] = &t5ty{lean: "Go.Drv.ConnId", ns: "Go.Drv.fileConn", decl: [2]string{dg, "fileConn"},
		fields: []t5field{f("idx", "*updog.Index"), f("drv", "*drv.updogDriver"), f("key", "drv.fileCacheKey"), f("refs", "atomic.Int32")}}
	m["*updog.Index"] = &t5ty{lean: "(Option Go.Drv.IdxId)", ns: "Go.Drv.IdxId", zero: "none"}
	m["drv.fileStmt"] = &t5ty{lean: "Go.Drv.fileStmt", ns: "Go.Drv.fileStmt", decl: [2]string{dg, "fileStmt"},
		fields: []t5field{f("c", "*drv.fileConn"), f("q", "*pb.Query@p")}}
	m["drv.openFileOpts"] = &t5ty{lean: "Go.Drv.OpenFileOpts", ns: "Go.Drv.OpenFileOpts", isStruct: true,
		fields: []t5field{f("key", "drv.fileCacheKey"), f("opts", "[]updog.IndexOption")}}
}

func (c *t5ctx) pseudo(v string, en t5env) string {
	switch v {
	case "$st":
		return c.stVar
	case "$w":
		return c.world
	}
	return en[v].lean
}

// ---- the driver's shared state (driver/driver.go): the connection cache, the reference counts, the mutex.
// In a world context the variable c.world holds a Go.Drv.World; the statements below are its only users.

// isDrvField: e is `X.<field>` with X of type *drv.updogDriver
func (c *t5ctx) isDrvField(e ast.Expr, en t5env, field string) bool {
	s, ok := e.(*ast.SelectorExpr)
	if !ok || s.Sel.Name != field {
		return false
	}
	x, err := c.ex(s.X, en)
	return err == nil && x.typ == "*drv.updogDriver"
}

// worldExpr: pure reads of the shared state
func (c *t5ctx) worldExpr(e ast.Expr, en t5env) (t5v, bool, error) {
	switch e := e.(type) {
	case *ast.SelectorExpr:
		if id, ok := e.X.(*ast.Ident); ok && c.pkgOf(id.Name, en) != "" {
			return t5v{}, false, nil
		}
		x, err := c.ex(e.X, en)
		if err != nil || x.typ != "*drv.fileConn" {
			return t5v{}, false, nil
		}
		if _, err := c.ty(x.typ); err != nil {
			return t5v{}, true, err
		}
		switch e.Sel.Name {
		case "key":
			return t5v{text: fmt.Sprintf("(Go.Drv.connKey %s %s)", c.world, x.text), typ: "drv.fileCacheKey"}, true, nil
		case "idx":
			return t5v{text: fmt.Sprintf("(Go.Drv.connIdx %s %s)", c.world, x.text), typ: "*updog.Index"}, true, nil
		case "drv":
			return t5v{text: "()", typ: "*drv.updogDriver"}, true, nil
		}
		return t5v{}, true, lostf("field %s of a *fileConn", e.Sel.Name)
	case *ast.BinaryExpr:
		if e.Op != token.EQL && e.Op != token.NEQ {
			return t5v{}, false, nil
		}
		a, err1 := c.ex(e.X, en)
		b, err2 := c.ex(e.Y, en)
		if err1 != nil || err2 != nil {
			return t5v{}, false, nil
		}
		op := "=="
		if e.Op == token.NEQ {
			op = "!="
		}
		switch {
		case a.typ == "?*drv.fileConn" && b.typ == "*drv.fileConn":
			return t5v{text: fmt.Sprintf("(%s %s some %s)", a.text, op, b.text), typ: "bool"}, true, nil
		case a.typ == "*drv.fileConn" && b.typ == "?*drv.fileConn":
			return t5v{text: fmt.Sprintf("(%s %s some %s)", b.text, op, a.text), typ: "bool"}, true, nil
		case a.typ == "*updog.Index" && b.typ == "nil":
			return t5v{text: fmt.Sprintf("(%s %s none)", a.text, op), typ: "bool"}, true, nil
		}
		return t5v{}, false, nil
	}
	return t5v{}, false, nil
}

// hoist: evaluate the effectful sub-expressions of e (in evaluation order) into temporaries
func (c *t5ctx) hoist(e ast.Expr, en t5env, depth int) (string, error) {
	if c.world == "" {
		return "", nil
	}
	pre := ""
	var ferr error
	var walk func(n ast.Expr, guarded bool)
	emit := func(n ast.Expr, prim string, typ string, guarded bool) {
		if guarded {
			ferr = lostf("effectful expression %s under a short-circuit operator", c.tr.src(n))
			return
		}
		r := c.fresh("r")
		pre += fmt.Sprintf("%slet %s := %s\n%slet %s : Go.Drv.World := %s.1\n", ind(depth), r, prim, ind(depth), c.world, r)
		if c.hoisted == nil {
			c.hoisted = map[ast.Node]t5v{}
		}
		c.hoisted[n] = t5v{text: r + ".2", typ: typ}
	}
	walk = func(n ast.Expr, guarded bool) {
		if ferr != nil || n == nil {
			return
		}
		switch x := n.(type) {
		case *ast.ParenExpr:
			walk(x.X, guarded)
		case *ast.BinaryExpr:
			walk(x.X, guarded)
			walk(x.Y, guarded || x.Op == token.LAND || x.Op == token.LOR)
		case *ast.UnaryExpr:
			if cl, ok := x.X.(*ast.CompositeLit); ok && x.Op == token.AND && cl.Type != nil {
				if key, err := c.canon(cl.Type); err == nil && key == "drv.fileConn" {
					// &fileConn{idx: …, drv: d, key: …}: a new connection object with reference count 0
					if _, err := c.ty("*drv.fileConn"); err != nil {
						ferr = err
						return
					}
					idx, kk := "none", ""
					for _, el := range cl.Elts {
						kv, ok := el.(*ast.KeyValueExpr)
						if !ok {
							ferr = lostf("positional fileConn literal")
							return
						}
						switch c.tr.src(kv.Key) {
						case "idx":
							v, err := c.exT(kv.Value, en, "*updog.Index")
							if err != nil {
								ferr = err
								return
							}
							idx = v.text
						case "key":
							v, err := c.exT(kv.Value, en, "drv.fileCacheKey")
							if err != nil {
								ferr = err
								return
							}
							kk = v.text
						case "drv":
							if v, err := c.ex(kv.Value, en); err != nil || v.typ != "*drv.updogDriver" {
								ferr = lostf("drv field of the fileConn literal")
								return
							}
						default:
							ferr = lostf("field %s of the fileConn literal", c.tr.src(kv.Key))
							return
						}
					}
					if kk == "" {
						ferr = lostf("fileConn literal without key")
						return
					}
					emit(n, fmt.Sprintf("(Go.Drv.newConn %s ({ idx := %s, key := %s, refs := (0 : Int) } : Go.Drv.fileConn))", c.world, idx, kk), "*drv.fileConn", guarded)
					return
				}
			}
			walk(x.X, guarded)
		case *ast.IndexExpr:
			if c.isDrvField(x.X, en, "fileConnCache") {
				kx, err := c.exT(x.Index, en, "drv.fileCacheKey")
				if err != nil {
					ferr = err
					return
				}
				if guarded {
					ferr = lostf("cache read under a short-circuit operator")
					return
				}
				pre += fmt.Sprintf("%slet %s : Go.Drv.World := (Go.Drv.touch %s)\n", ind(depth), c.world, c.world)
				if c.hoisted == nil {
					c.hoisted = map[ast.Node]t5v{}
				}
				c.hoisted[n] = t5v{text: fmt.Sprintf("(Go.Drv.cacheGet %s %s)", c.world, kx.text), typ: "?*drv.fileConn"}
				return
			}
			walk(x.X, guarded)
			walk(x.Index, guarded)
		case *ast.CallExpr:
			if c.t8 != nil { // [t8] calls of the world functions / methods of translate_t8.go
				if handled, err := c.t8hoistCall(x, en, depth, guarded, &pre, walk); handled || err != nil {
					if err != nil && ferr == nil {
						ferr = err
					}
					return
				}
			}
			if s, ok := x.Fun.(*ast.SelectorExpr); ok {
				// Y.refs.Add(k)
				if in, ok := s.X.(*ast.SelectorExpr); ok && s.Sel.Name == "Add" && in.Sel.Name == "refs" && len(x.Args) == 1 {
					if y, err := c.ex(in.X, en); err == nil && y.typ == "*drv.fileConn" {
						if _, err := c.ty(y.typ); err != nil {
							ferr = err
							return
						}
						kx, err := c.exT(x.Args[0], en, "int32")
						if err != nil {
							ferr = err
							return
						}
						emit(n, fmt.Sprintf("(Go.Drv.refsAdd %s %s %s)", c.world, y.text, kx.text), "int32", guarded)
						return
					}
				}
				// I.Close() of an index
				if s.Sel.Name == "Close" && len(x.Args) == 0 {
					if y, err := c.ex(s.X, en); err == nil && y.typ == "*updog.Index" {
						emit(n, fmt.Sprintf("(Go.Drv.closeIndex %s %s)", c.world, y.text), "error", guarded)
						return
					}
				}
			}
			for _, a := range x.Args {
				walk(a, guarded)
			}
		case *ast.SelectorExpr:
			walk(x.X, guarded)
		case *ast.CompositeLit:
			for _, el := range x.Elts {
				if kv, ok := el.(*ast.KeyValueExpr); ok {
					walk(kv.Value, guarded)
				} else {
					walk(el, guarded)
				}
			}
		}
	}
	walk(e, false)
	return pre, ferr
}

// worldStmt: call statements acting on the shared state
func (c *t5ctx) worldStmt(e ast.Expr, rest []ast.Stmt, en t5env, k t5k, depth int) (string, bool, error) {
	if c.world == "" {
		return "", false, nil
	}
	call, ok := e.(*ast.CallExpr)
	if !ok {
		return "", false, nil
	}
	line := ""
	switch {
	case len(call.Args) == 0 && c.isMutexCall(call, en, "Lock"):
		line = fmt.Sprintf("%slet %s : Go.Drv.World := (Go.Drv.lock %s)\n", ind(depth), c.world, c.world)
	case len(call.Args) == 0 && c.isMutexCall(call, en, "Unlock"):
		line = fmt.Sprintf("%slet %s : Go.Drv.World := (Go.Drv.unlock %s)\n", ind(depth), c.world, c.world)
	case c.isBuiltin(call.Fun, en, "delete") && len(call.Args) == 2 && c.isDrvField(call.Args[0], en, "fileConnCache"):
		kx, err := c.exT(call.Args[1], en, "drv.fileCacheKey")
		if err != nil {
			return "", true, err
		}
		line = fmt.Sprintf("%slet %s : Go.Drv.World := (Go.Drv.cacheDelete (Go.Drv.touch %s) %s)\n", ind(depth), c.world, c.world, kx.text)
	default:
		pre, err := c.hoist(e, en, depth)
		if err != nil {
			return "", true, err
		}
		if _, done := c.hoisted[e]; !done || pre == "" {
			return "", false, nil
		}
		line = pre // the value of the call is discarded
	}
	r, err := c.blk(rest, en, k, depth)
	return line + r, true, err
}

func (c *t5ctx) isMutexCall(call *ast.CallExpr, en t5env, method string) bool {
	s, ok := call.Fun.(*ast.SelectorExpr)
	return ok && s.Sel.Name == method && c.isDrvField(s.X, en, "fileConnMtx")
}

// worldAssign: `X.fileConnCache[k] = conn` and `c.idx = v`
func (c *t5ctx) worldAssign(lhs, rhs ast.Expr, en t5env, depth int) (string, bool, error) {
	switch l := lhs.(type) {
	case *ast.IndexExpr:
		if !c.isDrvField(l.X, en, "fileConnCache") {
			return "", false, nil
		}
		kx, err := c.exT(l.Index, en, "drv.fileCacheKey")
		if err != nil {
			return "", true, err
		}
		v, err := c.exT(rhs, en, "*drv.fileConn")
		if err != nil {
			return "", true, err
		}
		return fmt.Sprintf("%slet %s : Go.Drv.World := (Go.Drv.cacheSet (Go.Drv.touch %s) %s %s)\n", ind(depth), c.world, c.world, kx.text, v.text), true, nil
	case *ast.SelectorExpr:
		if id, ok := l.X.(*ast.Ident); ok && c.pkgOf(id.Name, en) != "" {
			return "", false, nil
		}
		x, err := c.ex(l.X, en)
		if err != nil || x.typ != "*drv.fileConn" {
			return "", false, nil
		}
		if l.Sel.Name != "idx" {
			return "", true, lostf("assignment to field %s of a *fileConn", l.Sel.Name)
		}
		v, err := c.exT(rhs, en, "*updog.Index")
		if err != nil {
			return "", true, err
		}
		return fmt.Sprintf("%slet %s : Go.Drv.World := (Go.Drv.setConnIdx %s %s %s)\n", ind(depth), c.world, c.world, x.text, v.text), true, nil
	}
	return "", false, nil
}

// ifMapLookup: `if conn, ok := X.fileConnCache[key]; ok { a } …`
func (c *t5ctx) ifMapLookup(s *ast.IfStmt, ix *ast.IndexExpr, v, vln string, more ast.Expr, els, rest []ast.Stmt, en t5env, k t5k, depth int) (string, error) {
	if c.world == "" || !c.isDrvField(ix.X, en, "fileConnCache") || more != nil {
		return "", lostf("comma-ok map lookup %s", c.tr.src(ix))
	}
	kx, err := c.exT(ix.Index, en, "drv.fileCacheKey")
	if err != nil {
		return "", err
	}
	if _, err := c.ty("*drv.fileConn"); err != nil {
		return "", err
	}
	pre := fmt.Sprintf("%slet %s : Go.Drv.World := (Go.Drv.touch %s)\n", ind(depth), c.world, c.world)
	branch := func(stmts []ast.Stmt, e2 t5env) (string, error) {
		if t5returns(stmts) {
			return c.blk(stmts, e2, nil, depth+1)
		}
		if len(rest) > 0 {
			_, de := t5assigned(stmts)
			ids := t5idents(rest)
			for d := range de {
				if ids[d] {
					return "", lostf("branch-local %s is also used after the if", d)
				}
			}
		}
		return c.blk(stmts, e2, func(en2 t5env, d int) (string, error) { return c.blk(rest, en2.without(v), k, d) }, depth+1)
	}
	ta, err := branch(s.Body.List, en.with(v, t5b{vln, "*drv.fileConn"}))
	if err != nil {
		return "", err
	}
	tb, err := branch(els, en)
	if err != nil {
		return "", err
	}
	return fmt.Sprintf("%s%smatch (Go.Drv.cacheGet %s %s) with\n%s| some %s =>\n%s%s| none =>\n%s", pre, ind(depth), c.world, kx.text,
		ind(depth), vln, ta, ind(depth), tb), nil
}

// deferStmt: `defer X.fileConnMtx.Unlock()`: the mutex is released after the value of every later return is computed
func (c *t5ctx) deferStmt(s *ast.DeferStmt, rest []ast.Stmt, en t5env, k t5k, depth int) (string, error) {
	if c.t8 != nil { // [t8] deferred calls of world functions / methods, in a function whose statements are in tail position
		return c.t8defer(s, rest, en, k, depth)
	}
	if c.world == "" || len(s.Call.Args) != 0 || !c.isMutexCall(s.Call, en, "Unlock") {
		return "", lostf("defer %s", c.tr.src(s.Call))
	}
	if k != nil || len(c.state) != 0 || c.stVar != "" {
		return "", lostf("defer inside a nested block")
	}
	for _, st := range rest {
		bad := false
		ast.Inspect(st, func(n ast.Node) bool {
			if _, ok := n.(*ast.DeferStmt); ok {
				bad = true
			}
			return true
		})
		if bad {
			return "", lostf("a second defer")
		}
	}
	body, err := c.blk(rest, en, nil, depth+1)
	if err != nil {
		return "", err
	}
	o := c.fresh("out")
	return fmt.Sprintf("%slet %s : %s := (\n%s%s)\n%s(%s.1, Go.Drv.unlock %s.2)\n", ind(depth), o, c.retLean, body, ind(depth+1), ind(depth), o, o), nil
}

// ---------------------------------------------------------------- registration

func (tr *translator) translateT5(emit func(string, unit, error) bool, wrap func(bool, string, string)) {
	put := func(name, text string, err error) bool {
		if err != nil {
			emit(name, unit{}, err)
			return false
		}
		wrap(true, name, text)
		return true
	}
	_ = filepath.Join
	const cv = "internal/convert/convert.go"
	toExprSig := &t5fn{lean: "toExpr", params: []string{"*pb.Query_Expression@w"}, results: []string{"updog.Expression"}, cb: -1}
	text, err := tr.t5func(t5target{rel: cv, pkg: "convert", view: "w", name: "toExpr", lean: "toExpr", fuelParam: "pbe",
		doc: "`toExpr` of " + cv + ": protobuf expression (through its nil-safe getters) ↦ library expression; missing members become nil operands"})
	okToExpr := put("toExpr", text, err)
	if okToExpr {
		text, err = tr.t5func(t5target{rel: cv, pkg: "convert", view: "w", name: "ToQuery", lean: "ToQuery",
			funcs: map[string]*t5fn{"toExpr": toExprSig},
			doc:   "`ToQuery` of " + cv})
		put("ToQuery", text, err)
	} else {
		wrap(false, "ToQuery", "")
	}
	text, err = tr.t5func(t5target{rel: cv, pkg: "convert", view: "w", name: "ToProtobufResult", lean: "ToProtobufResult",
		doc: "`ToProtobufResult` of " + cv})
	put("ToProtobufResult", text, err)
	text, err = tr.t5func(t5target{rel: cv, pkg: "convert", view: "w", name: "ToResult", lean: "ToResult",
		doc: "`ToResult` of " + cv})
	put("ToResult", text, err)

	// ---- driver/driver.go
	const dg = "driver/driver.go"
	text, err = tr.t5func(t5target{rel: dg, pkg: "drv", view: "p", name: "newRows", lean: "newRows",
		doc: "`newRows` of " + dg + ": the rows the sql driver hands out for a library result"})
	put("newRows", text, err)
	text, err = tr.t5func(t5target{rel: dg, pkg: "drv", view: "p", recv: "rows", name: "Next", lean: "rowsNext", state: []string{"r", "values"},
		vals: map[string]t5v{"io.EOF": {text: "Go.Err5.EOF", typ: "errval"}},
		doc:  "`(*rows).Next` of " + dg + ": (returned error, the receiver afterwards, the destination slice afterwards)"})
	put("rowsNext", text, err)
	text, err = tr.t5func(t5target{rel: dg, pkg: "drv", view: "p", recv: "rows", name: "ColumnTypeDatabaseTypeName", lean: "columnTypeDatabaseTypeName",
		doc: "`(*rows).ColumnTypeDatabaseTypeName` of " + dg})
	put("columnTypeDatabaseTypeName", text, err)
	text, err = tr.t5func(t5target{rel: dg, pkg: "drv", view: "p", recv: "updogDriver", name: "openFile", lean: "openFileOpts",
		skip: map[string]bool{"d": true}, res: []string{"drv.openFileOpts", "error"},
		funcs: map[string]*t5fn{
			"strconv.ParseUint":       {lean: "Go.parseUint64", params: []string{"string", "const:10", "const:64"}, results: []string{"uint64", "error"}, cb: -1},
			"updog.WithPreloadedData": {lean: "Go.Lib.IndexOption.WithPreloadedData", params: []string{}, results: []string{"updog.IndexOption"}, cb: -1},
			"updog.NewLRUCache":       {lean: "Go.Lib.NewLRUCache", params: []string{"uint64"}, results: []string{"*updog.LRUCache"}, cb: -1},
			"updog.WithCache":         {lean: "Go.Lib.IndexOption.WithCache", params: []string{"*updog.LRUCache"}, results: []string{"updog.IndexOption"}, cb: -1},
		},
		body: func(fd *ast.FuncDecl) ([]ast.Stmt, error) { // the statements before the lock is taken
			for i, st := range fd.Body.List {
				if es, ok := st.(*ast.ExprStmt); ok {
					if call, ok := es.X.(*ast.CallExpr); ok && strings.HasSuffix(tr.src(call.Fun), ".fileConnMtx.Lock") && len(call.Args) == 0 {
						return fd.Body.List[:i], nil
					}
				}
			}
			return nil, lostf("openFile does not lock fileConnMtx at the top level")
		},
		final: func(c *t5ctx) t5k {
			return func(en t5env, d int) (string, error) {
				k, ok1 := en["key"]
				o, ok2 := en["opts"]
				if !ok1 || !ok2 || k.typ != "drv.fileCacheKey" || o.typ != "[]updog.IndexOption" {
					return "", lostf("openFile has no variables key (fileCacheKey) and opts ([]updog.IndexOption) when it takes the lock")
				}
				return ind(d) + "(Except.ok ({ key := " + k.lean + ", opts := " + o.lean + " } : Go.Drv.OpenFileOpts))\n", nil
			}
		},
		doc: "the option handling of `(*updogDriver).openFile` of " + dg + " (the statements before the lock is taken): the connection-cache key and the index options of a file DSN"})
	put("openFileOpts", text, err)

	// the critical section of openFile: from the Lock() to the end, as a function of what the part before computed
	text, err = tr.t5func(t5target{rel: dg, pkg: "drv", view: "p", recv: "updogDriver", name: "openFile", lean: "openFileLocked", world: true,
		extern: []string{"(valid : Bytes → Bool)"}, res: []string{"*drv.fileConn", "error"},
		funcs: map[string]*t5fn{
			"updog.OpenIndex": {lean: "Go.Drv.openIndex", pre: []string{"valid", "$w"}, params: []string{"string", "[]updog.IndexOption"},
				results: []string{"*updog.Index", "error"}, cb: -1, variadic: true, world: true},
		},
		pick: func(c *t5ctx, fd *ast.FuncDecl) (*ast.FuncDecl, error) {
			if fd.Recv == nil || len(fd.Recv.List) != 1 || len(fd.Recv.List[0].Names) != 1 || fd.Type.Params.NumFields() != 2 {
				return nil, lostf("signature of openFile")
			}
			for i, st := range fd.Body.List {
				if es, ok := st.(*ast.ExprStmt); ok {
					if call, ok := es.X.(*ast.CallExpr); ok && strings.HasSuffix(tr.src(call.Fun), ".fileConnMtx.Lock") && len(call.Args) == 0 {
						fileField := fd.Type.Params.List[0]
						if len(fileField.Names) != 1 || tr.src(fileField.Type) != "string" {
							return nil, lostf("signature of openFile")
						}
						ft := &ast.FuncType{Params: &ast.FieldList{List: []*ast.Field{
							fileField,
							{Names: []*ast.Ident{ast.NewIdent("key")}, Type: ast.NewIdent("fileCacheKey")},
							{Names: []*ast.Ident{ast.NewIdent("opts")}, Type: &ast.ArrayType{Elt: &ast.SelectorExpr{X: ast.NewIdent("updog"), Sel: ast.NewIdent("IndexOption")}}},
						}}, Results: fd.Type.Results}
						return &ast.FuncDecl{Recv: fd.Recv, Name: fd.Name, Type: ft, Body: &ast.BlockStmt{List: fd.Body.List[i:]}}, nil
					}
				}
			}
			return nil, lostf("openFile does not lock fileConnMtx at the top level")
		},
		doc: "the critical section of `(*updogDriver).openFile` of " + dg + " (from `d.fileConnMtx.Lock()` to the end), as a function of the shared driver state `w`, " +
			"the file name and the key / options computed before (`openFileOpts`); `valid` decides whether `updog.OpenIndex` succeeds"})
	put("openFileLocked", text, err)
	text, err = tr.t5func(t5target{rel: dg, pkg: "drv", view: "p", recv: "fileConn", name: "Close", lean: "connClose", world: true,
		doc: "`(*fileConn).Close` of " + dg + " as a function of the shared driver state `w`"})
	put("connClose", text, err)

	// ---- internal/queryparser/walk.go and the placeholder handling of the driver
	const wk = "internal/queryparser/walk.go"
	const cbT = "func(*pb.Query_Expression@p)bool"
	text, err = tr.t5func(t5target{rel: wk, pkg: "queryparser", view: "p", name: "walk", lean: "walk", fuelParam: "e",
		doc: "`walk` of " + wk + " in state-passing style: `st` is the state of the callback's closure"})
	okWalk := put("walk", text, err)
	walkSig := &t5fn{lean: "walk", params: []string{"*pb.Query_Expression@p", cbT}, results: []string{"bool"}, cb: 1, cbArg: "*pb.Query_Expression@p"}
	WalkSig := &t5fn{lean: "Walk", params: []string{"*pb.Query@p", cbT}, results: []string{"bool"}, cb: 1, cbArg: "*pb.Query_Expression@p"}
	okWalk2 := false
	if okWalk {
		text, err = tr.t5func(t5target{rel: wk, pkg: "queryparser", view: "p", name: "Walk", lean: "Walk", funcs: map[string]*t5fn{"walk": walkSig},
			doc: "`Walk` of " + wk})
		okWalk2 = put("Walk", text, err)
	} else {
		wrap(false, "Walk", "")
	}
	okNum := false
	if okWalk2 {
		text, err = tr.t5func(t5target{rel: dg, pkg: "drv", view: "p", name: "numInput", lean: "numInput", funcs: map[string]*t5fn{"queryparser.Walk": WalkSig},
			doc: "`numInput` of " + dg + ": the closure's captured variable `maxPlaceholder` is the state of the walk"})
		okNum = put("numInput", text, err)
	} else {
		wrap(false, "numInput", "")
	}
	// the callback of ReplacePlaceholders as a function on nodes: (its result, the node afterwards)
	var replLit *ast.FuncLit
	text, err = tr.t5func(t5target{rel: wk, pkg: "queryparser", view: "p", name: "ReplacePlaceholders", lean: "replacePlaceholdersNode", state: []string{"e"},
		pick: func(c *t5ctx, fd *ast.FuncDecl) (*ast.FuncDecl, error) {
			lit, err := t5replaceShape(c, fd)
			if err != nil {
				return nil, err
			}
			replLit = lit
			if lit.Type.Params.NumFields() != 1 || len(lit.Type.Params.List[0].Names) != 1 {
				return nil, lostf("signature of the callback of ReplacePlaceholders")
			}
			valuesField := fd.Type.Params.List[len(fd.Type.Params.List)-1]
			ft := &ast.FuncType{Params: &ast.FieldList{List: []*ast.Field{valuesField, lit.Type.Params.List[0]}}, Results: lit.Type.Results}
			return &ast.FuncDecl{Name: fd.Name, Type: ft, Body: lit.Body}, nil
		},
		setup: func(c *t5ctx, fd *ast.FuncDecl) error {
			if len(c.state) != 1 {
				return lostf("state")
			}
			c.state = []string{fd.Type.Params.List[1].Names[0].Name}
			return nil
		},
		doc: "the callback `ReplacePlaceholders` of " + wk + " hands to `Walk`, as a function of the argument list and the node: (returned bool, the node afterwards)"})
	_ = replLit
	okRepl := put("replacePlaceholdersNode", text, err)
	wrap(okRepl, "ReplacePlaceholders", "/-- `ReplacePlaceholders` of "+wk+": `proto.Clone`, then `Walk` applies the callback to every node of the clone in place\n"+
		"    (`Go.Parsed.mapNodes`, see there for what is assumed about the callback), the clone is returned -/\n"+
		"def ReplacePlaceholders (query : Go.Parsed.Query) (values : List Bytes) : Go.Parsed.Query :=\n"+
		"  { query with expr := Go.Parsed.mapNodes (fun e => (replacePlaceholdersNode values e).2) query.expr }\n")
	// fileStmt.query
	if okNum && okRepl && okToExpr && tr.done["ToQuery"] && tr.done["newRows"] {
		text, err = tr.t5func(t5target{rel: dg, pkg: "drv", view: "p", recv: "fileStmt", name: "query", lean: "stmtQuery",
			extern: []string{"(execute : Go.Lib.Query → Except Go.Err5 Go.Lib.Result)"}, res: []string{"*drv.rows", "error"},
			funcs: map[string]*t5fn{
				"numInput":                        {lean: "numInput", params: []string{"*pb.Query@p"}, results: []string{"int"}, cb: -1},
				"queryparser.ReplacePlaceholders": {lean: "ReplacePlaceholders", params: []string{"*pb.Query@p", "[]string"}, results: []string{"*pb.Query@p"}, cb: -1},
				"convert.ToQuery":                 {lean: "ToQuery", params: []string{"*pb.Query@w"}, results: []string{"*updog.Query"}, cb: -1},
				"newRows":                         {lean: "newRows", params: []string{"*updog.Result", "[]string"}, results: []string{"*drv.rows"}, cb: -1},
			},
			setup: func(c *t5ctx, fd *ast.FuncDecl) error {
				if fd.Recv == nil || len(fd.Recv.List[0].Names) != 1 {
					return lostf("receiver of fileStmt.query")
				}
				r := fd.Recv.List[0].Names[0].Name
				c.funcs[r+".c.idx.Execute"] = &t5fn{lean: "execute", params: []string{"*updog.Query"}, results: []string{"*updog.Result", "error"}, cb: -1}
				return nil
			},
			doc: "`(*fileStmt).query` of " + dg + ": argument-count check, placeholder substitution, conversion, `Index.Execute` (the parameter `execute`), rows"})
		put("stmtQuery", text, err)
	} else {
		wrap(false, "stmtQuery", "")
	}
	// how QueryContext and fileStmt.Query turn the arguments into the value list
	text, err = tr.t5func(t5target{rel: dg, pkg: "drv", view: "p", recv: "fileConn", name: "QueryContext", lean: "queryContextValues",
		extern: []string{"(sprint : Go.Drv.Value → Bytes)"}, res: []string{"[]string"}, skip: map[string]bool{"c": true, "ctx": true, "query": true},
		funcs: map[string]*t5fn{"fmt.Sprint": {lean: "sprint", params: []string{"driver.Value"}, results: []string{"string"}, cb: -1}},
		body:  func(fd *ast.FuncDecl) ([]ast.Stmt, error) { return t5valuesFragment(tr, fd) },
		final: func(c *t5ctx) t5k { return t5valuesFinal },
		doc:   "the value list `(*fileConn).QueryContext` of " + dg + " builds from the named arguments (`fmt.Sprint` is the parameter `sprint`) and hands to `stmt.query`"})
	put("queryContextValues", text, err)
	text, err = tr.t5func(t5target{rel: dg, pkg: "drv", view: "p", recv: "fileStmt", name: "Query", lean: "stmtQueryValues",
		extern: []string{"(sprint : Go.Drv.Value → Bytes)"}, res: []string{"[]string"}, skip: map[string]bool{"stmt": true},
		funcs: map[string]*t5fn{"fmt.Sprint": {lean: "sprint", params: []string{"driver.Value"}, results: []string{"string"}, cb: -1}},
		body:  func(fd *ast.FuncDecl) ([]ast.Stmt, error) { return t5valuesFragment(tr, fd) },
		final: func(c *t5ctx) t5k { return t5valuesFinal },
		doc:   "the value list `(*fileStmt).Query` of " + dg + " builds from the arguments and hands to `stmt.query`"})
	put("stmtQueryValues", text, err)

	// ---- cmd/updog/server.go
	const sg = "cmd/updog/server.go"
	if tr.done["ToQuery"] && tr.done["ToProtobufResult"] {
		text, err = tr.t5func(t5target{rel: sg, pkg: "main", view: "w", recv: "server", name: "Query", lean: "serverQuery",
			extern: []string{"(execute : Go.Lib.Query → Except Go.Err5 Go.Lib.Result)"}, skip: map[string]bool{"s": true, "ctx": true},
			funcs: map[string]*t5fn{
				"convert.ToQuery":          {lean: "ToQuery", params: []string{"*pb.Query@w"}, results: []string{"*updog.Query"}, cb: -1},
				"convert.ToProtobufResult": {lean: "ToProtobufResult", params: []string{"*updog.Result", "int32"}, results: []string{"*pb.Result"}, cb: -1},
			},
			setup: func(c *t5ctx, fd *ast.FuncDecl) error {
				if fd.Recv == nil || len(fd.Recv.List[0].Names) != 1 {
					return lostf("receiver of server.Query")
				}
				r := fd.Recv.List[0].Names[0].Name
				c.funcs[r+".idx.Execute"] = &t5fn{lean: "execute", params: []string{"*updog.Query"}, results: []string{"*updog.Result", "error"}, cb: -1}
				return nil
			},
			doc: "`(*server).Query` of " + sg + ": the per-query loop (`s.idx.Execute` is the parameter `execute`)"})
		put("serverQuery", text, err)
	} else {
		wrap(false, "serverQuery", "")
	}

	// ---- cmd/updog/create.go
	const cg = "cmd/updog/create.go"
	text, err = tr.t5func(t5target{rel: cg, pkg: "main", view: "w", name: "normalizeHeader", lean: "normalizeHeader",
		extern: []string{"(toLower : Nat → Nat)"},
		funcs: map[string]*t5fn{
			"strings.ToLower": {lean: "Go.stringsToLower", pre: []string{"toLower"}, params: []string{"string"}, results: []string{"string"}, cb: -1},
			"strings.Map":     {lean: "Go.stringsMap", params: []string{"pure:func(rune)rune", "string"}, results: []string{"string"}, cb: -1},
		},
		doc: "`normalizeHeader` of " + cg + " (`unicode.ToLower` on code points is the parameter `toLower`)"})
	put("normalizeHeader", text, err)
	text, err = tr.t5func(t5target{rel: cg, pkg: "main", view: "w", name: "createCmd", lean: "recordRow", res: []string{"map[string]string"},
		pick: func(c *t5ctx, fd *ast.FuncDecl) (*ast.FuncDecl, error) { return t5recordRowFragment(tr, fd) },
		final: func(c *t5ctx) t5k {
			return func(en t5env, d int) (string, error) {
				v, ok := en["values"]
				if !ok || v.typ != "map[string]string" {
					return "", lostf("no variable values of type map[string]string")
				}
				return ind(d) + v.lean + "\n", nil
			}
		},
		doc: "the row map `createCmd` of " + cg + " builds from the (normalised) header and one record and hands to `AddRow`"})
	put("recordRow", text, err)
}

// t5replaceShape: ReplacePlaceholders must be `q := proto.Clone(query).(*Query); _ = Walk(q, func…); return q`;
// returns the function literal
func t5replaceShape(c *t5ctx, fd *ast.FuncDecl) (*ast.FuncLit, error) {
	b := fd.Body.List
	if len(b) != 3 || fd.Type.Params.NumFields() != 2 || len(fd.Type.Params.List) != 2 {
		return nil, lostf("ReplacePlaceholders is not `clone; Walk(clone, callback); return clone`")
	}
	qn := fd.Type.Params.List[0].Names[0].Name
	as, ok := b[0].(*ast.AssignStmt)
	if !ok || as.Tok != token.DEFINE || len(as.Lhs) != 1 || len(as.Rhs) != 1 {
		return nil, lostf("first statement of ReplacePlaceholders is not `q := proto.Clone(…).(*Query)`")
	}
	clone, ok := as.Lhs[0].(*ast.Ident)
	ta, ok2 := as.Rhs[0].(*ast.TypeAssertExpr)
	if !ok || !ok2 || ta.Type == nil {
		return nil, lostf("first statement of ReplacePlaceholders is not `q := proto.Clone(…).(*Query)`")
	}
	tt, err := c.canon(ta.Type)
	call, ok := ta.X.(*ast.CallExpr)
	if err != nil || tt != "*pb.Query@p" || !ok || c.flat(call.Fun, nil) != "protolib.Clone" || len(call.Args) != 1 || c.tr.src(call.Args[0]) != qn {
		return nil, lostf("first statement of ReplacePlaceholders is not `q := proto.Clone(%s).(*Query)`", qn)
	}
	var wcall *ast.CallExpr
	switch st := b[1].(type) {
	case *ast.AssignStmt:
		if len(st.Lhs) == 1 && len(st.Rhs) == 1 && c.tr.src(st.Lhs[0]) == "_" {
			wcall, _ = st.Rhs[0].(*ast.CallExpr)
		}
	case *ast.ExprStmt:
		wcall, _ = st.X.(*ast.CallExpr)
	}
	if wcall == nil || c.tr.src(wcall.Fun) != "Walk" || len(wcall.Args) != 2 || c.tr.src(wcall.Args[0]) != clone.Name {
		return nil, lostf("second statement of ReplacePlaceholders is not `Walk(%s, callback)`", clone.Name)
	}
	lit, ok := wcall.Args[1].(*ast.FuncLit)
	if !ok {
		return nil, lostf("the callback of ReplacePlaceholders is not a function literal")
	}
	rs, ok := b[2].(*ast.ReturnStmt)
	if !ok || len(rs.Results) != 1 || c.tr.src(rs.Results[0]) != clone.Name {
		return nil, lostf("ReplacePlaceholders does not return the clone")
	}
	// the callback must not touch the clone or the query directly
	ids := t5idents(lit.Body.List)
	if ids[clone.Name] || ids[qn] {
		return nil, lostf("the callback of ReplacePlaceholders uses %s or %s", clone.Name, qn)
	}
	return lit, nil
}

// t5valuesFragment: the statements of QueryContext / fileStmt.Query that build `values`: everything between the
// (optional) `stmt, err := c.prepare(query); if err != nil {…}` prologue and the final `return stmt.query(values)`
func t5valuesFragment(tr *translator, fd *ast.FuncDecl) ([]ast.Stmt, error) {
	b := fd.Body.List
	if len(b) < 2 {
		return nil, lostf("body of %s", fd.Name.Name)
	}
	rs, ok := b[len(b)-1].(*ast.ReturnStmt)
	if !ok || len(rs.Results) != 1 {
		return nil, lostf("%s does not end in `return stmt.query(values)`", fd.Name.Name)
	}
	call, ok := rs.Results[0].(*ast.CallExpr)
	if !ok || len(call.Args) != 1 || tr.src(call.Args[0]) != "values" || !strings.HasSuffix(tr.src(call.Fun), ".query") {
		return nil, lostf("%s does not end in `return stmt.query(values)`", fd.Name.Name)
	}
	b = b[:len(b)-1]
	if as, ok := b[0].(*ast.AssignStmt); ok && len(as.Lhs) == 2 && len(as.Rhs) == 1 {
		if c, ok := as.Rhs[0].(*ast.CallExpr); ok && strings.HasSuffix(tr.src(c.Fun), ".prepare") {
			if len(b) < 2 {
				return nil, lostf("body of %s", fd.Name.Name)
			}
			chk, ok := b[1].(*ast.IfStmt)
			if !ok || tr.src(chk.Cond) != tr.src(as.Lhs[1])+" != nil" || !t5returns(chk.Body.List) || chk.Else != nil {
				return nil, lostf("the error of prepare is not checked")
			}
			b = b[2:]
		}
	}
	return b, nil
}

func t5valuesFinal(en t5env, d int) (string, error) {
	v, ok := en["values"]
	if !ok || v.typ != "[]string" {
		return "", lostf("no variable values of type []string")
	}
	return ind(d) + v.lean + "\n", nil
}

// pureLit: a function literal `func(x T) R { … }` that uses nothing but its parameter ↦ `(fun (x : T) => …)`
func (c *t5ctx) pureLit(lit *ast.FuncLit, want string) (string, error) {
	if lit.Type.Params.NumFields() != 1 || len(lit.Type.Params.List[0].Names) != 1 || lit.Type.Results.NumFields() != 1 {
		return "", lostf("signature of the function literal")
	}
	pt, err := c.canon(lit.Type.Params.List[0].Type)
	if err != nil {
		return "", err
	}
	rt, err := c.canon(lit.Type.Results.List[0].Type)
	if err != nil {
		return "", err
	}
	if "func("+pt+")"+rt != want {
		return "", lostf("function literal has type func(%s)%s, want %s", pt, rt, want)
	}
	name := lit.Type.Params.List[0].Names[0].Name
	ln, err := leanIdent(name)
	if err != nil {
		return "", err
	}
	plt, err := c.leanType(pt)
	if err != nil {
		return "", err
	}
	rlt, err := c.leanType(rt)
	if err != nil {
		return "", err
	}
	sub := *c
	sub.t8nest++ // [t8]
	sub.res = []string{rt}
	sub.state = nil
	sub.stVar = ""
	sub.retWrap = func(s string) string { return s }
	sub.retLean = rlt
	body, err := sub.blk(lit.Body.List, t5env{name: t5b{ln, pt}}, nil, 8) // only the parameter is in scope
	c.tmp = sub.tmp
	if err != nil {
		return "", err
	}
	return fmt.Sprintf("(fun (%s : %s) =>\n%s%s)", ln, plt, body, ind(7)), nil
}

// t5recordRowFragment: the statements of createCmd that build the row map of one record:
// `values := map[string]string{}` and the following loop over the record
func t5recordRowFragment(tr *translator, fd *ast.FuncDecl) (*ast.FuncDecl, error) {
	var blk *ast.BlockStmt
	var at int
	n := 0
	ast.Inspect(fd.Body, func(nd ast.Node) bool {
		b, ok := nd.(*ast.BlockStmt)
		if !ok {
			return true
		}
		for i, st := range b.List {
			if as, ok := st.(*ast.AssignStmt); ok && as.Tok == token.DEFINE && len(as.Lhs) == 1 && len(as.Rhs) == 1 &&
				tr.src(as.Lhs[0]) == "values" && tr.src(as.Rhs[0]) == "map[string]string{}" {
				n++
				blk, at = b, i
			}
		}
		return true
	})
	if n != 1 || at+2 >= len(blk.List) {
		return nil, lostf("no unique `values := map[string]string{}` followed by the record loop and AddRow in createCmd")
	}
	loop, ok := blk.List[at+1].(*ast.RangeStmt)
	if !ok || tr.src(loop.X) != "record" {
		return nil, lostf("`values := map[string]string{}` is not followed by a loop over the record")
	}
	// the row must be what AddRow receives, directly after the loop
	if !strings.Contains(tr.src(blk.List[at+2]), ".AddRow(values)") {
		return nil, lostf("the statement after the record loop does not hand `values` to AddRow")
	}
	// every record read becomes a row: the block is `record, err := r.Read(); if err != nil {…}; values := …; loop; AddRow`
	if at != 2 {
		return nil, lostf("there are statements between reading a record (and checking the read error) and building its row")
	}
	if chk, ok := blk.List[1].(*ast.IfStmt); !ok || tr.src(chk.Cond) != "err != nil" || chk.Init != nil || chk.Else != nil {
		return nil, lostf("the statement before `values := …` is not the check of the read error")
	}
	// record is the result of r.Read() in the same block, header the (normalised) result of r.Read() before the loop
	okRec := false
	for _, st := range blk.List[:at] {
		if as, ok := st.(*ast.AssignStmt); ok && as.Tok == token.DEFINE && len(as.Lhs) == 2 && tr.src(as.Lhs[0]) == "record" &&
			tr.src(as.Rhs[0]) == "r.Read()" {
			okRec = true
		}
		if as, ok := st.(*ast.AssignStmt); ok && as.Tok != token.DEFINE {
			for _, l := range as.Lhs {
				if tr.src(l) == "record" || tr.src(l) == "header" {
					return nil, lostf("record / header are assigned inside the record loop")
				}
			}
		}
	}
	okHdr, okNorm, okReader := false, false, false
	for _, st := range fd.Body.List {
		switch tr.src(st) {
		case "header, err := r.Read()":
			okHdr = true
		case "header = normalizeHeader(header)":
			okNorm = okHdr
		case "r := csv.NewReader(f)":
			okReader = true
		}
	}
	if !okRec || !okHdr || !okNorm || !okReader {
		return nil, lostf("record / header are not the results of r.Read() (r := csv.NewReader(f); header normalised once) in createCmd")
	}
	strs := &ast.ArrayType{Elt: ast.NewIdent("string")}
	ft := &ast.FuncType{Params: &ast.FieldList{List: []*ast.Field{
		{Names: []*ast.Ident{ast.NewIdent("header")}, Type: strs}, {Names: []*ast.Ident{ast.NewIdent("record")}, Type: strs}}}}
	return &ast.FuncDecl{Name: fd.Name, Type: ft, Body: &ast.BlockStmt{List: blk.List[at : at+2]}}, nil
}
