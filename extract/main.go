// extract reads /repo's working tree with go/ast (stdlib only) and rewrites Updog/Generated.lean:
// constants, tables and boolean discipline facts the Lean property theorems are stated over.
// It is syntactic and fails closed: a function it cannot find or a shape it does not recognise is
// reported as "lost" (and the fact is emitted as false), never defaulted to true.
package main

import (
	"bytes"
	"encoding/json"
	"flag"
	"fmt"
	"go/ast"
	"go/parser"
	"go/printer"
	"go/token"
	"os"
	"path/filepath"
	"regexp"
	"sort"
	"strconv"
	"strings"
)

var (
	fset  = token.NewFileSet()
	files = map[string]*ast.File{}
	repo  string
	facts = map[string]any{}
	lost  = map[string]string{}
)

func load(rel string) *ast.File {
	if f, ok := files[rel]; ok {
		return f
	}
	f, err := parser.ParseFile(fset, filepath.Join(repo, rel), nil, parser.ParseComments)
	if err != nil {
		files[rel] = nil
		return nil
	}
	files[rel] = f
	return f
}

func src(n ast.Node) string {
	if n == nil {
		return ""
	}
	var b bytes.Buffer
	printer.Fprint(&b, fset, n)
	return b.String()
}

// flat source: all whitespace runs collapsed to one blank
func flat(n ast.Node) string { return strings.Join(strings.Fields(src(n)), " ") }

func fn(rel, recv, name string) *ast.FuncDecl {
	f := load(rel)
	if f == nil {
		return nil
	}
	for _, d := range f.Decls {
		fd, ok := d.(*ast.FuncDecl)
		if !ok || fd.Name.Name != name {
			continue
		}
		r := ""
		if fd.Recv != nil && len(fd.Recv.List) > 0 {
			r = strings.TrimPrefix(src(fd.Recv.List[0].Type), "*")
		}
		if r == recv {
			return fd
		}
	}
	return nil
}

// index of the first top-level statement of body whose flat source matches re; -1 if none
func stmtIdx(body *ast.BlockStmt, re string) int {
	r := regexp.MustCompile(re)
	for i, s := range body.List {
		if r.MatchString(flat(s)) {
			return i
		}
	}
	return -1
}

func has(n ast.Node, re string) bool { return regexp.MustCompile(re).MatchString(flat(n)) }

func q(s string) string { return regexp.QuoteMeta(s) }

// fact registers a boolean fact; f returns (value, detail). A nil function declaration = lost.
func fact(name string, fd *ast.FuncDecl, f func(b *ast.BlockStmt) bool) {
	if fd == nil || fd.Body == nil {
		lost[name] = "function not found"
		facts[name] = false
		return
	}
	facts[name] = f(fd.Body)
}

func main() {
	leanOut := flag.String("lean", "", "Generated.lean to write")
	jsonOut := flag.String("json", "", "facts.json to write")
	flag.StringVar(&repo, "repo", "/repo", "repository root")
	translatedOut := flag.String("translated", "", "GeneratedFns.lean to write (Go functions translated to Lean, see translate.go)")
	flag.Parse()

	if *translatedOut != "" {
		text, lostFns := translateAll(repo)
		for _, k := range sortedKeys(lostFns) {
			lost["translate:"+k] = lostFns[k]
			fmt.Fprintf(os.Stderr, "translate: LOST %s: %s\n", k, lostFns[k])
		}
		if err := os.WriteFile(*translatedOut, []byte(text), 0644); err != nil {
			fmt.Fprintln(os.Stderr, err)
			os.Exit(1)
		}
	}

	// ---------------- query.go: cache keys, eval shape, group-by ----------------
	tags := map[string]int{}
	if f := load("query.go"); f != nil {
		ast.Inspect(f, func(n ast.Node) bool {
			vs, ok := n.(*ast.ValueSpec)
			if !ok {
				return true
			}
			for i, id := range vs.Names {
				if strings.HasPrefix(id.Name, "tag") && i < len(vs.Values) {
					if bl, ok := vs.Values[i].(*ast.BasicLit); ok && bl.Kind == token.CHAR {
						if c, _, _, err := strconv.UnquoteChar(bl.Value[1:len(bl.Value)-1], '\''); err == nil {
							tags[id.Name] = int(c)
						}
					}
				}
			}
			return true
		})
	}
	for _, t := range []string{"tagEqual", "tagNot", "tagAnd", "tagOr"} {
		if v, ok := tags[t]; ok {
			facts[t] = v
		} else {
			facts[t] = 256 // out of the UInt8 range used by the model: the tie theorem fails
			lost[t] = "constant not found"
		}
	}
	fact("keyEqualMerkle", fn("query.go", "ExprEqual", "cacheKey"), func(b *ast.BlockStmt) bool {
		return len(b.List) == 1 && has(b, `return mixCacheKey\(tagEqual, getValueIndex\(e\.Column, e\.Value\)\)`)
	})
	fact("keyNotMerkle", fn("query.go", "ExprNot", "cacheKey"), func(b *ast.BlockStmt) bool {
		return len(b.List) == 1 && has(b, `return mixCacheKey\(tagNot, e\.Expr\.cacheKey\(\)\)`)
	})
	nary := func(tag string) func(b *ast.BlockStmt) bool {
		return func(b *ast.BlockStmt) bool {
			return len(b.List) == 3 && has(b.List[0], `keys := make\(\[\]uint64, 0`) &&
				has(b.List[1], `^for _, e := range e\.Exprs \{ keys = append\(keys, e\.cacheKey\(\)\) \}$`) &&
				has(b.List[2], `^return mixCacheKey\(`+tag+`, keys\.\.\.\)$`)
		}
	}
	fact("keyAndMerkle", fn("query.go", "ExprAnd", "cacheKey"), nary("tagAnd"))
	fact("keyOrMerkle", fn("query.go", "ExprOr", "cacheKey"), nary("tagOr"))
	fact("mixKeyShape", fn("query.go", "", "mixCacheKey"), func(b *ast.BlockStmt) bool {
		return has(b, `buf\[0\] = tag`) && has(b, `for _, k := range keys \{ buf = binary\.BigEndian\.AppendUint64\(buf, k\) \}`) &&
			has(b, `return xxhash\.Sum64\(buf\)`) && len(b.List) == 4
	})
	fact("valueIndexShape", fn("writer.go", "", "getValueIndex"), func(b *ast.BlockStmt) bool {
		return len(b.List) == 1 && has(b, `return xxhash\.Sum64\(append\(append\(\[\]byte\(k\), 0\), \[\]byte\(v\)\.\.\.\)\)`)
	})
	evalShape := func(combine string) func(b *ast.BlockStmt) bool {
		return func(b *ast.BlockStmt) bool {
			g := stmtIdx(b, `idx\.cache\.Get\(cacheKey\)`)
			h := stmtIdx(b, `^if ok \{ return bm, nil \}$`)
			c := stmtIdx(b, `\.eval\(idx\)`)
			m := stmtIdx(b, combine)
			p := stmtIdx(b, `^idx\.cache\.Put\(cacheKey, bm\)$`)
			k := stmtIdx(b, `cacheKey := e\.cacheKey\(\)`)
			return k >= 0 && k < g && g < h && h < c && c <= m && m < p && p == len(b.List)-2 && has(b.List[len(b.List)-1], `^return bm, nil$`)
		}
	}
	fact("evalNotShape", fn("query.go", "ExprNot", "eval"), evalShape(`bm = roaring\.Flip\(bm, 0, uint64\(idx\.nextRowID\)\)`))
	fact("evalAndShape", fn("query.go", "ExprAnd", "eval"), evalShape(`bm = roaring\.FastAnd\(elems\.\.\.\)`))
	fact("evalOrShape", fn("query.go", "ExprOr", "eval"), evalShape(`bm = roaring\.FastOr\(elems\.\.\.\)`))
	fact("evalEqualShape", fn("query.go", "ExprEqual", "eval"), func(b *ast.BlockStmt) bool {
		s := stmtIdx(b, `idx\.schema\.Columns\[e\.Column\]`)
		e := stmtIdx(b, `^if !ok \{ return nil, `)
		g := stmtIdx(b, `idx\.cache\.Get\(cacheKey\)`)
		l := stmtIdx(b, `idx\.values\.GetCol\(valueIdx\)`)
		n := stmtIdx(b, `^if err != nil \|\| bm == nil \{ bm = roaring\.New\(\) \}$`)
		p := stmtIdx(b, `^idx\.cache\.Put\(cacheKey, bm\)$`)
		return s == 0 && e == 1 && e < g && g < l && l < n && n < p
	})
	mut := regexp.MustCompile(`\.(Add|AddMany|AddInt|AddRange|CheckedAdd|Remove|RemoveRange|CheckedRemove|Clear|And|AndAny|Or|Xor|AndNot|Flip|FlipInt|RunOptimize|RemoveRunCompression|SetCopyOnWrite)$`)
	noMut := true
	for _, rel := range []string{"query.go", "index.go", "cache.go"} {
		f := load(rel)
		if f == nil {
			lost["noMutatingBitmapCalls"] = rel + " not found"
			noMut = false
			continue
		}
		ast.Inspect(f, func(n ast.Node) bool {
			call, ok := n.(*ast.CallExpr)
			if !ok {
				return true
			}
			sel, ok := call.Fun.(*ast.SelectorExpr)
			if !ok {
				return true
			}
			if mut.MatchString("."+sel.Sel.Name) && src(sel.X) != "roaring" && src(sel.X) != "c.lruList" {
				noMut = false
			}
			return true
		})
	}
	facts["noMutatingBitmapCalls"] = noMut
	fact("groupByReset", fn("query.go", "Query", "populateGroupBy"), func(b *ast.BlockStmt) bool {
		return len(b.List) > 0 && has(b.List[0], `^q\.groupByFields = nil$`)
	})
	fact("groupByCopiesFields", fn("query.go", "Query", "groupBy"), func(b *ast.BlockStmt) bool {
		return has(b, `copy\(fields, rg\.fields\)`) && has(b, `append\(fields, ResultField\{`) && !has(b, `append\(rg\.fields`)
	})
	fact("executeShape", fn("query.go", "Index", "Execute"), func(b *ast.BlockStmt) bool {
		l := stmtIdx(b, `^idx\.mtx\.RLock\(\)$`)
		u := stmtIdx(b, `^defer idx\.mtx\.RUnlock\(\)$`)
		p := stmtIdx(b, `q\.populateGroupBy\(q\.GroupBy, idx\.schema\)`)
		v := stmtIdx(b, `validateExpr\(q\.Expr\)`)
		e := stmtIdx(b, `q\.Expr\.eval\(idx\)`)
		return l >= 0 && u == l+1 && u < p && p < v && v < e
	})

	// ---------------- cache.go ----------------
	locked := func(b *ast.BlockStmt) bool {
		return len(b.List) >= 2 && has(b.List[0], `^c\.mtx\.Lock\(\)$`) && has(b.List[1], `^defer c\.mtx\.Unlock\(\)$`)
	}
	fact("lruGetLocked", fn("cache.go", "LRUCache", "Get"), locked)
	fact("lruPutLocked", fn("cache.go", "LRUCache", "Put"), locked)
	fact("lruPutReaccounts", fn("cache.go", "LRUCache", "Put"), func(b *ast.BlockStmt) bool {
		i := stmtIdx(b, `^if elem, ok := c\.entries\[key\]; ok \{`)
		f := stmtIdx(b, `^for c\.curSize > c\.maxSize && c\.lruList\.Len\(\) > 0 \{`)
		if i < 0 || f < 0 || f < i {
			return false
		}
		ifs := b.List[i].(*ast.IfStmt)
		return has(ifs.Body, `c\.curSize -= item\.size`) && has(ifs.Body, `item\.size = bm\.GetSizeInBytes\(\)`) &&
			has(ifs.Body, `c\.curSize \+= item\.size`) && !has(ifs.Body, `return`) && has(ifs.Body, `c\.lruList\.MoveToFront\(elem\)`)
	})

	// ---------------- writers ----------------
	addRow := func(b *ast.BlockStmt) bool {
		return len(b.List) >= 4 && has(b.List[0], `^idx\.mtx\.Lock\(\)$`) && has(b.List[1], `^defer idx\.mtx\.Unlock\(\)$`) &&
			has(b.List[2], `^rowID := idx\.nextRowID$`) && has(b.List[3], `^defer func\(\) \{ idx\.nextRowID\+\+ \}\(\)$`)
	}
	noGo := func(b *ast.BlockStmt) bool { return !has(b, `\bgo (func|idx\.|\w+\()`) }
	fact("addRowNoGoroutineMem", fn("writer.go", "IndexWriter", "AddRow"), noGo)
	fact("addRowNoGoroutineBig", fn("writer_big.go", "BigIndexWriter", "AddRow"), noGo)
	fact("addRowLockedMem", fn("writer.go", "IndexWriter", "AddRow"), addRow)
	fact("addRowLockedBig", fn("writer_big.go", "BigIndexWriter", "AddRow"), addRow)
	batch := func(name string, fd *ast.FuncDecl, re string) {
		facts[name] = 0
		if fd == nil {
			lost[name] = "function not found"
			return
		}
		m := regexp.MustCompile(re).FindStringSubmatch(flat(fd.Body))
		if m == nil {
			lost[name] = "batch expression not found"
			return
		}
		n, err := strconv.Atoi(m[1])
		if err != nil { // a named constant: resolve it in the package's files
			n = 0
			for _, rel := range []string{"writer.go", "writer_big.go", "types.go", "index.go"} {
				if f := load(rel); f != nil {
					if c := regexp.MustCompile(`\b` + m[1] + ` = (\d+)\b`).FindStringSubmatch(flat(f)); c != nil {
						n, _ = strconv.Atoi(c[1])
					}
				}
			}
			if n == 0 {
				lost[name] = "batch constant " + m[1] + " not resolved"
			}
		}
		facts[name] = n
	}
	batch("batchMem", fn("writer.go", "IndexWriter", "WriteToBoltDatabase"), `if i%(\w+) == 0 \{ if err := tx\.Commit\(\)`)
	batch("batchBig", fn("writer_big.go", "BigIndexWriter", "AddRow"), `if rowID > 0 && rowID%(\w+) == 0 \{`)
	fact("headerInLastTxMem", fn("writer.go", "IndexWriter", "WriteToBoltDatabase"), func(b *ast.BlockStmt) bool {
		loop := stmtIdx(b, `^for k, v := range idx\.values \{`)
		s := stmtIdx(b, `bucket\.Put\(keySchema, `)
		i := stmtIdx(b, `bucket\.Put\(keyNextRowID, `)
		c := -1
		for k, st := range b.List { // the last top-level commit
			if has(st, `^if err := tx\.Commit\(\); err != nil \{`) {
				c = k
			}
		}
		return loop >= 0 && loop < s && loop < i && s < c && i < c && !has(b.List[loop], `keySchema|keyNextRowID`)
	})
	fact("bigSingleOutputCommit", fn("writer_big.go", "BigIndexWriter", "Flush"), func(b *ast.BlockStmt) bool {
		n := strings.Count(flat(b), "tx.Commit()")
		s := stmtIdx(b, `dataBucket\.Put\(keySchema, `)
		c := stmtIdx(b, `^if err := tx\.Commit\(\); err != nil \{`)
		return n == 1 && s >= 0 && s < c
	})
	fact("bigNilGuard", fn("writer_big.go", "BigIndexWriter", "Flush"), func(b *ast.BlockStmt) bool {
		return has(b, `if bm == nil \|\| currentValueIdx != valueIdx \{`)
	})
	fact("flushFailIfExists", fn("writer.go", "IndexWriter", "Flush"), func(b *ast.BlockStmt) bool {
		return has(b, `bbolt\.Open\(idx\.filename, 0644, &bbolt\.Options\{OpenFile: openfile\.OpenFile\(openfile\.Options\{FailIfFileExists: true\}\)\}\)`)
	})

	// ---------------- index.go ----------------
	fact("openReadOnlyMustExist", fn("index.go", "", "OpenIndex"), func(b *ast.BlockStmt) bool {
		return has(b, `bbolt\.Open\(file, 0644, &bbolt\.Options\{ReadOnly: true, OpenFile: openfile\.OpenFile\(openfile\.Options\{FailIfFileDoesntExist: true\}\)\}\)`)
	})
	fact("openValidates", fn("index.go", "", "OpenIndexFromBoltDatabase"), func(b *ast.BlockStmt) bool {
		return has(b, `if bucket == nil \{ return `) && has(b, `if schemaItem == nil \{ return `) &&
			has(b, `if len\(rowsItem\) != 4 \{ return `) && has(b, `if err != nil \{ db\.Close\(\) return nil, err \}`) &&
			has(b, `if err := opt\(idx\); err != nil \{ db\.Close\(\) return nil, err \}`)
	})
	fact("closeIdempotent", fn("index.go", "Index", "Close"), func(b *ast.BlockStmt) bool {
		return has(b, `^\{ if idx\.db == nil \{ return nil \} err := idx\.db\.Close\(\) idx\.db = nil return err \}$`)
	})
	fact("onDemandReadsStore", fn("index.go", "onDemandColGetter", "GetCol"), func(b *ast.BlockStmt) bool {
		// every lookup reads the bucket under the full 8-byte key; the getter keeps no state of its own
		f := load("index.go")
		return has(f, `type onDemandColGetter struct \{ db \*bbolt\.DB \}`) && has(b, `err := g\.db\.View\(func\(tx \*bbolt\.Tx\) error \{`) &&
			has(b, `binary\.BigEndian\.PutUint64\(keyBuf\[:\], key\)`) && has(b, `item := bucket\.Get\(append\(keyPrefixValue, keyBuf\[:\]\.\.\.\)\)`)
	})
	fact("preloadedIsPlainMap", fn("index.go", "preloadedColGetter", "GetCol"), func(b *ast.BlockStmt) bool {
		f := load("index.go")
		return has(f, `type preloadedColGetter struct \{ values map\[uint64\]\*roaring\.Bitmap \}`) && has(b, `^\{ return cg\.values\[key\], nil \}$`)
	})
	fact("flushWritesInPlace", fn("writer.go", "IndexWriter", "Flush"), func(b *ast.BlockStmt) bool {
		// the output is created exclusively under its final name and written there: no temporary name, no rename/link
		f := load("writer.go")
		return len(b.List) == 4 && has(b.List[2], `^defer db\.Close\(\)$`) && has(b.List[3], `^return idx\.WriteToBoltDatabase\(db\)$`) &&
			!has(f, `os\.(Rename|Link|Symlink|Remove)\(|\.tmp"|bbolt\.Compact`)
	})
	fact("getSchemaRLock", fn("index.go", "Index", "GetSchema"), func(b *ast.BlockStmt) bool {
		return len(b.List) >= 2 && has(b.List[0], `^idx\.mtx\.RLock\(\)$`) && has(b.List[1], `^defer idx\.mtx\.RUnlock\(\)$`)
	})
	ro := true
	for _, rel := range []string{"index.go", "query.go", "cache.go"} {
		f := load(rel)
		if f == nil {
			ro = false
			lost["readPathViewOnly"] = rel + " not found"
			continue
		}
		if has(f, `\.Update\(|\.Begin\(true\)|\.Put\(key|bucket\.Put\(|\.Delete\(|CreateBucket|\.Batch\(|os\.(Create|Remove|Rename|WriteFile|Truncate|Chmod)`) {
			ro = false
		}
	}
	facts["readPathViewOnly"] = ro

	// ---------------- openfile ----------------
	fact("openFileFlags", fn("internal/openfile/openfile.go", "", "OpenFile"), func(b *ast.BlockStmt) bool {
		s := flat(b)
		ex := regexp.MustCompile(`opts\.FailIfFileExists:? \{? ?return func\(pathname string, flags int, mode os\.FileMode\) \(\*os\.File, error\) \{ return os\.OpenFile\(pathname, flags\|os\.O_EXCL, mode\) \}`).FindStringIndex(s)
		me := regexp.MustCompile(`opts\.FailIfFileDoesntExist:? \{? ?return func\(pathname string, flags int, mode os\.FileMode\) \(\*os\.File, error\) \{ return os\.OpenFile\(pathname, flags&\^os\.O_CREATE, mode\) \}`).FindStringIndex(s)
		return ex != nil && me != nil && ex[0] < me[0] && strings.Count(s, "os.OpenFile(") == 2 && strings.Contains(s, "return os.OpenFile")
	})

	// ---------------- parser ----------------
	qp := "internal/queryparser/queryparser.go"
	fact("parseChecksEOF", fn(qp, "parser", "parse"), func(b *ast.BlockStmt) bool {
		e := stmtIdx(b, `expr := p\.parseExpr\(\)`)
		s := stmtIdx(b, `^if p\.peek\(\)\.typ == itemSemicolon \{ p\.next\(\) groupBy = p\.parseFieldList\(\) \}$`)
		c := stmtIdx(b, `^if p\.peek\(\)\.typ != itemEOF \{ p\.errorf\(`)
		return e >= 0 && e < s && s < c
	})
	fact("drainDeferred", fn(qp, "", "ParseQuery"), func(b *ast.BlockStmt) bool {
		n := stmtIdx(b, `p := newParser\(q\)`)
		d := stmtIdx(b, `^defer p\.lexer\.drain\(\)$`)
		return n >= 0 && d == n+1
	})
	fact("lexerClosesChannel", fn(qp, "lexer", "run"), func(b *ast.BlockStmt) bool {
		return len(b.List) == 2 && has(b.List[1], `^close\(l\.items\)$`)
	})
	fact("drainShape", fn(qp, "lexer", "drain"), func(b *ast.BlockStmt) bool {
		return has(b, `^\{ for range l\.items \{ \} \}$`)
	})
	fact("placeholder32", fn(qp, "", "decodePlaceholder"), func(b *ast.BlockStmt) bool {
		return has(b, `^\{ if len\(s\) < 2 \{ return 0 \} i, err := strconv\.ParseInt\(s\[1:\], 10, 32\) if err != nil \{ return 0 \} return int\(i\) \}$`)
	})
	fact("placeholderMin1", fn(qp, "parser", "parseComparison"), func(b *ast.BlockStmt) bool {
		return has(b, `placeholder = decodePlaceholder\(p\.next\(\)\.val\) if placeholder < 1 \{ p\.errorf\(`)
	})
	fact("lexValueUnterminatedError", fn(qp, "", "lexValue"), func(b *ast.BlockStmt) bool {
		return has(b, `if !seenFinalQuote && r == eof \{ return l\.errorf\(`)
	})
	// lexer tables
	tokOf := map[string]int{}
	spaces, letters := "", ""
	fieldRun, digitRun := "", ""
	if fd := fn(qp, "", "lexText"); fd != nil {
		ast.Inspect(fd, func(n ast.Node) bool {
			cc, ok := n.(*ast.CaseClause)
			if !ok || len(cc.List) != 1 {
				return true
			}
			cond := flat(cc.List[0])
			body := ""
			for _, s := range cc.Body {
				body += flat(s) + " "
			}
			if m := regexp.MustCompile(`^r == '(.|\\.)'$`).FindStringSubmatch(cond); m != nil {
				if e := regexp.MustCompile(`l\.emit\((item\w+)\)`).FindStringSubmatch(body); e != nil && strings.HasPrefix(body, "l.next() l.emit(") {
					c, _, _, _ := strconv.UnquoteChar(m[1], '\'')
					tokOf[e[1]] = int(c)
				}
				if strings.HasPrefix(body, "return lexValue") {
					tokOf["quote"] = int(m[1][0])
				}
				if strings.HasPrefix(body, "return lexPlaceholder") {
					tokOf["dollar"] = int(m[1][0])
				}
			}
			if strings.Contains(cond, "r == ' '") {
				spaces = cond
			}
			if strings.HasPrefix(body, "return lexField") {
				letters = cond
			}
			return true
		})
	}
	if fd := fn(qp, "", "lexField"); fd != nil {
		if m := regexp.MustCompile(`l\.acceptRun\("([^"]*)"\)`).FindStringSubmatch(flat(fd.Body)); m != nil {
			fieldRun = m[1]
		}
	}
	if fd := fn(qp, "", "lexPlaceholder"); fd != nil {
		if m := regexp.MustCompile(`l\.acceptRun\("([^"]*)"\)`).FindStringSubmatch(flat(fd.Body)); m != nil {
			digitRun = m[1]
		}
	}
	spaceSet := []int{}
	for _, m := range regexp.MustCompile(`r == '(\\?.)'`).FindAllStringSubmatch(spaces, -1) {
		c, _, _, _ := strconv.UnquoteChar(m[1], '\'')
		spaceSet = append(spaceSet, int(c))
	}
	sort.Ints(spaceSet)
	facts["lexSpaces"] = spaceSet
	facts["lexLettersCond"] = letters == `(r >= 'a' && r <= 'z') || (r >= 'A' && r <= 'Z')`
	facts["lexFieldRun"] = bytesOf(fieldRun)
	facts["lexDigitRun"] = bytesOf(digitRun)
	for _, t := range []string{"itemOpenParen", "itemCloseParen", "itemAnd", "itemOr", "itemNot", "itemComma", "itemSemicolon", "itemEqual", "quote", "dollar"} {
		if v, ok := tokOf[t]; ok {
			facts["lex_"+t] = v
		} else {
			facts["lex_"+t] = 256
			lost["lex_"+t] = "case not found in lexText"
		}
	}

	// ---------------- formatter ----------------
	qf := "internal/queryparser/queryformatter.go"
	paren := func(name, fname, re string) {
		fact(name, fn(qf, "", fname), func(b *ast.BlockStmt) bool { return has(b, re) })
	}
	paren("parenNot", "notExprToString", `requiresParens := expr\.Expr\.GetAnd\(\) != nil \|\| expr\.Expr\.GetOr\(\) != nil`)
	paren("parenAnd", "andExprToString", `requiresParens := expr\.GetOr\(\) != nil`)
	paren("parenOr", "orExprToString", `requiresParens := expr\.GetAnd\(\) != nil`)
	fact("formatStringShape", fn(qf, "", "formatString"), func(b *ast.BlockStmt) bool {
		return has(b, "^\\{ return fmt\\.Sprintf\\(`\"%s\"`, strings\\.ReplaceAll\\(s, `\"`, `\"\"`\\)\\) \\}$")
	})
	fact("formatEqualShape", fn(qf, "", "equalExprToString"), func(b *ast.BlockStmt) bool {
		return has(b, `if expr\.Placeholder > 0 \{ fmt\.Fprintf\(b, "%s = \$%d", expr\.Column, expr\.Placeholder\) return \}`) &&
			has(b, `fmt\.Fprintf\(b, "%s = %s", expr\.Column, formatString\(expr\.Value\)\)`)
	})

	// ---------------- driver ----------------
	dr := "driver/driver.go"
	fact("openFileOneCriticalSection", fn(dr, "updogDriver", "openFile"), func(b *ast.BlockStmt) bool {
		l := stmtIdx(b, `^d\.fileConnMtx\.Lock\(\)$`)
		u := stmtIdx(b, `^defer d\.fileConnMtx\.Unlock\(\)$`)
		c := stmtIdx(b, `d\.fileConnCache\[key\]; ok`)
		o := stmtIdx(b, `updog\.OpenIndex\(file, opts\.\.\.\)`)
		i := stmtIdx(b, `^d\.fileConnCache\[key\] = conn$`)
		return l >= 0 && u == l+1 && u < c && c < o && o < i && !has(b, `RLock|RUnlock`) && strings.Count(flat(b), "fileConnMtx.Unlock()") == 1
	})
	fact("connCloseRemovesEntry", fn(dr, "fileConn", "Close"), func(b *ast.BlockStmt) bool {
		return len(b.List) >= 3 && has(b.List[0], `^c\.drv\.fileConnMtx\.Lock\(\)$`) && has(b.List[1], `^defer c\.drv\.fileConnMtx\.Unlock\(\)$`) &&
			has(b.List[2], `^if c\.refs\.Add\(-1\) <= 0 \{ if c\.drv\.fileConnCache\[c\.key\] == c \{ delete\(c\.drv\.fileConnCache, c\.key\) \}`) && has(b.List[2], `return idx\.Close\(\)`)
	})
	chk := func(b *ast.BlockStmt) bool {
		return len(b.List) >= 2 && has(b.List[0], `^if n := numInput\(stmt\.q\); len\(values\) < n \{ return nil, `) &&
			has(b.List[1], `^q := queryparser\.ReplacePlaceholders\(stmt\.q, values\)$`)
	}
	fact("prepareParsesEachTime", fn(dr, "fileConn", "prepare"), func(b *ast.BlockStmt) bool {
		// the statement is built from a fresh parse of exactly this text; nothing is looked up by a digest of it
		return len(b.List) == 3 && has(b.List[0], `^q, err := queryparser\.ParseQuery\(query\)$`) && has(b.List[2], `^return &fileStmt\{ c: c, q: q, \}, nil$`)
	})
	fact("grpcQueryFreshContext", fn(dr, "grpcStmt", "query"), func(b *ast.BlockStmt) bool {
		return has(b, `stmt\.c\.client\.Query\(context\.Background\(\), &updogv1\.QueryRequest\{ Queries: \[\]\*updogv1\.Query\{q\}, \}\)`)
	})
	fact("rowCountIs64Bit", fn(dr, "rows", "Next"), func(b *ast.BlockStmt) bool {
		f := load(dr)
		return has(b, `= int64\(r\.rows\[r\.idx\]\.count\)`) && has(f, `type row struct \{ fields \[\]string count uint64 \}`)
	})
	fact("fileStmtChecksArgs", fn(dr, "fileStmt", "query"), chk)
	fact("grpcStmtChecksArgs", fn(dr, "grpcStmt", "query"), chk)
	fact("newRowsOnGroupBy", fn(dr, "", "newRows"), func(b *ast.BlockStmt) bool {
		return has(b, `cols: append\(groupBy, "count"\)`) && has(b, `if len\(groupBy\) (> 0|== 0) \{`) &&
			has(b, `for _, rr := range result\.Groups \{`) && has(b, `r\.rows = \[\]row\{\{count: result\.Count\}\}`) &&
			!has(b, `len\(result\.Groups\) (>|==|!=)`)
	})
	fact("replacePlaceholdersShape", fn("internal/queryparser/walk.go", "", "ReplacePlaceholders"), func(b *ast.BlockStmt) bool {
		return has(b, `q := proto\.Clone\(query\)\.\(\*updogv1\.Query\)`) &&
			has(b, `v\.Eq\.Placeholder > 0 \{ v\.Eq\.Value = values\[v\.Eq\.Placeholder-1\] v\.Eq\.Placeholder = 0 \}`) &&
			has(b, `_ = Walk\(q, func`) && has(b, `return true \}\)`) && has(b, `return q \}$`)
	})

	// ---------------- server / convert / create ----------------
	fact("serverLoopShape", fn("cmd/updog/server.go", "server", "Query"), func(b *ast.BlockStmt) bool {
		return has(b, `for idx, pbq := range req\.Queries \{ q := convert\.ToQuery\(pbq\) qid := pbq\.Id if qid == 0 \{ qid = int32\(idx \+ 1\) \} result, err := s\.idx\.Execute\(q\) if err != nil \{ return nil, err \} pbr := convert\.ToProtobufResult\(result, qid\) resp\.Results = append\(resp\.Results, pbr\) \}`)
	})
	fact("serverResponseFresh", fn("cmd/updog/server.go", "server", "Query"), func(b *ast.BlockStmt) bool {
		// every call builds its own response value and returns it: nothing is shared between requests
		return len(b.List) >= 3 && has(b.List[0], `^var resp proto\.QueryResponse$`) && has(b.List[len(b.List)-1], `^return &resp, nil$`) &&
			!has(b, `sync\.Pool|\.Get\(\)|go func`)
	})
	fact("convertUsesGetters", fn("internal/convert/convert.go", "", "toExpr"), func(b *ast.BlockStmt) bool {
		f := load("internal/convert/convert.go")
		return has(b, `switch v := pbe\.GetValue\(\)\.\(type\)`) && has(b, `toExpr\(v\.Not\.GetExpr\(\)\)`) &&
			has(b, `v\.And\.GetExprs\(\)`) && has(b, `v\.Or\.GetExprs\(\)`) && has(b, `default: return nil`) &&
			!has(f, `\.Not\.Expr\b|\.And\.Exprs\b|\.Or\.Exprs\b|pbe\.Value\b|pbq\.Expr\b`)
	})
	fact("toQueryUsesGetters", fn("internal/convert/convert.go", "", "ToQuery"), func(b *ast.BlockStmt) bool {
		return has(b, `Expr: toExpr\(pbq\.GetExpr\(\)\)`) && has(b, `GroupBy: pbq\.GetGroupBy\(\)`)
	})
	fact("validateExprShape", fn("query.go", "", "validateExpr"), func(b *ast.BlockStmt) bool {
		return has(b, `case \*ExprNot: if v == nil \{ return [^}]*\} return validateExpr\(v\.Expr\)`) &&
			has(b, `default: return (fmt\.Errorf|errors\.New)\(`) && strings.Count(flat(b), "if v == nil {") == 4
	})
	fact("createShape", fn("cmd/updog/create.go", "", "createCmd"), func(b *ast.BlockStmt) bool {
		return has(b, `header = normalizeHeader\(header\)`) && has(b, `idx := updog\.NewIndexWriter\(cfg\.outputFile\)`) && has(b, `for idx, v := range record \{ k := header\[idx\] values\[k\] = v \}`) &&
			has(b, `idx, err := updog\.NewBigIndexWriter\(db, tempDB\) if err != nil \{ return [^}]*\} defer idx\.Close\(\)`) &&
			has(b, `db, err := bbolt\.Open\(cfg\.outputFile, 0644, &bbolt\.Options\{OpenFile: openfile\.OpenFile\(openfile\.Options\{FailIfFileExists: true\}\)\}\)`)
	})
	fact("normalizeHeaderShape", fn("cmd/updog/create.go", "", "normalizeHeader"), func(b *ast.BlockStmt) bool {
		return has(b, `hdr = strings\.ToLower\(hdr\) hdr = strings\.Map\(func\(r rune\) rune \{ if r == ' ' \{ return '_' \} if r >= 'a' && r <= 'z' \{ return r \} return '_' \}, hdr\)`)
	})
	fact("bigWriterCloseShape", fn("writer_big.go", "BigIndexWriter", "Close"), func(b *ast.BlockStmt) bool {
		return has(b, `if idx\.tempTx == nil \{ return nil \} err := idx\.tempTx\.Rollback\(\) idx\.tempTx = nil return err`)
	})

	// ---------------- method sets / server construction ----------------
	// database/sql, encoding/gob and grpc discover optional behaviour by type assertion: a method ADDED to one of these
	// types changes which path every call takes without any call site changing. The sets are therefore facts.
	facts["driverMethodSet"] = methodSet("driver") == "fileConn.Begin fileConn.BeginTx fileConn.Close fileConn.Commit fileConn.IsValid fileConn.Ping fileConn.Prepare fileConn.PrepareContext fileConn.QueryContext fileConn.ResetSession fileConn.Rollback fileConn.prepare fileStmt.Close fileStmt.Exec fileStmt.NumInput fileStmt.Query fileStmt.query grpcConn.Begin grpcConn.BeginTx grpcConn.Close grpcConn.Commit grpcConn.IsValid grpcConn.Ping grpcConn.Prepare grpcConn.ResetSession grpcConn.Rollback grpcConn.prepare grpcStmt.Close grpcStmt.Exec grpcStmt.NumInput grpcStmt.Query grpcStmt.query rows.Close rows.ColumnTypeDatabaseTypeName rows.ColumnTypeLength rows.ColumnTypeNullable rows.ColumnTypePrecisionScale rows.ColumnTypeScanType rows.Columns rows.Next updogDriver.Open updogDriver.openConn updogDriver.openFile"
	// the stored types of the library have no custom (de)serialisation or finalisation hooks
	facts["libraryNoCodecHooks"] = !regexp.MustCompile(`\b(GobEncode|GobDecode|MarshalBinary|UnmarshalBinary|MarshalJSON|UnmarshalJSON)\b|runtime\.SetFinalizer`).MatchString(methodSet(".") + " " + allSource("."))
	fact("serverPlainGrpcServer", fn("cmd/updog/server.go", "", "serverCmd"), func(b *ast.BlockStmt) bool {
		return has(b, `s := grpc\.NewServer\(\)`) && !has(b, `Interceptor|grpc\.[A-Z][A-Za-z]*Option|signal\.Notify`)
	})

	writeOutputs(*leanOut, *jsonOut)
}

// methodSet lists "Type.Method" for every method declared in the non-test Go files of a package directory
func methodSet(dir string) string {
	var out []string
	for _, f := range pkgFiles(dir) {
		for _, d := range load(f).Decls {
			if fd, ok := d.(*ast.FuncDecl); ok && fd.Recv != nil && len(fd.Recv.List) > 0 {
				out = append(out, strings.TrimPrefix(src(fd.Recv.List[0].Type), "*")+"."+fd.Name.Name)
			}
		}
	}
	sort.Strings(out)
	return strings.Join(out, " ")
}

// pkgFiles: the non-test, non-generated-hook Go files of a directory of the repository (relative names)
func pkgFiles(dir string) []string {
	ents, err := os.ReadDir(filepath.Join(repo, dir))
	if err != nil {
		return nil
	}
	var out []string
	for _, e := range ents {
		n := e.Name()
		if e.IsDir() || !strings.HasSuffix(n, ".go") || strings.HasSuffix(n, "_test.go") || strings.HasPrefix(n, "verif_") {
			continue
		}
		out = append(out, filepath.Join(dir, n))
	}
	sort.Strings(out)
	return out
}

func allSource(dir string) string {
	var b strings.Builder
	for _, f := range pkgFiles(dir) {
		data, _ := os.ReadFile(filepath.Join(repo, f))
		b.Write(data)
	}
	return b.String()
}

func bytesOf(s string) []int {
	out := []int{}
	for _, c := range []byte(s) {
		out = append(out, int(c))
	}
	sort.Ints(out)
	return out
}

func writeOutputs(leanOut, jsonOut string) {
	names := make([]string, 0, len(facts))
	for k := range facts {
		names = append(names, k)
	}
	sort.Strings(names)
	var b strings.Builder
	b.WriteString("/-\nGENERATED by /verif/extract from /repo's working tree on every run of ./check — do not edit.\nConstants, tables and discipline facts of the Go source, consumed by the property theorems (Updog/Props/Facts.lean).\n-/\nnamespace Updog.Generated\n\n")
	for _, k := range names {
		switch v := facts[k].(type) {
		case bool:
			fmt.Fprintf(&b, "def %s : Bool := %v\n", k, v)
		case int:
			fmt.Fprintf(&b, "def %s : Nat := %d\n", k, v)
		case []int:
			s := make([]string, len(v))
			for i, x := range v {
				s[i] = strconv.Itoa(x)
			}
			fmt.Fprintf(&b, "def %s : List Nat := [%s]\n", k, strings.Join(s, ", "))
		}
	}
	b.WriteString("\nend Updog.Generated\n")
	if leanOut != "" {
		if err := os.WriteFile(leanOut, []byte(b.String()), 0644); err != nil {
			fmt.Fprintln(os.Stderr, err)
			os.Exit(1)
		}
	}
	if jsonOut != "" {
		j, _ := json.MarshalIndent(map[string]any{"facts": facts, "lost": lost}, "", " ")
		os.WriteFile(jsonOut, j, 0644)
	}
}
