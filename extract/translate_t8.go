// translate_t8.go: the control flow of `updog create` (cmd/updog/create.go createCmd, the cobra wiring and the exit
// status of cmd/updog/main.go) and the gRPC data source of driver/driver.go (Open's scheme dispatch, openConn,
// grpcConn.Prepare / prepare / Close, grpcStmt.query / NumInput).
//
// It continues translate_t5.go and reuses its machinery (types as canonical strings, structs as Lean structures,
// `(T, error)` as `Except Go.Err5 T`, loops as folds, a threaded world). What is new here — hooked into translate_t5.go
// by `// [t8]` hunks that are inert unless `t5ctx.t8` is set:
//
//   - external objects (os.File, csv.Reader, bbolt.DB, the two index writers, a gRPC client) whose methods are calls of
//     primitives of Updog/Basic/GoPreludeT8.lean on an explicit world; a method is resolved by the TYPE of its receiver,
//     so renaming a local variable does not change the generated text;
//   - `defer CALL`: the rest of the function becomes a local value `out`, the deferred call then runs on the world
//     `out` left behind, and `out`'s result is returned. Deferred calls therefore appear in the generated text in the
//     order in which they RUN (innermost = registered last = first to run), each after everything it guards;
//   - `for { … }` with `break` / `return`: one iteration becomes an auxiliary definition `<fn>_for<N>` returning a
//     `Go.T8.Step` (`ret` = the function returns, `brk` = break, `next` = next iteration); the loop is
//     `Go.T8.forEver fuel …` and running out of fuel is recorded in the world (theorems say which fuel suffices);
//   - `if` statements one of whose branches leaves (return / break): the statements after the `if` are the
//     continuation of every branch that falls through (as in translate_t5.go), but names declared inside a branch are
//     removed from the continuation's scope instead of losing the function;
//   - `if v, err := CALL; err != nil { … }`, `return f(…)` of a two-result function, tagged `switch` on a string,
//     `%` on ints, world calls in the init statement of an `if`.
//
// As everywhere: every Lean term is derived from the AST found in the repository; what is outside the subset loses the
// function (fail closed).
package main

import (
	"fmt"
	"go/ast"
	"go/token"
	"sort"
	"strconv"
	"strings"
)

func init() {
	// packages whose types / functions the subset of this file knows
	t5pkgs["os"] = "os"
	t5pkgs["encoding/csv"] = "csv"
	t5pkgs["go.etcd.io/bbolt"] = "bbolt"
	t5pkgs["github.com/akrennmair/updog/internal/openfile"] = "openfile"
	t5pkgs["github.com/spf13/cobra"] = "cobra"
	t5pkgs["google.golang.org/grpc"] = "grpc"
	t5pkgs["google.golang.org/grpc/credentials/insecure"] = "insecure"
}

// per-target state of the extensions
type t8state struct {
	methods    map[string]map[string]*t5fn // canonical receiver type (without the leading *) ↦ method ↦ signature
	worldTy    string                      // Lean type of the world (replaces translate_t5.go's Go.Drv.World in the output)
	fuel       string                      // Lean variable bounding `for { … }` loops ("" = such loops are refused)
	outOfFuel  string                      // Lean function World → World recording that the fuel ran out
	printf     string                      // Lean primitive for fmt.Printf ("" = refused)
	externs    []string                    // the target's extern binders and their names: passed on to auxiliary definitions
	externArgs []string
	name       string   // Lean name of the function being translated (prefix of its auxiliary definitions)
	aux        []string // auxiliary definitions, printed before the function
	auxKey     map[string]string
	nJoin      int
	nFor       int
	structs    [][3]string // (file, struct name, expected "field type; …"): declarations the type table relies on
}

type t8loopInfo struct {
	vars []string
	en   t5env
	nest int
}

// ---------------------------------------------------------------- callee resolution

// t8fn: the signature of the callee of `call`: a function of c.funcs, or a method of an external object found through
// the type of its receiver (the receiver's Lean term becomes the last leading argument)
func (c *t5ctx) t8fn(call *ast.CallExpr, en t5env) (*t5fn, bool) {
	if c.t8 == nil {
		return nil, false
	}
	if fn, ok := c.funcs[c.flat(call.Fun, en)]; ok {
		if id, isId := call.Fun.(*ast.Ident); isId {
			if _, local := en[id.Name]; local {
				return nil, false
			}
		}
		return fn, true
	}
	s, ok := call.Fun.(*ast.SelectorExpr)
	if !ok {
		return nil, false
	}
	if id, isId := s.X.(*ast.Ident); isId && c.pkgOf(id.Name, en) != "" {
		return nil, false
	}
	x, err := c.ex(s.X, en)
	if err != nil {
		return nil, false
	}
	ms, ok := c.t8.methods[strings.TrimPrefix(x.typ, "*")]
	if !ok {
		return nil, false
	}
	fn, ok := ms[s.Sel.Name]
	if !ok {
		return nil, false
	}
	f2 := *fn
	f2.pre = append(append([]string{}, fn.pre...), x.text)
	return &f2, true
}

// t8hoistCall (from hoist): a call of a world function / method inside an expression or as a statement is evaluated
// into a temporary first: `let r := (prim w args…); let w := r.1`; its value is `r.2`
func (c *t5ctx) t8hoistCall(x *ast.CallExpr, en t5env, depth int, guarded bool, pre *string, walk func(ast.Expr, bool)) (bool, error) {
	prim, typ := "", ""
	wlast := false
	if c.flat(x.Fun, en) == "fmt.Printf" {
		// fmt.Printf(format, args…): the text is identified by its constant format (as for fmt.Errorf)
		if c.t8.printf == "" || len(x.Args) == 0 {
			return false, nil
		}
		lit, ok := x.Args[0].(*ast.BasicLit)
		if !ok || lit.Kind != token.STRING {
			return true, lostf("fmt.Printf with a non-literal format")
		}
		s, err := strconv.Unquote(lit.Value)
		if err != nil {
			return true, lostf("format %s", lit.Value)
		}
		for _, a := range x.Args[1:] { // the arguments must be (pure) expressions of the subset; their values are dropped
			if _, isCall := a.(*ast.CallExpr); isCall {
				return true, lostf("call in an argument of fmt.Printf")
			}
			if _, err := c.ex(a, en); err != nil {
				return true, err
			}
		}
		prim, typ = fmt.Sprintf("(%s %s %s)", c.t8.printf, c.world, bytesLit(s)), "unit"
	} else {
		fn, ok := c.t8fn(x, en)
		if !ok || !fn.world {
			return false, nil
		}
		if len(fn.results) > 1 {
			return true, lostf("call %s with %d results used as a value", c.tr.src(x.Fun), len(fn.results))
		}
		for _, a := range x.Args {
			walk(a, guarded)
		}
		text, err := c.apply(fn, x, en)
		if err != nil {
			return true, err
		}
		prim, typ, wlast = text, "unit", fn.wlast
		if len(fn.results) == 1 {
			typ = fn.results[0]
		}
	}
	if guarded {
		return true, lostf("effectful call %s under a short-circuit operator", c.tr.src(x.Fun))
	}
	r := c.fresh("r")
	wp, vp := "1", "2"
	if wlast {
		wp, vp = "2", "1"
	}
	*pre += fmt.Sprintf("%slet %s := %s\n%slet %s : Go.Drv.World := %s.%s\n", ind(depth), r, prim, ind(depth), c.world, r, wp)
	if c.hoisted == nil {
		c.hoisted = map[ast.Node]t5v{}
	}
	c.hoisted[x] = t5v{text: r + "." + vp, typ: typ}
	return true, nil
}

// ---------------------------------------------------------------- scopes

// t8outerAssigned: the variables NOT declared inside stmts that stmts assign (x = …, x.f = …, x[i] = …, x++, x += …),
// scope by scope (a name declared by :=, var, range or an if/switch init hides the outer variable from there on, inside
// its block). Function literals are treated conservatively: everything they assign counts.
func t8outerAssigned(stmts []ast.Stmt) map[string]bool {
	out := map[string]bool{}
	var block func(stmts []ast.Stmt, hidden map[string]bool)
	var stmt func(s ast.Stmt, hidden map[string]bool) map[string]bool // returns the scope after the statement
	copyOf := func(m map[string]bool) map[string]bool {
		n := map[string]bool{}
		for k, v := range m {
			n[k] = v
		}
		return n
	}
	assign := func(e ast.Expr, hidden map[string]bool) {
		if id := t5rootIdent(e); id != nil && !hidden[id.Name] && id.Name != "_" {
			out[id.Name] = true
		}
	}
	lits := func(n ast.Node) {
		ast.Inspect(n, func(x ast.Node) bool {
			if fl, ok := x.(*ast.FuncLit); ok {
				as, _ := t5assigned(fl.Body.List)
				for v := range as {
					out[v] = true
				}
				return false
			}
			return true
		})
	}
	stmt = func(s ast.Stmt, hidden map[string]bool) map[string]bool {
		switch s := s.(type) {
		case nil:
		case *ast.AssignStmt:
			lits(s)
			if s.Tok == token.DEFINE {
				h := copyOf(hidden)
				for _, l := range s.Lhs {
					if id, ok := l.(*ast.Ident); ok {
						h[id.Name] = true
					}
				}
				return h
			}
			for _, l := range s.Lhs {
				assign(l, hidden)
			}
		case *ast.IncDecStmt:
			assign(s.X, hidden)
		case *ast.DeclStmt:
			lits(s)
			h := copyOf(hidden)
			if gd, ok := s.Decl.(*ast.GenDecl); ok {
				for _, sp := range gd.Specs {
					if vs, ok := sp.(*ast.ValueSpec); ok {
						for _, id := range vs.Names {
							h[id.Name] = true
						}
					}
				}
			}
			return h
		case *ast.BlockStmt:
			block(s.List, hidden)
		case *ast.IfStmt:
			h := stmt(s.Init, hidden)
			lits(s.Cond)
			block(s.Body.List, h)
			if s.Else != nil {
				stmt(s.Else, h)
			}
		case *ast.ForStmt:
			h := stmt(s.Init, hidden)
			if s.Cond != nil {
				lits(s.Cond)
			}
			stmt(s.Post, h)
			block(s.Body.List, h)
		case *ast.RangeStmt:
			lits(s.X)
			h := copyOf(hidden)
			for _, l := range []ast.Expr{s.Key, s.Value} {
				if l == nil {
					continue
				}
				if id, ok := l.(*ast.Ident); ok && s.Tok == token.DEFINE {
					h[id.Name] = true
				} else {
					assign(l, hidden)
				}
			}
			block(s.Body.List, h)
		case *ast.SwitchStmt:
			h := stmt(s.Init, hidden)
			for _, cs := range s.Body.List {
				block(cs.(*ast.CaseClause).Body, h)
			}
		case *ast.TypeSwitchStmt:
			h := stmt(s.Init, hidden)
			h = copyOf(h)
			if as, ok := s.Assign.(*ast.AssignStmt); ok {
				if id, ok := as.Lhs[0].(*ast.Ident); ok {
					h[id.Name] = true
				}
			}
			for _, cs := range s.Body.List {
				block(cs.(*ast.CaseClause).Body, h)
			}
		case *ast.LabeledStmt:
			return stmt(s.Stmt, hidden)
		default:
			lits(s)
		}
		return hidden
	}
	block = func(stmts []ast.Stmt, hidden map[string]bool) {
		h := hidden
		for _, s := range stmts {
			h = stmt(s, h)
		}
	}
	block(stmts, map[string]bool{})
	return out
}

// t8hasBreak: a `break` that belongs to the enclosing loop (not inside a nested for / range / switch / select / literal)
func t8hasBreak(stmts []ast.Stmt) bool {
	found := false
	for _, s := range stmts {
		ast.Inspect(s, func(n ast.Node) bool {
			switch n := n.(type) {
			case *ast.FuncLit, *ast.ForStmt, *ast.RangeStmt, *ast.SwitchStmt, *ast.TypeSwitchStmt, *ast.SelectStmt:
				return false
			case *ast.BranchStmt:
				if n.Tok == token.BREAK {
					found = true
				}
			}
			return true
		})
	}
	return found
}

// t8leaves: does control never fall off the end of stmts (return or break on every path)?
func t8leaves(stmts []ast.Stmt) bool {
	if len(stmts) == 0 {
		return false
	}
	switch s := stmts[len(stmts)-1].(type) {
	case *ast.BranchStmt:
		return s.Tok == token.BREAK && s.Label == nil
	case *ast.IfStmt:
		switch el := s.Else.(type) {
		case *ast.BlockStmt:
			return t8leaves(s.Body.List) && t8leaves(el.List)
		case *ast.IfStmt:
			return t8leaves(s.Body.List) && t8leaves([]ast.Stmt{el})
		}
		return false
	case *ast.BlockStmt:
		return t8leaves(s.List)
	}
	return t5returns(stmts)
}

// ---------------------------------------------------------------- statements

// t8ifLeaves: `if cond {a} else {b}; rest` where a branch returns or breaks. A branch that falls through continues
// with `rest`; names the branch declared are out of scope there (a use of such a name in `rest` that is not preceded
// by a new declaration loses the function; an outer variable of the same name is hidden, never captured).
func (c *t5ctx) t8ifLeaves(pre, cond string, a, b, rest []ast.Stmt, en t5env, k t5k, depth int) (string, error) {
	// both branches reach the statements after the if: these become ONE auxiliary definition (a join point) that each
	// branch calls — possible when they are the rest of the function (k == nil, function level)
	join := !t8leaves(a) && !t8leaves(b) && len(rest) > 0 && k == nil && c.t8nest == 0 && c.t8loop == nil && c.stVar == "" && len(c.state) == 0
	branch := func(stmts []ast.Stmt) (string, error) {
		if t8leaves(stmts) {
			return c.blk(stmts, en, nil, depth+1)
		}
		if len(rest) == 0 && k == nil && len(c.res) != 0 {
			return "", lostf("control reaches the end without a return")
		}
		return c.blk(stmts, en, func(en2 t5env, d int) (string, error) {
			en3 := t5env{}
			for name, bnd := range en2 {
				if old, ok := en[name]; ok && old == bnd {
					en3[name] = bnd
				}
			}
			if join {
				return c.t8join(rest, en3, d)
			}
			return c.blk(rest, en3, k, d)
		}, depth+1)
	}
	ta, err := branch(a)
	if err != nil {
		return "", err
	}
	tb, err := branch(b)
	if err != nil {
		return "", err
	}
	return fmt.Sprintf("%s%sif %s then\n%s%selse\n%s", pre, ind(depth), cond, ta, ind(depth), tb), nil
}

// t8join: the rest of the function as an auxiliary definition `<fn>_k<N>` of the variables in scope that it mentions
// (and the world); returns the call
func (c *t5ctx) t8join(rest []ast.Stmt, en t5env, depth int) (string, error) {
	sub := *c
	sub.tmp = 0
	body, err := sub.blk(rest, en, nil, 1)
	if err != nil {
		return "", err
	}
	ids := t5idents(rest)
	var free []string
	for name := range en {
		if ids[name] {
			free = append(free, name)
		}
	}
	sort.Strings(free)
	binders, args := "", ""
	for i, e := range c.t8.externs {
		binders += " " + e
		args += " " + c.t8.externArgs[i]
	}
	if c.world != "" {
		binders += fmt.Sprintf(" (%s : Go.Drv.World)", c.world)
		args += " " + c.world
	}
	for _, name := range free {
		if en[name].lean == "()" {
			continue
		}
		lt, err := c.leanTypeP(en[name].typ)
		if err != nil {
			return "", err
		}
		binders += fmt.Sprintf(" (%s : %s)", en[name].lean, lt)
		args += " " + en[name].lean
	}
	const ph = "\x00NAME\x00"
	def := fmt.Sprintf("/-- the statements of `%s` after an `if` both of whose branches reach them (to the end of the function) -/\n"+
		"def %s%s : %s :=\n%s\n", c.t8.name, ph, binders, c.retLean, body)
	name, ok := c.t8.auxKey[def]
	if !ok {
		c.t8.nJoin++
		name = fmt.Sprintf("%s_k%d", c.t8.name, c.t8.nJoin)
		c.t8.auxKey[def] = name
		c.t8.aux = append(c.t8.aux, strings.ReplaceAll(def, ph, name))
	}
	return fmt.Sprintf("%s(%s%s)\n", ind(depth), name, args), nil
}

// t8ifTwoRes: `if v, err := CALL; err != nil { … return … }` (v may be `_`); v and err are scoped to the if
func (c *t5ctx) t8ifTwoRes(s *ast.IfStmt, as *ast.AssignStmt, els, rest []ast.Stmt, en t5env, k t5k, depth int) (string, bool, error) {
	call, ok := as.Rhs[0].(*ast.CallExpr)
	if !ok {
		return "", false, nil
	}
	fn, ok := c.t8fn(call, en)
	if !ok || len(fn.results) != 2 || fn.results[1] != "error" || fn.cb >= 0 {
		return "", false, nil
	}
	a, ok1 := as.Lhs[0].(*ast.Ident)
	er, ok2 := as.Lhs[1].(*ast.Ident)
	if !ok1 || !ok2 || er.Name == "_" || c.tr.src(s.Cond) != er.Name+" != nil" || len(els) != 0 || s.Else != nil || !t8leaves(s.Body.List) {
		return "", true, lostf("`if %s; %s` is not `if v, err := CALL; err != nil { … return … }`", c.tr.src(as), c.tr.src(s.Cond))
	}
	if a.Name != "_" && t5idents(s.Body.List)[a.Name] {
		return "", true, lostf("the value %s of a failed call is used", a.Name)
	}
	text, err := c.apply(fn, call, en)
	if err != nil {
		return "", true, err
	}
	wpre := ""
	if fn.world {
		if c.world == "" {
			return "", true, lostf("%s outside a world context", c.tr.src(call.Fun))
		}
		r := c.fresh("r")
		wp, vp := "1", "2"
		if fn.wlast {
			wp, vp = "2", "1"
		}
		wpre = fmt.Sprintf("%slet %s := %s\n%slet %s : Go.Drv.World := %s.%s\n", ind(depth), r, text, ind(depth), c.world, r, wp)
		text = r + "." + vp
	}
	eln, err := leanIdent(er.Name)
	if err != nil {
		return "", true, err
	}
	bad, err := c.blk(s.Body.List, en.without(a.Name).with(er.Name, t5b{eln, "errval"}), nil, depth+1)
	if err != nil {
		return "", true, err
	}
	good, err := c.blk(rest, en, k, depth+1)
	if err != nil {
		return "", true, err
	}
	return wpre + fmt.Sprintf("%smatch %s with\n%s| Except.error %s =>\n%s%s| Except.ok _ =>\n%s", ind(depth), text,
		ind(depth), eln, bad, ind(depth), good), true, nil
}

// t8tailCall: `return f(args…)` where f has the function's own two results
func (c *t5ctx) t8tailCall(e ast.Expr, en t5env) (string, error) {
	call, ok := e.(*ast.CallExpr)
	if !ok {
		return "", lostf("return with 1 results")
	}
	fn, ok := c.t8fn(call, en)
	if !ok || fn.cb >= 0 {
		return "", lostf("returned call %s is not in the whitelist", c.tr.src(call.Fun))
	}
	if len(fn.results) != 2 || fn.results[0] != c.res[0] || fn.results[1] != "error" {
		return "", lostf("returned call %s has results (%s), the function (%s)", c.tr.src(call.Fun), strings.Join(fn.results, ", "), strings.Join(c.res, ", "))
	}
	if fn.world || len(c.state) != 0 || c.stVar != "" {
		return "", lostf("returned call %s in a function with state", c.tr.src(call.Fun))
	}
	text, err := c.apply(fn, call, en)
	if err != nil {
		return "", err
	}
	if c.world != "" {
		return c.retWrap("(" + text + ", " + c.world + ")"), nil
	}
	return c.retWrap(text), nil
}

// t8switch: `switch tag { case "lit": … default: … }` on a string ↦ the if / else-if chain Go evaluates
func (c *t5ctx) t8switch(s *ast.SwitchStmt, rest []ast.Stmt, en t5env, k t5k, depth int) (string, error) {
	if c.t8 == nil || s.Init != nil || s.Tag == nil {
		return "", lostf("statement %s", c.tr.src(s))
	}
	switch s.Tag.(type) { // evaluated once in Go, once per case here: it must have no effect
	case *ast.Ident, *ast.SelectorExpr:
	default:
		return "", lostf("switch on %s", c.tr.src(s.Tag))
	}
	if tv, err := c.ex(s.Tag, en); err != nil || tv.typ != "string" {
		return "", lostf("switch on %s, which is not a string of the subset", c.tr.src(s.Tag))
	}
	var def *ast.CaseClause
	var chain, last *ast.IfStmt
	seen := map[string]bool{}
	for _, cs := range s.Body.List {
		cc := cs.(*ast.CaseClause)
		bad := false
		for _, st := range cc.Body {
			ast.Inspect(st, func(n ast.Node) bool {
				if _, ok := n.(*ast.BranchStmt); ok {
					bad = true
				}
				return true
			})
		}
		if bad {
			return "", lostf("break / fallthrough / goto inside a switch")
		}
		if cc.List == nil {
			if def != nil {
				return "", lostf("two default cases")
			}
			def = cc
			continue
		}
		if len(cc.List) != 1 {
			return "", lostf("case with %d values", len(cc.List))
		}
		lit, ok := cc.List[0].(*ast.BasicLit)
		if !ok || lit.Kind != token.STRING || seen[lit.Value] {
			return "", lostf("case %s is not a distinct string literal", c.tr.src(cc.List[0]))
		}
		seen[lit.Value] = true
		is := &ast.IfStmt{Cond: &ast.BinaryExpr{X: s.Tag, Op: token.EQL, Y: lit}, Body: &ast.BlockStmt{List: cc.Body}}
		if chain == nil {
			chain = is
		} else {
			last.Else = is
		}
		last = is
	}
	if chain == nil {
		return "", lostf("switch without cases")
	}
	if def != nil {
		last.Else = &ast.BlockStmt{List: def.Body}
	}
	return c.ifStmt(chain, rest, en, k, depth)
}

// t8branch: `break` out of the innermost `for { … }`
func (c *t5ctx) t8branch(s *ast.BranchStmt, rest []ast.Stmt, en t5env, k t5k, depth int) (string, error) {
	if c.t8 == nil || c.t8loop == nil || s.Tok != token.BREAK || s.Label != nil {
		return "", lostf("statement %s", c.tr.src(s))
	}
	if len(rest) != 0 {
		return "", lostf("statements after break")
	}
	if c.t8nest != c.t8loop.nest {
		return "", lostf("break inside a nested statement of the loop body")
	}
	for _, v := range c.t8loop.vars {
		if v != "$st" && v != "$w" && en[v] != c.t8loop.en[v] {
			return "", lostf("carried variable %s is shadowed at a break", v)
		}
	}
	tuple, _, err := c.carried(c.t8loop.vars, c.t8loop.en)
	if err != nil {
		return "", err
	}
	return ind(depth) + "(Go.T8.Step.brk " + tuple + ")\n", nil
}

// t8for: `for { body }`. One iteration becomes the auxiliary definition `<fn>_for<N>`, a function of the variables of
// the enclosing scopes the body mentions and of the tuple of the variables it assigns (plus the world).
func (c *t5ctx) t8for(s *ast.ForStmt, rest []ast.Stmt, en t5env, k t5k, depth int) (string, error) {
	if c.t8 == nil {
		return "", lostf("statement %s", c.tr.src(s))
	}
	if s.Init != nil || s.Cond != nil || s.Post != nil {
		return "", lostf("for loop with an init / condition / post statement (only `for { … }`)")
	}
	if c.t8.fuel == "" || c.t8nest != 0 || c.stVar != "" || len(c.state) != 0 || c.t8loop != nil {
		return "", lostf("`for { … }` in this position")
	}
	as := t8outerAssigned(s.Body.List)
	var vars []string
	for v := range as {
		if _, ok := en[v]; !ok {
			return "", lostf("assignment to %s, which is not a variable of the subset", v)
		}
		vars = append(vars, v)
	}
	sort.Strings(vars)
	if c.world != "" {
		vars = append(vars, "$w")
	}
	if len(vars) == 0 {
		return "", lostf("loop without effect on the variables of the subset")
	}
	tuple, typ, err := c.carried(vars, en)
	if err != nil {
		return "", err
	}
	sub := *c
	sub.tmp = 0 // the body is a definition of its own: its temporaries are numbered from 1 (equal bodies give equal texts)
	sub.t8nest = 1
	sub.t8loop = &t8loopInfo{vars: vars, en: en, nest: 1}
	outerWrap := c.retWrap
	sub.retWrap = func(s string) string { return "(Go.T8.Step.ret " + outerWrap(s) + ")" }
	body, err := sub.blk(s.Body.List, en, func(en2 t5env, d int) (string, error) {
		for _, v := range vars {
			if v != "$st" && v != "$w" && en2[v] != en[v] {
				return "", lostf("carried variable %s is shadowed", v)
			}
		}
		return ind(d) + "(Go.T8.Step.next " + tuple + ")\n", nil
	}, 1)
	if err != nil {
		return "", err
	}
	// the variables of the enclosing scopes the body mentions
	ids := t5idents(s.Body.List)
	carriedSet := map[string]bool{}
	for _, v := range vars {
		carriedSet[v] = true
	}
	var free []string
	for name := range en {
		if ids[name] && !carriedSet[name] {
			free = append(free, name)
		}
	}
	sort.Strings(free)
	binders, args := "", ""
	for i, e := range c.t8.externs {
		binders += " " + e
		args += " " + c.t8.externArgs[i]
	}
	for _, name := range free {
		lt, err := c.leanTypeP(en[name].typ)
		if err != nil {
			return "", err
		}
		if en[name].lean == "()" {
			continue
		}
		binders += fmt.Sprintf(" (%s : %s)", en[name].lean, lt)
		args += " " + en[name].lean
	}
	a := sub.fresh("a")
	unpack := ""
	if len(vars) == 1 {
		unpack = fmt.Sprintf("%slet %s := %s\n", ind(1), tuple, a)
	} else {
		unpack = c.destructureFrom(vars, en, a, 1)
	}
	const ph = "\x00NAME\x00"
	def := fmt.Sprintf("/-- one iteration of a `for { … }` loop of `%s`, on the variables the loop carries: `ret` = the function returns, "+
		"`brk` = break, `next` = go on with the next iteration -/\ndef %s%s (%s : %s) : Go.T8.Step %s %s :=\n%s%s\n",
		c.t8.name, ph, binders, a, typ, c.retLean, typ, unpack, body)
	name, ok := c.t8.auxKey[def]
	if !ok {
		c.t8.nFor++
		name = fmt.Sprintf("%s_for%d", c.t8.name, c.t8.nFor)
		c.t8.auxKey[def] = name
		c.t8.aux = append(c.t8.aux, strings.ReplaceAll(def, ph, name))
	}
	after, err := c.blk(rest, en, k, depth+1)
	if err != nil {
		return "", err
	}
	// out of fuel: recorded in the world, the zero result is returned
	if len(c.res) != 1 || c.res[0] != "error" || c.world == "" || c.t8.outOfFuel == "" {
		return "", lostf("`for { … }` in a function whose result is not a lone error over a world")
	}
	spin, err := c.ret([]ast.Expr{ast.NewIdent("nil")}, en)
	if err != nil {
		return "", err
	}
	a2 := c.fresh("a")
	bind := func(d int) string {
		if len(vars) == 1 {
			return fmt.Sprintf("%slet %s := %s\n", ind(d), tuple, a2)
		}
		return c.destructureFrom(vars, en, a2, d)
	}
	rv := c.fresh("r")
	return fmt.Sprintf("%smatch (Go.T8.forEver %s %s (%s%s)) with\n%s| Go.T8.Run.ret %s => %s\n%s| Go.T8.Run.done %s =>\n%s%s%s| Go.T8.Run.spin %s =>\n%s%slet %s : Go.Drv.World := (%s %s)\n%s%s\n",
		ind(depth), c.t8.fuel, tuple, name, args,
		ind(depth), rv, rv,
		ind(depth), a2, bind(depth+1), after,
		ind(depth), a2, bind(depth+1), ind(depth+1), c.world, c.t8.outOfFuel, c.world, ind(depth+1), spin), nil
}

// t8defer: `defer CALL` of a world function / method. Go evaluates the receiver and the arguments when the defer
// statement executes and runs the call when the function returns; a function without named results returns the value
// computed before. Lexical scoping gives exactly that: the rest of the function is a local value, and the names in the
// deferred call — written after it — still denote the values they had at the defer statement; only the world is the
// one the rest of the function left behind.
func (c *t5ctx) t8defer(s *ast.DeferStmt, rest []ast.Stmt, en t5env, k t5k, depth int) (string, error) {
	if c.world == "" || c.t8nest != 0 || c.stVar != "" || len(c.state) != 0 || c.t8loop != nil {
		return "", lostf("defer %s in this position", c.tr.src(s.Call))
	}
	if len(c.res) != 1 { // the result tuple is (value, world)
		return "", lostf("defer in a function with %d results", len(c.res))
	}
	fn, ok := c.t8fn(s.Call, en)
	if !ok || !fn.world || fn.wlast || fn.cb >= 0 {
		return "", lostf("defer %s", c.tr.src(s.Call))
	}
	for _, a := range s.Call.Args {
		h, err := c.hoist(a, en, depth)
		if err != nil {
			return "", err
		}
		if h != "" {
			return "", lostf("effectful argument of a deferred call")
		}
	}
	callText, err := c.apply(fn, s.Call, en)
	if err != nil {
		return "", err
	}
	body, err := c.blk(rest, en, k, depth+1)
	if err != nil {
		return "", err
	}
	o := c.fresh("out")
	r := c.fresh("d")
	return fmt.Sprintf("%slet %s : %s := (\n%s%s)\n%slet %s : Go.Drv.World := %s.2\n%slet %s := %s\n%slet %s : Go.Drv.World := %s.1\n%s(%s.1, %s)\n",
		ind(depth), o, c.retLean, body, ind(depth+1),
		ind(depth), c.world, o,
		ind(depth), r, callText,
		ind(depth), c.world, r,
		ind(depth), o, c.world), nil
}

// ---------------------------------------------------------------- declarations the type table relies on

func (tr *translator) t8checkStruct(rel, name, want string) error {
	f := tr.load(rel)
	if f == nil {
		return lostf("declaration of %s: %s not found", name, rel)
	}
	for _, d := range f.Decls {
		gd, ok := d.(*ast.GenDecl)
		if !ok || gd.Tok != token.TYPE {
			continue
		}
		for _, s := range gd.Specs {
			ts := s.(*ast.TypeSpec)
			if ts.Name.Name != name {
				continue
			}
			var got []string
			switch t := ts.Type.(type) {
			case *ast.StructType:
				for _, fl := range t.Fields.List {
					if len(fl.Names) == 0 {
						got = append(got, "embedded "+tr.src(fl.Type))
					}
					for _, id := range fl.Names {
						got = append(got, id.Name+" "+tr.src(fl.Type))
					}
				}
			case *ast.InterfaceType:
				for _, fl := range t.Methods.List {
					if len(fl.Names) == 0 {
						got = append(got, "embedded "+tr.src(fl.Type))
					}
					for _, id := range fl.Names {
						got = append(got, id.Name+" "+tr.src(fl.Type))
					}
				}
			default:
				return lostf("type %s of %s is neither a struct nor an interface", name, rel)
			}
			if strings.Join(got, "; ") != want {
				return lostf("type %s of %s is declared {%s}, the translator assumes {%s}", name, rel, strings.Join(got, "; "), want)
			}
			return nil
		}
	}
	return lostf("type %s not declared in %s", name, rel)
}

// t8func: t5func with the extensions switched on
func (tr *translator) t8func(t t5target, st *t8state, types func(m map[string]*t5ty)) (string, error) {
	st.name = t.lean
	st.aux = nil
	st.nJoin, st.nFor = 0, 0
	st.auxKey = map[string]string{}
	st.externs = t.extern
	st.externArgs = t.externArgs
	if len(st.externs) != len(st.externArgs) {
		return "", lostf("internal: extern binders and names of %s differ", t.lean)
	}
	for _, d := range st.structs {
		if err := tr.t8checkStruct(d[0], d[1], d[2]); err != nil {
			return "", err
		}
	}
	orig := t.pick
	t.pick = func(c *t5ctx, fd *ast.FuncDecl) (*ast.FuncDecl, error) {
		c.t8 = st
		types(c.types)
		if fd.Type.Results != nil {
			for _, fl := range fd.Type.Results.List {
				if len(fl.Names) != 0 {
					return nil, lostf("named results")
				}
			}
		}
		if orig != nil {
			return orig(c, fd)
		}
		return fd, nil
	}
	text, err := tr.t5func(t)
	if err != nil {
		return "", err
	}
	return strings.ReplaceAll(strings.Join(st.aux, "")+text, "Go.Drv.World", st.worldTy), nil
}

// ---------------------------------------------------------------- type tables

func t8cmdTypes(m map[string]*t5ty) {
	f := func(n, t string) t5field { return t5field{n, t} }
	m["main.globalConfig"] = &t5ty{lean: "Go.Cmd.globalConfig", ns: "Go.Cmd.globalConfig", isStruct: true,
		fields: []t5field{f("cpuprofile", "string"), f("memprofile", "string"), f("memprofilerate", "int"), f("verbose", "bool")}}
	m["main.createConfig"] = &t5ty{lean: "Go.Cmd.createConfig", ns: "Go.Cmd.createConfig", isStruct: true,
		fields: []t5field{f("outputFile", "string"), f("inputFile", "string"), f("big", "bool")}}
	m["main.indexWriter"] = &t5ty{lean: "Go.Cmd.indexWriter", ns: "Go.Cmd.indexWriter", zero: "Go.Cmd.indexWriter.nil",
		ifaceOf: map[string]string{"*updog.IndexWriter": "Go.Cmd.indexWriter.mem", "*updog.BigIndexWriter": "Go.Cmd.indexWriter.big"}}
	m["os.File"] = &t5ty{lean: "Go.Cmd.File", ns: "Go.Cmd.File", methods: map[string]string{"Name": "string"}}
	m["csv.Reader"] = &t5ty{lean: "Go.Cmd.Reader", ns: "Go.Cmd.Reader"}
	m["bbolt.DB"] = &t5ty{lean: "Go.Cmd.DB", ns: "Go.Cmd.DB"}
	m["bbolt.Options"] = &t5ty{lean: "Go.Cmd.BoltOptions", ns: "Go.Cmd.BoltOptions", isStruct: true, fields: []t5field{f("OpenFile", "openfile.Fn")}}
	m["openfile.Options"] = &t5ty{lean: "Go.Cmd.OpenOptions", ns: "Go.Cmd.OpenOptions", isStruct: true, decl: [2]string{"internal/openfile/openfile.go", "Options"},
		fields: []t5field{f("FailIfFileExists", "bool"), f("FailIfFileDoesntExist", "bool")}}
	m["openfile.Fn"] = &t5ty{lean: "Go.Cmd.OpenFn", ns: "Go.Cmd.OpenFn", zero: "Go.Cmd.OpenFn.osOpenFile"}
	m["updog.IndexWriter"] = &t5ty{lean: "Go.Cmd.IndexWriter", ns: "Go.Cmd.IndexWriter"}
	m["updog.BigIndexWriter"] = &t5ty{lean: "Go.Cmd.BigIndexWriter", ns: "Go.Cmd.BigIndexWriter"}
	m["uint32"] = &t5ty{lean: "UInt32", zero: "(0 : UInt32)"}
	m["unit"] = &t5ty{lean: "Unit", zero: "()"}
}

var t8cmdStructs = [][3]string{
	{"cmd/updog/main.go", "globalConfig", "cpuprofile string; memprofile string; memprofilerate int; verbose bool"},
	{"cmd/updog/create.go", "createConfig", "outputFile string; inputFile string; big bool"},
	{"cmd/updog/create.go", "indexWriter", "AddRow func(values map[string]string) (uint32, error); Flush func() error"},
}

func t8cmdState() *t8state {
	w := func(lean string, params []string, results ...string) *t5fn {
		return &t5fn{lean: lean, pre: []string{"$w"}, params: params, results: results, cb: -1, world: true}
	}
	return &t8state{worldTy: "Go.Cmd.World", fuel: "fuel", outOfFuel: "Go.Cmd.outOfFuel", printf: "Go.Cmd.printf", structs: t8cmdStructs,
		methods: map[string]map[string]*t5fn{
			"os.File":              {"Close": w("Go.Cmd.fileClose", nil, "error")},
			"csv.Reader":           {"Read": w("Go.Cmd.csvRead", nil, "[]string", "error")},
			"bbolt.DB":             {"Close": w("Go.Cmd.boltClose", nil, "error")},
			"updog.BigIndexWriter": {"Close": w("Go.Cmd.bigWriterClose", nil, "error")},
			"main.indexWriter": {"AddRow": w("Go.Cmd.addRow", []string{"map[string]string"}, "uint32", "error"),
				"Flush": w("Go.Cmd.flush", nil, "error")},
		}}
}

func t8cmdFuncs() map[string]*t5fn {
	w := func(lean string, params []string, results ...string) *t5fn {
		return &t5fn{lean: lean, pre: []string{"$w"}, params: params, results: results, cb: -1, world: true}
	}
	p := func(lean string, params []string, results ...string) *t5fn {
		return &t5fn{lean: lean, params: params, results: results, cb: -1}
	}
	return map[string]*t5fn{
		"os.Open":                 w("Go.Cmd.osOpen", []string{"string"}, "*os.File", "error"),
		"os.CreateTemp":           w("Go.Cmd.osCreateTemp", []string{"string", "string"}, "*os.File", "error"),
		"os.Remove":               w("Go.Cmd.osRemove", []string{"string"}, "error"),
		"bbolt.Open":              w("Go.Cmd.boltOpen", []string{"string", "int", "*bbolt.Options"}, "*bbolt.DB", "error"),
		"updog.NewBigIndexWriter": w("Go.Cmd.newBigIndexWriter", []string{"*bbolt.DB", "*bbolt.DB"}, "*updog.BigIndexWriter", "error"),
		"updog.NewIndexWriter":    p("Go.Cmd.newIndexWriter", []string{"string"}, "*updog.IndexWriter"),
		"csv.NewReader":           p("Go.Cmd.csvNewReader", []string{"*os.File"}, "*csv.Reader"),
		"openfile.OpenFile":       p("Go.Cmd.openFile", []string{"openfile.Options"}, "openfile.Fn"),
		"errors.Is":               p("Go.T8.errorsIs", []string{"errval", "errval"}, "bool"),
		"os.Exit":                 w("Go.Cmd.osExit", []string{"int"}),
		"normalizeHeader":         {lean: "normalizeHeader", pre: []string{"toLower"}, params: []string{"[]string"}, results: []string{"[]string"}, cb: -1},
	}
}

// ---------------------------------------------------------------- fragments of cmd/updog/main.go

// t8cobraRunE: the function literal of the `RunE:` field of the cobra.Command literal assigned to `cmdVar` in main, as a
// function declaration whose extra leading parameters are the variables of main it captures
func t8cobraRunE(tr *translator, fd *ast.FuncDecl, cmdVar string, captured [][2]string) (*ast.FuncDecl, error) {
	var lit *ast.FuncLit
	n := 0
	for _, st := range fd.Body.List {
		as, ok := st.(*ast.AssignStmt)
		if !ok || as.Tok != token.DEFINE || len(as.Lhs) != 1 || len(as.Rhs) != 1 || tr.src(as.Lhs[0]) != cmdVar {
			continue
		}
		u, ok := as.Rhs[0].(*ast.UnaryExpr)
		if !ok || u.Op != token.AND {
			continue
		}
		cl, ok := u.X.(*ast.CompositeLit)
		if !ok || tr.src(cl.Type) != "cobra.Command" {
			continue
		}
		for _, el := range cl.Elts {
			kv, ok := el.(*ast.KeyValueExpr)
			if !ok {
				return nil, lostf("positional cobra.Command literal")
			}
			switch tr.src(kv.Key) {
			case "RunE":
				n++
				lit, _ = kv.Value.(*ast.FuncLit)
			case "Use", "Short", "Long":
			default: // Args, PreRunE, … would run before or instead of RunE
				return nil, lostf("the cobra.Command of %s sets %s", cmdVar, tr.src(kv.Key))
			}
		}
	}
	if n != 1 || lit == nil {
		return nil, lostf("no unique `%s := &cobra.Command{… RunE: func… }` in main", cmdVar)
	}
	// the captured variables must be variables of main declared before (`var x T`) and not assigned in the literal
	// except through their fields
	var fields []*ast.Field
	for _, cv := range captured {
		found := false
		for _, st := range fd.Body.List {
			ds, ok := st.(*ast.DeclStmt)
			if !ok {
				continue
			}
			gd := ds.Decl.(*ast.GenDecl)
			for _, sp := range gd.Specs {
				vs, ok := sp.(*ast.ValueSpec)
				if !ok || vs.Type == nil || len(vs.Values) != 0 {
					continue
				}
				for _, id := range vs.Names {
					if id.Name == cv[0] && tr.src(vs.Type) == cv[1] {
						found = true
					}
				}
			}
		}
		if !found {
			return nil, lostf("main does not declare `var %s %s`", cv[0], cv[1])
		}
		fields = append(fields, &ast.Field{Names: []*ast.Ident{ast.NewIdent(cv[0])}, Type: ast.NewIdent(cv[1])})
	}
	fields = append(fields, lit.Type.Params.List...)
	ft := &ast.FuncType{Params: &ast.FieldList{List: fields}, Results: lit.Type.Results}
	return &ast.FuncDecl{Name: fd.Name, Type: ft, Body: lit.Body}, nil
}

// t8mainTail: the statements of main from the one that calls rootCmd.Execute() to the end
func t8mainTail(tr *translator, fd *ast.FuncDecl) (*ast.FuncDecl, error) {
	at := -1
	for i, st := range fd.Body.List {
		if strings.Contains(tr.src(st), "rootCmd.Execute()") {
			if at >= 0 {
				return nil, lostf("main calls rootCmd.Execute() twice")
			}
			at = i
		}
	}
	if at < 0 {
		return nil, lostf("main does not call rootCmd.Execute()")
	}
	// nothing before it may end the process or be deferred
	for _, st := range fd.Body.List[:at] {
		bad := ""
		ast.Inspect(st, func(n ast.Node) bool {
			switch n := n.(type) {
			case *ast.FuncLit:
				return false
			case *ast.DeferStmt:
				bad = "defer"
			case *ast.ReturnStmt:
				bad = "return"
			case *ast.CallExpr:
				if s := tr.src(n.Fun); s == "os.Exit" || s == "panic" || s == "log.Fatal" || s == "log.Fatalf" {
					bad = s
				}
			}
			return true
		})
		if bad != "" {
			return nil, lostf("main uses %s before rootCmd.Execute()", bad)
		}
	}
	return &ast.FuncDecl{Name: fd.Name, Type: &ast.FuncType{Params: &ast.FieldList{}}, Body: &ast.BlockStmt{List: fd.Body.List[at:]}}, nil
}

// ---------------------------------------------------------------- the gRPC data source

func t8drvTypes(m map[string]*t5ty) {
	const dg = "driver/driver.go"
	f := func(n, t string) t5field { return t5field{n, t} }
	m["grpc.ClientConn"] = &t5ty{lean: "Go.Grpc.ClientConn", ns: "Go.Grpc.ClientConn"}
	m["pb.QueryServiceClient"] = &t5ty{lean: "Go.Grpc.QueryServiceClient", ns: "Go.Grpc.QueryServiceClient"}
	m["grpc.DialOption"] = &t5ty{lean: "Go.Grpc.DialOption", ns: "Go.Grpc.DialOption"}
	m["credentials.TransportCredentials"] = &t5ty{lean: "Go.Grpc.TransportCredentials", ns: "Go.Grpc.TransportCredentials"}
	m["context.Context"] = &t5ty{lean: "Go.Grpc.Ctx", ns: "Go.Grpc.Ctx"}
	m["drv.grpcConn"] = &t5ty{lean: "Go.Drv.grpcConn", ns: "Go.Drv.grpcConn", isStruct: true, decl: [2]string{dg, "grpcConn"},
		fields: []t5field{f("conn", "*grpc.ClientConn"), f("client", "pb.QueryServiceClient")}}
	m["drv.grpcStmt"] = &t5ty{lean: "Go.Drv.grpcStmt", ns: "Go.Drv.grpcStmt", isStruct: true, decl: [2]string{dg, "grpcStmt"},
		fields: []t5field{f("c", "*drv.grpcConn"), f("q", "*pb.Query@p")}}
	// the request as the client builds it: parsed queries (every member present); the transport hands it to the server
	m["pb.QueryRequest@p"] = &t5ty{lean: "Go.Parsed.QueryRequest", ns: "Go.Parsed.QueryRequest", isStruct: true,
		fields: []t5field{f("Queries", "[]*pb.Query@p")}, decl: [2]string{"proto/updog/v1/updog.pb.go", "QueryRequest"}}
	m["url.URL"] = &t5ty{lean: "Go.Url.URL", ns: "Go.Url.URL", fields: []t5field{f("Scheme", "string"), f("Opaque", "string"), f("Path", "string")},
		methods: map[string]string{"Hostname": "string", "Port": "string", "Query": "url.Values"}}
	m["driver.Conn"] = &t5ty{lean: "Go.Drv.Conn", ns: "Go.Drv.Conn"}
	m["unit"] = &t5ty{lean: "Unit", zero: "()"}
}

func t8drvState() *t8state {
	w := func(lean string, params []string, results ...string) *t5fn {
		return &t5fn{lean: lean, pre: []string{"$w"}, params: params, results: results, cb: -1, world: true}
	}
	return &t8state{worldTy: "Go.Grpc.Net",
		methods: map[string]map[string]*t5fn{
			"grpc.ClientConn":       {"Close": w("Go.Grpc.connClose", nil, "error")},
			"pb.QueryServiceClient": {"Query": w("Go.Grpc.query", []string{"context.Context", "*pb.QueryRequest@p"}, "*pb.QueryResponse", "error")},
		}}
}

// ---------------------------------------------------------------- registration

func (tr *translator) translateT8(emit func(string, unit, error) bool, wrap func(bool, string, string)) {
	put := func(name, text string, err error) bool {
		if err != nil {
			emit(name, unit{}, err)
			return false
		}
		wrap(true, name, text)
		return true
	}
	p := func(lean string, params []string, results ...string) *t5fn {
		return &t5fn{lean: lean, params: params, results: results, cb: -1}
	}

	// ---- cmd/updog/create.go, cmd/updog/main.go
	const cg = "cmd/updog/create.go"
	const mg = "cmd/updog/main.go"
	okCreate := false
	if tr.done["normalizeHeader"] {
		text, err := tr.t8func(t5target{rel: cg, pkg: "main", view: "w", name: "createCmd", lean: "createCmd", world: true,
			extern: []string{"(toLower : Nat → Nat)", "(fuel : Nat)"}, externArgs: []string{"toLower", "fuel"},
			funcs: t8cmdFuncs(), vals: map[string]t5v{"io.EOF": {text: "Go.Err5.EOF", typ: "errval"}},
			doc: "`createCmd` of " + cg + " on the explicit world of Updog/Basic/GoPreludeT8.lean (files, the CSV reader, bbolt handles, the two index " +
				"writers, stdout): (returned error, world afterwards). `fuel` bounds the record loop; `unicode.ToLower` is the parameter `toLower`. " +
				"A deferred call appears after the part of the function it guards, so the deferred calls read in the order in which they run"},
			t8cmdState(), t8cmdTypes)
		okCreate = put("createCmd", text, err)
	} else {
		wrap(false, "createCmd", "")
	}
	if okCreate {
		fns := t8cmdFuncs()
		fns["createCmd"] = &t5fn{lean: "createCmd", pre: []string{"toLower", "fuel", "$w"}, params: []string{"*main.globalConfig", "*main.createConfig"},
			results: []string{"error"}, cb: -1, world: true, wlast: true}
		text, err := tr.t8func(t5target{rel: mg, pkg: "main", view: "w", name: "main", lean: "createRunE", world: true,
			extern: []string{"(toLower : Nat → Nat)", "(fuel : Nat)"}, externArgs: []string{"toLower", "fuel"}, skip: map[string]bool{"cmd": true},
			funcs: fns, state: []string{"createCfg"},
			pick: func(c *t5ctx, fd *ast.FuncDecl) (*ast.FuncDecl, error) {
				return t8cobraRunE(tr, fd, "createCmd", [][2]string{{"cfg", "globalConfig"}, {"createCfg", "createConfig"}})
			},
			doc: "the `RunE` function of the `create` sub-command in `main` of " + mg + ", as a function of the variables of `main` it captures " +
				"(`cfg`, `createCfg`) and the positional arguments: (returned error, `createCfg` afterwards, world afterwards)"},
			t8cmdState(), t8cmdTypes)
		put("createRunE", text, err)
	} else {
		wrap(false, "createRunE", "")
	}
	{
		fns := t8cmdFuncs()
		fns["rootCmd.Execute"] = &t5fn{lean: "execute", pre: []string{"$w"}, params: nil, results: []string{"error"}, cb: -1, world: true}
		text, err := tr.t8func(t5target{rel: mg, pkg: "main", view: "w", name: "main", lean: "mainExit", world: true,
			extern: []string{"(execute : Go.Cmd.World → Go.Cmd.World × Option Go.Err5)"}, externArgs: []string{"execute"},
			funcs: fns,
			pick:  func(c *t5ctx, fd *ast.FuncDecl) (*ast.FuncDecl, error) { return t8mainTail(tr, fd) },
			doc: "the end of `main` of " + mg + ", from the statement that calls `rootCmd.Execute()` (the parameter `execute`): the world afterwards " +
				"(`os.Exit` recorded in it; falling off the end of `main` is `Go.Cmd.mainReturns`, applied by the caller)"},
			t8cmdState(), t8cmdTypes)
		put("mainExit", text, err)
	}

	// ---- driver/driver.go: the gRPC data source
	const dg = "driver/driver.go"
	text, err := tr.t8func(t5target{rel: dg, pkg: "drv", view: "p", recv: "updogDriver", name: "Open", lean: "driverOpen",
		extern: []string{"(parseURL : Bytes → Except Go.Err5 Go.Url.URL)", "(openFile : Bytes → Go.Url.Values → Except Go.Err5 Go.Drv.Conn)",
			"(openConn : Bytes → Bytes → Except Go.Err5 Go.Drv.Conn)"}, externArgs: []string{"parseURL", "openFile", "openConn"},
		skip:  map[string]bool{"d": true},
		funcs: map[string]*t5fn{"url.Parse": p("parseURL", []string{"string"}, "*url.URL", "error")},
		setup: func(c *t5ctx, fd *ast.FuncDecl) error {
			if fd.Recv == nil || len(fd.Recv.List[0].Names) != 1 {
				return lostf("receiver of updogDriver.Open")
			}
			r := fd.Recv.List[0].Names[0].Name
			c.funcs[r+".openFile"] = p("openFile", []string{"string", "url.Values"}, "driver.Conn", "error")
			c.funcs[r+".openConn"] = p("openConn", []string{"string", "string"}, "driver.Conn", "error")
			return nil
		},
		doc: "`(*updogDriver).Open` of " + dg + ": the dispatch on the scheme of the data source name (`url.Parse`, `d.openFile`, `d.openConn` are parameters)"},
		t8drvState(), t8drvTypes)
	put("driverOpen", text, err)

	text, err = tr.t8func(t5target{rel: dg, pkg: "drv", view: "p", recv: "updogDriver", name: "openConn", lean: "openConn", world: true,
		skip: map[string]bool{"d": true}, res: []string{"*drv.grpcConn", "error"},
		funcs: map[string]*t5fn{
			"grpc.NewClient": {lean: "Go.Grpc.newClient", pre: []string{"$w"}, params: []string{"string", "[]grpc.DialOption"}, results: []string{"*grpc.ClientConn", "error"},
				cb: -1, world: true, variadic: true},
			"grpc.WithTransportCredentials": p("Go.Grpc.DialOption.WithTransportCredentials", []string{"credentials.TransportCredentials"}, "grpc.DialOption"),
			"insecure.NewCredentials":       p("Go.Grpc.TransportCredentials.insecure", nil, "credentials.TransportCredentials"),
			"pb.NewQueryServiceClient":      p("Go.Grpc.NewQueryServiceClient", []string{"*grpc.ClientConn"}, "pb.QueryServiceClient"),
		},
		doc: "`(*updogDriver).openConn` of " + dg + " on the network `w` (`grpc.NewClient` is `Go.Grpc.newClient`)"},
		t8drvState(), t8drvTypes)
	put("openConn", text, err)

	okPrep := false
	if tr.done["ParseQuery"] {
		text, err = tr.t8func(t5target{rel: dg, pkg: "drv", view: "p", recv: "grpcConn", name: "prepare", lean: "grpcConnPrepare",
			extern: []string{"(fuel : Nat)"}, externArgs: []string{"fuel"},
			funcs: map[string]*t5fn{"queryparser.ParseQuery": {lean: "Go.T8.callRes", pre: []string{"(ParseQuery fuel)"}, params: []string{"string"}, results: []string{"*pb.Query@p", "error"}, cb: -1}},
			doc:   "`(*grpcConn).prepare` of " + dg + " (`fuel` is the fuel of the generated `ParseQuery`)"},
			t8drvState(), t8drvTypes)
		okPrep = put("grpcConnPrepare", text, err)
	} else {
		wrap(false, "grpcConnPrepare", "")
	}
	if okPrep {
		st := t8drvState()
		st.methods["drv.grpcConn"] = map[string]*t5fn{"prepare": {lean: "grpcConnPrepare", pre: []string{"fuel"}, params: []string{"string"}, results: []string{"*drv.grpcStmt", "error"}, cb: -1}}
		text, err = tr.t8func(t5target{rel: dg, pkg: "drv", view: "p", recv: "grpcConn", name: "Prepare", lean: "grpcConnPrepareStmt",
			extern: []string{"(fuel : Nat)"}, externArgs: []string{"fuel"}, res: []string{"*drv.grpcStmt", "error"},
			doc: "`(*grpcConn).Prepare` of " + dg + " (the `driver.Stmt` it returns is the `*grpcStmt`)"},
			st, t8drvTypes)
		put("grpcConnPrepareStmt", text, err)
	} else {
		wrap(false, "grpcConnPrepareStmt", "")
	}
	text, err = tr.t8func(t5target{rel: dg, pkg: "drv", view: "p", recv: "grpcConn", name: "Close", lean: "grpcConnClose", world: true,
		doc: "`(*grpcConn).Close` of " + dg + " on the network `w`"},
		t8drvState(), t8drvTypes)
	put("grpcConnClose", text, err)

	if tr.done["numInput"] {
		text, err = tr.t8func(t5target{rel: dg, pkg: "drv", view: "p", recv: "grpcStmt", name: "NumInput", lean: "grpcStmtNumInput",
			funcs: map[string]*t5fn{"numInput": p("numInput", []string{"*pb.Query@p"}, "int")},
			doc:   "`(*grpcStmt).NumInput` of " + dg},
			t8drvState(), t8drvTypes)
		put("grpcStmtNumInput", text, err)
	} else {
		wrap(false, "grpcStmtNumInput", "")
	}
	if tr.done["numInput"] && tr.done["ReplacePlaceholders"] && tr.done["ToResult"] && tr.done["newRows"] {
		text, err = tr.t8func(t5target{rel: dg, pkg: "drv", view: "p", recv: "grpcStmt", name: "query", lean: "grpcStmtQuery", world: true,
			res: []string{"*drv.rows", "error"},
			funcs: map[string]*t5fn{
				"numInput":                        p("numInput", []string{"*pb.Query@p"}, "int"),
				"queryparser.ReplacePlaceholders": p("ReplacePlaceholders", []string{"*pb.Query@p", "[]string"}, "*pb.Query@p"),
				"convert.ToResult":                p("ToResult", []string{"*pb.Result"}, "*updog.Result"),
				"newRows":                         p("newRows", []string{"*updog.Result", "[]string"}, "*drv.rows"),
				"context.Background":              p("Go.Grpc.Ctx.Background", nil, "context.Context"),
			},
			doc: "`(*grpcStmt).query` of " + dg + " on the network `w`: argument-count check, placeholder substitution, ONE `Query` RPC " +
				"(`Go.Grpc.query`: the call is recorded in `w`, the answer is what `w`'s peer gives) carrying the bound query, first result ↦ rows"},
			t8drvState(), t8drvTypes)
		put("grpcStmtQuery", text, err)
	} else {
		wrap(false, "grpcStmtQuery", "")
	}
}
