// translate.go: a small source-to-source translator from a pure subset of Go to Lean 4.
//
// translateAll reads a FIXED list of small functions (or function literals / right-hand sides at known places)
// of the repository and emits one Lean definition for each into Updog/GeneratedFns.lean (namespace Updog.Gen),
// over the primitives of Updog/Basic/GoPrelude.lean. Updog/Props/GeneratedEq.lean proves every generated
// definition equal to the hand-written model, so a semantic change of the Go function changes the generated
// text and the equivalence theorem stops checking.
//
// The translator never guesses: any construct outside the subset makes THAT function "lost": it is reported,
// emitted as a comment only, and the equivalence theorem then fails because the definition is missing.
package main

import (
	"fmt"
	"go/ast"
	"go/parser"
	"go/printer"
	"go/token"
	"os"
	"path/filepath"
	"sort"
	"strconv"
	"strings"
)

// ---------------------------------------------------------------- types

type gtype int

const (
	tBad     gtype = iota
	tUntyped       // untyped integer or rune constant
	tString        // string            ↦ Bytes
	tBytes         // []byte            ↦ Bytes
	tInt           // int               ↦ Int
	tInt32         // int32             ↦ Int (in range after toInt32)
	tInt64         // int64             ↦ Int
	tByte          // byte / uint8      ↦ UInt8
	tRune          // rune              ↦ Nat (code point)
	tU64           // uint64            ↦ UInt64
	tBool          // bool              ↦ Bool
	tU64s          // []uint64          ↦ List UInt64
	tStrs          // []string          ↦ List Bytes
	tFlags         // int used as an open(2) flag word ↦ Nat
	tNode          // abstract Expression node, represented by its cacheKey() ↦ UInt64
	tNodes         // []Expression      ↦ List UInt64
)

func (t gtype) lean() string {
	switch t {
	case tString, tBytes:
		return "Bytes"
	case tInt, tInt32, tInt64:
		return "Int"
	case tByte:
		return "UInt8"
	case tRune, tFlags:
		return "Nat"
	case tU64, tNode:
		return "UInt64"
	case tBool:
		return "Bool"
	case tU64s, tNodes:
		return "List UInt64"
	case tStrs:
		return "List Bytes"
	}
	if s, ok := t2TypeNames[t]; ok { // [t2] named types (structs, container/list, maps, pointers) of translate_t2.go
		return s
	}
	if s := leanT1(t); s != "" { // [t1]
		return s
	}
	return "?"
}

func (t gtype) isInt() bool { return t == tInt || t == tInt32 || t == tInt64 }

// elem is the element type of a range / index over t
func (t gtype) elem() gtype {
	switch t {
	case tBytes:
		return tByte
	case tU64s:
		return tU64
	case tStrs:
		return tString
	case tNodes:
		return tNode
	}
	if et := elemT1(t); et != tBad { // [t1]
		return et
	}
	return tBad
}

type lostErr struct{ msg string }

func (e *lostErr) Error() string { return e.msg }

// value of a translated expression
type val struct {
	text string // Lean term (self-delimiting: atom or parenthesised)
	typ  gtype
	k    int64 // constant value when typ == tUntyped
}

type binding struct {
	lean string
	typ  gtype
}

type env map[string]binding

func (e env) with(name string, b binding) env {
	n := env{}
	for k, v := range e {
		n[k] = v
	}
	n[name] = b
	return n
}

// translation context of one target
type tctx struct {
	tr       *translator
	file     *ast.File
	rel      string
	atoms    map[string]binding // flat Go source of an expression ↦ Lean parameter standing for it
	consts   map[string]int64   // untyped constants of the package usable by name
	usesHash bool               // xxhash.Sum64 ↦ the parameter H
	result   gtype
	retHook  func(c *tctx, e ast.Expr, en env) (val, error) // non-nil: how a returned expression is projected
	// [t2] non-nil: tried first on every expression; false = not handled
	exprHook func(c *tctx, e ast.Expr, en env) (val, bool, error)

	// [t1] non-nil: additional expression forms of a target (handled = true)
	hook func(c *tctx, e ast.Expr, en env) (val, bool, error)
}

type translator struct {
	repo  string
	fset  *token.FileSet
	files map[string]*ast.File
	done  map[string]bool // Lean names emitted so far
}

func lostf(format string, a ...any) error { return &lostErr{fmt.Sprintf(format, a...)} }

func (tr *translator) load(rel string) *ast.File {
	if f, ok := tr.files[rel]; ok {
		return f
	}
	f, err := parser.ParseFile(tr.fset, filepath.Join(tr.repo, rel), nil, 0)
	if err != nil {
		f = nil
	}
	tr.files[rel] = f
	return f
}

func (tr *translator) src(n ast.Node) string {
	var b strings.Builder
	printer.Fprint(&b, tr.fset, n)
	return strings.Join(strings.Fields(b.String()), " ")
}

func (tr *translator) fn(rel, recv, name string) (*ast.File, *ast.FuncDecl) {
	f := tr.load(rel)
	if f == nil {
		return nil, nil
	}
	for _, d := range f.Decls {
		fd, ok := d.(*ast.FuncDecl)
		if !ok || fd.Name.Name != name || fd.Body == nil {
			continue
		}
		r := ""
		if fd.Recv != nil && len(fd.Recv.List) > 0 {
			r = strings.TrimPrefix(tr.src(fd.Recv.List[0].Type), "*")
		}
		if r == recv {
			return f, fd
		}
	}
	return f, nil
}

// imports reports whether file f imports path under the package name `name`
func imports(f *ast.File, name, path string) bool {
	for _, im := range f.Imports {
		p, _ := strconv.Unquote(im.Path.Value)
		if p != path {
			continue
		}
		n := p[strings.LastIndex(p, "/")+1:]
		if path == "github.com/cespare/xxhash/v2" {
			n = "xxhash"
		}
		if im.Name != nil {
			n = im.Name.Name
		}
		return n == name
	}
	return false
}

// pkgDeclares: does any file of the directory of rel declare `name` at package level (shadowing a builtin)?
func (tr *translator) pkgDeclares(rel, name string) bool {
	dir := filepath.Dir(rel)
	ents, err := os.ReadDir(filepath.Join(tr.repo, dir))
	if err != nil {
		return true
	}
	for _, e := range ents {
		if e.IsDir() || !strings.HasSuffix(e.Name(), ".go") {
			continue
		}
		f := tr.load(filepath.Join(dir, e.Name()))
		if f == nil {
			continue
		}
		for _, d := range f.Decls {
			switch d := d.(type) {
			case *ast.FuncDecl:
				if d.Recv == nil && d.Name.Name == name {
					return true
				}
			case *ast.GenDecl:
				for _, s := range d.Specs {
					switch s := s.(type) {
					case *ast.TypeSpec:
						if s.Name.Name == name {
							return true
						}
					case *ast.ValueSpec:
						for _, id := range s.Names {
							if id.Name == name {
								return true
							}
						}
					}
				}
			}
		}
	}
	return false
}

// goType maps a Go type expression of a parameter/result to the subset
func (tr *translator) goType(e ast.Expr) gtype {
	switch tr.src(e) {
	case "string":
		return tString
	case "[]byte", "[]uint8":
		return tBytes
	case "int":
		return tInt
	case "int32":
		return tInt32
	case "int64":
		return tInt64
	case "byte", "uint8":
		return tByte
	case "rune":
		return tRune
	case "uint64":
		return tU64
	case "bool":
		return tBool
	case "[]uint64", "...uint64":
		return tU64s
	case "[]string":
		return tStrs
	}
	return tBad
}

var leanReserved = map[string]bool{"at": true, "end": true, "from": true, "fun": true, "have": true, "show": true,
	"then": true, "else": true, "if": true, "let": true, "match": true, "with": true, "do": true, "in": true,
	"by": true, "open": true, "def": true, "H": true, "where": true, "instance": true, "section": true,
	"namespace": true, "return": true, "for": true, "mut": true, "Type": true, "Prop": true, "Sort": true, "deriving": true}

func leanIdent(goName string) (string, error) {
	if goName == "_" || goName == "" {
		return "", lostf("blank identifier")
	}
	for _, r := range goName {
		if !(r >= 'a' && r <= 'z' || r >= 'A' && r <= 'Z' || r >= '0' && r <= '9' || r == '_') {
			return "", lostf("identifier %q", goName)
		}
	}
	if leanReserved[goName] {
		return goName + "'", nil
	}
	return goName, nil
}

func bytesLit(s string) string {
	parts := make([]string, 0, len(s))
	for _, c := range []byte(s) {
		parts = append(parts, strconv.Itoa(int(c)))
	}
	return "([" + strings.Join(parts, ", ") + "] : Bytes)"
}

// conv converts v to type t the way Go's assignability does inside the subset
func conv(v val, t gtype) (val, error) {
	if v.typ == t {
		return v, nil
	}
	if v.typ == tUntyped {
		ok := false
		switch t {
		case tInt, tInt64:
			ok = true
		case tInt32:
			ok = v.k >= -2147483648 && v.k <= 2147483647
		case tByte:
			ok = v.k >= 0 && v.k <= 255
		case tRune:
			ok = v.k >= 0 && v.k <= 0x10FFFF
		case tU64, tFlags:
			ok = v.k >= 0
		}
		if !ok {
			return val{}, lostf("constant %d does not convert to %s", v.k, t.lean())
		}
		if v.k < 0 {
			return val{text: fmt.Sprintf("(%d : %s)", v.k, t.lean()), typ: t}, nil
		}
		return val{text: fmt.Sprintf("(%d : %s)", v.k, t.lean()), typ: t}, nil
	}
	if v.typ == tNode && t == tU64 {
		return val{}, lostf("an Expression is not a uint64")
	}
	return val{}, lostf("type mismatch: have %s, want %s", v.typ.lean(), t.lean())
}

// unify two operands of a binary operator
func unify(a, b val) (val, val, error) {
	switch {
	case a.typ == tUntyped && b.typ == tUntyped:
		return a, b, lostf("constant expression of two untyped constants")
	case a.typ == tUntyped:
		a2, err := conv(a, b.typ)
		return a2, b, err
	case b.typ == tUntyped:
		b2, err := conv(b, a.typ)
		return a, b2, err
	case a.typ != b.typ:
		return a, b, lostf("operands of different types %s and %s", a.typ.lean(), b.typ.lean())
	}
	return a, b, nil
}

// rootIdents: identifiers of e that are variables (not the Sel part of a selector)
func rootIdents(e ast.Expr) []string {
	var out []string
	var walk func(n ast.Node)
	walk = func(n ast.Node) {
		switch n := n.(type) {
		case *ast.SelectorExpr:
			walk(n.X)
		case *ast.Ident:
			out = append(out, n.Name)
		case *ast.CallExpr:
			walk(n.Fun)
			for _, a := range n.Args {
				walk(a)
			}
		case *ast.BinaryExpr:
			walk(n.X)
			walk(n.Y)
		case *ast.UnaryExpr:
			walk(n.X)
		case *ast.ParenExpr:
			walk(n.X)
		case *ast.IndexExpr:
			walk(n.X)
			walk(n.Index)
		}
	}
	walk(e)
	return out
}

func sortedKeys(m map[string]string) []string {
	ks := make([]string, 0, len(m))
	for k := range m {
		ks = append(ks, k)
	}
	sort.Strings(ks)
	return ks
}

// ---------------------------------------------------------------- expressions

// shadowedOK: name must not be a local variable and not declared by the package (for builtins / package names)
func (c *tctx) free(name string, en env) bool {
	if _, ok := en[name]; ok {
		return false
	}
	return !c.tr.pkgDeclares(c.rel, name)
}

func (c *tctx) pkgSel(e ast.Expr, en env, pkg, path, sel string) bool {
	s, ok := e.(*ast.SelectorExpr)
	if !ok || s.Sel.Name != sel {
		return false
	}
	id, ok := s.X.(*ast.Ident)
	return ok && id.Name == pkg && c.free(pkg, en) && imports(c.file, pkg, path)
}

func (c *tctx) expr(e ast.Expr, en env) (val, error) {
	if c.exprHook != nil { // [t2]
		if v, ok, err := c.exprHook(c, e, en); ok || err != nil {
			return v, err
		}
	}
	// abstraction atoms of the target (e.g. `e.Column`), valid only where their variables are not shadowed
	if b, ok := c.atoms[c.tr.src(e)]; ok {
		shadow := false
		for _, id := range rootIdents(e) {
			if _, ok := en[id]; ok {
				shadow = true
			}
		}
		if !shadow {
			return val{text: b.lean, typ: b.typ}, nil
		}
	}
	if c.hook != nil { // [t1]
		if v, handled, err := c.hook(c, e, en); handled || err != nil {
			return v, err
		}
	}
	switch e := e.(type) {
	case *ast.ParenExpr:
		return c.expr(e.X, en)
	case *ast.BasicLit:
		switch e.Kind {
		case token.INT:
			k, err := strconv.ParseInt(e.Value, 0, 64)
			if err != nil {
				return val{}, lostf("integer literal %s", e.Value)
			}
			return val{typ: tUntyped, k: k}, nil
		case token.CHAR:
			r, _, _, err := strconv.UnquoteChar(e.Value[1:len(e.Value)-1], '\'')
			if err != nil {
				return val{}, lostf("char literal %s", e.Value)
			}
			return val{typ: tUntyped, k: int64(r)}, nil
		case token.STRING:
			s, err := strconv.Unquote(e.Value)
			if err != nil {
				return val{}, lostf("string literal %s", e.Value)
			}
			return val{text: bytesLit(s), typ: tString}, nil
		}
		return val{}, lostf("literal %s", e.Value)
	case *ast.Ident:
		if b, ok := en[e.Name]; ok {
			return val{text: b.lean, typ: b.typ}, nil
		}
		if (e.Name == "true" || e.Name == "false") && c.free(e.Name, en) {
			return val{text: e.Name, typ: tBool}, nil
		}
		if k, ok := c.consts[e.Name]; ok {
			return val{typ: tUntyped, k: k}, nil
		}
		return val{}, lostf("identifier %s is not a variable of the subset", e.Name)
	case *ast.SelectorExpr:
		if c.pkgSel(e, en, "os", "os", "O_EXCL") {
			return val{text: "Go.O_EXCL", typ: tFlags}, nil
		}
		if c.pkgSel(e, en, "os", "os", "O_CREATE") {
			return val{text: "Go.O_CREATE", typ: tFlags}, nil
		}
		return val{}, lostf("selector %s", c.tr.src(e))
	case *ast.UnaryExpr:
		x, err := c.expr(e.X, en)
		if err != nil {
			return val{}, err
		}
		switch {
		case e.Op == token.NOT && x.typ == tBool:
			return val{text: "(!" + x.text + ")", typ: tBool}, nil
		case e.Op == token.SUB && x.typ == tUntyped:
			return val{typ: tUntyped, k: -x.k}, nil
		}
		return val{}, lostf("unary %s", e.Op)
	case *ast.BinaryExpr:
		return c.binary(e, en)
	case *ast.IndexExpr:
		x, err := c.expr(e.X, en)
		if err != nil {
			return val{}, err
		}
		i, err := c.intExpr(e.Index, en)
		if err != nil {
			return val{}, err
		}
		if x.typ != tString && x.typ != tBytes {
			return val{}, lostf("index into %s", x.typ.lean())
		}
		return val{text: fmt.Sprintf("(Go.index %s %s)", x.text, i.text), typ: tByte}, nil
	case *ast.SliceExpr:
		if e.Slice3 {
			return val{}, lostf("3-index slice")
		}
		x, err := c.expr(e.X, en)
		if err != nil {
			return val{}, err
		}
		if x.typ != tString && x.typ != tBytes {
			return val{}, lostf("slice of %s", x.typ.lean())
		}
		var lo, hi val
		if e.Low != nil {
			if lo, err = c.intExpr(e.Low, en); err != nil {
				return val{}, err
			}
		}
		if e.High != nil {
			if hi, err = c.intExpr(e.High, en); err != nil {
				return val{}, err
			}
		}
		switch {
		case e.Low == nil && e.High == nil:
			return x, nil
		case e.High == nil:
			return val{text: fmt.Sprintf("(Go.sliceFrom %s %s)", x.text, lo.text), typ: x.typ}, nil
		case e.Low == nil:
			return val{text: fmt.Sprintf("(Go.sliceTo %s %s)", x.text, hi.text), typ: x.typ}, nil
		}
		return val{text: fmt.Sprintf("(Go.slice %s %s %s)", x.text, lo.text, hi.text), typ: x.typ}, nil
	case *ast.CallExpr:
		return c.call(e, en)
	}
	return val{}, lostf("expression %s", c.tr.src(e))
}

// intExpr: an expression of Go type int (untyped constants become int)
func (c *tctx) intExpr(e ast.Expr, en env) (val, error) {
	v, err := c.expr(e, en)
	if err != nil {
		return val{}, err
	}
	return conv(v, tInt)
}

func (c *tctx) typed(e ast.Expr, en env, t gtype) (val, error) {
	v, err := c.expr(e, en)
	if err != nil {
		return val{}, err
	}
	return conv(v, t)
}

func (c *tctx) binary(e *ast.BinaryExpr, en env) (val, error) {
	a, err := c.expr(e.X, en)
	if err != nil {
		return val{}, err
	}
	b, err := c.expr(e.Y, en)
	if err != nil {
		return val{}, err
	}
	if e.Op == token.LAND || e.Op == token.LOR {
		if a.typ != tBool || b.typ != tBool {
			return val{}, lostf("%s on non-booleans", e.Op)
		}
		op := "&&"
		if e.Op == token.LOR {
			op = "||"
		}
		return val{text: fmt.Sprintf("(%s %s %s)", a.text, op, b.text), typ: tBool}, nil
	}
	if a, b, err = unify(a, b); err != nil {
		return val{}, err
	}
	t := a.typ
	ordered := t.isInt() || t == tByte || t == tRune || t == tU64
	switch e.Op {
	case token.EQL, token.NEQ:
		if !(ordered || t == tBool || t == tString || t == tFlags) {
			return val{}, lostf("== on %s", t.lean())
		}
		op := "=="
		if e.Op == token.NEQ {
			op = "!="
		}
		return val{text: fmt.Sprintf("(%s %s %s)", a.text, op, b.text), typ: tBool}, nil
	case token.LSS, token.LEQ, token.GTR, token.GEQ:
		if !ordered {
			return val{}, lostf("%s on %s", e.Op, t.lean())
		}
		op := map[token.Token]string{token.LSS: "<", token.LEQ: "≤", token.GTR: ">", token.GEQ: "≥"}[e.Op]
		return val{text: fmt.Sprintf("(decide (%s %s %s))", a.text, op, b.text), typ: tBool}, nil
	case token.ADD, token.SUB, token.MUL:
		if e.Op == token.ADD && t == tString {
			return val{text: fmt.Sprintf("(%s ++ %s)", a.text, b.text), typ: tString}, nil
		}
		if t == tU64 && e.Op != token.MUL && c.exprHook != nil { // [t2] uint64 + and -: UInt64 arithmetic wraps modulo 2^64 exactly like Go
			return val{text: fmt.Sprintf("(%s %s %s)", a.text, e.Op, b.text), typ: t}, nil
		}
		if t != tInt && t != tInt64 {
			return val{}, lostf("arithmetic %s on %s (only int/int64, assumed not to overflow)", e.Op, t.lean())
		}
		return val{text: fmt.Sprintf("(%s %s %s)", a.text, e.Op, b.text), typ: t}, nil
	case token.OR, token.AND, token.AND_NOT:
		if t != tFlags {
			return val{}, lostf("bitwise %s on %s (only flag words)", e.Op, t.lean())
		}
		f := map[token.Token]string{token.OR: "Go.or", token.AND: "Go.and", token.AND_NOT: "Go.andNot"}[e.Op]
		return val{text: fmt.Sprintf("(%s %s %s)", f, a.text, b.text), typ: tFlags}, nil
	}
	return val{}, lostf("operator %s", e.Op)
}

func (c *tctx) builtin(e ast.Expr, en env, name string) bool {
	id, ok := e.(*ast.Ident)
	return ok && id.Name == name && c.free(name, en)
}

func (c *tctx) call(e *ast.CallExpr, en env) (val, error) {
	n := len(e.Args)
	switch {
	case c.builtin(e.Fun, en, "len") && n == 1:
		x, err := c.expr(e.Args[0], en)
		if err != nil {
			return val{}, err
		}
		switch x.typ {
		case tString, tBytes, tU64s, tStrs, tNodes:
			return val{text: fmt.Sprintf("(Go.len %s)", x.text), typ: tInt}, nil
		}
		return val{}, lostf("len of %s", x.typ.lean())
	case (c.builtin(e.Fun, en, "int") || c.builtin(e.Fun, en, "int64")) && n == 1:
		x, err := c.expr(e.Args[0], en)
		if err != nil {
			return val{}, err
		}
		to := tInt
		if c.builtin(e.Fun, en, "int64") {
			to = tInt64
		}
		if x.typ == tUntyped {
			return conv(x, to)
		}
		if !x.typ.isInt() { // int32/int64/int → int(64): value-preserving
			return val{}, lostf("conversion to int from %s", x.typ.lean())
		}
		return val{text: x.text, typ: to}, nil
	case c.builtin(e.Fun, en, "int32") && n == 1:
		x, err := c.expr(e.Args[0], en)
		if err != nil {
			return val{}, err
		}
		switch x.typ {
		case tUntyped:
			return conv(x, tInt32)
		case tInt32:
			return x, nil
		case tInt, tInt64:
			return val{text: fmt.Sprintf("(Go.toInt32 %s)", x.text), typ: tInt32}, nil
		}
		return val{}, lostf("conversion to int32 from %s", x.typ.lean())
	case c.builtin(e.Fun, en, "string") && n == 1:
		x, err := c.expr(e.Args[0], en)
		if err != nil {
			return val{}, err
		}
		if x.typ != tBytes && x.typ != tString {
			return val{}, lostf("string(%s)", x.typ.lean())
		}
		return val{text: x.text, typ: tString}, nil
	case c.builtin(e.Fun, en, "append") && n >= 2:
		x, err := c.expr(e.Args[0], en)
		if err != nil {
			return val{}, err
		}
		if x.typ != tBytes && x.typ != tU64s {
			return val{}, lostf("append to %s", x.typ.lean())
		}
		if e.Ellipsis.IsValid() {
			if n != 2 {
				return val{}, lostf("append with ... and %d arguments", n)
			}
			y, err := c.expr(e.Args[1], en)
			if err != nil {
				return val{}, err
			}
			if !(y.typ == x.typ || x.typ == tBytes && y.typ == tString) {
				return val{}, lostf("append(%s, %s...)", x.typ.lean(), y.typ.lean())
			}
			return val{text: fmt.Sprintf("(%s ++ %s)", x.text, y.text), typ: x.typ}, nil
		}
		var items []string
		for _, a := range e.Args[1:] {
			y, err := c.typed(a, en, x.typ.elem())
			if err != nil {
				return val{}, err
			}
			items = append(items, y.text)
		}
		return val{text: fmt.Sprintf("(%s ++ [%s])", x.text, strings.Join(items, ", ")), typ: x.typ}, nil
	case c.builtin(e.Fun, en, "make") && (n == 2 || n == 3):
		var t gtype
		if at, ok := e.Args[0].(*ast.ArrayType); ok && at.Len == nil {
			t = c.tr.goType(at)
		}
		if t != tBytes && t != tU64s {
			return val{}, lostf("make(%s, …)", c.tr.src(e.Args[0]))
		}
		ln, err := c.intExpr(e.Args[1], en)
		if err != nil {
			return val{}, err
		}
		if n == 3 { // the capacity must be a pure int expression of the subset; it has no observable value
			if _, err := c.intExpr(e.Args[2], en); err != nil {
				return val{}, err
			}
		}
		f := "Go.makeBytes"
		if t == tU64s {
			f = "Go.makeU64s"
		}
		return val{text: fmt.Sprintf("(%s %s)", f, ln.text), typ: t}, nil
	}
	// conversion []byte(s)
	if at, ok := e.Fun.(*ast.ArrayType); ok && n == 1 {
		if at.Len == nil && c.tr.goType(at) == tBytes && c.free("byte", en) {
			x, err := c.expr(e.Args[0], en)
			if err != nil {
				return val{}, err
			}
			if x.typ != tString && x.typ != tBytes {
				return val{}, lostf("[]byte(%s)", x.typ.lean())
			}
			return val{text: x.text, typ: tBytes}, nil
		}
		return val{}, lostf("conversion %s", c.tr.src(e.Fun))
	}
	switch {
	case c.pkgSel(e.Fun, en, "strings", "strings", "ReplaceAll") && n == 3:
		s, err := c.typed(e.Args[0], en, tString)
		if err != nil {
			return val{}, err
		}
		lit, ok := e.Args[1].(*ast.BasicLit)
		if !ok || lit.Kind != token.STRING {
			return val{}, lostf("strings.ReplaceAll with a non-literal old string")
		}
		if o, err := strconv.Unquote(lit.Value); err != nil || o == "" {
			return val{}, lostf("strings.ReplaceAll with an empty old string")
		}
		old, _ := c.expr(lit, en)
		nw, err := c.typed(e.Args[2], en, tString)
		if err != nil {
			return val{}, err
		}
		return val{text: fmt.Sprintf("(Go.replaceAll %s %s %s)", s.text, old.text, nw.text), typ: tString}, nil
	case c.pkgSel(e.Fun, en, "fmt", "fmt", "Sprintf") && n >= 1:
		return c.sprintf(e, en)
	case c.pkgSel(e.Fun, en, "xxhash", "github.com/cespare/xxhash/v2", "Sum64") && n == 1:
		if !c.usesHash {
			return val{}, lostf("xxhash.Sum64 outside a hash-parametrised target")
		}
		x, err := c.typed(e.Args[0], en, tBytes)
		if err != nil {
			return val{}, err
		}
		return val{text: fmt.Sprintf("(H %s)", x.text), typ: tU64}, nil
	}
	// binary.BigEndian.AppendUint64(buf, k)
	if s, ok := e.Fun.(*ast.SelectorExpr); ok && s.Sel.Name == "AppendUint64" && n == 2 &&
		c.pkgSel(s.X, en, "binary", "encoding/binary", "BigEndian") {
		buf, err := c.typed(e.Args[0], en, tBytes)
		if err != nil {
			return val{}, err
		}
		k, err := c.typed(e.Args[1], en, tU64)
		if err != nil {
			return val{}, err
		}
		return val{text: fmt.Sprintf("(Go.beAppendUint64 %s %s)", buf.text, k.text), typ: tBytes}, nil
	}
	// x.cacheKey() of an abstract Expression node: the node is represented by its key
	if s, ok := e.Fun.(*ast.SelectorExpr); ok && s.Sel.Name == "cacheKey" && n == 0 {
		if id, ok := s.X.(*ast.Ident); ok {
			if b, ok := en[id.Name]; ok && b.typ == tNode {
				return val{text: b.lean, typ: tU64}, nil
			}
		}
	}
	// calls to other translated functions of the same package (query.go / writer.go are one package)
	if id, ok := e.Fun.(*ast.Ident); ok && c.usesHash {
		if _, local := en[id.Name]; !local {
			switch {
			case id.Name == "getValueIndex" && n == 2 && c.tr.done["getValueIndex"]:
				a, err := c.typed(e.Args[0], en, tString)
				if err != nil {
					return val{}, err
				}
				b, err := c.typed(e.Args[1], en, tString)
				if err != nil {
					return val{}, err
				}
				return val{text: fmt.Sprintf("(getValueIndex H %s %s)", a.text, b.text), typ: tU64}, nil
			case id.Name == "mixCacheKey" && n >= 1 && c.tr.done["mixCacheKey"]:
				tag, err := c.typed(e.Args[0], en, tByte)
				if err != nil {
					return val{}, err
				}
				if e.Ellipsis.IsValid() {
					if n != 2 {
						return val{}, lostf("mixCacheKey with ... and %d arguments", n)
					}
					ks, err := c.typed(e.Args[1], en, tU64s)
					if err != nil {
						return val{}, err
					}
					return val{text: fmt.Sprintf("(mixCacheKey H %s %s)", tag.text, ks.text), typ: tU64}, nil
				}
				var items []string
				for _, a := range e.Args[1:] {
					k, err := c.typed(a, en, tU64)
					if err != nil {
						return val{}, err
					}
					items = append(items, k.text)
				}
				return val{text: fmt.Sprintf("(mixCacheKey H %s [%s])", tag.text, strings.Join(items, ", ")), typ: tU64}, nil
			}
		}
	}
	return val{}, lostf("call %s is not in the whitelist", c.tr.src(e.Fun))
}

// fmt.Sprintf with a literal format consisting of literal bytes, %% and %s verbs ↦ concatenation
func (c *tctx) sprintf(e *ast.CallExpr, en env) (val, error) {
	lit, ok := e.Args[0].(*ast.BasicLit)
	if !ok || lit.Kind != token.STRING {
		return val{}, lostf("fmt.Sprintf with a non-literal format")
	}
	f, err := strconv.Unquote(lit.Value)
	if err != nil {
		return val{}, lostf("format %s", lit.Value)
	}
	args := e.Args[1:]
	var parts []string
	cur := ""
	flush := func() {
		if cur != "" {
			parts = append(parts, bytesLit(cur))
			cur = ""
		}
	}
	for i := 0; i < len(f); i++ {
		if f[i] != '%' {
			cur += string(f[i])
			continue
		}
		if i+1 >= len(f) {
			return val{}, lostf("format ends in %%")
		}
		i++
		switch f[i] {
		case '%':
			cur += "%"
		case 's':
			if len(args) == 0 {
				return val{}, lostf("too few arguments for the format")
			}
			a, err := c.expr(args[0], en)
			if err != nil {
				return val{}, err
			}
			if a.typ != tString && a.typ != tBytes {
				return val{}, lostf("%%s of %s", a.typ.lean())
			}
			args = args[1:]
			flush()
			parts = append(parts, a.text)
		default:
			return val{}, lostf("format verb %%%c", f[i])
		}
	}
	flush()
	if len(args) != 0 {
		return val{}, lostf("too many arguments for the format")
	}
	if len(parts) == 0 {
		return val{text: bytesLit(""), typ: tString}, nil
	}
	if len(parts) == 1 {
		return val{text: parts[0], typ: tString}, nil
	}
	return val{text: "(" + strings.Join(parts, " ++ ") + ")", typ: tString}, nil
}

// ---------------------------------------------------------------- statements

func hasReturn(stmts []ast.Stmt) bool {
	found := false
	for _, s := range stmts {
		ast.Inspect(s, func(n ast.Node) bool {
			switch n.(type) {
			case *ast.FuncLit:
				return false
			case *ast.ReturnStmt:
				found = true
			}
			return true
		})
	}
	return found
}

// definitelyReturns: the last statement is a return, or an if/else whose two branches definitely return
func definitelyReturns(stmts []ast.Stmt) bool {
	if len(stmts) == 0 {
		return false
	}
	switch s := stmts[len(stmts)-1].(type) {
	case *ast.ReturnStmt:
		return true
	case *ast.IfStmt:
		if eb, ok := s.Else.(*ast.BlockStmt); ok {
			return definitelyReturns(s.Body.List) && definitelyReturns(eb.List)
		}
	}
	return false
}

// assigned: variables assigned with `=` (or x[i] =) in stmts; declared: variables declared with `:=`
func assignedAndDeclared(stmts []ast.Stmt) (assigned, declared map[string]bool) {
	assigned, declared = map[string]bool{}, map[string]bool{}
	for _, s := range stmts {
		ast.Inspect(s, func(n ast.Node) bool {
			switch n := n.(type) {
			case *ast.FuncLit:
				return false
			case *ast.AssignStmt:
				for _, l := range n.Lhs {
					if ix, ok := l.(*ast.IndexExpr); ok {
						l = ix.X
					}
					if id, ok := l.(*ast.Ident); ok {
						if n.Tok == token.DEFINE {
							declared[id.Name] = true
						} else {
							assigned[id.Name] = true
						}
					}
				}
			case *ast.RangeStmt:
				for _, l := range []ast.Expr{n.Key, n.Value} {
					if id, ok := l.(*ast.Ident); ok && n.Tok == token.DEFINE {
						declared[id.Name] = true
					}
				}
			case *ast.IncDecStmt:
				if id, ok := n.X.(*ast.Ident); ok {
					assigned[id.Name] = true
				}
			}
			return true
		})
	}
	return
}

func ind(n int) string { return strings.Repeat("  ", n) }

// block translates a statement list to a Lean term (several lines, each indented by `depth`).
// final: the term the block yields when control falls off its end ("" = falling off the end is an error).
func (c *tctx) block(stmts []ast.Stmt, en env, final string, depth int) (string, error) {
	if len(stmts) == 0 {
		if final == "" {
			return "", lostf("control reaches the end without a return")
		}
		return ind(depth) + final + "\n", nil
	}
	s, rest := stmts[0], stmts[1:]
	switch s := s.(type) {
	case *ast.ReturnStmt:
		if len(rest) != 0 {
			return "", lostf("statements after return")
		}
		if final != "" {
			return "", lostf("return inside a block that must fall through")
		}
		if len(s.Results) != 1 {
			return "", lostf("return with %d results", len(s.Results))
		}
		var v val
		var err error
		if c.retHook != nil {
			v, err = c.retHook(c, s.Results[0], en)
		} else {
			v, err = c.typed(s.Results[0], en, c.result)
		}
		if err != nil {
			return "", err
		}
		return ind(depth) + v.text + "\n", nil

	case *ast.AssignStmt:
		// a, err := f(...) ; if err != nil { return … }
		if len(s.Lhs) == 2 && len(s.Rhs) == 1 && s.Tok == token.DEFINE {
			return c.twoResult(s, rest, en, final, depth)
		}
		if len(s.Lhs) != 1 || len(s.Rhs) != 1 {
			return "", lostf("assignment %s", c.tr.src(s))
		}
		switch s.Tok {
		case token.DEFINE:
			id, ok := s.Lhs[0].(*ast.Ident)
			if !ok {
				return "", lostf("assignment %s", c.tr.src(s))
			}
			ln, err := leanIdent(id.Name)
			if err != nil {
				return "", err
			}
			v, err := c.expr(s.Rhs[0], en)
			if err != nil {
				return "", err
			}
			if v.typ == tUntyped { // default type of an untyped integer constant (rune constants are not told apart)
				if _, isChar := s.Rhs[0].(*ast.BasicLit); isChar && s.Rhs[0].(*ast.BasicLit).Kind == token.CHAR {
					v, err = conv(v, tRune)
				} else {
					v, err = conv(v, tInt)
				}
				if err != nil {
					return "", err
				}
			}
			r, err := c.block(rest, en.with(id.Name, binding{ln, v.typ}), final, depth)
			if err != nil {
				return "", err
			}
			return fmt.Sprintf("%slet %s : %s := %s\n%s", ind(depth), ln, v.typ.lean(), v.text, r), nil
		case token.ASSIGN:
			if ix, ok := s.Lhs[0].(*ast.IndexExpr); ok { // x[i] = e on a []byte variable
				id, ok := ix.X.(*ast.Ident)
				if !ok {
					return "", lostf("assignment %s", c.tr.src(s))
				}
				b, ok := en[id.Name]
				if !ok || b.typ != tBytes {
					return "", lostf("element assignment to %s", id.Name)
				}
				i, err := c.intExpr(ix.Index, en)
				if err != nil {
					return "", err
				}
				v, err := c.typed(s.Rhs[0], en, tByte)
				if err != nil {
					return "", err
				}
				r, err := c.block(rest, en, final, depth)
				if err != nil {
					return "", err
				}
				return fmt.Sprintf("%slet %s : Bytes := Go.setIndex %s %s %s\n%s", ind(depth), b.lean, b.lean, i.text, v.text, r), nil
			}
			id, ok := s.Lhs[0].(*ast.Ident)
			if !ok {
				return "", lostf("assignment %s", c.tr.src(s))
			}
			b, ok := en[id.Name]
			if !ok {
				return "", lostf("assignment to %s, which is not a variable of the subset", id.Name)
			}
			v, err := c.typed(s.Rhs[0], en, b.typ)
			if err != nil {
				return "", err
			}
			r, err := c.block(rest, en, final, depth)
			if err != nil {
				return "", err
			}
			return fmt.Sprintf("%slet %s : %s := %s\n%s", ind(depth), b.lean, b.typ.lean(), v.text, r), nil
		}
		return "", lostf("assignment operator %s", s.Tok)

	case *ast.IfStmt:
		if s.Init != nil {
			return "", lostf("if with an init statement")
		}
		cond, err := c.typed(s.Cond, en, tBool)
		if err != nil {
			return "", err
		}
		var els []ast.Stmt
		switch e := s.Else.(type) {
		case nil:
		case *ast.BlockStmt:
			els = e.List
		default:
			return "", lostf("else-if chain")
		}
		thenRet, elseRet := definitelyReturns(s.Body.List), definitelyReturns(els)
		switch {
		case thenRet && final == "":
			if s.Else != nil && elseRet && len(rest) != 0 {
				return "", lostf("statements after an if/else that always returns")
			}
			a, err := c.block(s.Body.List, en, "", depth+1)
			if err != nil {
				return "", err
			}
			b, err := c.block(append(append([]ast.Stmt{}, els...), rest...), en, "", depth)
			if err != nil {
				return "", err
			}
			return fmt.Sprintf("%sif %s then\n%s%selse\n%s", ind(depth), cond.text, a, ind(depth), b), nil
		case !hasReturn(s.Body.List) && !hasReturn(els):
			as1, de1 := assignedAndDeclared(s.Body.List)
			as2, de2 := assignedAndDeclared(els)
			var vars []string
			for v := range as1 {
				as2[v] = true
			}
			for v := range as2 {
				if de1[v] || de2[v] {
					return "", lostf("variable %s both declared and assigned inside an if", v)
				}
				if _, ok := en[v]; !ok {
					return "", lostf("assignment to %s, which is not a variable of the subset", v)
				}
				vars = append(vars, v)
			}
			sort.Strings(vars)
			if len(vars) == 0 {
				return "", lostf("if without effect on the variables of the subset")
			}
			var names, types []string
			for _, v := range vars {
				names = append(names, en[v].lean)
				types = append(types, en[v].typ.lean())
			}
			tuple, typ := names[0], types[0]
			if len(vars) > 1 {
				tuple = "(" + strings.Join(names, ", ") + ")"
				typ = strings.Join(types, " × ")
			}
			a, err := c.block(s.Body.List, en, tuple, depth+2)
			if err != nil {
				return "", err
			}
			b, err := c.block(els, en, tuple, depth+2)
			if err != nil {
				return "", err
			}
			r, err := c.block(rest, en, final, depth)
			if err != nil {
				return "", err
			}
			return fmt.Sprintf("%slet %s : %s :=\n%sif %s then\n%s%selse\n%s%s", ind(depth), tuple, typ,
				ind(depth+1), cond.text, a, ind(depth+1), b, r), nil
		}
		return "", lostf("if whose branches mix returning and falling through")

	case *ast.RangeStmt:
		// for _, v := range xs { acc = E }   ↦   let acc := List.foldl (fun acc v => E) acc xs
		if k, ok := s.Key.(*ast.Ident); !ok || k.Name != "_" || s.Tok != token.DEFINE {
			return "", lostf("range loop that is not `for _, v := range xs`")
		}
		vid, ok := s.Value.(*ast.Ident)
		if !ok || vid.Name == "_" {
			return "", lostf("range loop without a value variable")
		}
		xs, err := c.expr(s.X, en)
		if err != nil {
			return "", err
		}
		et := xs.typ.elem()
		if et == tBad {
			return "", lostf("range over %s (only []byte, []uint64, []string and operand lists)", xs.typ.lean())
		}
		if len(s.Body.List) != 1 {
			return "", lostf("loop body is not a single assignment `acc = e`")
		}
		as, ok := s.Body.List[0].(*ast.AssignStmt)
		if !ok || as.Tok != token.ASSIGN || len(as.Lhs) != 1 || len(as.Rhs) != 1 {
			return "", lostf("loop body is not a single assignment `acc = e`")
		}
		aid, ok := as.Lhs[0].(*ast.Ident)
		if !ok {
			return "", lostf("loop body is not a single assignment `acc = e`")
		}
		acc, ok := en[aid.Name]
		if !ok || aid.Name == vid.Name {
			return "", lostf("loop accumulator %s is not a variable of the subset", aid.Name)
		}
		vln, err := leanIdent(vid.Name)
		if err != nil {
			return "", err
		}
		if vln == acc.lean {
			return "", lostf("loop variable and accumulator have the same name")
		}
		v, err := c.typed(as.Rhs[0], en.with(vid.Name, binding{vln, et}), acc.typ)
		if err != nil {
			return "", err
		}
		r, err := c.block(rest, en, final, depth)
		if err != nil {
			return "", err
		}
		return fmt.Sprintf("%slet %s : %s := List.foldl (fun (%s : %s) (%s : %s) => %s) %s %s\n%s", ind(depth),
			acc.lean, acc.typ.lean(), acc.lean, acc.typ.lean(), vln, et.lean(), v.text, acc.lean, xs.text, r), nil
	}
	return "", lostf("statement %s", c.tr.src(s))
}

// a, err := strconv.ParseInt(x, 10, 32|64) followed by `if err != nil { …return }`
func (c *tctx) twoResult(s *ast.AssignStmt, rest []ast.Stmt, en env, final string, depth int) (string, error) {
	a, ok1 := s.Lhs[0].(*ast.Ident)
	er, ok2 := s.Lhs[1].(*ast.Ident)
	call, ok3 := s.Rhs[0].(*ast.CallExpr)
	if !ok1 || !ok2 || !ok3 || a.Name == "_" || er.Name == "_" {
		return "", lostf("two-result assignment %s", c.tr.src(s))
	}
	if !(c.pkgSel(call.Fun, en, "strconv", "strconv", "ParseInt") && len(call.Args) == 3) {
		return "", lostf("two-result call %s is not in the whitelist", c.tr.src(call.Fun))
	}
	if c.tr.src(call.Args[1]) != "10" {
		return "", lostf("strconv.ParseInt with base %s", c.tr.src(call.Args[1]))
	}
	var f string
	switch c.tr.src(call.Args[2]) {
	case "32":
		f = "Go.parseInt32"
	case "64":
		f = "Go.parseInt64"
	default:
		return "", lostf("strconv.ParseInt with bit size %s", c.tr.src(call.Args[2]))
	}
	x, err := c.typed(call.Args[0], en, tString)
	if err != nil {
		return "", err
	}
	if len(rest) == 0 {
		return "", lostf("error result of strconv.ParseInt is not checked next")
	}
	chk, ok := rest[0].(*ast.IfStmt)
	if !ok || chk.Init != nil || chk.Else != nil || c.tr.src(chk.Cond) != er.Name+" != nil" || !definitelyReturns(chk.Body.List) {
		return "", lostf("strconv.ParseInt is not followed by `if %s != nil { … return … }`", er.Name)
	}
	if final != "" {
		return "", lostf("error check inside a block that must fall through")
	}
	aln, err := leanIdent(a.Name)
	if err != nil {
		return "", err
	}
	// error branch: neither the value nor err is in scope (so any use of them loses the function)
	enErr := env{}
	for k, v := range en {
		if k != a.Name && k != er.Name {
			enErr[k] = v
		}
	}
	bad, err := c.block(chk.Body.List, enErr, "", depth+1)
	if err != nil {
		return "", err
	}
	enOk := enErr.with(a.Name, binding{aln, tInt64})
	good, err := c.block(rest[1:], enOk, "", depth+1)
	if err != nil {
		return "", err
	}
	return fmt.Sprintf("%smatch %s %s with\n%s| none =>\n%s%s| some %s =>\n%s", ind(depth), f, x.text,
		ind(depth), bad, ind(depth), aln, good), nil
}

// ---------------------------------------------------------------- targets

type lparam struct {
	lean string
	typ  gtype
}

// a translated unit, ready to print
type unit struct {
	name   string // Lean name
	doc    string // where it comes from
	hash   bool   // takes (H : Bytes → UInt64) first
	params []lparam
	result gtype
	body   string // indented Lean term
}

func (u unit) String() string {
	var b strings.Builder
	fmt.Fprintf(&b, "/-- %s -/\ndef %s", strings.ReplaceAll(u.doc, "-/", "- /"), u.name)
	if u.hash {
		b.WriteString(" (H : Bytes → UInt64)")
	}
	for _, p := range u.params {
		fmt.Fprintf(&b, " (%s : %s)", p.lean, p.typ.lean())
	}
	fmt.Fprintf(&b, " : %s :=\n%s", u.result.lean(), u.body)
	return b.String()
}

func (tr *translator) newCtx(rel string, f *ast.File) *tctx {
	return &tctx{tr: tr, file: f, rel: rel, atoms: map[string]binding{}, consts: map[string]int64{}}
}

// funcParams: parameters of a function type as an environment; override gives types for named parameters;
// parameters of types outside the subset are simply not variables of the subset (using them loses the function).
func (tr *translator) funcParams(ft *ast.FuncType, override map[string]gtype, skip map[string]bool) ([]lparam, env, error) {
	en := env{}
	var ps []lparam
	if ft.Params != nil {
		for _, fld := range ft.Params.List {
			for _, id := range fld.Names {
				if skip[id.Name] {
					continue
				}
				t, ok := override[id.Name]
				if !ok {
					t = tr.goType(fld.Type)
				}
				if t == tBad {
					continue
				}
				ln, err := leanIdent(id.Name)
				if err != nil {
					return nil, nil, err
				}
				ps = append(ps, lparam{ln, t})
				en[id.Name] = binding{ln, t}
			}
		}
	}
	return ps, en, nil
}

func (tr *translator) resultType(ft *ast.FuncType) gtype {
	if ft.Results == nil || len(ft.Results.List) != 1 || len(ft.Results.List[0].Names) > 1 {
		return tBad
	}
	return tr.goType(ft.Results.List[0].Type)
}

// plainFunc: a whole function declaration
func (tr *translator) plainFunc(rel, name, lean string) (unit, error) {
	f, fd := tr.fn(rel, "", name)
	if fd == nil {
		return unit{}, lostf("function %s not found in %s", name, rel)
	}
	c := tr.newCtx(rel, f)
	ps, en, err := tr.funcParams(fd.Type, nil, nil)
	if err != nil {
		return unit{}, err
	}
	c.result = tr.resultType(fd.Type)
	if c.result == tBad {
		return unit{}, lostf("result type of %s", name)
	}
	body, err := c.block(fd.Body.List, en, "", 1)
	if err != nil {
		return unit{}, err
	}
	return unit{name: lean, doc: fmt.Sprintf("`%s` of %s", name, rel), params: ps, result: c.result, body: body}, nil
}

// hashInput: a function whose every return is `xxhash.Sum64(E)`; the unit is the hashed byte string E
func (tr *translator) hashInput(rel, name, lean string) (unit, error) {
	f, fd := tr.fn(rel, "", name)
	if fd == nil {
		return unit{}, lostf("function %s not found in %s", name, rel)
	}
	if tr.resultType(fd.Type) != tU64 {
		return unit{}, lostf("%s does not return a uint64", name)
	}
	c := tr.newCtx(rel, f)
	ps, en, err := tr.funcParams(fd.Type, nil, nil)
	if err != nil {
		return unit{}, err
	}
	c.result = tBytes
	c.retHook = func(c *tctx, e ast.Expr, en env) (val, error) {
		call, ok := e.(*ast.CallExpr)
		if !ok || len(call.Args) != 1 || !c.pkgSel(call.Fun, en, "xxhash", "github.com/cespare/xxhash/v2", "Sum64") {
			return val{}, lostf("returned value %s is not xxhash.Sum64(…)", c.tr.src(e))
		}
		return c.typed(call.Args[0], en, tBytes)
	}
	body, err := c.block(fd.Body.List, en, "", 1)
	if err != nil {
		return unit{}, err
	}
	return unit{name: lean, doc: fmt.Sprintf("the byte string `%s` of %s passes to `xxhash.Sum64`", name, rel),
		params: ps, result: tBytes, body: body}, nil
}

// structField: source of the type of field `field` of struct type `typ` in file f ("" if absent)
func (tr *translator) structField(f *ast.File, typ, field string) string {
	out := ""
	ast.Inspect(f, func(n ast.Node) bool {
		ts, ok := n.(*ast.TypeSpec)
		if !ok || ts.Name.Name != typ {
			return true
		}
		if st, ok := ts.Type.(*ast.StructType); ok {
			for _, fl := range st.Fields.List {
				for _, id := range fl.Names {
					if id.Name == field {
						out = tr.src(fl.Type)
					}
				}
			}
		}
		return false
	})
	return out
}

// untyped rune/int constants `name = 'c'` declared at package level in f
func (tr *translator) pkgConsts(f *ast.File) map[string]int64 {
	out := map[string]int64{}
	for _, d := range f.Decls {
		gd, ok := d.(*ast.GenDecl)
		if !ok || gd.Tok != token.CONST {
			continue
		}
		for _, s := range gd.Specs {
			vs := s.(*ast.ValueSpec)
			if vs.Type != nil || len(vs.Values) != len(vs.Names) {
				continue
			}
			for i, id := range vs.Names {
				bl, ok := vs.Values[i].(*ast.BasicLit)
				if !ok {
					continue
				}
				switch bl.Kind {
				case token.CHAR:
					if r, _, _, err := strconv.UnquoteChar(bl.Value[1:len(bl.Value)-1], '\''); err == nil {
						out[id.Name] = int64(r)
					}
				case token.INT:
					if k, err := strconv.ParseInt(bl.Value, 0, 64); err == nil {
						out[id.Name] = k
					}
				}
			}
		}
	}
	return out
}

// cacheKeyMethod: `func (e *recv) cacheKey() uint64`, over the parameters standing for the receiver's fields
func (tr *translator) cacheKeyMethod(recv, lean string) (unit, error) {
	const rel = "query.go"
	f, fd := tr.fn(rel, recv, "cacheKey")
	if fd == nil {
		return unit{}, lostf("method %s.cacheKey not found in %s", recv, rel)
	}
	if tr.resultType(fd.Type) != tU64 || fd.Type.Params.NumFields() != 0 || len(fd.Recv.List[0].Names) != 1 {
		return unit{}, lostf("signature of %s.cacheKey", recv)
	}
	r := fd.Recv.List[0].Names[0].Name
	c := tr.newCtx(rel, f)
	c.usesHash = true
	c.result = tU64
	c.consts = tr.pkgConsts(f)
	var ps []lparam
	add := func(field, want, goExpr, lean string, t gtype) error {
		if got := tr.structField(f, recv, field); got != want {
			return lostf("field %s.%s has type %q, expected %q", recv, field, got, want)
		}
		c.atoms[goExpr] = binding{lean, t}
		ps = append(ps, lparam{lean, t})
		return nil
	}
	var err error
	switch recv {
	case "ExprEqual":
		if err = add("Column", "string", r+".Column", "column", tString); err == nil {
			err = add("Value", "string", r+".Value", "value", tString)
		}
	case "ExprNot":
		err = add("Expr", "Expression", r+".Expr.cacheKey()", "sub", tU64)
	case "ExprAnd", "ExprOr":
		err = add("Exprs", "[]Expression", r+".Exprs", "subs", tNodes)
	}
	if err != nil {
		return unit{}, err
	}
	body, err := c.block(fd.Body.List, env{}, "", 1)
	if err != nil {
		return unit{}, err
	}
	return unit{name: lean, doc: fmt.Sprintf("`(*%s).cacheKey` of %s; an operand is represented by its own cacheKey()", recv, rel),
		hash: true, params: ps, result: tU64, body: body}, nil
}

// findAssign: the unique `name := rhs` statement inside fd, with the chain of enclosing statements
func findAssign(fd *ast.FuncDecl, name string) (rhs ast.Expr, parents []ast.Node, count int) {
	var stack []ast.Node
	ast.Inspect(fd.Body, func(n ast.Node) bool {
		if n == nil {
			stack = stack[:len(stack)-1]
			return true
		}
		if as, ok := n.(*ast.AssignStmt); ok && as.Tok == token.DEFINE && len(as.Lhs) == 1 && len(as.Rhs) == 1 {
			if id, ok := as.Lhs[0].(*ast.Ident); ok && id.Name == name {
				count++
				rhs = as.Rhs[0]
				parents = append([]ast.Node{}, stack...)
			}
		}
		stack = append(stack, n)
		return true
	})
	return
}

// parensRule: right-hand side of `requiresParens := …` as a function of (isAnd, isOr) of the operand
func (tr *translator) parensRule(fname, lean string, inLoop bool) (unit, error) {
	const rel = "internal/queryparser/queryformatter.go"
	f, fd := tr.fn(rel, "", fname)
	if fd == nil {
		return unit{}, lostf("function %s not found in %s", fname, rel)
	}
	rhs, parents, n := findAssign(fd, "requiresParens")
	if n != 1 {
		return unit{}, lostf("%d statements `requiresParens := …` in %s", n, fname)
	}
	if fd.Type.Params.NumFields() != 2 || len(fd.Type.Params.List) != 2 || len(fd.Type.Params.List[1].Names) != 1 {
		return unit{}, lostf("signature of %s", fname)
	}
	p := fd.Type.Params.List[1].Names[0].Name // the node being printed
	operand := p + ".Expr"
	if inLoop {
		// the statement must sit directly in `for …, x := range p.Exprs { … }`; the operand is x
		if len(parents) != 3 {
			return unit{}, lostf("`requiresParens := …` is not directly inside the operand loop of %s", fname)
		}
		rs, ok := parents[1].(*ast.RangeStmt)
		if !ok || rs.Tok != token.DEFINE || tr.src(rs.X) != p+".Exprs" {
			return unit{}, lostf("`requiresParens := …` is not inside `range %s.Exprs`", p)
		}
		x, ok := rs.Value.(*ast.Ident)
		if !ok || x.Name == "_" {
			return unit{}, lostf("operand loop of %s has no value variable", fname)
		}
		operand = x.Name
	} else if len(parents) != 1 {
		return unit{}, lostf("`requiresParens := …` is not a top-level statement of %s", fname)
	}
	c := tr.newCtx(rel, f)
	c.atoms[operand+".GetAnd() != nil"] = binding{"isAnd", tBool}
	c.atoms[operand+".GetOr() != nil"] = binding{"isOr", tBool}
	v, err := c.typed(rhs, env{}, tBool)
	if err != nil {
		return unit{}, err
	}
	return unit{name: lean, doc: fmt.Sprintf("`requiresParens := %s` of `%s` (%s); isAnd/isOr stand for `%s.GetAnd() != nil` / `%s.GetOr() != nil`",
		tr.src(rhs), fname, rel, operand, operand),
		params: []lparam{{"isAnd", tBool}, {"isOr", tBool}}, result: tBool, body: ind(1) + v.text + "\n"}, nil
}

// openFlags: the function literal returned under `if opts.<field>` in OpenFile, as flags ↦ flags given to os.OpenFile
func (tr *translator) openFlags(field, lean string) (unit, error) {
	const rel = "internal/openfile/openfile.go"
	f, fd := tr.fn(rel, "", "OpenFile")
	if fd == nil {
		return unit{}, lostf("function OpenFile not found in %s", rel)
	}
	if fd.Type.Params.NumFields() != 1 || len(fd.Type.Params.List[0].Names) != 1 {
		return unit{}, lostf("signature of OpenFile")
	}
	opts := fd.Type.Params.List[0].Names[0].Name
	// the returned function literal whose path condition is "no earlier option, and opts.<field>"
	var lit *ast.FuncLit
	n := 0
	ast.Inspect(fd.Body, func(nd ast.Node) bool {
		rs, ok := nd.(*ast.ReturnStmt)
		if !ok || len(rs.Results) != 1 {
			return true
		}
		fl, ok := rs.Results[0].(*ast.FuncLit)
		if !ok {
			return true
		}
		pcs, ok := pathCond(fd.Body.List, rs)
		if !ok || len(pcs) == 0 {
			return false
		}
		last := pcs[len(pcs)-1]
		if !last.pos || tr.src(last.e) != opts+"."+field {
			return false
		}
		for _, pc := range pcs[:len(pcs)-1] {
			if pc.pos {
				return false
			}
		}
		n++
		lit = fl
		return false
	})
	if n != 1 || lit == nil {
		return unit{}, lostf("no unique `return func…` reached exactly when %s.%s holds (and no earlier option) in OpenFile", opts, field)
	}
	var names []string
	for _, fl := range lit.Type.Params.List {
		for _, id := range fl.Names {
			names = append(names, id.Name)
		}
	}
	if len(names) != 3 || tr.src(lit.Type.Params.List[len(lit.Type.Params.List)-1].Type) != "os.FileMode" {
		return unit{}, lostf("parameters of the function literal")
	}
	var flagsT ast.Expr
	for _, fl := range lit.Type.Params.List {
		for _, id := range fl.Names {
			if id.Name == names[1] {
				flagsT = fl.Type
			}
		}
	}
	if tr.src(flagsT) != "int" {
		return unit{}, lostf("flags parameter is not an int")
	}
	if len(lit.Body.List) != 1 {
		return unit{}, lostf("function literal is not a single return")
	}
	rs, ok := lit.Body.List[0].(*ast.ReturnStmt)
	if !ok || len(rs.Results) != 1 {
		return unit{}, lostf("function literal is not a single return")
	}
	c := tr.newCtx(rel, f)
	ps, en, err := tr.funcParams(lit.Type, map[string]gtype{names[1]: tFlags}, map[string]bool{names[0]: true, names[2]: true})
	if err != nil {
		return unit{}, err
	}
	call, ok := rs.Results[0].(*ast.CallExpr)
	if !ok || len(call.Args) != 3 || !c.pkgSel(call.Fun, en, "os", "os", "OpenFile") ||
		tr.src(call.Args[0]) != names[0] || tr.src(call.Args[2]) != names[2] {
		return unit{}, lostf("returned value is not os.OpenFile(%s, …, %s)", names[0], names[2])
	}
	v, err := c.typed(call.Args[1], en, tFlags)
	if err != nil {
		return unit{}, err
	}
	return unit{name: lean, doc: fmt.Sprintf("flags the function literal of `OpenFile` (%s) for `%s` passes to `os.OpenFile`: `%s`", rel, field, tr.src(call.Args[1])),
		params: ps, result: tFlags, body: ind(1) + v.text + "\n"}, nil
}

// pathCond: the branch conditions under which control reaches `target` inside `stmts`: every enclosing if / else /
// tagless switch case contributes its condition (pos = false: negated), and so does every earlier sibling `if` one of
// whose branches definitely returns. ok = false when target is not inside stmts or the path crosses a statement
// this does not understand (a loop, a tagged switch, a select, …).
type pcond struct {
	e   ast.Expr
	pos bool
}

func contains(n ast.Node, target ast.Node) bool {
	if n == nil {
		return false
	}
	found := false
	ast.Inspect(n, func(x ast.Node) bool {
		if x == target {
			found = true
		}
		return !found
	})
	return found
}

func pathCond(stmts []ast.Stmt, target ast.Node) ([]pcond, bool) {
	var acc []pcond
	for _, s := range stmts {
		if !contains(s, target) {
			// an earlier sibling that may leave the function narrows the path
			if is, ok := s.(*ast.IfStmt); ok && is.Init == nil {
				bodyRet := definitelyReturns(is.Body.List)
				switch el := is.Else.(type) {
				case nil:
					if bodyRet {
						acc = append(acc, pcond{is.Cond, false})
					} else if hasReturn(is.Body.List) {
						return nil, false
					}
				case *ast.BlockStmt:
					elseRet := definitelyReturns(el.List)
					switch {
					case bodyRet && elseRet:
						return nil, false // unreachable
					case bodyRet && !hasReturn(el.List):
						acc = append(acc, pcond{is.Cond, false})
					case elseRet && !hasReturn(is.Body.List):
						acc = append(acc, pcond{is.Cond, true})
					case hasReturn(is.Body.List) || hasReturn(el.List):
						return nil, false
					}
				default:
					if hasReturn([]ast.Stmt{s}) {
						return nil, false
					}
				}
			} else if hasReturn([]ast.Stmt{s}) {
				return nil, false
			}
			continue
		}
		if s == target {
			return acc, true
		}
		switch x := s.(type) {
		case *ast.IfStmt:
			if x.Init != nil {
				return nil, false
			}
			if contains(x.Body, target) {
				rest, ok := pathCond(x.Body.List, target)
				return append(append(acc, pcond{x.Cond, true}), rest...), ok
			}
			acc = append(acc, pcond{x.Cond, false})
			switch el := x.Else.(type) {
			case *ast.BlockStmt:
				rest, ok := pathCond(el.List, target)
				return append(acc, rest...), ok
			case *ast.IfStmt:
				rest, ok := pathCond([]ast.Stmt{el}, target)
				return append(acc, rest...), ok
			}
			return nil, false
		case *ast.SwitchStmt:
			if x.Init != nil || x.Tag != nil {
				return nil, false
			}
			// cases are tried in source order; default is taken when no case holds
			var hit *ast.CaseClause
			for _, cs := range x.Body.List {
				cc := cs.(*ast.CaseClause)
				for _, b := range cc.Body {
					if contains(b, target) {
						hit = cc
					}
				}
			}
			if hit == nil {
				return nil, false
			}
			for _, cs := range x.Body.List {
				cc := cs.(*ast.CaseClause)
				if len(cc.List) > 1 {
					return nil, false
				}
				for _, b := range cc.Body {
					if bs, ok := b.(*ast.BranchStmt); ok && bs.Tok == token.FALLTHROUGH {
						return nil, false
					}
				}
				if cc == hit {
					if len(cc.List) == 1 {
						acc = append(acc, pcond{cc.List[0], true})
					} else {
						// default: negation of every case
						for _, o := range x.Body.List {
							if oc := o.(*ast.CaseClause); oc != hit {
								acc = append(acc, pcond{oc.List[0], false})
							}
						}
					}
					rest, ok := pathCond(cc.Body, target)
					return append(acc, rest...), ok
				}
				if len(cc.List) == 1 && len(hit.List) == 1 {
					acc = append(acc, pcond{cc.List[0], false})
				}
			}
			return nil, false
		case *ast.BlockStmt:
			rest, ok := pathCond(x.List, target)
			return append(acc, rest...), ok
		}
		return nil, false
	}
	return nil, false
}

// conj: the conjunction of path conditions as one Lean Bool term
func (c *tctx) conj(pcs []pcond, en env) (val, string, error) {
	var parts, srcs []string
	for _, pc := range pcs {
		v, err := c.typed(pc.e, en, tBool)
		if err != nil {
			return val{}, "", err
		}
		if pc.pos {
			parts = append(parts, v.text)
			srcs = append(srcs, c.tr.src(pc.e))
		} else {
			parts = append(parts, "(!"+v.text+")")
			srcs = append(srcs, "!("+c.tr.src(pc.e)+")")
		}
	}
	if len(parts) == 0 {
		return val{text: "true", typ: tBool}, "true", nil
	}
	if len(parts) == 1 {
		return val{text: parts[0], typ: tBool}, srcs[0], nil
	}
	return val{text: "(" + strings.Join(parts, " && ") + ")", typ: tBool}, strings.Join(srcs, " && "), nil
}

// headerRune: the function literal given to strings.Map in normalizeHeader
func (tr *translator) headerRune(lean string) (unit, error) {
	const rel = "cmd/updog/create.go"
	f, fd := tr.fn(rel, "", "normalizeHeader")
	if fd == nil {
		return unit{}, lostf("function normalizeHeader not found in %s", rel)
	}
	c := tr.newCtx(rel, f)
	var lit *ast.FuncLit
	n := 0
	ast.Inspect(fd.Body, func(nd ast.Node) bool {
		call, ok := nd.(*ast.CallExpr)
		if ok && len(call.Args) == 2 && c.pkgSel(call.Fun, env{}, "strings", "strings", "Map") {
			n++
			lit, _ = call.Args[0].(*ast.FuncLit)
		}
		return true
	})
	if n != 1 || lit == nil {
		return unit{}, lostf("no unique strings.Map(func…, …) in normalizeHeader")
	}
	ps, en, err := tr.funcParams(lit.Type, nil, nil)
	if err != nil {
		return unit{}, err
	}
	c.result = tr.resultType(lit.Type)
	if len(ps) != 1 || ps[0].typ != tRune || c.result != tRune {
		return unit{}, lostf("mapping function is not func(rune) rune")
	}
	body, err := c.block(lit.Body.List, en, "", 1)
	if err != nil {
		return unit{}, err
	}
	return unit{name: lean, doc: "the mapping function given to `strings.Map` in `normalizeHeader` of " + rel + ", on code points",
		params: ps, result: tRune, body: body}, nil
}

// newRowsGrouped: the condition of the if statement of newRows that chooses between group rows and the count row
func (tr *translator) newRowsGrouped(lean string) (unit, error) {
	const rel = "driver/driver.go"
	f, fd := tr.fn(rel, "", "newRows")
	if fd == nil {
		return unit{}, lostf("function newRows not found in %s", rel)
	}
	// the loop over result.Groups, and the branch conditions under which it runs
	var loop *ast.RangeStmt
	n := 0
	ast.Inspect(fd.Body, func(nd ast.Node) bool {
		if rs, ok := nd.(*ast.RangeStmt); ok {
			if sel, ok := rs.X.(*ast.SelectorExpr); ok && sel.Sel.Name == "Groups" {
				n++
				loop = rs
				return false
			}
		}
		return true
	})
	if n != 1 {
		return unit{}, lostf("newRows has no unique loop over result.Groups")
	}
	pcs, ok := pathCond(fd.Body.List, loop)
	if !ok {
		return unit{}, lostf("the branch conditions leading to the loop over result.Groups in newRows are not understood")
	}
	c := tr.newCtx(rel, f)
	ps, en, err := tr.funcParams(fd.Type, nil, nil)
	if err != nil {
		return unit{}, err
	}
	assigned, _ := assignedAndDeclared(fd.Body.List)
	for _, pc := range pcs {
		for _, id := range rootIdents(pc.e) {
			if assigned[id] {
				return unit{}, lostf("newRows assigns %s, which a branch condition reads", id)
			}
		}
	}
	v, srcText, err := c.conj(pcs, en)
	if err != nil {
		return unit{}, err
	}
	return unit{name: lean, doc: fmt.Sprintf("condition `%s` under which `newRows` (%s) yields one row per group (the loop over `result.Groups` runs)", srcText, rel),
		params: ps, result: tBool, body: ind(1) + v.text + "\n"}, nil
}

// queryID: `qid := pbq.Id; if qid == 0 { qid = int32(idx + 1) }` of the loop of server.Query
func (tr *translator) queryID(lean string) (unit, error) {
	const rel = "cmd/updog/server.go"
	f, fd := tr.fn(rel, "server", "Query")
	if fd == nil {
		return unit{}, lostf("method server.Query not found in %s", rel)
	}
	rhs, parents, n := findAssign(fd, "qid")
	if n != 1 || len(parents) != 3 {
		return unit{}, lostf("no unique `qid := …` directly inside the query loop")
	}
	rs, ok := parents[1].(*ast.RangeStmt)
	if !ok || rs.Tok != token.DEFINE {
		return unit{}, lostf("`qid := …` is not inside a range loop")
	}
	idx, ok1 := rs.Key.(*ast.Ident)
	pbq, ok2 := rs.Value.(*ast.Ident)
	if !ok1 || !ok2 || idx.Name == "_" || pbq.Name == "_" || tr.src(rhs) != pbq.Name+".Id" {
		return unit{}, lostf("loop is not `for idx, pbq := range …` with `qid := pbq.Id`")
	}
	// the statements from `qid :=` up to (excluding) the first statement that is not an if on qid
	var stmts []ast.Stmt
	started := false
	for _, s := range rs.Body.List {
		if as, ok := s.(*ast.AssignStmt); ok && len(as.Rhs) == 1 && as.Rhs[0] == rhs {
			started = true
			stmts = append(stmts, s)
			continue
		}
		if started {
			if _, ok := s.(*ast.IfStmt); !ok {
				break
			}
			stmts = append(stmts, s)
		}
	}
	// qid must not be assigned anywhere else in the loop body
	cnt := 0
	ast.Inspect(rs.Body, func(nd ast.Node) bool {
		if as, ok := nd.(*ast.AssignStmt); ok && as.Tok != token.DEFINE {
			for _, l := range as.Lhs {
				if id, ok := l.(*ast.Ident); ok && id.Name == "qid" {
					cnt++
				}
			}
		}
		return true
	})
	inside, _ := assignedAndDeclared(stmts)
	if cnt != 1 || !inside["qid"] {
		return unit{}, lostf("qid is assigned %d times in the loop", cnt)
	}
	c := tr.newCtx(rel, f)
	c.result = tInt32
	c.atoms[pbq.Name+".Id"] = binding{"id", tInt32}
	iln, err := leanIdent(idx.Name)
	if err != nil {
		return unit{}, err
	}
	en := env{idx.Name: binding{iln, tInt}}
	body, err := c.block(stmts, en, "qid", 1)
	if err != nil {
		return unit{}, err
	}
	return unit{name: lean, doc: fmt.Sprintf("the query id `server.Query` (%s) reports for the query at position `%s` whose request id is `id`", rel, idx.Name),
		params: []lparam{{"id", tInt32}, {iln, tInt}}, result: tInt32, body: body}, nil
}

// ---------------------------------------------------------------- driver

// [t1] genHeader: added the line `import Updog.Basic.GoPreludeT1`
const genHeader = `import Updog.Basic.GoPrelude
import Updog.Basic.GoPreludeT1
import Updog.Basic.GoPreludeT2 -- [t2]
import Updog.Basic.GoPreludeT6 -- [t6]
import Updog.Basic.GoPreludeT5 -- [t5]
import Updog.Basic.GoPreludeT3 -- [t3]
import Updog.Basic.GoPreludeT4 -- [t4]
import Updog.Basic.GoPreludeT7 -- [t7]
import Updog.Basic.GoPreludeT8 -- [t8]
/-
GENERATED by /verif/extract (translate.go) from the Go source on every run of ./check. Do not edit.
Lean transcriptions of small pure Go functions, over the primitives of Updog/Basic/GoPrelude.lean.
Updog/Props/GeneratedEq.lean proves each of them equal to the hand-written model.
A function the translator could not translate is "lost": it appears here only as a comment.
-/
set_option linter.unusedVariables false
namespace Updog.Gen

`

// translateAll translates the fixed list of functions of the repository; lost maps a Lean name to the reason
// the function could not be translated.
func translateAll(repo string) (leanText string, lost map[string]string) {
	tr := &translator{repo: repo, fset: token.NewFileSet(), files: map[string]*ast.File{}, done: map[string]bool{}}
	lost = map[string]string{}
	var b strings.Builder
	b.WriteString(genHeader)
	emit := func(name string, u unit, err error) bool {
		if err != nil {
			lost[name] = err.Error()
			fmt.Fprintf(&b, "-- LOST %s: %s\n\n", name, strings.ReplaceAll(err.Error(), "\n", " "))
			return false
		}
		b.WriteString(u.String())
		b.WriteString("\n")
		tr.done[name] = true
		return true
	}
	wrap := func(ok bool, name, text string) {
		if ok {
			b.WriteString(text + "\n")
			tr.done[name] = true
		} else {
			lost[name] = "depends on a lost function"
			fmt.Fprintf(&b, "-- LOST %s: depends on a lost function\n\n", name)
		}
	}
	const qp = "internal/queryparser/queryparser.go"
	const qf = "internal/queryparser/queryformatter.go"
	u, err := tr.plainFunc(qp, "decodeString", "decodeString")
	emit("decodeString", u, err)
	u, err = tr.plainFunc(qp, "decodePlaceholder", "decodePlaceholder")
	emit("decodePlaceholder", u, err)
	u, err = tr.plainFunc(qf, "formatString", "formatString")
	emit("formatString", u, err)
	u, err = tr.parensRule("notExprToString", "notParens", false)
	emit("notParens", u, err)
	u, err = tr.parensRule("andExprToString", "andParens", true)
	emit("andParens", u, err)
	u, err = tr.parensRule("orExprToString", "orParens", true)
	emit("orParens", u, err)
	u, err = tr.openFlags("FailIfFileExists", "excl")
	emit("excl", u, err)
	u, err = tr.openFlags("FailIfFileDoesntExist", "noCreate")
	emit("noCreate", u, err)
	u, err = tr.hashInput("writer.go", "getValueIndex", "valueIndexInput")
	ok := emit("valueIndexInput", u, err)
	if ok && len(u.params) != 2 {
		ok = false
	}
	wrap(ok, "getValueIndex", "/-- `getValueIndex` of writer.go: `xxhash.Sum64` (here `H`) of `valueIndexInput` -/\n"+
		"def getValueIndex (H : Bytes → UInt64) (k v : Bytes) : UInt64 :=\n  H (valueIndexInput k v)\n")
	u, err = tr.hashInput("query.go", "mixCacheKey", "mixInput")
	ok = emit("mixInput", u, err)
	if ok && !(len(u.params) == 2 && u.params[0].typ == tByte && u.params[1].typ == tU64s) {
		ok = false
	}
	wrap(ok, "mixCacheKey", "/-- `mixCacheKey` of query.go: `xxhash.Sum64` (here `H`) of `mixInput` -/\n"+
		"def mixCacheKey (H : Bytes → UInt64) (tag : UInt8) (keys : List UInt64) : UInt64 :=\n  H (mixInput tag keys)\n")
	for _, k := range [][2]string{{"ExprEqual", "cacheKeyEqual"}, {"ExprNot", "cacheKeyNot"}, {"ExprAnd", "cacheKeyAnd"}, {"ExprOr", "cacheKeyOr"}} {
		u, err = tr.cacheKeyMethod(k[0], k[1])
		emit(k[1], u, err)
	}
	u, err = tr.headerRune("headerRune")
	emit("headerRune", u, err)
	u, err = tr.newRowsGrouped("newRowsGrouped")
	emit("newRowsGrouped", u, err)
	u, err = tr.queryID("queryId")
	emit("queryId", u, err)
	tr.translateT1(emit, wrap) // [t1]
	tr.translateT2(emit, wrap) // [t2] cache.go: nullCache, NewLRUCache, LRUCache.Get, LRUCache.Put
	tr.translateT6(emit, wrap) // [t6]
	tr.translateT5(emit, wrap) // [t5]
	tr.translateT3(emit, wrap) // [t3]
	tr.translateT4(emit, wrap) // [t4]
	tr.translateT7(emit, wrap) // [t7]
	tr.translateT8(emit, wrap) // [t8]
	b.WriteString("end Updog.Gen\n")
	return b.String(), lost
}
