module verif/extract

go 1.23.0
