// translate_t2.go: cache.go (nullCache, NewLRUCache, WithCacheMetrics, LRUCache.Get, LRUCache.Put) ↦ Lean.
//
// Methods with a pointer receiver to a struct of the package are translated in state-passing style over a Lean
// `structure` generated from the Go struct declaration; `container/list`, `map`, counter interfaces and opaque
// pointers become the primitives of Updog/Basic/GoPreludeT2.lean (see the conventions at the top of that file).
// The statement translator below (t2fn.block) derives the Lean text from the statements it finds, in order:
//
//	field assignment / += / -=            ↦ `let c : S := { c with f := … }`
//	x.Inc(), l.MoveToFront(e), delete(m,k) ↦ the same, with the prelude primitive
//	l.PushFront(v), l.Remove(e) (a value and an effect) ↦ a let for the pair, a let for the state, the value
//	v, ok := m[k]                         ↦ the two projections of Go.GoMap.lookup
//	if (with or without init statement)   ↦ if-then-else; branches that fall through yield the mutated variables,
//	                                         a branch that returns gets the rest of the function as continuation
//	for cond { body }                     ↦ three definitions name_forN_cond / _body / name_forN (fuel-recursive)
//	for _, o := range opts { o(x) }       ↦ List.foldl
//
// Anything else loses the function.
package main

import (
	"fmt"
	"go/ast"
	"go/token"
	"os"
	"path/filepath"
	"sort"
	"strings"
)

// ---------------------------------------------------------------- types

// named types: gtype values from 2000 on, names in t2TypeNames (used by gtype.lean)
var t2TypeNames = map[gtype]string{}

const (
	tRef     gtype = 2000 + iota // pointer to an opaque object (*roaring.Bitmap) ↦ Go.Ref
	tElem                        // *list.Element ↦ Go.Elem
	tCounter                     // interface { Inc() } ↦ Go.Counter
	tNil                         // the untyped nil
	tMutex                       // sync.Mutex: no value
	tUnitT2                      // no result
	t2FirstDynamic
)

func init() {
	t2TypeNames[tRef] = "Go.Ref"
	t2TypeNames[tElem] = "Go.Elem"
	t2TypeNames[tCounter] = "Go.Counter"
	t2TypeNames[tNil] = "nil"
	t2TypeNames[tUnitT2] = "Unit"
}

type t2kind int

const (
	kStruct t2kind = iota
	kLList         // *list.List with values of type elem
	kMap           // map[key]elem
	kOptFn         // func(c *S): a state transformer of struct type elem
	kSlice         // []elem / ...elem of a named type ↦ List
)

type t2field struct {
	name string
	typ  gtype
	src  string
}

type t2type struct {
	kind   t2kind
	goName string
	fields []t2field // struct, in declaration order, without the mutex
	mutex  string    // struct: name of the sync.Mutex field ("" = none)
	key    gtype
	elem   gtype
}

type t2 struct {
	tr      *translator
	rel     string
	file    *ast.File
	types   map[gtype]*t2type
	byKey   map[string]gtype // canonical description ↦ gtype
	next    gtype
	out     strings.Builder   // structures and package values, in dependency order
	pkgDone map[string]string // package-level value ↦ Lean name already emitted
	failed  map[string]error  // struct name ↦ why it is not in the subset
}

func (t *t2) newType(key string, ty *t2type, lean string) gtype {
	if g, ok := t.byKey[key]; ok {
		return g
	}
	g := t.next
	t.next++
	t.byKey[key] = g
	t.types[g] = ty
	t2TypeNames[g] = lean
	return g
}

func (t *t2) kindOf(g gtype) (t2kind, *t2type, bool) {
	ty, ok := t.types[g]
	if !ok {
		return 0, nil, false
	}
	return ty.kind, ty, true
}

func (t *t2) isStruct(g gtype) bool {
	k, _, ok := t.kindOf(g)
	return ok && k == kStruct
}

func (t *t2) field(g gtype, name string) (gtype, bool) {
	_, ty, ok := t.kindOf(g)
	if !ok || ty.kind != kStruct {
		return tBad, false
	}
	for _, f := range ty.fields {
		if f.name == name {
			return f.typ, true
		}
	}
	return tBad, false
}

// typeDecl: the declaration `type name …` of the file
func (t *t2) typeDecl(name string) *ast.TypeSpec {
	for _, d := range t.file.Decls {
		gd, ok := d.(*ast.GenDecl)
		if !ok || gd.Tok != token.TYPE {
			continue
		}
		for _, s := range gd.Specs {
			if ts := s.(*ast.TypeSpec); ts.Name.Name == name && ts.TypeParams == nil {
				return ts
			}
		}
	}
	return nil
}

func (t *t2) pkgIdent(e ast.Expr, pkg, path, sel string) bool {
	s, ok := e.(*ast.SelectorExpr)
	if !ok || s.Sel.Name != sel {
		return false
	}
	id, ok := s.X.(*ast.Ident)
	return ok && id.Name == pkg && imports(t.file, pkg, path) && !t.tr.pkgDeclares(t.rel, pkg)
}

// listValueType: container/list is untyped; the value type of the lists of this file is the unique `*T` that
// values are type-asserted to.
func (t *t2) listValueType() (gtype, error) {
	names := map[string]bool{}
	ast.Inspect(t.file, func(n ast.Node) bool {
		if ta, ok := n.(*ast.TypeAssertExpr); ok && ta.Type != nil {
			names[t.tr.src(ta.Type)] = true
		}
		return true
	})
	if len(names) != 1 {
		return tBad, lostf("the values of the list are type-asserted to %d different types", len(names))
	}
	for n := range names {
		if !strings.HasPrefix(n, "*") {
			return tBad, lostf("list values are asserted to %s, not to a pointer to a struct", n)
		}
		g, err := t.structType(n[1:])
		return g, err
	}
	return tBad, nil
}

// goType maps a Go type expression to the subset (tBad + error if it is outside)
func (t *t2) goType(e ast.Expr) (gtype, error) {
	if g := t.tr.goType(e); g != tBad && g != tU64s && g != tStrs {
		return g, nil
	}
	switch x := e.(type) {
	case *ast.StarExpr:
		switch {
		case t.pkgIdent(x.X, "roaring", "github.com/RoaringBitmap/roaring", "Bitmap"):
			return tRef, nil
		case t.pkgIdent(x.X, "list", "container/list", "Element"):
			return tElem, nil
		case t.pkgIdent(x.X, "list", "container/list", "List"):
			vt, err := t.listValueType()
			if err != nil {
				return tBad, err
			}
			return t.newType("llist:"+t2TypeNames[vt], &t2type{kind: kLList, elem: vt}, "(Go.LList "+t2TypeNames[vt]+")"), nil
		}
		if id, ok := x.X.(*ast.Ident); ok {
			if ts := t.typeDecl(id.Name); ts != nil {
				if _, ok := ts.Type.(*ast.StructType); ok {
					return t.structType(id.Name)
				}
			}
		}
	case *ast.MapType:
		k, err := t.goType(x.Key)
		if err != nil {
			return tBad, err
		}
		if k != tU64 && k != tInt && k != tString {
			return tBad, lostf("map key type %s", t.tr.src(x.Key))
		}
		v, err := t.goType(x.Value)
		if err != nil {
			return tBad, err
		}
		return t.newType("map:"+k.lean()+":"+v.lean(), &t2type{kind: kMap, key: k, elem: v},
			"(Go.GoMap "+k.lean()+" "+v.lean()+")"), nil
	case *ast.Ellipsis:
		return t.sliceOf(x.Elt)
	case *ast.ArrayType:
		if x.Len == nil {
			return t.sliceOf(x.Elt)
		}
	case *ast.SelectorExpr:
		if t.pkgIdent(x, "sync", "sync", "Mutex") {
			return tMutex, nil
		}
	case *ast.Ident:
		ts := t.typeDecl(x.Name)
		if ts == nil {
			break
		}
		switch d := ts.Type.(type) {
		case *ast.StructType:
			return t.structType(x.Name)
		case *ast.InterfaceType:
			// an interface with the single method Inc()
			if d.Methods != nil && len(d.Methods.List) == 1 && len(d.Methods.List[0].Names) == 1 &&
				d.Methods.List[0].Names[0].Name == "Inc" {
				if ft, ok := d.Methods.List[0].Type.(*ast.FuncType); ok && ft.Params.NumFields() == 0 && ft.Results.NumFields() == 0 {
					return tCounter, nil
				}
			}
		case *ast.FuncType:
			// func(c *S): a state transformer
			if d.Results.NumFields() == 0 && d.Params.NumFields() == 1 {
				if st, ok := d.Params.List[0].Type.(*ast.StarExpr); ok {
					if id, ok := st.X.(*ast.Ident); ok {
						s, err := t.structType(id.Name)
						if err != nil {
							return tBad, err
						}
						n := t2TypeNames[s]
						return t.newType("optfn:"+n, &t2type{kind: kOptFn, elem: s, goName: x.Name}, "("+n+" → "+n+")"), nil
					}
				}
			}
		}
	}
	return tBad, lostf("type %s", t.tr.src(e))
}

func (t *t2) sliceOf(elt ast.Expr) (gtype, error) {
	et, err := t.goType(elt)
	if err != nil {
		return tBad, err
	}
	if _, _, ok := t.kindOf(et); !ok {
		return tBad, lostf("slice of %s", t.tr.src(elt))
	}
	return t.newType("slice:"+et.lean(), &t2type{kind: kSlice, elem: et}, "(List "+et.lean()+")"), nil
}

// structType: the struct `name` of the file as a Lean structure (emitted on first use, after the structures it needs)
func (t *t2) structType(name string) (gtype, error) {
	if g, ok := t.byKey["struct:"+name]; ok {
		return g, nil
	}
	if err, ok := t.failed[name]; ok {
		return tBad, err
	}
	fail := func(err error) (gtype, error) {
		t.failed[name] = err
		return tBad, err
	}
	ts := t.typeDecl(name)
	if ts == nil {
		return fail(lostf("struct type %s not found in %s", name, t.rel))
	}
	st, ok := ts.Type.(*ast.StructType)
	if !ok {
		return fail(lostf("%s is not a struct type", name))
	}
	ln, err := leanIdent(name)
	if err != nil {
		return fail(err)
	}
	t.failed[name] = lostf("struct %s contains itself", name) // guards the recursion
	ty := &t2type{kind: kStruct, goName: name}
	var lines []string
	for _, fl := range st.Fields.List {
		if len(fl.Names) == 0 {
			return fail(lostf("embedded field in %s", name))
		}
		ft, err := t.goType(fl.Type)
		if err != nil {
			return fail(lostf("field of %s: %s", name, err.Error()))
		}
		for _, id := range fl.Names {
			if ft == tMutex {
				if ty.mutex != "" {
					return fail(lostf("two mutexes in %s", name))
				}
				ty.mutex = id.Name
				continue
			}
			fn, err := leanIdent(id.Name)
			if err != nil || fn != id.Name {
				return fail(lostf("field name %s of %s", id.Name, name))
			}
			ty.fields = append(ty.fields, t2field{id.Name, ft, t.tr.src(fl.Type)})
			lines = append(lines, fmt.Sprintf("  /-- `%s %s` -/\n  %s : %s\n", id.Name, t.tr.src(fl.Type), fn, ft.lean()))
		}
	}
	delete(t.failed, name)
	g := t.newType("struct:"+name, ty, ln)
	doc := fmt.Sprintf("`%s` of %s", name, t.rel)
	if ty.mutex != "" {
		doc += fmt.Sprintf(" (the field `%s sync.Mutex` has no value: every translated method holds it from its first to its last statement)", ty.mutex)
	}
	if len(lines) == 0 {
		// a struct without fields has no state; methods on it are translated without a receiver value
		return g, nil
	}
	fmt.Fprintf(&t.out, "/-- %s -/\nstructure %s where\n%s  deriving Inhabited, Repr\n\n", doc, ln, strings.Join(lines, ""))
	return g, nil
}

// sizeof: unsafe.Sizeof of a value of the Go type expression e on a 64-bit platform (multiples of 8 only)
func (t *t2) sizeof(e ast.Expr) (int64, string, error) {
	switch x := e.(type) {
	case *ast.StarExpr, *ast.MapType, *ast.FuncType, *ast.ChanType:
		return 8, "8", nil
	case *ast.InterfaceType:
		return 16, "16", nil
	case *ast.ArrayType:
		if x.Len == nil {
			return 24, "24", nil
		}
	case *ast.Ident:
		switch x.Name {
		case "uint64", "int64", "int", "uint", "uintptr", "float64":
			if !t.tr.pkgDeclares(t.rel, x.Name) {
				return 8, "8", nil
			}
		case "string":
			if !t.tr.pkgDeclares(t.rel, x.Name) {
				return 16, "16", nil
			}
		}
		if ts := t.typeDecl(x.Name); ts != nil {
			if st, ok := ts.Type.(*ast.StructType); ok {
				var total int64
				var parts []string
				for _, fl := range st.Fields.List {
					if len(fl.Names) == 0 {
						return 0, "", lostf("embedded field in %s", x.Name)
					}
					n, _, err := t.sizeof(fl.Type)
					if err != nil {
						return 0, "", err
					}
					for _, id := range fl.Names {
						total += n
						parts = append(parts, fmt.Sprintf("%s %s: %d", id.Name, t.tr.src(fl.Type), n))
					}
				}
				return total, strings.Join(parts, ", "), nil
			}
			return t.sizeof(ts.Type)
		}
	}
	return 0, "", lostf("unsafe.Sizeof of a %s", t.tr.src(e))
}

// assignedInPackage: is the package-level name assigned (or its address taken) anywhere in the package?
func (t *t2) assignedInPackage(name string) bool {
	dir := filepath.Dir(t.rel)
	ents, err := os.ReadDir(filepath.Join(t.tr.repo, dir))
	if err != nil {
		return true
	}
	found := false
	for _, e := range ents {
		if e.IsDir() || !strings.HasSuffix(e.Name(), ".go") || strings.HasSuffix(e.Name(), "_test.go") {
			continue
		}
		f := t.tr.load(filepath.Join(dir, e.Name()))
		if f == nil {
			return true
		}
		ast.Inspect(f, func(n ast.Node) bool {
			switch n := n.(type) {
			case *ast.AssignStmt:
				if n.Tok != token.DEFINE {
					for _, l := range n.Lhs {
						if id, ok := l.(*ast.Ident); ok && id.Name == name {
							found = true
						}
					}
				}
			case *ast.IncDecStmt:
				if id, ok := n.X.(*ast.Ident); ok && id.Name == name {
					found = true
				}
			case *ast.UnaryExpr:
				if id, ok := n.X.(*ast.Ident); ok && n.Op == token.AND && id.Name == name {
					found = true
				}
			}
			return true
		})
	}
	return found
}

// pkgValueSpec: the initialiser of the package-level `var name = init` of the file
func (t *t2) pkgValueSpec(name string) (ast.Expr, bool) {
	for _, d := range t.file.Decls {
		gd, ok := d.(*ast.GenDecl)
		if !ok || gd.Tok != token.VAR {
			continue
		}
		for _, s := range gd.Specs {
			vs := s.(*ast.ValueSpec)
			if len(vs.Values) != len(vs.Names) {
				continue
			}
			for i, id := range vs.Names {
				if id.Name == name {
					if vs.Type != nil {
						if g := t.tr.goType(vs.Type); g != tU64 && t.tr.src(vs.Type) != "uintptr" {
							return nil, false
						}
					}
					return vs.Values[i], true
				}
			}
		}
	}
	return nil, false
}

func sortedNames(m map[string]bool) []string {
	var out []string
	for k := range m {
		out = append(out, k)
	}
	sort.Strings(out)
	return out
}

// ---------------------------------------------------------------- function context, expressions

// t2fn: translation context of one function / method / function literal
type t2fn struct {
	t        *t2
	c        *tctx
	name     string           // Lean name (prefix of the loop helpers)
	recv     string           // Go name of the state variable (pointer receiver), "" = none
	results  []gtype          // Go result types
	hoisted  map[ast.Expr]val // calls with an effect whose value has been bound to a temporary
	tmpN     int
	loopN    int
	usesSize bool             // bm.GetSizeInBytes() ↦ the parameter GetSizeInBytes
	pre      *strings.Builder // helper definitions (loops), emitted before the function
}

const (
	aliasKey  = "@alias:"  // env key: the variable is `elem.Value.(*T)`; binding.lean = Go name of elem
	pushedKey = "@pushed:" // env key: the variable (a fresh item) has been handed to PushFront/PushBack
)

func (f *t2fn) tmp() string {
	f.tmpN++
	return fmt.Sprintf("call%d'", f.tmpN)
}

// conv: like conv, plus nil ↦ the nil of pointer-like types
func (f *t2fn) conv(v val, want gtype) (val, error) {
	if v.typ == tNil {
		switch want {
		case tRef:
			return val{text: "Go.nilRef", typ: tRef}, nil
		case tElem:
			return val{text: "(0 : Go.Elem)", typ: tElem}, nil
		case tCounter:
			return val{text: "(none : Go.Counter)", typ: tCounter}, nil
		}
		return val{}, lostf("nil as a %s", want.lean())
	}
	return conv(v, want)
}

func (f *t2fn) typed(e ast.Expr, en env, want gtype) (val, error) {
	v, err := f.c.expr(e, en)
	if err != nil {
		return val{}, err
	}
	return f.conv(v, want)
}

// zero value of a type
func (f *t2fn) zero(g gtype) (string, error) {
	switch g {
	case tU64, tInt, tInt64, tInt32, tByte:
		return fmt.Sprintf("(0 : %s)", g.lean()), nil
	case tBool:
		return "false", nil
	case tRef:
		return "Go.nilRef", nil
	case tElem:
		return "(0 : Go.Elem)", nil
	case tCounter:
		return "(none : Go.Counter)", nil
	}
	if k, ty, ok := f.t.kindOf(g); ok {
		switch k {
		case kStruct:
			return f.structLit(g, ty, nil, nil)
		case kMap:
			return fmt.Sprintf("(Go.GoMap.empty : %s)", g.lean()), nil // reading a nil map = reading an empty map
		}
	}
	return "", lostf("zero value of %s", g.lean())
}

// structLit: `T{f: e, …}` / `&T{…}`; missing fields get their zero value
func (f *t2fn) structLit(g gtype, ty *t2type, elts []ast.Expr, en env) (string, error) {
	given := map[string]ast.Expr{}
	for _, el := range elts {
		kv, ok := el.(*ast.KeyValueExpr)
		if !ok {
			return "", lostf("composite literal of %s without field names", ty.goName)
		}
		id, ok := kv.Key.(*ast.Ident)
		if !ok {
			return "", lostf("composite literal key %s", f.t.tr.src(kv.Key))
		}
		if _, dup := given[id.Name]; dup {
			return "", lostf("duplicate field %s", id.Name)
		}
		if _, ok := f.t.field(g, id.Name); !ok {
			return "", lostf("%s has no field %s in the subset", ty.goName, id.Name)
		}
		given[id.Name] = kv.Value
	}
	var parts []string
	for _, fl := range ty.fields {
		var text string
		if e, ok := given[fl.name]; ok {
			v, err := f.typed(e, en, fl.typ)
			if err != nil {
				return "", err
			}
			text = v.text
		} else {
			z, err := f.zero(fl.typ)
			if err != nil {
				return "", err
			}
			text = z
		}
		parts = append(parts, fl.name+" := "+text)
	}
	return fmt.Sprintf("({ %s } : %s)", strings.Join(parts, ", "), g.lean()), nil
}

// path: a selector chain rooted at a variable of a struct type: root variable, fields, type
func (f *t2fn) path(e ast.Expr, en env) (root string, fields []string, typ gtype, ok bool) {
	switch x := e.(type) {
	case *ast.ParenExpr:
		return f.path(x.X, en)
	case *ast.Ident:
		b, found := en[x.Name]
		if !found || !f.t.isStruct(b.typ) {
			return "", nil, tBad, false
		}
		return x.Name, nil, b.typ, true
	case *ast.SelectorExpr:
		r, fs, ty, found := f.path(x.X, en)
		if !found {
			return "", nil, tBad, false
		}
		ft, found := f.t.field(ty, x.Sel.Name)
		if !found {
			return "", nil, tBad, false
		}
		return r, append(append([]string{}, fs...), x.Sel.Name), ft, true
	}
	return "", nil, tBad, false
}

func pathText(rootLean string, fields []string) string {
	return strings.Join(append([]string{rootLean}, fields...), ".")
}

// setPath: `let root : T := { root with f1 := { root.f1 with f2 := v } }`, plus the write through the pointer when
// root is an alias of the value of a list element
func (f *t2fn) setPath(root string, fields []string, v string, en env, depth int) (string, error) {
	b := en[root]
	if len(fields) == 0 {
		return "", lostf("assignment to the struct variable %s", root)
	}
	if _, pushed := en[pushedKey+root]; pushed {
		return "", lostf("write to %s after it has been handed to the list", root)
	}
	text := v
	for i := len(fields) - 1; i >= 0; i-- {
		text = fmt.Sprintf("{ %s with %s := %s }", pathText(b.lean, fields[:i]), fields[i], text)
	}
	out := fmt.Sprintf("%slet %s : %s := %s\n", ind(depth), b.lean, b.typ.lean(), text)
	if al, ok := en[aliasKey+root]; ok {
		lroot, lfields, _, err := f.theList(en)
		if err != nil {
			return "", err
		}
		eb, ok := en[al.lean]
		if !ok || eb.typ != tElem {
			return "", lostf("element %s of the alias %s is out of scope", al.lean, root)
		}
		lp := pathText(en[lroot].lean, lfields)
		wb, err := f.setPath(lroot, lfields, fmt.Sprintf("(Go.LList.setValue %s %s %s)", lp, eb.lean, b.lean), en, depth)
		if err != nil {
			return "", err
		}
		out += wb
	}
	return out, nil
}

// theList: the unique field of list type of the state variable (every *list.Element of the function is taken to be
// an element of it: elements only come from its PushFront/Back/Front and from the map filled with them)
func (f *t2fn) theList(en env) (root string, fields []string, typ gtype, err error) {
	if f.recv == "" {
		return "", nil, tBad, lostf("list element outside a method with a state")
	}
	b, ok := en[f.recv]
	if !ok {
		return "", nil, tBad, lostf("state variable %s is out of scope", f.recv)
	}
	_, ty, _ := f.t.kindOf(b.typ)
	n := 0
	for _, fl := range ty.fields {
		if k, _, ok := f.t.kindOf(fl.typ); ok && k == kLList {
			n++
			fields, typ = []string{fl.name}, fl.typ
		}
	}
	if n != 1 {
		return "", nil, tBad, lostf("%s has %d list fields", ty.goName, n)
	}
	return f.recv, fields, typ, nil
}

// listRecv: e is `P.method` with P a path of list type
func (f *t2fn) listRecv(e ast.Expr, en env) (sel string, lp string, root string, fields []string, ty *t2type, ok bool) {
	s, isSel := e.(*ast.SelectorExpr)
	if !isSel {
		return
	}
	r, fs, g, found := f.path(s.X, en)
	if !found {
		return
	}
	k, lt, found := f.t.kindOf(g)
	if !found || k != kLList {
		return
	}
	return s.Sel.Name, pathText(en[r].lean, fs), r, fs, lt, true
}

func (f *t2fn) free(name string, en env) bool { return f.c.free(name, en) }

// hook: the expression forms of this file, tried before the generic ones of tctx.expr
func (f *t2fn) hook(c *tctx, e ast.Expr, en env) (val, bool, error) {
	if v, ok := f.hoisted[e]; ok {
		return v, true, nil
	}
	fail := func(err error) (val, bool, error) { return val{}, false, err }
	switch x := e.(type) {
	case *ast.Ident:
		if _, local := en[x.Name]; local {
			return val{}, false, nil
		}
		if x.Name == "nil" && f.free("nil", en) {
			return val{typ: tNil, text: "nil"}, true, nil
		}
		if init, ok := f.t.pkgValueSpec(x.Name); ok {
			v, err := f.t.pkgValue(x.Name, init)
			if err != nil {
				return fail(err)
			}
			return v, true, nil
		}
	case *ast.SelectorExpr:
		if _, isPkg := x.X.(*ast.Ident); isPkg && !f.isLocal(x.X, en) {
			return val{}, false, nil // package selector: generic code
		}
		xv, err := c.expr(x.X, en)
		if err != nil {
			return fail(err)
		}
		if ft, ok := f.t.field(xv.typ, x.Sel.Name); ok {
			return val{text: xv.text + "." + x.Sel.Name, typ: ft}, true, nil
		}
		return fail(lostf("selector %s", f.t.tr.src(x)))
	case *ast.TypeAssertExpr:
		if x.Type == nil {
			return fail(lostf("type switch"))
		}
		want, err := f.t.goType(x.Type)
		if err != nil {
			return fail(err)
		}
		if _, isPtr := x.Type.(*ast.StarExpr); !isPtr || !f.t.isStruct(want) {
			return fail(lostf("type assertion to %s", f.t.tr.src(x.Type)))
		}
		inner := x.X
		for {
			p, ok := inner.(*ast.ParenExpr)
			if !ok {
				break
			}
			inner = p.X
		}
		if hv, ok := f.hoisted[inner]; ok { // l.Remove(e).(*T)
			if hv.typ != want {
				return fail(lostf("type assertion to %s on a list of %s", want.lean(), hv.typ.lean()))
			}
			return hv, true, nil
		}
		if s, ok := inner.(*ast.SelectorExpr); ok && s.Sel.Name == "Value" { // e.Value.(*T)
			ev, err := c.expr(s.X, en)
			if err != nil {
				return fail(err)
			}
			if ev.typ != tElem {
				return fail(lostf("%s is not a list element", f.t.tr.src(s.X)))
			}
			lroot, lfields, lt, err := f.theList(en)
			if err != nil {
				return fail(err)
			}
			if f.t.types[lt].elem != want {
				return fail(lostf("type assertion to %s on a list of %s", want.lean(), f.t.types[lt].elem.lean()))
			}
			return val{text: fmt.Sprintf("(Go.LList.value %s %s)", pathText(en[lroot].lean, lfields), ev.text), typ: want}, true, nil
		}
		return fail(lostf("type assertion %s", f.t.tr.src(x)))
	case *ast.UnaryExpr:
		if x.Op == token.AND {
			if cl, ok := x.X.(*ast.CompositeLit); ok {
				return f.hook(c, cl, en)
			}
			return fail(lostf("address of %s", f.t.tr.src(x.X)))
		}
	case *ast.CompositeLit:
		id, ok := x.Type.(*ast.Ident)
		if !ok {
			return fail(lostf("composite literal %s", f.t.tr.src(x.Type)))
		}
		g, err := f.t.structType(id.Name)
		if err != nil {
			return fail(err)
		}
		text, err := f.structLit(g, f.t.types[g], x.Elts, en)
		if err != nil {
			return fail(err)
		}
		return val{text: text, typ: g}, true, nil
	case *ast.BinaryExpr:
		if x.Op != token.EQL && x.Op != token.NEQ {
			return val{}, false, nil
		}
		a, err := c.expr(x.X, en)
		if err != nil {
			return fail(err)
		}
		b, err := c.expr(x.Y, en)
		if err != nil {
			return fail(err)
		}
		neg := func(s string) string {
			if x.Op == token.NEQ {
				return "(!" + s + ")"
			}
			return s
		}
		if a.typ == tNil {
			a, b = b, a
		}
		switch {
		case b.typ == tNil && a.typ == tCounter:
			return val{text: neg(fmt.Sprintf("(Go.Counter.isNil %s)", a.text)), typ: tBool}, true, nil
		case b.typ == tNil && a.typ == tRef:
			return val{text: neg(fmt.Sprintf("(Go.Ref.isNil %s)", a.text)), typ: tBool}, true, nil
		case b.typ == tNil && a.typ == tElem:
			return val{text: neg(fmt.Sprintf("(%s == (0 : Go.Elem))", a.text)), typ: tBool}, true, nil
		case b.typ == tNil:
			return fail(lostf("comparison of a %s with nil", a.typ.lean()))
		case a.typ == b.typ && (a.typ == tRef || a.typ == tElem): // pointer identity
			return val{text: neg(fmt.Sprintf("(%s == %s)", a.text, b.text)), typ: tBool}, true, nil
		}
		return val{}, false, nil
	case *ast.FuncLit:
		return f.funcLit(x, en)
	case *ast.CallExpr:
		return f.callHook(c, x, en)
	}
	return val{}, false, nil
}

func (f *t2fn) isLocal(e ast.Expr, en env) bool {
	id, ok := e.(*ast.Ident)
	if !ok {
		return true
	}
	_, ok = en[id.Name]
	return ok
}

func (f *t2fn) callHook(c *tctx, x *ast.CallExpr, en env) (val, bool, error) {
	fail := func(err error) (val, bool, error) { return val{}, false, err }
	n := len(x.Args)
	// uint64(x) of a uint64 / uintptr value
	if c.builtin(x.Fun, en, "uint64") && n == 1 {
		v, err := c.expr(x.Args[0], en)
		if err != nil {
			return fail(err)
		}
		if v.typ == tUntyped {
			v, err = conv(v, tU64)
			if err != nil {
				return fail(err)
			}
		}
		if v.typ != tU64 {
			return fail(lostf("conversion to uint64 from %s", v.typ.lean()))
		}
		return v, true, nil
	}
	// make(map[K]V)
	if c.builtin(x.Fun, en, "make") && n >= 1 {
		if mt, ok := x.Args[0].(*ast.MapType); ok {
			g, err := f.t.goType(mt)
			if err != nil {
				return fail(err)
			}
			if n == 2 { // the size hint must be a pure int expression; it has no observable value
				if _, err := c.intExpr(x.Args[1], en); err != nil {
					return fail(err)
				}
			} else if n != 1 {
				return fail(lostf("make with %d arguments", n))
			}
			return val{text: fmt.Sprintf("(Go.GoMap.empty : %s)", g.lean()), typ: g}, true, nil
		}
		return val{}, false, nil
	}
	// list.New()
	if f.t.pkgIdent(x.Fun, "list", "container/list", "New") && n == 0 && f.free("list", en) {
		vt, err := f.t.listValueType()
		if err != nil {
			return fail(err)
		}
		g := f.t.newType("llist:"+t2TypeNames[vt], &t2type{kind: kLList, elem: vt}, "(Go.LList "+t2TypeNames[vt]+")")
		return val{text: fmt.Sprintf("(Go.LList.new : %s)", g.lean()), typ: g}, true, nil
	}
	// unsafe.Sizeof(T{})
	if f.t.pkgIdent(x.Fun, "unsafe", "unsafe", "Sizeof") && n == 1 && f.free("unsafe", en) {
		cl, ok := x.Args[0].(*ast.CompositeLit)
		if !ok || len(cl.Elts) != 0 {
			return fail(lostf("unsafe.Sizeof(%s)", f.t.tr.src(x.Args[0])))
		}
		if f.t.pkgIdent(cl.Type, "list", "container/list", "Element") {
			return val{text: "Go.sizeofListElement", typ: tU64}, true, nil
		}
		k, _, err := f.t.sizeof(cl.Type)
		if err != nil {
			return fail(err)
		}
		return val{text: fmt.Sprintf("(%d : UInt64)", k), typ: tU64}, true, nil
	}
	s, ok := x.Fun.(*ast.SelectorExpr)
	if !ok {
		return val{}, false, nil
	}
	// methods of the list without an effect
	if sel, lp, _, _, _, ok := f.listRecv(x.Fun, en); ok {
		switch {
		case sel == "Len" && n == 0:
			return val{text: fmt.Sprintf("(Go.LList.len %s)", lp), typ: tInt}, true, nil
		case sel == "Back" && n == 0:
			return val{text: fmt.Sprintf("(Go.LList.back %s)", lp), typ: tElem}, true, nil
		case sel == "Front" && n == 0:
			return val{text: fmt.Sprintf("(Go.LList.front %s)", lp), typ: tElem}, true, nil
		}
		return fail(lostf("list method %s in an expression", sel))
	}
	// bm.GetSizeInBytes() of an opaque bitmap
	if s.Sel.Name == "GetSizeInBytes" && n == 0 && f.isLocal(s.X, en) {
		v, err := c.expr(s.X, en)
		if err != nil {
			return fail(err)
		}
		if v.typ != tRef {
			return fail(lostf("GetSizeInBytes of a %s", v.typ.lean()))
		}
		f.usesSize = true
		return val{text: fmt.Sprintf("(GetSizeInBytes %s)", v.text), typ: tU64}, true, nil
	}
	return val{}, false, nil
}

// pkgValue: a package-level `var name = init` that is never assigned. `unsafe.Sizeof(…)` becomes a generated
// constant of its own; any other initialiser is translated in place (so that naming a sub-expression is harmless).
func (t *t2) pkgValue(name string, init ast.Expr) (val, error) {
	if ln, ok := t.pkgDone[name]; ok {
		if ln == "" {
			return val{}, lostf("package value %s is not in the subset", name)
		}
		return val{text: ln, typ: tU64}, nil
	}
	if t.assignedInPackage(name) {
		return val{}, lostf("package variable %s is assigned somewhere", name)
	}
	t.pkgDone[name] = "" // guards the recursion
	f := t.newFn(name)
	v, err := f.c.expr(init, env{})
	if err != nil {
		return val{}, err
	}
	if v.typ == tUntyped {
		return val{}, lostf("untyped package value %s", name)
	}
	if v.typ != tU64 {
		return val{}, lostf("package value %s of type %s", name, v.typ.lean())
	}
	call, ok := init.(*ast.CallExpr)
	if !ok || !t.pkgIdent(call.Fun, "unsafe", "unsafe", "Sizeof") {
		delete(t.pkgDone, name)
		return v, nil // in place
	}
	ln, err := leanIdent(name)
	if err != nil {
		return val{}, err
	}
	doc := fmt.Sprintf("`%s = %s` of %s (64-bit platform)", name, t.tr.src(init), t.rel)
	if cl, ok := call.Args[0].(*ast.CompositeLit); ok {
		if _, parts, err := t.sizeof(cl.Type); err == nil && parts != "" {
			doc += ": " + parts
		}
	}
	fmt.Fprintf(&t.out, "/-- %s -/\ndef %s : UInt64 :=\n  %s\n\n", doc, ln, v.text)
	t.pkgDone[name] = ln
	return val{text: ln, typ: tU64}, nil
}

func (t *t2) newFn(name string) *t2fn {
	f := &t2fn{t: t, name: name, hoisted: map[ast.Expr]val{}, pre: &strings.Builder{}}
	f.c = t.tr.newCtx(t.rel, t.file)
	f.c.exprHook = f.hook
	return f
}

// ---------------------------------------------------------------- statements

// effectCall: the call with an effect on a list (`P.PushFront(v)`, `P.PushBack(v)`, `P.Remove(e)`) that is e itself
// or sits under parentheses / type assertions / field selections of e; nil if there is none
func (f *t2fn) effectCall(e ast.Expr, en env) *ast.CallExpr {
	for {
		switch x := e.(type) {
		case *ast.ParenExpr:
			e = x.X
		case *ast.TypeAssertExpr:
			e = x.X
		case *ast.SelectorExpr:
			e = x.X
		case *ast.CallExpr:
			if sel, _, _, _, _, ok := f.listRecv(x.Fun, en); ok && (sel == "PushFront" || sel == "PushBack" || sel == "Remove") {
				return x
			}
			return nil
		default:
			return nil
		}
	}
}

// hoist: bind the value and the effect of the list call inside e (if any) before the statement that uses it
func (f *t2fn) hoist(e ast.Expr, en env, depth int) (string, env, error) {
	call := f.effectCall(e, en)
	if call == nil {
		return "", en, nil
	}
	sel, lp, root, fields, lt, _ := f.listRecv(call.Fun, en)
	if len(call.Args) != 1 {
		return "", en, lostf("%s with %d arguments", sel, len(call.Args))
	}
	t := f.tmp()
	var text string
	var vt gtype
	en2 := en
	_, _, ltyp, _ := f.path(call.Fun.(*ast.SelectorExpr).X, en)
	switch sel {
	case "PushFront", "PushBack":
		v, err := f.typed(call.Args[0], en, lt.elem)
		if err != nil {
			return "", en, err
		}
		if id, ok := call.Args[0].(*ast.Ident); ok {
			en2 = en.with(pushedKey+id.Name, binding{})
		}
		fn := "Go.LList.pushFront"
		if sel == "PushBack" {
			fn = "Go.LList.pushBack"
		}
		text = fmt.Sprintf("%slet %s : (%s × Go.Elem) := (%s %s %s)\n", ind(depth), t, ltyp.lean(), fn, lp, v.text)
		vt = tElem
	case "Remove":
		v, err := f.typed(call.Args[0], en, tElem)
		if err != nil {
			return "", en, err
		}
		text = fmt.Sprintf("%slet %s : (%s × %s) := (Go.LList.remove %s %s)\n", ind(depth), t, ltyp.lean(), lt.elem.lean(), lp, v.text)
		vt = lt.elem
	}
	upd, err := f.setPath(root, fields, t+".1", en, depth)
	if err != nil {
		return "", en, err
	}
	f.hoisted[call] = val{text: t + ".2", typ: vt}
	return text + upd, en2, nil
}

// mutatedVars: variables of en that the statements may change (assignment targets, receivers of methods with an
// effect, arguments of delete and of state transformers), and the state variable whenever anything is written at all
func (f *t2fn) mutatedVars(stmts []ast.Stmt, en env) ([]string, error) {
	set := map[string]bool{}
	declared := map[string]bool{}
	var err error
	rootOf := func(e ast.Expr) string {
		for {
			switch x := e.(type) {
			case *ast.ParenExpr:
				e = x.X
			case *ast.SelectorExpr:
				e = x.X
			case *ast.IndexExpr:
				e = x.X
			case *ast.StarExpr:
				e = x.X
			case *ast.Ident:
				return x.Name
			default:
				return ""
			}
		}
	}
	add := func(name string) {
		if name == "" || name == "_" {
			return
		}
		if _, ok := en[name]; ok {
			set[name] = true
			if f.recv != "" {
				if _, ok := en[f.recv]; ok {
					set[f.recv] = true // a write through an alias reaches the state
				}
			}
		}
	}
	for _, s := range stmts {
		ast.Inspect(s, func(n ast.Node) bool {
			switch n := n.(type) {
			case *ast.FuncLit:
				return false
			case *ast.AssignStmt:
				for _, l := range n.Lhs {
					if n.Tok == token.DEFINE {
						if id, ok := l.(*ast.Ident); ok {
							declared[id.Name] = true
						}
					} else {
						add(rootOf(l))
					}
				}
			case *ast.RangeStmt:
				for _, l := range []ast.Expr{n.Key, n.Value} {
					if id, ok := l.(*ast.Ident); ok {
						if n.Tok == token.DEFINE {
							declared[id.Name] = true
						} else {
							add(id.Name)
						}
					}
				}
			case *ast.IncDecStmt:
				add(rootOf(n.X))
			case *ast.CallExpr:
				switch fun := n.Fun.(type) {
				case *ast.SelectorExpr:
					r := rootOf(fun.X)
					if b, ok := en[r]; ok && f.t.isStruct(b.typ) {
						add(r)
					}
				case *ast.Ident:
					if fun.Name == "delete" && len(n.Args) > 0 {
						add(rootOf(n.Args[0]))
					}
					if b, ok := en[fun.Name]; ok {
						if k, _, ok := f.t.kindOf(b.typ); ok && k == kOptFn && len(n.Args) == 1 {
							add(rootOf(n.Args[0]))
						}
					}
				}
			}
			return true
		})
	}
	for v := range set {
		if declared[v] {
			err = lostf("variable %s is both declared and assigned inside a branch", v)
		}
	}
	return sortedNames(set), err
}

// tupleOf: the term and type of the tuple of the variables, and the projections that take it apart again
func tupleOf(vars []string, en env) (term, typ string, projs []string) {
	var names, types []string
	for _, v := range vars {
		names = append(names, en[v].lean)
		types = append(types, en[v].typ.lean())
	}
	if len(vars) == 1 {
		return names[0], types[0], []string{""}
	}
	for i := range vars {
		p := strings.Repeat(".2", i)
		if i < len(vars)-1 {
			p += ".1"
		}
		projs = append(projs, p)
	}
	return "(" + strings.Join(names, ", ") + ")", "(" + strings.Join(types, " × ") + ")", projs
}

// declaredNames: names declared with := directly or deeper in stmts
func declaredNames(stmts []ast.Stmt) map[string]bool {
	_, d := assignedAndDeclared(stmts)
	return d
}

// block translates a statement list to a Lean term. final = "": function level (a return ends it, falling off the
// end yields fall()); otherwise the term the block yields when control falls off its end (returns are errors then).
func (f *t2fn) block(stmts []ast.Stmt, en env, final string, depth int) (string, error) {
	if len(stmts) == 0 {
		if final != "" {
			return ind(depth) + final + "\n", nil
		}
		r, err := f.ret(nil, en, true)
		if err != nil {
			return "", err
		}
		return ind(depth) + r + "\n", nil
	}
	s, rest := stmts[0], stmts[1:]
	cont := func(en env) (string, error) { return f.block(rest, en, final, depth) }
	switch s := s.(type) {
	case *ast.ReturnStmt:
		if len(rest) != 0 {
			return "", lostf("statements after return")
		}
		if final != "" {
			return "", lostf("return inside a block that must fall through (loop body or merged branch)")
		}
		r, err := f.ret(s.Results, en, false)
		if err != nil {
			return "", err
		}
		return ind(depth) + r + "\n", nil

	case *ast.ExprStmt:
		call, ok := s.X.(*ast.CallExpr)
		if !ok {
			return "", lostf("statement %s", f.t.tr.src(s))
		}
		text, en2, err := f.callStmt(call, en, depth)
		if err != nil {
			return "", err
		}
		r, err := cont(en2)
		if err != nil {
			return "", err
		}
		return text + r, nil

	case *ast.AssignStmt:
		text, en2, err := f.assign(s, en, depth)
		if err != nil {
			return "", err
		}
		r, err := cont(en2)
		if err != nil {
			return "", err
		}
		return text + r, nil

	case *ast.IfStmt:
		return f.ifStmt(s, rest, en, final, depth)

	case *ast.ForStmt:
		text, err := f.forStmt(s, en, depth)
		if err != nil {
			return "", err
		}
		r, err := cont(en)
		if err != nil {
			return "", err
		}
		return text + r, nil

	case *ast.RangeStmt:
		text, err := f.rangeStmt(s, en, depth)
		if err != nil {
			return "", err
		}
		r, err := cont(en)
		if err != nil {
			return "", err
		}
		return text + r, nil
	}
	return "", lostf("statement %s", f.t.tr.src(s))
}

// ret: the value of `return results` (atEnd: control fell off the end of a function without results)
func (f *t2fn) ret(results []ast.Expr, en env, atEnd bool) (string, error) {
	if atEnd && len(f.results) != 0 {
		return "", lostf("control reaches the end without a return")
	}
	if len(results) != len(f.results) {
		return "", lostf("return with %d results", len(results))
	}
	var parts []string
	for i, e := range results {
		v, err := f.typed(e, en, f.results[i])
		if err != nil {
			return "", err
		}
		parts = append(parts, v.text)
	}
	var r string
	switch len(parts) {
	case 0:
		r = "()"
	case 1:
		r = parts[0]
	default:
		r = "(" + strings.Join(parts, ", ") + ")"
	}
	if f.recv == "" {
		return r, nil
	}
	b, ok := en[f.recv]
	if !ok {
		return "", lostf("state variable %s is out of scope", f.recv)
	}
	if len(parts) == 0 {
		return b.lean, nil
	}
	return "(" + b.lean + ", " + r + ")", nil
}

// callStmt: a call used as a statement
func (f *t2fn) callStmt(call *ast.CallExpr, en env, depth int) (string, env, error) {
	n := len(call.Args)
	// delete(m, k)
	if f.c.builtin(call.Fun, en, "delete") && n == 2 {
		root, fields, g, ok := f.path(call.Args[0], en)
		k, mt, isT2 := f.t.kindOf(g)
		if !ok || !isT2 || k != kMap {
			return "", en, lostf("delete from %s", f.t.tr.src(call.Args[0]))
		}
		key, err := f.typed(call.Args[1], en, mt.key)
		if err != nil {
			return "", en, err
		}
		text, err := f.setPath(root, fields, fmt.Sprintf("(Go.GoMap.delete %s %s)", pathText(en[root].lean, fields), key.text), en, depth)
		return text, en, err
	}
	// o(x): a state transformer applied to a struct variable
	if id, ok := call.Fun.(*ast.Ident); ok && n == 1 {
		if b, ok := en[id.Name]; ok {
			if k, ft, ok := f.t.kindOf(b.typ); ok && k == kOptFn {
				arg, ok := call.Args[0].(*ast.Ident)
				if !ok {
					return "", en, lostf("argument of %s", id.Name)
				}
				ab, ok := en[arg.Name]
				if !ok || ab.typ != ft.elem {
					return "", en, lostf("argument %s of %s", arg.Name, id.Name)
				}
				if _, al := en[aliasKey+arg.Name]; al {
					return "", en, lostf("state transformer applied to an alias")
				}
				return fmt.Sprintf("%slet %s : %s := (%s %s)\n", ind(depth), ab.lean, ab.typ.lean(), b.lean, ab.lean), en, nil
			}
		}
	}
	sel, ok := call.Fun.(*ast.SelectorExpr)
	if !ok {
		return "", en, lostf("call %s is not in the whitelist", f.t.tr.src(call.Fun))
	}
	// list methods
	if m, lp, root, fields, _, ok := f.listRecv(call.Fun, en); ok {
		switch {
		case (m == "MoveToFront" || m == "MoveToBack") && n == 1:
			e, err := f.typed(call.Args[0], en, tElem)
			if err != nil {
				return "", en, err
			}
			fn := "Go.LList.moveToFront"
			if m == "MoveToBack" {
				fn = "Go.LList.moveToBack"
			}
			text, err := f.setPath(root, fields, fmt.Sprintf("(%s %s %s)", fn, lp, e.text), en, depth)
			return text, en, err
		case m == "PushFront" || m == "PushBack" || m == "Remove":
			text, en2, err := f.hoist(call, en, depth) // the value is dropped
			return text, en2, err
		}
		return "", en, lostf("list method %s", m)
	}
	// x.Inc() on a counter interface
	if sel.Sel.Name == "Inc" && n == 0 {
		root, fields, g, ok := f.path(sel.X, en)
		if !ok || g != tCounter {
			return "", en, lostf("Inc on %s", f.t.tr.src(sel.X))
		}
		text, err := f.setPath(root, fields, fmt.Sprintf("(Go.Counter.inc %s)", pathText(en[root].lean, fields)), en, depth)
		return text, en, err
	}
	return "", en, lostf("call %s is not in the whitelist", f.t.tr.src(call.Fun))
}

// assign: := / = / += / -=
func (f *t2fn) assign(s *ast.AssignStmt, en env, depth int) (string, env, error) {
	// v, ok := m[k]
	if len(s.Lhs) == 2 && len(s.Rhs) == 1 && s.Tok == token.DEFINE {
		ix, ok := s.Rhs[0].(*ast.IndexExpr)
		v, ok1 := s.Lhs[0].(*ast.Ident)
		o, ok2 := s.Lhs[1].(*ast.Ident)
		if !ok || !ok1 || !ok2 || v.Name == "_" || o.Name == "_" || v.Name == o.Name {
			return "", en, lostf("two-result assignment %s", f.t.tr.src(s))
		}
		root, fields, g, ok := f.path(ix.X, en)
		k, mt, isT2 := f.t.kindOf(g)
		if !ok || !isT2 || k != kMap {
			return "", en, lostf("two-result index of %s", f.t.tr.src(ix.X))
		}
		key, err := f.typed(ix.Index, en, mt.key)
		if err != nil {
			return "", en, err
		}
		vl, err := leanIdent(v.Name)
		if err != nil {
			return "", en, err
		}
		ol, err := leanIdent(o.Name)
		if err != nil {
			return "", en, err
		}
		look := fmt.Sprintf("(Go.GoMap.lookup %s %s)", pathText(en[root].lean, fields), key.text)
		text := fmt.Sprintf("%slet %s : %s := %s.1\n%slet %s : Bool := %s.2\n", ind(depth), vl, mt.elem.lean(), look, ind(depth), ol, look)
		en2 := f.unalias(en, v.Name, o.Name)
		return text, en2.with(v.Name, binding{vl, mt.elem}).with(o.Name, binding{ol, tBool}), nil
	}
	if len(s.Lhs) != 1 || len(s.Rhs) != 1 {
		return "", en, lostf("assignment %s", f.t.tr.src(s))
	}
	pre, en, err := f.hoist(s.Rhs[0], en, depth)
	if err != nil {
		return "", en, err
	}
	rhs := s.Rhs[0]
	switch s.Tok {
	case token.ADD_ASSIGN:
		rhs = &ast.BinaryExpr{X: s.Lhs[0], Op: token.ADD, Y: &ast.ParenExpr{X: rhs}}
	case token.SUB_ASSIGN:
		rhs = &ast.BinaryExpr{X: s.Lhs[0], Op: token.SUB, Y: &ast.ParenExpr{X: rhs}}
	case token.DEFINE, token.ASSIGN:
	default:
		return "", en, lostf("assignment operator %s", s.Tok)
	}
	if s.Tok == token.DEFINE {
		id, ok := s.Lhs[0].(*ast.Ident)
		if !ok {
			return "", en, lostf("assignment %s", f.t.tr.src(s))
		}
		ln, err := leanIdent(id.Name)
		if err != nil {
			return "", en, err
		}
		v, err := f.c.expr(rhs, en)
		if err != nil {
			return "", en, err
		}
		if v.typ == tUntyped {
			if v, err = conv(v, tInt); err != nil {
				return "", en, err
			}
		}
		if v.typ == tNil {
			return "", en, lostf("%s := nil", id.Name)
		}
		en2 := f.unalias(en, id.Name)
		// A struct variable is a pointer in Go. `item := elem.Value.(*T)` makes item an alias of the value of elem
		// (writes go through to the list); a composite literal is a fresh object (writes are local until it is
		// handed to the list); any other origin may be shared, so the variable is read-only here.
		if f.t.isStruct(v.typ) {
			stripped := rhs
			for {
				p, ok := stripped.(*ast.ParenExpr)
				if !ok {
					break
				}
				stripped = p.X
			}
			aliasOf := ""
			if ta, ok := stripped.(*ast.TypeAssertExpr); ok {
				if sx, ok := ta.X.(*ast.SelectorExpr); ok && sx.Sel.Name == "Value" {
					if eid, ok := sx.X.(*ast.Ident); ok {
						aliasOf = eid.Name
					}
				}
			}
			fresh := false
			switch x := stripped.(type) {
			case *ast.CompositeLit:
				fresh = true
			case *ast.UnaryExpr:
				_, fresh = x.X.(*ast.CompositeLit)
			}
			switch {
			case aliasOf != "":
				for k := range en2 {
					if strings.HasPrefix(k, aliasKey) {
						return "", en, lostf("two aliases of list values (%s and %s) in scope", k[len(aliasKey):], id.Name)
					}
				}
				en2 = en2.with(aliasKey+id.Name, binding{lean: aliasOf})
			case !fresh:
				en2 = en2.with(pushedKey+id.Name, binding{})
			}
		}
		if f.recv != "" && id.Name == f.recv {
			return "", en, lostf("the state variable %s is redeclared", id.Name)
		}
		return pre + fmt.Sprintf("%slet %s : %s := %s\n", ind(depth), ln, v.typ.lean(), v.text), en2.with(id.Name, binding{ln, v.typ}), nil
	}
	// m[k] = v
	if ix, ok := s.Lhs[0].(*ast.IndexExpr); ok && s.Tok == token.ASSIGN {
		root, fields, g, ok := f.path(ix.X, en)
		k, mt, isT2 := f.t.kindOf(g)
		if !ok || !isT2 || k != kMap {
			return "", en, lostf("element assignment to %s", f.t.tr.src(ix.X))
		}
		key, err := f.typed(ix.Index, en, mt.key)
		if err != nil {
			return "", en, err
		}
		v, err := f.typed(rhs, en, mt.elem)
		if err != nil {
			return "", en, err
		}
		text, err := f.setPath(root, fields, fmt.Sprintf("(Go.GoMap.insert %s %s %s)", pathText(en[root].lean, fields), key.text, v.text), en, depth)
		return pre + text, en, err
	}
	// path = v
	if root, fields, g, ok := f.path(s.Lhs[0], en); ok && len(fields) > 0 {
		v, err := f.typed(rhs, en, g)
		if err != nil {
			return "", en, err
		}
		text, err := f.setPath(root, fields, v.text, en, depth)
		return pre + text, en, err
	}
	// x = v on a scalar / pointer-like local
	if id, ok := s.Lhs[0].(*ast.Ident); ok {
		b, ok := en[id.Name]
		if !ok {
			return "", en, lostf("assignment to %s, which is not a variable of the subset", id.Name)
		}
		if f.t.isStruct(b.typ) {
			return "", en, lostf("assignment to the struct variable %s", id.Name)
		}
		for k, a := range en {
			if strings.HasPrefix(k, aliasKey) && a.lean == id.Name {
				return "", en, lostf("assignment to %s while %s aliases its value", id.Name, k[len(aliasKey):])
			}
		}
		v, err := f.typed(rhs, en, b.typ)
		if err != nil {
			return "", en, err
		}
		return pre + fmt.Sprintf("%slet %s : %s := %s\n", ind(depth), b.lean, b.typ.lean(), v.text), en, nil
	}
	return "", en, lostf("assignment %s", f.t.tr.src(s))
}

// unalias: a redeclared name loses its alias / pushed marks; an alias whose element is redeclared is an error later
func (f *t2fn) unalias(en env, names ...string) env {
	out := env{}
	for k, v := range en {
		drop := false
		for _, n := range names {
			if k == aliasKey+n || k == pushedKey+n {
				drop = true
			} else if strings.HasPrefix(k, aliasKey) && v.lean == n {
				v = binding{} // the element is out of scope: a write through the alias loses the function
			}
		}
		if !drop {
			out[k] = v
		}
	}
	return out
}

// ifStmt: `if init; cond { … } else { … }` followed by rest
func (f *t2fn) ifStmt(s *ast.IfStmt, rest []ast.Stmt, en env, final string, depth int) (string, error) {
	var els []ast.Stmt
	switch e := s.Else.(type) {
	case nil:
	case *ast.BlockStmt:
		els = e.List
	case *ast.IfStmt:
		els = []ast.Stmt{e}
	default:
		return "", lostf("else branch %s", f.t.tr.src(s.Else))
	}
	// the init statement is in scope of the condition and of both branches only
	initText := func(en env, depth int) (string, env, error) {
		if s.Init == nil {
			return "", en, nil
		}
		as, ok := s.Init.(*ast.AssignStmt)
		if !ok || as.Tok != token.DEFINE {
			return "", en, lostf("init statement %s", f.t.tr.src(s.Init))
		}
		return f.assign(as, en, depth)
	}
	if hasReturn(s.Body.List) || hasReturn(els) {
		// a branch returns: both branches continue with the rest of the enclosing block
		if final != "" {
			return "", lostf("return inside a block that must fall through (loop body or merged branch)")
		}
		if len(rest) > 0 {
			decl := declaredNames(append(append([]ast.Stmt{}, s.Body.List...), els...))
			if s.Init != nil {
				for n := range declaredNames([]ast.Stmt{s.Init}) {
					decl[n] = true
				}
			}
			for n := range decl {
				if _, ok := en[n]; ok || t2Builtin[n] || f.t.tr.pkgDeclares(f.t.rel, n) {
					return "", lostf("variable %s is redeclared inside an if with a return", n)
				}
			}
		}
		it, en2, err := initText(en, depth)
		if err != nil {
			return "", err
		}
		cond, err := f.typed(s.Cond, en2, tBool)
		if err != nil {
			return "", err
		}
		var a, b string
		if definitelyReturns(s.Body.List) {
			a, err = f.block(s.Body.List, en2, "", depth+1)
		} else {
			a, err = f.block(append(append([]ast.Stmt{}, s.Body.List...), rest...), en2, "", depth+1)
		}
		if err != nil {
			return "", err
		}
		if definitelyReturns(els) {
			if len(rest) != 0 && definitelyReturns(s.Body.List) {
				return "", lostf("statements after an if/else that always returns")
			}
			b, err = f.block(els, en2, "", depth)
		} else {
			b, err = f.block(append(append([]ast.Stmt{}, els...), rest...), en2, "", depth)
		}
		if err != nil {
			return "", err
		}
		return fmt.Sprintf("%s%sif %s then\n%s%selse\n%s", it, ind(depth), cond.text, a, ind(depth), b), nil
	}
	// no branch returns: the if yields the variables it may change
	var all []ast.Stmt
	if s.Init != nil {
		all = append(all, s.Init)
	}
	all = append(append(all, s.Body.List...), els...)
	vars, err := f.mutatedVars(all, en)
	if err != nil {
		return "", err
	}
	if len(vars) == 0 {
		return "", lostf("if without effect on the variables of the subset")
	}
	tuple, typ, projs := tupleOf(vars, en)
	it, en2, err := initText(en, depth+1)
	if err != nil {
		return "", err
	}
	cond, err := f.typed(s.Cond, en2, tBool)
	if err != nil {
		return "", err
	}
	a, err := f.block(s.Body.List, en2, tuple, depth+2)
	if err != nil {
		return "", err
	}
	b, err := f.block(els, en2, tuple, depth+2)
	if err != nil {
		return "", err
	}
	r, err := f.block(rest, en, final, depth)
	if err != nil {
		return "", err
	}
	if len(vars) == 1 {
		return fmt.Sprintf("%slet %s : %s :=\n%s%sif %s then\n%s%selse\n%s%s", ind(depth), tuple, typ,
			it, ind(depth+1), cond.text, a, ind(depth+1), b, r), nil
	}
	t := f.tmp()
	out := fmt.Sprintf("%slet %s : %s :=\n%s%sif %s then\n%s%selse\n%s", ind(depth), t, typ,
		it, ind(depth+1), cond.text, a, ind(depth+1), b)
	for i, v := range vars {
		out += fmt.Sprintf("%slet %s : %s := %s%s\n", ind(depth), en[v].lean, en[v].typ.lean(), t, projs[i])
	}
	return out + r, nil
}

var t2Builtin = map[string]bool{"nil": true, "true": true, "false": true, "len": true, "delete": true, "make": true,
	"uint64": true, "int": true, "int64": true, "int32": true, "string": true, "append": true, "byte": true,
	"list": true, "unsafe": true, "roaring": true, "sync": true}

// conjuncts of a condition
func conjuncts(e ast.Expr) []ast.Expr {
	switch x := e.(type) {
	case *ast.ParenExpr:
		return conjuncts(x.X)
	case *ast.BinaryExpr:
		if x.Op == token.LAND {
			return append(conjuncts(x.X), conjuncts(x.Y)...)
		}
	}
	return []ast.Expr{e}
}

// forStmt: `for cond { body }` over the state variable only ↦ name_forN_cond, name_forN_body, name_forN (fuel).
// The fuel handed to the loop is the length of the list a conjunct `L.Len() > 0` of the condition speaks about;
// that it suffices (the loop ends because the condition is false) is a theorem about the generated text.
func (f *t2fn) forStmt(s *ast.ForStmt, en env, depth int) (string, error) {
	if s.Init != nil || s.Post != nil || s.Cond == nil {
		return "", lostf("for loop with init/post statement or without condition")
	}
	if f.recv == "" {
		return "", lostf("for loop outside a method with a state")
	}
	st, ok := en[f.recv]
	if !ok {
		return "", lostf("state variable %s is out of scope", f.recv)
	}
	enL := env{f.recv: st} // the loop may read and write the state only
	fuel := ""
	for _, cj := range conjuncts(s.Cond) {
		be, ok := cj.(*ast.BinaryExpr)
		if !ok || !(be.Op == token.GTR || be.Op == token.NEQ) || f.t.tr.src(be.Y) != "0" {
			continue
		}
		call, ok := be.X.(*ast.CallExpr)
		if !ok || len(call.Args) != 0 {
			continue
		}
		if sel, lp, _, _, _, ok := f.listRecv(call.Fun, enL); ok && sel == "Len" {
			fuel = fmt.Sprintf("(Go.LList.len %s).toNat", lp)
		}
	}
	if fuel == "" {
		return "", lostf("loop condition has no conjunct `list.Len() > 0` to bound the number of iterations")
	}
	saved := f.usesSize
	f.usesSize = false
	cond, err := f.typed(s.Cond, enL, tBool)
	if err != nil {
		return "", err
	}
	body, err := f.block(s.Body.List, enL, st.lean, 1)
	if err != nil {
		return "", err
	}
	extraP, extraA := "", ""
	if f.usesSize {
		extraP, extraA = " (GetSizeInBytes : Go.Ref → UInt64)", " GetSizeInBytes"
	}
	f.usesSize = f.usesSize || saved
	f.loopN++
	name := fmt.Sprintf("%s_for%d", f.name, f.loopN)
	T := st.typ.lean()
	src := f.t.tr.src(s.Cond)
	fmt.Fprintf(f.pre, "/-- condition `%s` of loop %d of %s -/\ndef %s_cond%s (%s : %s) : Bool :=\n  %s\n\n",
		src, f.loopN, f.name, name, extraP, st.lean, T, cond.text)
	fmt.Fprintf(f.pre, "/-- body of loop %d of %s -/\ndef %s_body%s (%s : %s) : %s :=\n%s\n",
		f.loopN, f.name, name, extraP, st.lean, T, T, body)
	fmt.Fprintf(f.pre, "/-- `for %s { … }` of %s: at most `fuel` iterations -/\ndef %s%s : Nat → %s → %s\n  | 0, %s => %s\n  | fuel + 1, %s =>\n    if %s_cond%s %s then %s%s fuel (%s_body%s %s) else %s\n\n",
		src, f.name, name, extraP, T, T, st.lean, st.lean, st.lean, name, extraA, st.lean, name, extraA, name, extraA, st.lean, st.lean)
	return fmt.Sprintf("%slet %s : %s := %s%s %s %s\n", ind(depth), st.lean, T, name, extraA, fuel, st.lean), nil
}

// rangeStmt: `for _, o := range opts { … }` changing one struct variable ↦ List.foldl
func (f *t2fn) rangeStmt(s *ast.RangeStmt, en env, depth int) (string, error) {
	if k, ok := s.Key.(*ast.Ident); !ok || k.Name != "_" || s.Tok != token.DEFINE {
		return "", lostf("range loop that is not `for _, v := range xs`")
	}
	vid, ok := s.Value.(*ast.Ident)
	if !ok || vid.Name == "_" {
		return "", lostf("range loop without a value variable")
	}
	xid, ok := s.X.(*ast.Ident)
	if !ok {
		return "", lostf("range over %s", f.t.tr.src(s.X))
	}
	xb, ok := en[xid.Name]
	k, xt, isT2 := f.t.kindOf(xb.typ)
	if !ok || !isT2 || k != kSlice {
		return "", lostf("range over %s", f.t.tr.src(s.X))
	}
	vln, err := leanIdent(vid.Name)
	if err != nil {
		return "", err
	}
	vars, err := f.mutatedVars(s.Body.List, f.unalias(en, vid.Name).with(vid.Name, binding{vln, xt.elem}))
	if err != nil {
		return "", err
	}
	if len(vars) != 1 || vars[0] == xid.Name || vars[0] == vid.Name {
		return "", lostf("range loop that changes %d variables", len(vars))
	}
	acc := en[vars[0]]
	if _, al := en[aliasKey+vars[0]]; al || vln == acc.lean {
		return "", lostf("range loop accumulator %s", vars[0])
	}
	enB := f.unalias(en, vid.Name).with(vid.Name, binding{vln, xt.elem})
	body, err := f.block(s.Body.List, enB, acc.lean, depth+2)
	if err != nil {
		return "", err
	}
	return fmt.Sprintf("%slet %s : %s :=\n%sList.foldl (fun (%s : %s) (%s : %s) =>\n%s%s) %s %s\n", ind(depth), acc.lean, acc.typ.lean(),
		ind(depth+1), acc.lean, acc.typ.lean(), vln, xt.elem.lean(), body, ind(depth+1), acc.lean, xb.lean), nil
}

// funcLit: `func(c *S) { … }` ↦ `fun (c : S) => …`, a state transformer
func (f *t2fn) funcLit(x *ast.FuncLit, en env) (val, bool, error) {
	fail := func(err error) (val, bool, error) { return val{}, false, err }
	if x.Type.Results.NumFields() != 0 || x.Type.Params.NumFields() != 1 || len(x.Type.Params.List[0].Names) != 1 {
		return fail(lostf("function literal %s", f.t.tr.src(x.Type)))
	}
	p := x.Type.Params.List[0]
	if _, isPtr := p.Type.(*ast.StarExpr); !isPtr {
		return fail(lostf("function literal %s", f.t.tr.src(x.Type)))
	}
	st, err := f.t.goType(p.Type)
	if err != nil {
		return fail(err)
	}
	if !f.t.isStruct(st) {
		return fail(lostf("function literal %s", f.t.tr.src(x.Type)))
	}
	pn := p.Names[0].Name
	pl, err := leanIdent(pn)
	if err != nil {
		return fail(err)
	}
	for _, b := range en {
		if b.lean == pl {
			return fail(lostf("parameter %s of the function literal shadows a variable", pn))
		}
	}
	g := f.t.newType("optfn:"+st.lean(), &t2type{kind: kOptFn, elem: st}, "("+st.lean()+" → "+st.lean()+")")
	inner := &t2fn{t: f.t, c: f.c, name: f.name, recv: pn, hoisted: f.hoisted, pre: f.pre, tmpN: f.tmpN, loopN: f.loopN}
	saved := f.c.exprHook
	f.c.exprHook = inner.hook
	body, err := inner.block(x.Body.List, f.unalias(en, pn).with(pn, binding{pl, st}), "", 2)
	f.c.exprHook = saved
	f.tmpN, f.loopN = inner.tmpN, inner.loopN
	f.usesSize = f.usesSize || inner.usesSize
	if err != nil {
		return fail(err)
	}
	return val{text: fmt.Sprintf("(fun (%s : %s) =>\n%s  )", pl, st.lean(), body), typ: g}, true, nil
}

// ---------------------------------------------------------------- targets

// params: the parameters of a function as Lean binders and environment
func (f *t2fn) params(ft *ast.FuncType) (string, env, error) {
	en := env{}
	var b strings.Builder
	if ft.Params != nil {
		for _, fld := range ft.Params.List {
			g, err := f.t.goType(fld.Type)
			if err != nil {
				return "", nil, err
			}
			for _, id := range fld.Names {
				ln, err := leanIdent(id.Name)
				if err != nil {
					return "", nil, err
				}
				fmt.Fprintf(&b, " (%s : %s)", ln, g.lean())
				en[id.Name] = binding{ln, g}
			}
		}
	}
	return b.String(), en, nil
}

func (f *t2fn) resultTypes(ft *ast.FuncType) (string, error) {
	f.results = nil
	if ft.Results != nil {
		for _, fld := range ft.Results.List {
			g, err := f.t.goType(fld.Type)
			if err != nil {
				return "", err
			}
			if len(fld.Names) > 0 {
				return "", lostf("named results")
			}
			f.results = append(f.results, g)
		}
	}
	var ts []string
	for _, g := range f.results {
		ts = append(ts, g.lean())
	}
	switch len(ts) {
	case 0:
		return "Unit", nil
	case 1:
		return ts[0], nil
	}
	return "(" + strings.Join(ts, " × ") + ")", nil
}

// method: `func (r *S) name(params) results` in state-passing style
func (t *t2) method(recvType, name, lean string) (string, error) {
	_, fd := t.tr.fn(t.rel, recvType, name)
	if fd == nil {
		return "", lostf("method %s.%s not found in %s", recvType, name, t.rel)
	}
	if len(fd.Recv.List) != 1 || len(fd.Recv.List[0].Names) != 1 {
		return "", lostf("receiver of %s.%s", recvType, name)
	}
	if _, isPtr := fd.Recv.List[0].Type.(*ast.StarExpr); !isPtr {
		return "", lostf("%s.%s has a value receiver", recvType, name)
	}
	st, err := t.structType(recvType)
	if err != nil {
		return "", err
	}
	sty := t.types[st]
	f := t.newFn(lean)
	ps, en, err := f.params(fd.Type)
	if err != nil {
		return "", err
	}
	res, err := f.resultTypes(fd.Type)
	if err != nil {
		return "", err
	}
	r := fd.Recv.List[0].Names[0].Name
	stmts := fd.Body.List
	doc := fmt.Sprintf("`(*%s).%s` of %s", recvType, name, t.rel)
	recvP := ""
	if len(sty.fields) > 0 {
		rl, err := leanIdent(r)
		if err != nil {
			return "", err
		}
		if _, clash := en[r]; clash {
			return "", lostf("parameter named like the receiver")
		}
		f.recv = r
		en[r] = binding{rl, st}
		recvP = fmt.Sprintf(" (%s : %s)", rl, st.lean())
		if len(f.results) == 0 {
			res = st.lean()
		} else {
			res = "(" + st.lean() + " × " + res + ")"
		}
		doc += ": the receiver before ↦ the receiver after (and the results)"
	}
	if sty.mutex != "" {
		// the first two statements must be r.mtx.Lock(); defer r.mtx.Unlock()
		want := r + "." + sty.mutex
		ok := len(stmts) >= 2
		if ok {
			es, ok1 := stmts[0].(*ast.ExprStmt)
			ds, ok2 := stmts[1].(*ast.DeferStmt)
			ok = ok1 && ok2 && t.tr.src(es.X) == want+".Lock()" && t.tr.src(ds.Call) == want+".Unlock()"
		}
		if !ok {
			return "", lostf("%s.%s does not start with `%s.Lock(); defer %s.Unlock()`", recvType, name, want, want)
		}
		stmts = stmts[2:]
		doc += fmt.Sprintf("; `%s.Lock(); defer %s.Unlock()` are its first statements", want, want)
	}
	body, err := f.block(stmts, en, "", 1)
	if err != nil {
		return "", err
	}
	sizeP := ""
	if f.usesSize {
		sizeP = " (GetSizeInBytes : Go.Ref → UInt64)"
		doc += "; `GetSizeInBytes` stands for `(*roaring.Bitmap).GetSizeInBytes`"
	}
	return fmt.Sprintf("%s/-- %s -/\ndef %s%s%s%s : %s :=\n%s", f.pre.String(), strings.ReplaceAll(doc, "-/", "- /"), lean, sizeP, recvP, ps, res, body), nil
}

// function: a plain function (constructor / option)
func (t *t2) function(name, lean string) (string, error) {
	_, fd := t.tr.fn(t.rel, "", name)
	if fd == nil {
		return "", lostf("function %s not found in %s", name, t.rel)
	}
	f := t.newFn(lean)
	ps, en, err := f.params(fd.Type)
	if err != nil {
		return "", err
	}
	res, err := f.resultTypes(fd.Type)
	if err != nil {
		return "", err
	}
	if len(f.results) != 1 {
		return "", lostf("%s has %d results", name, len(f.results))
	}
	body, err := f.block(fd.Body.List, en, "", 1)
	if err != nil {
		return "", err
	}
	doc := fmt.Sprintf("`%s` of %s", name, t.rel)
	sizeP := ""
	if f.usesSize {
		sizeP = " (GetSizeInBytes : Go.Ref → UInt64)"
	}
	return fmt.Sprintf("%s/-- %s -/\ndef %s%s%s : %s :=\n%s", f.pre.String(), doc, lean, sizeP, ps, res, body), nil
}

func (tr *translator) translateT2(emit func(string, unit, error) bool, wrap func(bool, string, string)) {
	const rel = "cache.go"
	t := &t2{tr: tr, rel: rel, file: tr.load(rel), types: map[gtype]*t2type{}, byKey: map[string]gtype{}, next: t2FirstDynamic,
		pkgDone: map[string]string{}, failed: map[string]error{}}
	targets := []struct {
		lean string
		run  func() (string, error)
	}{
		{"nullCacheGet", func() (string, error) { return t.method("nullCache", "Get", "nullCacheGet") }},
		{"nullCachePut", func() (string, error) { return t.method("nullCache", "Put", "nullCachePut") }},
		{"withCacheMetrics", func() (string, error) { return t.function("WithCacheMetrics", "withCacheMetrics") }},
		{"newLRUCache", func() (string, error) { return t.function("NewLRUCache", "newLRUCache") }},
		{"lruGet", func() (string, error) { return t.method("LRUCache", "Get", "lruGet") }},
		{"lruPut", func() (string, error) { return t.method("LRUCache", "Put", "lruPut") }},
	}
	for _, tg := range targets {
		if t.file == nil {
			emit(tg.lean, unit{}, lostf("%s not found", rel))
			continue
		}
		mark := t.out.Len()
		text, err := tg.run()
		if err != nil {
			// structures / constants emitted on the way stay (other targets may have them registered as done)
			wrapPrefix(wrap, t, mark)
			emit(tg.lean, unit{}, err)
			continue
		}
		wrapPrefix(wrap, t, mark)
		wrap(true, tg.lean, text)
	}
}

// wrapPrefix: write the structures and constants that were produced since `mark`
func wrapPrefix(wrap func(bool, string, string), t *t2, mark int) {
	s := t.out.String()[mark:]
	if s != "" {
		wrap(true, "cache.go types", strings.TrimSuffix(s, "\n"))
	}
}
