// translate_t4.go: translation of the lexer, the recursive-descent parser and Walk of internal/queryparser.
//
// Unlike the leaf functions of translate.go these functions mutate a state reached through a pointer (*lexer, *parser),
// call each other (recursively), loop, and panic. The translation is a statement compiler in continuation-passing
// style at the meta level: a statement list becomes a Lean term whose shape follows the Go statements; a function
// writing through a pointer parameter returns the updated struct value in front of its results; a loop becomes a
// recursive helper definition with a fuel argument; mutually recursive functions become a `mutual` block over a fuel
// argument; `panic` / out-of-fuel become the `.error` alternatives of `Go.Res`. See Updog/Basic/GoPreludeT4.lean.
//
// Everything is derived from the AST: struct declarations, the iota constants, the set of state functions, and every
// statement of every translated function. A construct outside the subset loses the function and all its callers.
package main

import (
	"fmt"
	"go/ast"
	"go/token"
	"regexp"
	"strconv"
	"strings"
)

const t4proto = "github.com/akrennmair/updog/proto/updog/v1"

type t4field struct {
	goName, lean, ty string
	arrLen           int // > 0: fixed-size array
	ok               bool
}

type t4struct struct {
	goName, lean string
	fields       []t4field
}

func (s *t4struct) field(name string) *t4field {
	for i := range s.fields {
		if s.fields[i].goName == name {
			return &s.fields[i]
		}
	}
	return nil
}

type t4param struct {
	goName, lean, ty string
	ptr              bool // pointer to a struct of the package: may be written through
	dropped          bool // variadic ...interface{}: not represented
	callback         bool
}

type t4func struct {
	key, goName, recv, lean string
	rel                     string
	file                    *ast.File
	decl                    *ast.FuncDecl
	params                  []t4param // receiver first
	results                 []string  // Lean types of the non-error results
	resultNames             []string
	hasErr                  bool
	errName                 string
	callback                bool // has a callback parameter: threads the state `s`
	noFuel                  bool // recursion is structural (Lean checks it)
	diverges                bool // body ends in panic(...): never returns
	// effects (fixpoint)
	mut     []bool
	fails   bool
	fuelled bool
	calls   map[string]bool
	lost    error
	text    string
}

type t4pkg struct {
	tr         *translator
	dir        string
	files      map[string]*ast.File // rel ↦ file
	intTypes   map[string]bool
	structs    map[string]*t4struct
	structSeq  []string
	stateFnTy  string // Go name of the type `func(*S) T` that is its own result type
	stateFnArg string // S
	stateFns   []string
	consts     map[string]int64
	constSeq   []string
	funcs      map[string]*t4func
	funcSeq    []string
	typeDecls  map[string]ast.Expr
	typeFile   map[string]*ast.File
	useStateFn bool
}

func t4cap(s string) string {
	if s == "" {
		return s
	}
	return strings.ToUpper(s[:1]) + s[1:]
}

// protoAlias: the name under which file f imports the proto package ("" if not imported)
func t4protoAlias(f *ast.File) string {
	for _, im := range f.Imports {
		p, _ := strconv.Unquote(im.Path.Value)
		if p == t4proto {
			if im.Name != nil {
				return im.Name.Name
			}
			return "v1"
		}
	}
	return ""
}

func (pk *t4pkg) loadPkg(rels ...string) error {
	pk.files = map[string]*ast.File{}
	pk.intTypes = map[string]bool{}
	pk.structs = map[string]*t4struct{}
	pk.consts = map[string]int64{}
	pk.funcs = map[string]*t4func{}
	pk.typeDecls = map[string]ast.Expr{}
	pk.typeFile = map[string]*ast.File{}
	for _, rel := range rels {
		f := pk.tr.load(rel)
		if f == nil {
			return lostf("%s does not parse", rel)
		}
		pk.files[rel] = f
		for _, d := range f.Decls {
			gd, ok := d.(*ast.GenDecl)
			if !ok {
				continue
			}
			switch gd.Tok {
			case token.TYPE:
				for _, s := range gd.Specs {
					ts := s.(*ast.TypeSpec)
					pk.typeDecls[ts.Name.Name] = ts.Type
					pk.typeFile[ts.Name.Name] = f
				}
			case token.CONST:
				pk.constBlock(gd)
			}
		}
	}
	// named integer types, the state-function type
	for name, te := range pk.typeDecls {
		switch t := te.(type) {
		case *ast.Ident:
			if t.Name == "int" || t.Name == "int32" || t.Name == "int64" {
				pk.intTypes[name] = true
			}
		case *ast.FuncType:
			if t.Params != nil && len(t.Params.List) == 1 && len(t.Params.List[0].Names) <= 1 && t.Results != nil &&
				len(t.Results.List) == 1 && pk.tr.src(t.Results.List[0].Type) == name {
				if st, ok := t.Params.List[0].Type.(*ast.StarExpr); ok {
					if id, ok := st.X.(*ast.Ident); ok {
						pk.stateFnTy, pk.stateFnArg = name, id.Name
					}
				}
			}
		}
	}
	return nil
}

// constBlock: `const ( a T = iota; b; c )`, `const x = -1`: integer constants only
func (pk *t4pkg) constBlock(gd *ast.GenDecl) {
	var lastExpr ast.Expr
	for i, s := range gd.Specs {
		vs := s.(*ast.ValueSpec)
		if len(vs.Names) != 1 {
			lastExpr = nil
			continue
		}
		if len(vs.Values) == 1 {
			lastExpr = vs.Values[0]
		} else if len(vs.Values) != 0 {
			lastExpr = nil
		}
		if lastExpr == nil {
			continue
		}
		k, ok := t4constVal(lastExpr, int64(i))
		if !ok {
			lastExpr = nil
			continue
		}
		pk.consts[vs.Names[0].Name] = k
		pk.constSeq = append(pk.constSeq, vs.Names[0].Name)
	}
}

func t4constVal(e ast.Expr, iota int64) (int64, bool) {
	switch e := e.(type) {
	case *ast.Ident:
		if e.Name == "iota" {
			return iota, true
		}
	case *ast.BasicLit:
		switch e.Kind {
		case token.INT:
			k, err := strconv.ParseInt(e.Value, 0, 64)
			return k, err == nil
		case token.CHAR:
			r, _, _, err := strconv.UnquoteChar(e.Value[1:len(e.Value)-1], '\'')
			return int64(r), err == nil
		}
	case *ast.UnaryExpr:
		if e.Op == token.SUB {
			k, ok := t4constVal(e.X, iota)
			return -k, ok
		}
	case *ast.ParenExpr:
		return t4constVal(e.X, iota)
	}
	return 0, false
}

// goTy: Lean type of a Go type expression as written in file f; "" = outside the subset
func (pk *t4pkg) goTy(f *ast.File, e ast.Expr) string {
	switch t := e.(type) {
	case *ast.Ident:
		switch t.Name {
		case "int", "int32", "int64", "rune":
			if _, shadow := pk.typeDecls[t.Name]; !shadow {
				return "Int"
			}
		case "bool":
			return "Bool"
		case "string":
			return "Bytes"
		}
		if pk.intTypes[t.Name] {
			return "Int"
		}
		if t.Name == pk.stateFnTy && pk.stateFnTy != "" {
			pk.useStateFn = true
			return "Option StateFn"
		}
		if s := pk.structOf(t.Name); s != nil {
			return s.lean
		}
	case *ast.StarExpr:
		if id, ok := t.X.(*ast.Ident); ok {
			if s := pk.structOf(id.Name); s != nil {
				return s.lean
			}
		}
		if sel, ok := t.X.(*ast.SelectorExpr); ok {
			if id, ok := sel.X.(*ast.Ident); ok && id.Name == t4protoAlias(f) && id.Name != "" {
				switch sel.Sel.Name {
				case "Query_Expression":
					return "PExpr"
				case "Query":
					return "PQuery"
				}
			}
		}
	case *ast.ArrayType:
		el := pk.goTy(f, t.Elt)
		if el == "" {
			return ""
		}
		if el == "UInt8" {
			return "Bytes"
		}
		return "List " + t4atomTy(el)
	case *ast.ChanType:
		el := pk.goTy(f, t.Value)
		if el == "" {
			return ""
		}
		return "List " + t4atomTy(el)
	}
	return ""
}

func t4atomTy(t string) string {
	if strings.Contains(t, " ") {
		return "(" + t + ")"
	}
	return t
}

func t4elemTy(t string) string {
	if t == "Bytes" {
		return "UInt8"
	}
	if strings.HasPrefix(t, "List ") {
		e := strings.TrimPrefix(t, "List ")
		if strings.HasPrefix(e, "(") && strings.HasSuffix(e, ")") {
			e = e[1 : len(e)-1]
		}
		return e
	}
	return ""
}

// structOf: the struct type `name` of the package (registered on first use, fields translated)
func (pk *t4pkg) structOf(name string) *t4struct {
	if s, ok := pk.structs[name]; ok {
		return s
	}
	st, ok := pk.typeDecls[name].(*ast.StructType)
	if !ok {
		return nil
	}
	s := &t4struct{goName: name, lean: t4cap(name)}
	pk.structs[name] = s // before the fields: recursive types terminate
	f := pk.typeFile[name]
	for _, fl := range st.Fields.List {
		for _, id := range fl.Names {
			fd := t4field{goName: id.Name}
			fd.ty = pk.goTy(f, fl.Type)
			if at, ok := fl.Type.(*ast.ArrayType); ok && at.Len != nil {
				if n, ok := t4constVal(at.Len, 0); ok && n > 0 {
					fd.arrLen = int(n)
				} else {
					fd.ty = ""
				}
			}
			if ln, err := leanIdent(id.Name); err == nil && fd.ty != "" {
				fd.lean, fd.ok = ln, true
			}
			s.fields = append(s.fields, fd)
		}
	}
	pk.structSeq = append(pk.structSeq, name)
	return s
}

// zero value of a Lean type of the subset
func (pk *t4pkg) zero(ty string) (string, error) {
	switch {
	case ty == "Int":
		return "(0 : Int)", nil
	case ty == "Bool":
		return "false", nil
	case ty == "Bytes":
		return "([] : Bytes)", nil
	case strings.HasPrefix(ty, "List "):
		return "([] : " + ty + ")", nil
	case strings.HasPrefix(ty, "Option "):
		return "(none : " + ty + ")", nil
	}
	for _, s := range pk.structs {
		if s.lean == ty {
			return s.lean + ".zero", nil
		}
	}
	return "", lostf("no zero value for %s", ty)
}

func (pk *t4pkg) structByLean(ty string) *t4struct {
	for _, s := range pk.structs {
		if s.lean == ty {
			return s
		}
	}
	return nil
}

// structDecl: the Lean structure and its zero value
func (pk *t4pkg) structDecl(s *t4struct) (string, error) {
	var b strings.Builder
	fmt.Fprintf(&b, "/-- `type %s struct` of %s", s.goName, pk.dir)
	var skipped []string
	for _, f := range s.fields {
		if !f.ok {
			skipped = append(skipped, f.goName)
		}
	}
	if len(skipped) > 0 {
		fmt.Fprintf(&b, " (fields outside the subset, not represented: %s)", strings.Join(skipped, ", "))
	}
	fmt.Fprintf(&b, " -/\nstructure %s where\n", s.lean)
	var zs []string
	for _, f := range s.fields {
		if !f.ok {
			continue
		}
		fmt.Fprintf(&b, "  %s : %s\n", f.lean, f.ty)
		z, err := pk.zero(f.ty)
		if err != nil {
			return "", err
		}
		if f.arrLen > 0 {
			ez, err := pk.zero(t4elemTy(f.ty))
			if err != nil {
				return "", err
			}
			z = fmt.Sprintf("(List.replicate %d %s)", f.arrLen, ez)
		}
		zs = append(zs, fmt.Sprintf("%s := %s", f.lean, z))
	}
	b.WriteString("  deriving Repr, DecidableEq\n\n")
	fmt.Fprintf(&b, "/-- the zero value of `%s` -/\ndef %s.zero : %s := { %s }\n", s.goName, s.lean, s.lean, strings.Join(zs, ", "))
	return b.String(), nil
}

// ---------------------------------------------------------------- function signatures

func (pk *t4pkg) addFunc(rel, recv, name string, noFuel bool) *t4func {
	key := name
	lean := name
	if recv != "" {
		key = recv + "." + name
		lean = recv + "_" + name
	}
	fn := &t4func{key: key, goName: name, recv: recv, lean: lean, rel: rel, noFuel: noFuel, calls: map[string]bool{}}
	pk.funcs[key] = fn
	pk.funcSeq = append(pk.funcSeq, key)
	f, fd := pk.tr.fn(rel, recv, name)
	fn.file = f
	if fd == nil {
		fn.lost = lostf("function %s not found in %s", key, rel)
		return fn
	}
	fn.decl = fd
	fn.lost = pk.signature(fn)
	return fn
}

func (pk *t4pkg) signature(fn *t4func) error {
	fd := fn.decl
	add := func(id *ast.Ident, te ast.Expr, variadic bool) error {
		p := t4param{goName: id.Name}
		ln, err := leanIdent(id.Name)
		if err != nil {
			return err
		}
		p.lean = ln
		if variadic {
			if pk.tr.src(te) != "interface{}" && pk.tr.src(te) != "any" {
				return lostf("variadic parameter %s", id.Name)
			}
			p.dropped = true
			fn.params = append(fn.params, p)
			return nil
		}
		if ft, ok := te.(*ast.FuncType); ok {
			// func(e *proto.Query_Expression) bool: a callback with side effects
			if ft.Params != nil && ft.Params.NumFields() == 1 && ft.Results != nil && ft.Results.NumFields() == 1 &&
				pk.goTy(fn.file, ft.Params.List[0].Type) == "PExpr" && pk.goTy(fn.file, ft.Results.List[0].Type) == "Bool" && !fn.callback {
				p.callback = true
				p.ty = "σ → PExpr → σ × Bool"
				fn.callback = true
				fn.params = append(fn.params, p)
				return nil
			}
			return lostf("parameter %s of function type %s", id.Name, pk.tr.src(te))
		}
		p.ty = pk.goTy(fn.file, te)
		if p.ty == "" {
			return lostf("parameter %s of type %s", id.Name, pk.tr.src(te))
		}
		if st, ok := te.(*ast.StarExpr); ok {
			if _, ok := st.X.(*ast.Ident); ok {
				p.ptr = true
			}
		}
		fn.params = append(fn.params, p)
		return nil
	}
	if fd.Recv != nil {
		if len(fd.Recv.List) != 1 || len(fd.Recv.List[0].Names) != 1 {
			return lostf("receiver of %s", fn.key)
		}
		if err := add(fd.Recv.List[0].Names[0], fd.Recv.List[0].Type, false); err != nil {
			return err
		}
	}
	if fd.Type.Params != nil {
		for _, fl := range fd.Type.Params.List {
			if len(fl.Names) == 0 {
				return lostf("unnamed parameter of %s", fn.key)
			}
			for _, id := range fl.Names {
				te := fl.Type
				variadic := false
				if el, ok := te.(*ast.Ellipsis); ok {
					te, variadic = el.Elt, true
				}
				if err := add(id, te, variadic); err != nil {
					return err
				}
			}
		}
	}
	fn.mut = make([]bool, len(fn.params))
	if fd.Type.Results != nil {
		var tys []ast.Expr
		var names []string
		for _, fl := range fd.Type.Results.List {
			if len(fl.Names) == 0 {
				tys = append(tys, fl.Type)
				names = append(names, "")
			}
			for _, id := range fl.Names {
				tys = append(tys, fl.Type)
				names = append(names, id.Name)
			}
		}
		for i, te := range tys {
			if id, ok := te.(*ast.Ident); ok && id.Name == "error" && i == len(tys)-1 {
				if _, shadow := pk.typeDecls["error"]; !shadow {
					fn.hasErr = true
					fn.errName = names[i]
					continue
				}
			}
			ty := pk.goTy(fn.file, te)
			if ty == "" {
				return lostf("result type %s of %s", pk.tr.src(te), fn.key)
			}
			fn.results = append(fn.results, ty)
			fn.resultNames = append(fn.resultNames, names[i])
		}
	}
	// a function whose last statement is panic(…) and that has no return statement never returns
	if n := len(fd.Body.List); n > 0 && !hasReturn(fd.Body.List) {
		if es, ok := fd.Body.List[n-1].(*ast.ExprStmt); ok {
			if call, ok := es.X.(*ast.CallExpr); ok {
				if id, ok := call.Fun.(*ast.Ident); ok && id.Name == "panic" && !pk.tr.pkgDeclares(fn.rel, "panic") {
					fn.diverges = true
					fn.fails = true
				}
			}
		}
	}
	return nil
}

// retTy: the Lean result type; outs = the parameters written through (in order), then the callback state
func (fn *t4func) outs() []t4param {
	var o []t4param
	for i, p := range fn.params {
		if fn.mut[i] {
			o = append(o, p)
		}
	}
	return o
}

func (fn *t4func) retTy() string {
	var parts []string
	for _, p := range fn.outs() {
		parts = append(parts, p.ty)
	}
	if fn.callback {
		parts = append(parts, "σ")
	}
	parts = append(parts, fn.results...)
	t := "Unit"
	if len(parts) > 0 {
		for i := range parts {
			if i < len(parts)-1 || len(parts) == 1 {
				parts[i] = t4prodAtom(parts[i], len(parts) > 1)
			}
		}
		t = strings.Join(parts, " × ")
	}
	if fn.fails || fn.hasErr {
		return "Go.Res " + t4atomTy(t)
	}
	return t
}

func t4prodAtom(t string, inProd bool) string {
	if inProd && (strings.Contains(t, "×") || strings.Contains(t, "→")) {
		return "(" + t + ")"
	}
	return t
}

func t4tuple(parts []string) string {
	switch len(parts) {
	case 0:
		return "()"
	case 1:
		return parts[0]
	}
	return "(" + strings.Join(parts, ", ") + ")"
}

// ---------------------------------------------------------------- context, environment, bindings

type t4val struct {
	text string
	ty   string
	vals []t4val // several results of a call
	void bool
	null bool // untyped nil
}

type t4bind struct {
	lean, ty string
	nilErr   bool // an `error` variable known to be nil here
	tswitch  map[string]t4bind
}

type t4env map[string]t4bind

func (e t4env) with(name string, b t4bind) t4env {
	n := t4env{}
	for k, v := range e {
		n[k] = v
	}
	n[name] = b
	return n
}

type t4line struct {
	res      bool // match … with | .error e => .error e | .ok pat =>
	pat, rhs string
}

type t4pre struct{ lines []t4line }

func (p *t4pre) let(pat, rhs string)  { p.lines = append(p.lines, t4line{false, pat, rhs}) }
func (p *t4pre) bind(pat, rhs string) { p.lines = append(p.lines, t4line{true, pat, rhs}) }

func (p *t4pre) emit(depth int) string {
	var b strings.Builder
	for _, l := range p.lines {
		if l.res {
			fmt.Fprintf(&b, "%smatch %s with\n%s| .error err => .error err\n%s| .ok %s =>\n", ind(depth), l.rhs, ind(depth), ind(depth), l.pat)
		} else {
			fmt.Fprintf(&b, "%slet %s := %s\n", ind(depth), l.pat, l.rhs)
		}
	}
	return b.String()
}

type t4kont struct {
	next func(en t4env, depth int) (string, error)
	brk  func(en t4env, depth int) (string, error)
	ret  func(vals []t4val, en t4env, depth int) (string, error)
}

type t4ctx struct {
	pk      *t4pkg
	fn      *t4func
	tmp     int
	tmpPfx  string
	loopN   int
	helpers []string
	fuelVar bool // `fuel` is in scope
	// observed effects
	obsMut     map[string]bool // Go name of a pointer parameter written through
	obsFails   bool
	obsFuelled bool
}

func (c *t4ctx) fresh() string {
	c.tmp++
	return fmt.Sprintf("%s%d", c.tmpPfx, c.tmp)
}

func (c *t4ctx) src(n ast.Node) string { return c.pk.tr.src(n) }

// free: name is neither a local variable nor declared by the package
func (c *t4ctx) free(name string, en t4env) bool {
	if _, ok := en[name]; ok {
		return false
	}
	return !c.pk.tr.pkgDeclares(c.fn.rel, name)
}

func (c *t4ctx) pkgSel(e ast.Expr, en t4env, pkg, path, sel string) bool {
	s, ok := e.(*ast.SelectorExpr)
	if !ok || s.Sel.Name != sel {
		return false
	}
	id, ok := s.X.(*ast.Ident)
	return ok && id.Name == pkg && c.free(pkg, en) && imports(c.fn.file, pkg, path)
}

var t4simple = regexp.MustCompile(`^[A-Za-z_][A-Za-z0-9_']*$`)

// touched: a parameter was written through (its root variable)
func (c *t4ctx) touched(goName string) {
	for _, p := range c.fn.params {
		if p.goName == goName && p.ptr {
			c.obsMut[goName] = true
		}
	}
}

// lvalue path: ident or ident.f.g of struct types; returns root Go name, the chain of (struct, field)
type t4path struct {
	root   string
	fields []*t4field
	strs   []*t4struct
}

func (c *t4ctx) path(e ast.Expr, en t4env) (*t4path, string, error) {
	switch e := e.(type) {
	case *ast.Ident:
		b, ok := en[e.Name]
		if !ok {
			return nil, "", lostf("%s is not a variable of the subset", e.Name)
		}
		return &t4path{root: e.Name}, b.ty, nil
	case *ast.SelectorExpr:
		p, ty, err := c.path(e.X, en)
		if err != nil {
			return nil, "", err
		}
		s := c.pk.structByLean(ty)
		if s == nil {
			return nil, "", lostf("selector %s on %s", e.Sel.Name, ty)
		}
		f := s.field(e.Sel.Name)
		if f == nil || !f.ok {
			return nil, "", lostf("field %s.%s is outside the subset", s.goName, e.Sel.Name)
		}
		p.fields = append(p.fields, f)
		p.strs = append(p.strs, s)
		return p, f.ty, nil
	case *ast.ParenExpr:
		return c.path(e.X, en)
	}
	return nil, "", lostf("%s is not a variable or a field path", c.src(e))
}

// read: the Lean text of a path
func (p *t4path) read(en t4env) string {
	t := en[p.root].lean
	for _, f := range p.fields {
		t += "." + f.lean
	}
	return t
}

// store: bindings that make the path hold `v`
func (c *t4ctx) store(p *t4path, v string, en t4env, pre *t4pre) {
	root := en[p.root].lean
	if len(p.fields) == 0 {
		pre.let(root, v)
		return
	}
	c.touched(p.root)
	// { root with f := { root.f with g := v } }
	var build func(prefix string, i int) string
	build = func(prefix string, i int) string {
		f := p.fields[i]
		if i == len(p.fields)-1 {
			return fmt.Sprintf("{ %s with %s := %s }", prefix, f.lean, v)
		}
		return fmt.Sprintf("{ %s with %s := %s }", prefix, f.lean, build(prefix+"."+f.lean, i+1))
	}
	pre.let(root, build(root, 0))
}

// ---------------------------------------------------------------- expressions

func t4intLit(k int64) string { return fmt.Sprintf("(%d : Int)", k) }

// expr translates e; bindings needed before its value exists go to pre (in evaluation order)
func (c *t4ctx) expr(e ast.Expr, en t4env, pre *t4pre) (t4val, error) {
	switch e := e.(type) {
	case *ast.ParenExpr:
		return c.expr(e.X, en, pre)
	case *ast.BasicLit:
		switch e.Kind {
		case token.INT, token.CHAR:
			k, ok := t4constVal(e, 0)
			if !ok {
				return t4val{}, lostf("literal %s", e.Value)
			}
			return t4val{text: t4intLit(k), ty: "Int"}, nil
		case token.STRING:
			s, err := strconv.Unquote(e.Value)
			if err != nil {
				return t4val{}, lostf("string literal %s", e.Value)
			}
			return t4val{text: bytesLit(s), ty: "Bytes"}, nil
		}
		return t4val{}, lostf("literal %s", e.Value)
	case *ast.Ident:
		if b, ok := en[e.Name]; ok {
			if b.ty == "error" {
				return t4val{}, lostf("use of the error variable %s", e.Name)
			}
			return t4val{text: b.lean, ty: b.ty}, nil
		}
		if (e.Name == "true" || e.Name == "false") && c.free(e.Name, en) {
			return t4val{text: e.Name, ty: "Bool"}, nil
		}
		if e.Name == "nil" && c.free("nil", en) {
			return t4val{text: "none", null: true}, nil
		}
		if _, ok := c.pk.consts[e.Name]; ok {
			return t4val{text: e.Name, ty: "Int"}, nil
		}
		for _, sf := range c.pk.stateFns {
			if sf == e.Name {
				return t4val{text: "(some StateFn." + sf + ")", ty: "Option StateFn"}, nil
			}
		}
		return t4val{}, lostf("identifier %s is not a variable of the subset", e.Name)
	case *ast.SelectorExpr:
		// v.And.Exprs etc. of a type-switch variable
		if b, ok := c.tswitchSel(e, en); ok {
			return t4val{text: b.lean, ty: b.ty}, nil
		}
		x, err := c.expr(e.X, en, pre)
		if err != nil {
			return t4val{}, err
		}
		if x.ty == "PQuery" {
			switch e.Sel.Name {
			case "Expr":
				return t4val{text: t4dot(x.text, "expr"), ty: "PExpr"}, nil
			case "GroupBy":
				return t4val{text: t4dot(x.text, "groupBy"), ty: "List Bytes"}, nil
			}
		}
		s := c.pk.structByLean(x.ty)
		if s == nil {
			return t4val{}, lostf("selector %s", c.src(e))
		}
		f := s.field(e.Sel.Name)
		if f == nil || !f.ok {
			return t4val{}, lostf("field %s.%s is outside the subset", s.goName, e.Sel.Name)
		}
		return t4val{text: t4dot(x.text, f.lean), ty: f.ty}, nil
	case *ast.UnaryExpr:
		switch e.Op {
		case token.NOT:
			x, err := c.expr(e.X, en, pre)
			if err != nil {
				return t4val{}, err
			}
			if x.ty != "Bool" {
				return t4val{}, lostf("! on %s", x.ty)
			}
			return t4val{text: "(!" + x.text + ")", ty: "Bool"}, nil
		case token.SUB:
			if k, ok := t4constVal(e, 0); ok {
				return t4val{text: t4intLit(k), ty: "Int"}, nil
			}
		case token.ARROW: // <-ch
			p, ty, err := c.path(e.X, en)
			if err != nil {
				return t4val{}, err
			}
			el := t4elemTy(ty)
			if !strings.HasPrefix(ty, "List ") || !c.isChan(p) {
				return t4val{}, lostf("receive from %s", c.src(e.X))
			}
			z, err := c.pk.zero(el)
			if err != nil {
				return t4val{}, err
			}
			ch, v := c.fresh(), c.fresh()
			pre.let("("+ch+", "+v+")", fmt.Sprintf("Go.chanRecv %s %s", z, p.read(en)))
			c.store(p, ch, en, pre)
			return t4val{text: v, ty: el}, nil
		case token.AND: // &T{…}
			if cl, ok := e.X.(*ast.CompositeLit); ok {
				return c.composite(cl, en, pre, true)
			}
		}
		return t4val{}, lostf("unary %s", e.Op)
	case *ast.BinaryExpr:
		return c.binary(e, en, pre)
	case *ast.IndexExpr:
		x, err := c.expr(e.X, en, pre)
		if err != nil {
			return t4val{}, err
		}
		n0 := len(pre.lines)
		i, err := c.expr(e.Index, en, pre)
		if err != nil {
			return t4val{}, err
		}
		if len(pre.lines) != n0 {
			return t4val{}, lostf("index expression with side effects")
		}
		if i.ty != "Int" || !strings.HasPrefix(x.ty, "List ") || !c.isArray(e.X, en) {
			return t4val{}, lostf("index %s", c.src(e))
		}
		z, err := c.pk.zero(t4elemTy(x.ty))
		if err != nil {
			return t4val{}, err
		}
		return t4val{text: fmt.Sprintf("(Go.arrGet %s %s %s)", z, x.text, i.text), ty: t4elemTy(x.ty)}, nil
	case *ast.SliceExpr:
		if e.Slice3 {
			return t4val{}, lostf("3-index slice")
		}
		x, err := c.expr(e.X, en, pre)
		if err != nil {
			return t4val{}, err
		}
		if x.ty != "Bytes" {
			return t4val{}, lostf("slice of %s", x.ty)
		}
		n0 := len(pre.lines)
		var lo, hi t4val
		if e.Low != nil {
			if lo, err = c.expr(e.Low, en, pre); err != nil {
				return t4val{}, err
			}
		}
		if e.High != nil {
			if hi, err = c.expr(e.High, en, pre); err != nil {
				return t4val{}, err
			}
		}
		if len(pre.lines) != n0 || (e.Low != nil && lo.ty != "Int") || (e.High != nil && hi.ty != "Int") {
			return t4val{}, lostf("slice bounds %s", c.src(e))
		}
		switch {
		case e.Low == nil && e.High == nil:
			return x, nil
		case e.High == nil:
			return t4val{text: fmt.Sprintf("(Go.sliceFrom %s %s)", x.text, lo.text), ty: "Bytes"}, nil
		case e.Low == nil:
			return t4val{text: fmt.Sprintf("(Go.sliceTo %s %s)", x.text, hi.text), ty: "Bytes"}, nil
		}
		return t4val{text: fmt.Sprintf("(Go.slice %s %s %s)", x.text, lo.text, hi.text), ty: "Bytes"}, nil
	case *ast.CompositeLit:
		return c.composite(e, en, pre, false)
	case *ast.CallExpr:
		return c.call(e, en, pre)
	}
	return t4val{}, lostf("expression %s", c.src(e))
}

func t4dot(x, f string) string {
	if t4simple.MatchString(x) || strings.Count(x, " ") == 0 {
		return x + "." + f
	}
	return "(" + x + ")." + f
}

// isChan / isArray: the declared Go type of the last field of the path is a channel / fixed-size array
func (c *t4ctx) isChan(p *t4path) bool {
	if len(p.fields) == 0 {
		return false
	}
	s := p.strs[len(p.strs)-1]
	st := c.pk.typeDecls[s.goName].(*ast.StructType)
	for _, fl := range st.Fields.List {
		for _, id := range fl.Names {
			if id.Name == p.fields[len(p.fields)-1].goName {
				_, ok := fl.Type.(*ast.ChanType)
				return ok
			}
		}
	}
	return false
}

func (c *t4ctx) isArray(e ast.Expr, en t4env) bool {
	p, _, err := c.path(e, en)
	if err != nil || len(p.fields) == 0 {
		return false
	}
	return p.fields[len(p.fields)-1].arrLen > 0
}

// stabilise: if evaluating later operands added bindings, the earlier operand value a (computed before pre.lines[n0:])
// is bound to a temporary in front of them unless it is a literal or a variable none of them rebinds
func (c *t4ctx) stabilise(a t4val, pre *t4pre, n0 int) t4val {
	if len(pre.lines) == n0 || strings.HasPrefix(a.text, "([") || (strings.HasPrefix(a.text, "(") && strings.HasSuffix(a.text, ": Int)") && !strings.Contains(a.text[1:], "(")) {
		return a
	}
	rebound := false
	for _, l := range pre.lines[n0:] {
		for _, w := range regexp.MustCompile(`[A-Za-z_][A-Za-z0-9_']*`).FindAllString(l.pat, -1) {
			if regexp.MustCompile(`(^|[^A-Za-z0-9_'.])` + regexp.QuoteMeta(w) + `($|[^A-Za-z0-9_'])`).MatchString(a.text) {
				rebound = true
			}
		}
	}
	if !rebound {
		return a
	}
	t := c.fresh()
	rest := append([]t4line{{false, t, a.text}}, pre.lines[n0:]...)
	pre.lines = append(pre.lines[:n0:n0], rest...)
	return t4val{text: t, ty: a.ty}
}

func (c *t4ctx) binary(e *ast.BinaryExpr, en t4env, pre *t4pre) (t4val, error) {
	a, err := c.expr(e.X, en, pre)
	if err != nil {
		return t4val{}, err
	}
	n0 := len(pre.lines)
	b, err := c.expr(e.Y, en, pre)
	if err != nil {
		return t4val{}, err
	}
	if e.Op == token.LAND || e.Op == token.LOR {
		if len(pre.lines) != n0 {
			return t4val{}, lostf("%s whose right operand has side effects", e.Op)
		}
		if a.ty != "Bool" || b.ty != "Bool" {
			return t4val{}, lostf("%s on non-booleans", e.Op)
		}
		op := "&&"
		if e.Op == token.LOR {
			op = "||"
		}
		return t4val{text: fmt.Sprintf("(%s %s %s)", a.text, op, b.text), ty: "Bool"}, nil
	}
	a = c.stabilise(a, pre, n0)
	if a.null != b.null {
		// comparison with nil: only a state function value
		v := a
		if a.null {
			v = b
		}
		if v.ty != "Option StateFn" || (e.Op != token.EQL && e.Op != token.NEQ) {
			return t4val{}, lostf("comparison of %s with nil", v.ty)
		}
		op := map[token.Token]string{token.EQL: "==", token.NEQ: "!="}[e.Op]
		return t4val{text: fmt.Sprintf("(%s %s none)", v.text, op), ty: "Bool"}, nil
	}
	if a.ty != b.ty || a.ty == "" {
		return t4val{}, lostf("operands of %s: %s and %s", e.Op, a.ty, b.ty)
	}
	switch e.Op {
	case token.EQL, token.NEQ:
		if a.ty != "Int" && a.ty != "Bool" && a.ty != "Bytes" {
			return t4val{}, lostf("== on %s", a.ty)
		}
		op := map[token.Token]string{token.EQL: "==", token.NEQ: "!="}[e.Op]
		return t4val{text: fmt.Sprintf("(%s %s %s)", a.text, op, b.text), ty: "Bool"}, nil
	case token.LSS, token.LEQ, token.GTR, token.GEQ:
		if a.ty != "Int" {
			return t4val{}, lostf("%s on %s", e.Op, a.ty)
		}
		op := map[token.Token]string{token.LSS: "<", token.LEQ: "≤", token.GTR: ">", token.GEQ: "≥"}[e.Op]
		return t4val{text: fmt.Sprintf("(decide (%s %s %s))", a.text, op, b.text), ty: "Bool"}, nil
	case token.ADD, token.SUB:
		if a.ty == "Bytes" && e.Op == token.ADD {
			return t4val{text: fmt.Sprintf("(%s ++ %s)", a.text, b.text), ty: "Bytes"}, nil
		}
		if a.ty != "Int" {
			return t4val{}, lostf("arithmetic %s on %s", e.Op, a.ty)
		}
		return t4val{text: fmt.Sprintf("(%s %s %s)", a.text, e.Op, b.text), ty: "Int"}, nil
	}
	return t4val{}, lostf("operator %s", e.Op)
}

// composite literals: structs of the package, slices, and the protobuf trees
func (c *t4ctx) composite(cl *ast.CompositeLit, en t4env, pre *t4pre, addr bool) (t4val, error) {
	alias := t4protoAlias(c.fn.file)
	if sel, ok := cl.Type.(*ast.SelectorExpr); ok && addr {
		if id, ok := sel.X.(*ast.Ident); ok && id.Name == alias && alias != "" && c.free(alias, en) {
			return c.protoLit(sel.Sel.Name, cl, en, pre)
		}
	}
	if at, ok := cl.Type.(*ast.ArrayType); ok && at.Len == nil && !addr {
		ty := c.pk.goTy(c.fn.file, at)
		if ty == "" || ty == "Bytes" {
			return t4val{}, lostf("literal of type %s", c.src(cl.Type))
		}
		var items []string
		for _, el := range cl.Elts {
			if _, kv := el.(*ast.KeyValueExpr); kv {
				return t4val{}, lostf("keyed slice literal")
			}
			n0 := len(pre.lines)
			v, err := c.expr(el, en, pre)
			if err != nil {
				return t4val{}, err
			}
			if len(pre.lines) != n0 && len(cl.Elts) > 1 {
				return t4val{}, lostf("slice literal whose elements have side effects")
			}
			if v.ty != t4elemTy(ty) {
				return t4val{}, lostf("element of type %s in %s", v.ty, ty)
			}
			items = append(items, v.text)
		}
		return t4val{text: "[" + strings.Join(items, ", ") + "]", ty: ty}, nil
	}
	if id, ok := cl.Type.(*ast.Ident); ok {
		s := c.pk.structOf(id.Name)
		if s == nil {
			return t4val{}, lostf("literal of type %s", id.Name)
		}
		if _, local := en[id.Name]; local {
			return t4val{}, lostf("type name %s is shadowed", id.Name)
		}
		vals := map[string]string{}
		keyed := len(cl.Elts) > 0
		for _, el := range cl.Elts {
			if _, kv := el.(*ast.KeyValueExpr); !kv {
				keyed = false
			}
		}
		if !keyed && len(cl.Elts) != 0 && len(cl.Elts) != len(s.fields) {
			return t4val{}, lostf("positional literal of %s with %d of %d fields", s.goName, len(cl.Elts), len(s.fields))
		}
		var effects int
		for i, el := range cl.Elts {
			var f *t4field
			ve := el
			if kv, ok := el.(*ast.KeyValueExpr); ok {
				k, ok := kv.Key.(*ast.Ident)
				if !ok {
					return t4val{}, lostf("key %s", c.src(kv.Key))
				}
				f, ve = s.field(k.Name), kv.Value
			} else {
				f = &s.fields[i]
			}
			if f == nil {
				return t4val{}, lostf("unknown field in literal of %s", s.goName)
			}
			if !f.ok {
				// a field outside the subset: only a logger constructed by log.New is known to be irrelevant
				if call, ok := ve.(*ast.CallExpr); ok && c.pkgSel(call.Fun, en, "log", "log", "New") {
					continue
				}
				return t4val{}, lostf("initialiser of the untranslated field %s.%s", s.goName, f.goName)
			}
			n0 := len(pre.lines)
			v, err := c.expr(ve, en, pre)
			if err != nil {
				return t4val{}, err
			}
			if len(pre.lines) != n0 {
				effects++
			}
			if v.null {
				z, err := c.pk.zero(f.ty)
				if err != nil {
					return t4val{}, err
				}
				v = t4val{text: z, ty: f.ty}
			}
			if v.ty != f.ty {
				return t4val{}, lostf("field %s.%s: have %s, want %s", s.goName, f.goName, v.ty, f.ty)
			}
			vals[f.goName] = v.text
		}
		if effects > 1 {
			return t4val{}, lostf("struct literal with several effectful initialisers")
		}
		var parts []string
		for _, f := range s.fields {
			if !f.ok {
				continue
			}
			if v, ok := vals[f.goName]; ok {
				parts = append(parts, f.lean+" := "+v)
			} else {
				parts = append(parts, f.lean+" := "+s.lean+".zero."+f.lean)
			}
		}
		return t4val{text: "({ " + strings.Join(parts, ", ") + " } : " + s.lean + ")", ty: s.lean}, nil
	}
	return t4val{}, lostf("composite literal %s", c.src(cl.Type))
}

// keyed: the value expressions of a keyed literal by field name; exactly the fields `want`
func (c *t4ctx) keyed(cl *ast.CompositeLit, want ...string) (map[string]ast.Expr, error) {
	out := map[string]ast.Expr{}
	for _, el := range cl.Elts {
		kv, ok := el.(*ast.KeyValueExpr)
		if !ok {
			return nil, lostf("positional literal of %s", c.src(cl.Type))
		}
		k, ok := kv.Key.(*ast.Ident)
		if !ok {
			return nil, lostf("key %s", c.src(kv.Key))
		}
		if _, dup := out[k.Name]; dup {
			return nil, lostf("duplicate key %s", k.Name)
		}
		out[k.Name] = kv.Value
	}
	for k := range out {
		found := false
		for _, w := range want {
			if w == k {
				found = true
			}
		}
		if !found {
			return nil, lostf("field %s in a literal of %s", k, c.src(cl.Type))
		}
	}
	return out, nil
}

// inner: e must be &alias.typ{…}
func (c *t4ctx) inner(e ast.Expr, typ string) (*ast.CompositeLit, error) {
	u, ok := e.(*ast.UnaryExpr)
	if ok && u.Op == token.AND {
		if cl, ok := u.X.(*ast.CompositeLit); ok {
			if sel, ok := cl.Type.(*ast.SelectorExpr); ok && sel.Sel.Name == typ {
				if id, ok := sel.X.(*ast.Ident); ok && id.Name == t4protoAlias(c.fn.file) {
					return cl, nil
				}
			}
		}
	}
	return nil, lostf("expected &%s{…}, found %s", typ, c.src(e))
}

// protoLit: &proto.Query{…} and &proto.Query_Expression{Value: &proto.Query_Expression_X_{X: &proto.Query_Expression_X{…}}}
func (c *t4ctx) protoLit(typ string, cl *ast.CompositeLit, en t4env, pre *t4pre) (t4val, error) {
	field := func(m map[string]ast.Expr, name, ty string) (string, error) {
		e, ok := m[name]
		if !ok {
			z, err := c.pk.zero(ty)
			return z, err
		}
		v, err := c.expr(e, en, pre)
		if err != nil {
			return "", err
		}
		if v.null {
			return "", lostf("nil member %s", name)
		}
		if v.ty != ty {
			return "", lostf("member %s: have %s, want %s", name, v.ty, ty)
		}
		return v.text, nil
	}
	switch typ {
	case "Query":
		m, err := c.keyed(cl, "Expr", "GroupBy")
		if err != nil {
			return t4val{}, err
		}
		if _, ok := m["Expr"]; !ok {
			return t4val{}, lostf("Query literal without Expr")
		}
		n0 := len(pre.lines)
		ex, err := field(m, "Expr", "PExpr")
		if err != nil {
			return t4val{}, err
		}
		gb, err := field(m, "GroupBy", "List Bytes")
		if err != nil {
			return t4val{}, err
		}
		if len(pre.lines) != n0 {
			return t4val{}, lostf("Query literal with effectful members")
		}
		return t4val{text: fmt.Sprintf("(PQuery.mk %s %s)", ex, gb), ty: "PQuery"}, nil
	case "Query_Expression":
		m, err := c.keyed(cl, "Value")
		if err != nil {
			return t4val{}, err
		}
		ve, ok := m["Value"]
		if !ok {
			return t4val{}, lostf("expression literal without Value")
		}
		for _, k := range []struct{ wrap, member, inner, ctor string }{
			{"Query_Expression_And_", "And", "Query_Expression_And", "and"},
			{"Query_Expression_Or_", "Or", "Query_Expression_Or", "or"},
			{"Query_Expression_Not_", "Not", "Query_Expression_Not", "not"},
			{"Query_Expression_Eq", "Eq", "Query_Expression_Equal", "eq"},
		} {
			w, err := c.inner(ve, k.wrap)
			if err != nil {
				continue
			}
			wm, err := c.keyed(w, k.member)
			if err != nil {
				return t4val{}, err
			}
			ie, ok := wm[k.member]
			if !ok {
				return t4val{}, lostf("%s literal without %s", k.wrap, k.member)
			}
			in, err := c.inner(ie, k.inner)
			if err != nil {
				return t4val{}, err
			}
			switch k.ctor {
			case "and", "or":
				im, err := c.keyed(in, "Exprs")
				if err != nil {
					return t4val{}, err
				}
				xs, err := field(im, "Exprs", "List PExpr")
				if err != nil {
					return t4val{}, err
				}
				return t4val{text: fmt.Sprintf("(PExpr.%s %s)", k.ctor, xs), ty: "PExpr"}, nil
			case "not":
				im, err := c.keyed(in, "Expr")
				if err != nil {
					return t4val{}, err
				}
				if _, ok := im["Expr"]; !ok {
					return t4val{}, lostf("Not literal without Expr")
				}
				x, err := field(im, "Expr", "PExpr")
				if err != nil {
					return t4val{}, err
				}
				return t4val{text: fmt.Sprintf("(PExpr.not %s)", x), ty: "PExpr"}, nil
			case "eq":
				im, err := c.keyed(in, "Column", "Value", "Placeholder")
				if err != nil {
					return t4val{}, err
				}
				n0 := len(pre.lines)
				col, err := field(im, "Column", "Bytes")
				if err != nil {
					return t4val{}, err
				}
				val, err := field(im, "Value", "Bytes")
				if err != nil {
					return t4val{}, err
				}
				ph, err := field(im, "Placeholder", "Int")
				if err != nil {
					return t4val{}, err
				}
				if len(pre.lines) != n0 {
					return t4val{}, lostf("Equal literal with effectful members")
				}
				if pe, ok := im["Placeholder"]; ok {
					// the member is an int32: the initialiser must be an explicit int32(…) conversion or a constant
					if call, ok := pe.(*ast.CallExpr); !ok || c.src(call.Fun) != "int32" {
						if _, isLit := pe.(*ast.BasicLit); !isLit {
							return t4val{}, lostf("Placeholder initialiser %s is not int32(…)", c.src(pe))
						}
					}
				}
				return t4val{text: fmt.Sprintf("(PExpr.eq %s %s (Int.toNat %s))", col, val, ph), ty: "PExpr"}, nil
			}
		}
		return t4val{}, lostf("expression literal %s", c.src(ve))
	}
	return t4val{}, lostf("literal of proto type %s", typ)
}

// tswitchSel: v.And.Exprs / v.Or.Exprs / v.Not.Expr / v.Eq.X for a type-switch variable v
func (c *t4ctx) tswitchSel(e *ast.SelectorExpr, en t4env) (t4bind, bool) {
	in, ok := e.X.(*ast.SelectorExpr)
	if !ok {
		return t4bind{}, false
	}
	id, ok := in.X.(*ast.Ident)
	if !ok {
		return t4bind{}, false
	}
	b, ok := en[id.Name]
	if !ok || b.tswitch == nil {
		return t4bind{}, false
	}
	r, ok := b.tswitch[in.Sel.Name+"."+e.Sel.Name]
	return r, ok
}

// callee: the translated function a call expression refers to (nil if none), and the receiver expression
func (c *t4ctx) callee(e *ast.CallExpr, en t4env) (*t4func, ast.Expr) {
	switch f := e.Fun.(type) {
	case *ast.Ident:
		if _, local := en[f.Name]; local {
			return nil, nil
		}
		if fn, ok := c.pk.funcs[f.Name]; ok {
			return fn, nil
		}
	case *ast.SelectorExpr:
		_, ty, err := c.path(f.X, en)
		if err != nil {
			return nil, nil
		}
		if s := c.pk.structByLean(ty); s != nil {
			if fn, ok := c.pk.funcs[s.goName+"."+f.Sel.Name]; ok {
				return fn, f.X
			}
		}
	}
	return nil, nil
}

func (c *t4ctx) call(e *ast.CallExpr, en t4env, pre *t4pre) (t4val, error) {
	n := len(e.Args)
	builtin := func(name string) bool {
		id, ok := e.Fun.(*ast.Ident)
		return ok && id.Name == name && c.free(name, en)
	}
	// conversions between integer types
	if id, ok := e.Fun.(*ast.Ident); ok && n == 1 {
		_, local := en[id.Name]
		isInt := c.pk.intTypes[id.Name] || ((id.Name == "int" || id.Name == "int64" || id.Name == "int32" || id.Name == "rune") && c.free(id.Name, en))
		if isInt && !local {
			x, err := c.expr(e.Args[0], en, pre)
			if err != nil {
				return t4val{}, err
			}
			if x.ty != "Int" {
				return t4val{}, lostf("conversion %s(%s)", id.Name, x.ty)
			}
			if id.Name == "int32" {
				return t4val{text: fmt.Sprintf("(Go.toInt32 %s)", x.text), ty: "Int"}, nil
			}
			return x, nil // int, int64, and the named types are 64 bit: value preserving
		}
	}
	switch {
	case builtin("len") && n == 1:
		x, err := c.expr(e.Args[0], en, pre)
		if err != nil {
			return t4val{}, err
		}
		if x.ty != "Bytes" && !strings.HasPrefix(x.ty, "List ") {
			return t4val{}, lostf("len of %s", x.ty)
		}
		return t4val{text: fmt.Sprintf("(Go.len %s)", x.text), ty: "Int"}, nil
	case builtin("append") && n == 2 && !e.Ellipsis.IsValid():
		x, err := c.expr(e.Args[0], en, pre)
		if err != nil {
			return t4val{}, err
		}
		n0 := len(pre.lines)
		y, err := c.expr(e.Args[1], en, pre)
		if err != nil {
			return t4val{}, err
		}
		x = c.stabilise(x, pre, n0)
		if !strings.HasPrefix(x.ty, "List ") || y.ty != t4elemTy(x.ty) {
			return t4val{}, lostf("append(%s, %s)", x.ty, y.ty)
		}
		return t4val{text: fmt.Sprintf("(%s ++ [%s])", x.text, y.text), ty: x.ty}, nil
	case builtin("make") && n == 1:
		if ct, ok := e.Args[0].(*ast.ChanType); ok {
			ty := c.pk.goTy(c.fn.file, ct)
			if ty == "" {
				return t4val{}, lostf("make(%s)", c.src(ct))
			}
			return t4val{text: "([] : " + ty + ")", ty: ty}, nil
		}
		return t4val{}, lostf("make(%s)", c.src(e.Args[0]))
	case builtin("close") && n == 1:
		p, ty, err := c.path(e.Args[0], en)
		if err != nil {
			return t4val{}, err
		}
		if !strings.HasPrefix(ty, "List ") || !c.isChan(p) {
			return t4val{}, lostf("close(%s)", c.src(e.Args[0]))
		}
		c.store(p, fmt.Sprintf("Go.chanClose %s", p.read(en)), en, pre)
		return t4val{void: true}, nil
	case c.pkgSel(e.Fun, en, "utf8", "unicode/utf8", "DecodeRuneInString") && n == 1:
		x, err := c.expr(e.Args[0], en, pre)
		if err != nil {
			return t4val{}, err
		}
		if x.ty != "Bytes" {
			return t4val{}, lostf("DecodeRuneInString(%s)", x.ty)
		}
		r, w := c.fresh(), c.fresh()
		pre.let("("+r+", "+w+")", fmt.Sprintf("Go.decodeRuneInString %s", x.text))
		return t4val{vals: []t4val{{text: r, ty: "Int"}, {text: w, ty: "Int"}}}, nil
	case c.pkgSel(e.Fun, en, "strings", "strings", "ContainsRune") && n == 2:
		x, err := c.expr(e.Args[0], en, pre)
		if err != nil {
			return t4val{}, err
		}
		n0 := len(pre.lines)
		y, err := c.expr(e.Args[1], en, pre)
		if err != nil {
			return t4val{}, err
		}
		x = c.stabilise(x, pre, n0)
		if x.ty != "Bytes" || y.ty != "Int" {
			return t4val{}, lostf("ContainsRune(%s, %s)", x.ty, y.ty)
		}
		if err := c.asciiOnly(e.Args[0], en); err != nil {
			return t4val{}, err
		}
		return t4val{text: fmt.Sprintf("(Go.containsRune %s %s)", x.text, y.text), ty: "Bool"}, nil
	case c.pkgSel(e.Fun, en, "fmt", "fmt", "Sprintf") && n >= 1:
		// the text of a message is not modelled; the arguments must be pure expressions of the subset
		x, err := c.expr(e.Args[0], en, pre)
		if err != nil {
			return t4val{}, err
		}
		if x.ty != "Bytes" {
			return t4val{}, lostf("Sprintf format of type %s", x.ty)
		}
		if err := c.dropArgs(e.Args[1:], e.Ellipsis.IsValid(), en, pre); err != nil {
			return t4val{}, err
		}
		return t4val{text: fmt.Sprintf("(Go.sprintfOpaque %s)", x.text), ty: "Bytes"}, nil
	}
	// functions translated by translate.go (same package)
	if id, ok := e.Fun.(*ast.Ident); ok && n == 1 && strings.HasSuffix(c.fn.rel, "queryparser.go") {
		if _, local := en[id.Name]; !local && c.pk.tr.done[id.Name] {
			switch id.Name {
			case "decodeString", "decodePlaceholder":
				x, err := c.expr(e.Args[0], en, pre)
				if err != nil {
					return t4val{}, err
				}
				if x.ty != "Bytes" {
					return t4val{}, lostf("%s(%s)", id.Name, x.ty)
				}
				ty := "Bytes"
				if id.Name == "decodePlaceholder" {
					ty = "Int"
				}
				return t4val{text: fmt.Sprintf("(%s %s)", id.Name, x.text), ty: ty}, nil
			}
		}
	}
	// callback
	if id, ok := e.Fun.(*ast.Ident); ok && n == 1 {
		if b, ok := en[id.Name]; ok && strings.HasPrefix(b.ty, "σ →") {
			x, err := c.expr(e.Args[0], en, pre)
			if err != nil {
				return t4val{}, err
			}
			if x.ty != "PExpr" {
				return t4val{}, lostf("callback argument of type %s", x.ty)
			}
			t := c.fresh()
			pre.let("(s, "+t+")", fmt.Sprintf("%s s %s", b.lean, x.text))
			return t4val{text: t, ty: "Bool"}, nil
		}
	}
	// a function value stored in a field: l.state(l)
	if sel, ok := e.Fun.(*ast.SelectorExpr); ok && n == 1 {
		if p, ty, err := c.path(sel, en); err == nil && ty == "Option StateFn" {
			ap, aty, err := c.path(e.Args[0], en)
			if err != nil {
				return t4val{}, err
			}
			st := c.pk.structOf(c.pk.stateFnArg)
			if st == nil || aty != st.lean || len(ap.fields) != 0 {
				return t4val{}, lostf("state function argument %s", c.src(e.Args[0]))
			}
			if !c.fuelVar {
				return t4val{}, lostf("call of a function value outside a fuelled function")
			}
			c.obsFails, c.obsFuelled = true, true
			for _, sf := range c.pk.stateFns {
				c.fn.calls[sf] = true
				if f := c.pk.funcs[sf]; f == nil || f.lost != nil {
					return t4val{}, lostf("depends on the lost state function %s", sf)
				}
			}
			c.touched(ap.root)
			t := c.fresh()
			pre.bind("("+en[ap.root].lean+", "+t+")", fmt.Sprintf("callStateFn fuel %s %s", p.read(en), en[ap.root].lean))
			return t4val{text: t, ty: "Option StateFn"}, nil
		}
	}
	fn, recv := c.callee(e, en)
	if fn == nil {
		return t4val{}, lostf("call %s is not in the whitelist", c.src(e.Fun))
	}
	return c.callFn(fn, recv, e, en, pre)
}

// asciiOnly: the expression is a string literal, or a parameter every call site of the function gives such a literal
func (c *t4ctx) asciiOnly(e ast.Expr, en t4env) error {
	if lit, ok := e.(*ast.BasicLit); ok && lit.Kind == token.STRING {
		s, err := strconv.Unquote(lit.Value)
		if err != nil {
			return lostf("string literal %s", lit.Value)
		}
		for _, b := range []byte(s) {
			if b >= 0x80 {
				return lostf("strings.ContainsRune with a non-ASCII set %s", lit.Value)
			}
		}
		return nil
	}
	id, ok := e.(*ast.Ident)
	if !ok {
		return lostf("strings.ContainsRune with the set %s", c.src(e))
	}
	idx := -1
	for i, p := range c.fn.params {
		if p.goName == id.Name {
			idx = i
		}
	}
	if idx < 0 {
		return lostf("strings.ContainsRune with the set %s", id.Name)
	}
	if as, _ := assignedAndDeclared(c.fn.decl.Body.List); as[id.Name] {
		return lostf("the set %s is assigned", id.Name)
	}
	// every call of this function in the package passes an ASCII literal at that position
	if c.fn.recv != "" {
		idx--
	}
	var bad error
	for _, f := range c.pk.files {
		ast.Inspect(f, func(n ast.Node) bool {
			call, ok := n.(*ast.CallExpr)
			if !ok {
				return true
			}
			name := ""
			switch fun := call.Fun.(type) {
			case *ast.Ident:
				name = fun.Name
			case *ast.SelectorExpr:
				name = fun.Sel.Name
			}
			if name != c.fn.goName || idx >= len(call.Args) {
				return true
			}
			lit, ok := call.Args[idx].(*ast.BasicLit)
			if !ok || lit.Kind != token.STRING {
				bad = lostf("%s is called with the non-literal set %s", c.fn.goName, c.src(call.Args[idx]))
				return true
			}
			s, _ := strconv.Unquote(lit.Value)
			for _, b := range []byte(s) {
				if b >= 0x80 {
					bad = lostf("%s is called with the non-ASCII set %s", c.fn.goName, lit.Value)
				}
			}
			return true
		})
	}
	return bad
}

// dropArgs: arguments of an `...interface{}` parameter: evaluated for their effects, values not represented
func (c *t4ctx) dropArgs(args []ast.Expr, spread bool, en t4env, pre *t4pre) error {
	if spread {
		if len(args) != 1 {
			return lostf("spread with %d arguments", len(args))
		}
		id, ok := args[0].(*ast.Ident)
		if ok {
			for _, p := range c.fn.params {
				if p.goName == id.Name && p.dropped {
					return nil
				}
			}
		}
		return lostf("spread of %s", c.src(args[0]))
	}
	for _, a := range args {
		if _, err := c.expr(a, en, pre); err != nil {
			return err
		}
	}
	return nil
}

// callFn: a call of a translated function
func (c *t4ctx) callFn(fn *t4func, recv ast.Expr, e *ast.CallExpr, en t4env, pre *t4pre) (t4val, error) {
	if fn.lost != nil {
		return t4val{}, lostf("depends on the lost function %s", fn.key)
	}
	c.fn.calls[fn.key] = true
	var argExprs []ast.Expr
	if recv != nil {
		argExprs = append(argExprs, recv)
	}
	argExprs = append(argExprs, e.Args...)
	// the variadic tail
	np := len(fn.params)
	if np > 0 && fn.params[np-1].dropped {
		if len(argExprs) < np-1 {
			return t4val{}, lostf("too few arguments for %s", fn.key)
		}
		tail := argExprs[np-1:]
		argExprs = argExprs[:np-1]
		defer func() {}()
		if err := c.dropArgs(tail, e.Ellipsis.IsValid(), en, pre); err != nil {
			return t4val{}, err
		}
	} else if e.Ellipsis.IsValid() {
		return t4val{}, lostf("spread call of %s", fn.key)
	}
	if len(argExprs) != len(fn.params)-t4dropped(fn) {
		return t4val{}, lostf("%d arguments for %s", len(argExprs), fn.key)
	}
	if fn.diverges {
		// the arguments are evaluated, then the function panics
		for i, a := range argExprs {
			if fn.params[i].ptr {
				continue
			}
			if _, err := c.expr(a, en, pre); err != nil {
				return t4val{}, err
			}
		}
		c.obsFails = true
		return t4val{void: true, text: "diverges"}, nil
	}
	var args, pats []string
	type wb struct {
		p   *t4path
		tmp string
	}
	var wbs []wb
	for i, a := range argExprs {
		p := fn.params[i]
		switch {
		case p.callback:
			id, ok := a.(*ast.Ident)
			if !ok {
				return t4val{}, lostf("callback argument %s", c.src(a))
			}
			b, ok := en[id.Name]
			if !ok || !strings.HasPrefix(b.ty, "σ →") {
				return t4val{}, lostf("callback argument %s", c.src(a))
			}
			args = append(args, b.lean)
		case p.ptr:
			pa, ty, err := c.path(a, en)
			if err != nil {
				return t4val{}, err
			}
			if ty != p.ty {
				return t4val{}, lostf("argument %s of %s: have %s, want %s", p.goName, fn.key, ty, p.ty)
			}
			args = append(args, t4arg(pa.read(en)))
			if fn.mut[i] {
				if len(pa.fields) == 0 {
					c.touched(pa.root)
					pats = append(pats, en[pa.root].lean)
				} else {
					t := c.fresh()
					pats = append(pats, t)
					wbs = append(wbs, wb{pa, t})
				}
			}
		default:
			n0 := len(pre.lines)
			v, err := c.expr(a, en, pre)
			if err != nil {
				return t4val{}, err
			}
			if v.null {
				z, err := c.pk.zero(p.ty)
				if err != nil {
					return t4val{}, err
				}
				v = t4val{text: z, ty: p.ty}
			}
			if v.ty != p.ty {
				return t4val{}, lostf("argument %s of %s: have %s, want %s", p.goName, fn.key, v.ty, p.ty)
			}
			_ = n0
			args = append(args, t4arg(v.text))
		}
	}
	// earlier value arguments must not mention a pointer argument this call rewrites: they are evaluated before it,
	// and the call itself is one binding, so this holds by construction.
	head := fn.lean
	if fn.fuelled {
		if !c.fuelVar {
			return t4val{}, lostf("call of the fuelled function %s outside a fuelled function", fn.key)
		}
		c.obsFuelled = true
		head += " fuel"
	}
	if fn.callback {
		args = append(args, "s")
		pats = append(pats, "s")
	}
	var res t4val
	switch len(fn.results) {
	case 0:
		res = t4val{void: true}
	case 1:
		t := c.fresh()
		pats = append(pats, t)
		res = t4val{text: t, ty: fn.results[0]}
	default:
		for _, ty := range fn.results {
			t := c.fresh()
			pats = append(pats, t)
			res.vals = append(res.vals, t4val{text: t, ty: ty})
		}
	}
	rhs := strings.TrimSpace(head + " " + strings.Join(args, " "))
	if fn.fails || fn.hasErr {
		c.obsFails = true
		pre.bind(t4tuple(pats), rhs)
	} else if len(pats) > 0 {
		pre.let(t4tuple(pats), rhs)
	}
	for _, w := range wbs {
		c.store(w.p, w.tmp, en, pre)
	}
	return res, nil
}

func t4dropped(fn *t4func) int {
	n := 0
	for _, p := range fn.params {
		if p.dropped {
			n++
		}
	}
	return n
}

func t4arg(s string) string {
	if strings.ContainsAny(s, " ") && !(strings.HasPrefix(s, "(") && strings.HasSuffix(s, ")")) && !(strings.HasPrefix(s, "[") && strings.HasSuffix(s, "]")) {
		return "(" + s + ")"
	}
	return s
}

// ---------------------------------------------------------------- statements

func (c *t4ctx) stmts(list []ast.Stmt, en t4env, depth int, k t4kont) (string, error) {
	if len(list) == 0 {
		return k.next(en, depth)
	}
	s, rest := list[0], list[1:]
	cont := func(en t4env, pre *t4pre) (string, error) {
		r, err := c.stmts(rest, en, depth, k)
		if err != nil {
			return "", err
		}
		return pre.emit(depth) + r, nil
	}
	pre := &t4pre{}
	switch s := s.(type) {
	case *ast.EmptyStmt:
		return c.stmts(rest, en, depth, k)
	case *ast.BlockStmt:
		k2 := k
		k2.next = func(_ t4env, d int) (string, error) { return c.stmts(rest, en, d, k) }
		return c.stmts(s.List, en, depth, k2)
	case *ast.ExprStmt:
		call, ok := s.X.(*ast.CallExpr)
		if !ok {
			return "", lostf("statement %s", c.src(s))
		}
		v, err := c.expr(call, en, pre)
		if err != nil {
			return "", err
		}
		if v.void && v.text == "diverges" {
			// the rest of the block is dead code
			return pre.emit(depth) + ind(depth) + ".error Go.Err4.panic\n", nil
		}
		t4discard(pre, v)
		return cont(en, pre)
	case *ast.GoStmt:
		// run to completion here (see GoPreludeT4.lean)
		v, err := c.expr(s.Call, en, pre)
		if err != nil {
			return "", err
		}
		if !v.void || v.text == "diverges" {
			return "", lostf("go statement %s", c.src(s))
		}
		return cont(en, pre)
	case *ast.SendStmt:
		p, ty, err := c.path(s.Chan, en)
		if err != nil {
			return "", err
		}
		if !strings.HasPrefix(ty, "List ") || !c.isChan(p) {
			return "", lostf("send on %s", c.src(s.Chan))
		}
		v, err := c.expr(s.Value, en, pre)
		if err != nil {
			return "", err
		}
		if v.ty != t4elemTy(ty) {
			return "", lostf("send of %s on a channel of %s", v.ty, t4elemTy(ty))
		}
		c.store(p, fmt.Sprintf("Go.chanSend %s %s", p.read(en), t4arg(v.text)), en, pre)
		return cont(en, pre)
	case *ast.IncDecStmt:
		p, ty, err := c.path(s.X, en)
		if err != nil {
			return "", err
		}
		if ty != "Int" {
			return "", lostf("%s on %s", s.Tok, ty)
		}
		op := "+"
		if s.Tok == token.DEC {
			op = "-"
		}
		c.store(p, fmt.Sprintf("(%s %s (1 : Int))", p.read(en), op), en, pre)
		return cont(en, pre)
	case *ast.DeclStmt:
		gd, ok := s.Decl.(*ast.GenDecl)
		if !ok || gd.Tok != token.VAR {
			return "", lostf("declaration %s", c.src(s))
		}
		en2 := en
		for _, sp := range gd.Specs {
			vs := sp.(*ast.ValueSpec)
			if vs.Type == nil || len(vs.Values) != 0 {
				return "", lostf("var declaration %s", c.src(vs))
			}
			ty := c.pk.goTy(c.fn.file, vs.Type)
			if ty == "" {
				return "", lostf("var of type %s", c.src(vs.Type))
			}
			z, err := c.pk.zero(ty)
			if err != nil {
				return "", err
			}
			for _, id := range vs.Names {
				ln, err := c.declare(id.Name, en2)
				if err != nil {
					return "", err
				}
				pre.let(ln, z)
				en2 = en2.with(id.Name, t4bind{lean: ln, ty: ty})
			}
		}
		return cont(en2, pre)
	case *ast.AssignStmt:
		en2, err := c.assign(s, en, pre)
		if err != nil {
			return "", err
		}
		return cont(en2, pre)
	case *ast.ReturnStmt:
		var vals []t4val
		res := s.Results
		if c.fn.hasErr {
			if len(res) != len(c.fn.results)+1 {
				return "", lostf("return %s", c.src(s))
			}
			last := res[len(res)-1]
			res = res[:len(res)-1]
			id, ok := last.(*ast.Ident)
			okNil := ok && id.Name == "nil" && c.free("nil", en)
			if ok && !okNil {
				if b, isVar := en[id.Name]; isVar && b.nilErr {
					okNil = true
				}
			}
			if !okNil {
				return "", lostf("returned error %s is not known to be nil", c.src(last))
			}
		}
		if len(res) != len(c.fn.results) {
			return "", lostf("return with %d results", len(s.Results))
		}
		for i, r := range res {
			v, err := c.expr(r, en, pre)
			if err != nil {
				return "", err
			}
			if v.null {
				if !strings.HasPrefix(c.fn.results[i], "Option ") {
					return "", lostf("return nil for %s", c.fn.results[i])
				}
				v = t4val{text: "none", ty: c.fn.results[i]}
			}
			if v.ty != c.fn.results[i] {
				return "", lostf("returned %s, want %s", v.ty, c.fn.results[i])
			}
			vals = append(vals, v)
		}
		r, err := k.ret(vals, en, depth)
		if err != nil {
			return "", err
		}
		return pre.emit(depth) + r, nil
	case *ast.BranchStmt:
		if s.Tok == token.BREAK && s.Label == nil && k.brk != nil {
			return k.brk(en, depth)
		}
		return "", lostf("statement %s", c.src(s))
	case *ast.DeferStmt:
		return c.deferStmt(s, rest, en, depth, k)
	case *ast.IfStmt:
		if s.Init != nil {
			return "", lostf("if with an init statement")
		}
		cond, err := c.expr(s.Cond, en, pre)
		if err != nil {
			return "", err
		}
		if cond.ty != "Bool" {
			return "", lostf("condition of type %s", cond.ty)
		}
		after := func(_ t4env, d int) (string, error) { return c.stmts(rest, en, d, k) }
		k2 := k
		k2.next = after
		a, err := c.stmts(s.Body.List, en, depth+1, k2)
		if err != nil {
			return "", err
		}
		var b string
		switch el := s.Else.(type) {
		case nil:
			b, err = after(en, depth)
		case *ast.BlockStmt:
			b, err = c.stmts(el.List, en, depth, k2)
		case *ast.IfStmt:
			b, err = c.stmts([]ast.Stmt{el}, en, depth, k2)
		default:
			err = lostf("else %s", c.src(el))
		}
		if err != nil {
			return "", err
		}
		return fmt.Sprintf("%s%sif %s then\n%s%selse\n%s", pre.emit(depth), ind(depth), cond.text, a, ind(depth), b), nil
	case *ast.SwitchStmt:
		return c.switchStmt(s, rest, en, depth, k)
	case *ast.TypeSwitchStmt:
		return c.typeSwitch(s, rest, en, depth, k)
	case *ast.ForStmt:
		return c.forStmt(s, rest, en, depth, k)
	case *ast.RangeStmt:
		return c.rangeStmt(s, rest, en, depth, k)
	}
	return "", lostf("statement %s", c.src(s))
}

// discard the value of an expression statement: a temporary that is never read becomes `_`
func t4discard(pre *t4pre, v t4val) {
	if v.void || len(pre.lines) == 0 || !t4simple.MatchString(v.text) {
		return
	}
	l := &pre.lines[len(pre.lines)-1]
	l.pat = t4replaceWord(l.pat, v.text, "_")
}

func t4replaceWord(s, w, by string) string {
	out := ""
	for i := 0; i < len(s); {
		j := i
		for j < len(s) && (s[j] == '_' || s[j] == '\'' || s[j] >= '0' && s[j] <= '9' || s[j] >= 'a' && s[j] <= 'z' || s[j] >= 'A' && s[j] <= 'Z') {
			j++
		}
		if j == i {
			out += s[i : i+1]
			i++
			continue
		}
		if s[i:j] == w {
			out += by
		} else {
			out += s[i:j]
		}
		i = j
	}
	return out
}

// declare: the Lean name of a new local variable; shadowing an outer variable is not supported
func (c *t4ctx) declare(name string, en t4env) (string, error) {
	if _, ok := en[name]; ok {
		return "", lostf("variable %s shadows an outer variable", name)
	}
	ln, err := leanIdent(name)
	if err != nil {
		return "", err
	}
	if ln == "fuel" || ln == "xs'" || ln == "s" && c.fn.callback {
		ln += "'"
	}
	return ln, nil
}

// bindName: name := v, reusing the binding that produced the temporary v when there is one
func (c *t4ctx) bindName(ln string, v t4val, pre *t4pre, n0 int) {
	if len(pre.lines) > n0 && t4simple.MatchString(v.text) && strings.HasPrefix(v.text, c.tmpPfx) {
		l := &pre.lines[len(pre.lines)-1]
		if np := t4replaceWord(l.pat, v.text, ln); np != l.pat {
			l.pat = np
			return
		}
	}
	pre.let(ln, v.text)
}

func (c *t4ctx) assign(s *ast.AssignStmt, en t4env, pre *t4pre) (t4env, error) {
	n0 := len(pre.lines)
	// two results
	if len(s.Lhs) == 2 && len(s.Rhs) == 1 {
		call, ok := s.Rhs[0].(*ast.CallExpr)
		if !ok {
			return nil, lostf("assignment %s", c.src(s))
		}
		a, ok1 := s.Lhs[0].(*ast.Ident)
		b, ok2 := s.Lhs[1].(*ast.Ident)
		if !ok1 || !ok2 || a.Name == "_" || b.Name == "_" {
			return nil, lostf("assignment %s", c.src(s))
		}
		if fn, _ := c.callee(call, en); fn != nil && fn.hasErr && len(fn.results) == 1 && s.Tok == token.ASSIGN {
			// a, err = f(): a non-nil error leaves through the `.error` alternative; afterwards err is nil
			ba, oka := en[a.Name]
			be, oke := en[b.Name]
			if !oka || !oke || be.ty != "error" || ba.ty != fn.results[0] {
				return nil, lostf("assignment %s", c.src(s))
			}
			v, err := c.expr(call, en, pre)
			if err != nil {
				return nil, err
			}
			c.bindName(ba.lean, v, pre, n0)
			be.nilErr = true
			return en.with(b.Name, be), nil
		}
		v, err := c.expr(call, en, pre)
		if err != nil {
			return nil, err
		}
		if len(v.vals) != 2 || s.Tok != token.DEFINE {
			return nil, lostf("assignment %s", c.src(s))
		}
		la, err := c.declare(a.Name, en)
		if err != nil {
			return nil, err
		}
		lb, err := c.declare(b.Name, en)
		if err != nil {
			return nil, err
		}
		l := &pre.lines[len(pre.lines)-1]
		l.pat = t4replaceWord(t4replaceWord(l.pat, v.vals[0].text, la), v.vals[1].text, lb)
		return en.with(a.Name, t4bind{lean: la, ty: v.vals[0].ty}).with(b.Name, t4bind{lean: lb, ty: v.vals[1].ty}), nil
	}
	if len(s.Lhs) != 1 || len(s.Rhs) != 1 {
		return nil, lostf("assignment %s", c.src(s))
	}
	lhs, rhs := s.Lhs[0], s.Rhs[0]
	switch s.Tok {
	case token.DEFINE:
		id, ok := lhs.(*ast.Ident)
		if !ok {
			return nil, lostf("assignment %s", c.src(s))
		}
		ln, err := c.declare(id.Name, en)
		if err != nil {
			return nil, err
		}
		v, err := c.expr(rhs, en, pre)
		if err != nil {
			return nil, err
		}
		if v.ty == "" || v.void || v.null || len(v.vals) > 0 {
			return nil, lostf("assignment %s", c.src(s))
		}
		if c.pk.structByLean(v.ty) != nil {
			// a struct value reached through a pointer must not get a second name
			if _, _, err := c.path(rhs, en); err == nil && c.isPtrPath(rhs, en) {
				return nil, lostf("%s := %s aliases a pointer", id.Name, c.src(rhs))
			}
		}
		c.bindName(ln, v, pre, n0)
		return en.with(id.Name, t4bind{lean: ln, ty: v.ty}), nil
	case token.ASSIGN, token.ADD_ASSIGN, token.SUB_ASSIGN:
		// array element
		if ix, ok := lhs.(*ast.IndexExpr); ok && s.Tok == token.ASSIGN {
			p, ty, err := c.path(ix.X, en)
			if err != nil {
				return nil, err
			}
			if len(p.fields) == 0 || p.fields[len(p.fields)-1].arrLen == 0 {
				return nil, lostf("element assignment %s", c.src(s))
			}
			i, err := c.expr(ix.Index, en, pre)
			if err != nil {
				return nil, err
			}
			if len(pre.lines) != n0 || i.ty != "Int" {
				return nil, lostf("index of %s", c.src(s))
			}
			v, err := c.expr(rhs, en, pre)
			if err != nil {
				return nil, err
			}
			if v.ty != t4elemTy(ty) {
				return nil, lostf("element assignment %s", c.src(s))
			}
			c.store(p, fmt.Sprintf("Go.arrSet %s %s %s", p.read(en), t4arg(i.text), t4arg(v.text)), en, pre)
			return en, nil
		}
		p, ty, err := c.path(lhs, en)
		if err != nil {
			return nil, err
		}
		if len(p.fields) == 0 {
			for _, prm := range c.fn.params {
				if prm.goName == p.root && (prm.ptr || prm.callback) {
					return nil, lostf("assignment to the pointer parameter %s", p.root)
				}
			}
		}
		v, err := c.expr(rhs, en, pre)
		if err != nil {
			return nil, err
		}
		if v.null {
			z, err := c.pk.zero(ty)
			if err != nil {
				return nil, err
			}
			v = t4val{text: z, ty: ty}
		}
		if v.ty != ty || len(v.vals) > 0 || v.void {
			return nil, lostf("assignment %s: have %s, want %s", c.src(s), v.ty, ty)
		}
		if c.pk.structByLean(ty) != nil && len(p.fields) > 0 {
			return nil, lostf("assignment of a struct to a field: %s", c.src(s))
		}
		switch s.Tok {
		case token.ADD_ASSIGN, token.SUB_ASSIGN:
			if ty != "Int" {
				return nil, lostf("%s on %s", s.Tok, ty)
			}
			op := "+"
			if s.Tok == token.SUB_ASSIGN {
				op = "-"
			}
			c.store(p, fmt.Sprintf("(%s %s %s)", p.read(en), op, v.text), en, pre)
		default:
			if len(p.fields) == 0 {
				c.bindName(en[p.root].lean, v, pre, n0)
			} else {
				c.store(p, v.text, en, pre)
			}
		}
		return en, nil
	}
	return nil, lostf("assignment operator %s", s.Tok)
}

// isPtrPath: the path starts at a pointer parameter or goes through a pointer-typed field
func (c *t4ctx) isPtrPath(e ast.Expr, en t4env) bool {
	p, _, err := c.path(e, en)
	if err != nil {
		return false
	}
	for _, prm := range c.fn.params {
		if prm.goName == p.root && prm.ptr {
			return true
		}
	}
	for i, f := range p.fields {
		st := c.pk.typeDecls[p.strs[i].goName].(*ast.StructType)
		for _, fl := range st.Fields.List {
			for _, id := range fl.Names {
				if id.Name == f.goName {
					if _, ok := fl.Type.(*ast.StarExpr); ok {
						return true
					}
				}
			}
		}
	}
	return len(p.fields) == 0 // a local struct variable: `l := &lexer{}` is a pointer too
}

// defer p.recover(&err) / defer p.lexer.drain(): wrappers around the rest of the function
func (c *t4ctx) deferStmt(s *ast.DeferStmt, rest []ast.Stmt, en t4env, depth int, k t4kont) (string, error) {
	sel, ok := s.Call.Fun.(*ast.SelectorExpr)
	if !ok {
		return "", lostf("defer %s", c.src(s.Call))
	}
	_, ty, err := c.path(sel.X, en)
	if err != nil {
		return "", err
	}
	st := c.pk.structByLean(ty)
	if st == nil {
		return "", lostf("defer %s", c.src(s.Call))
	}
	_, fd := c.pk.tr.fn(c.fn.rel, st.goName, sel.Sel.Name)
	if fd == nil || len(fd.Recv.List[0].Names) != 1 {
		return "", lostf("deferred method %s.%s not found", st.goName, sel.Sel.Name)
	}
	r := fd.Recv.List[0].Names[0].Name
	body := c.src(fd.Body)
	wrapper := ""
	switch {
	case len(s.Call.Args) == 1 && c.fn.errName != "" && c.src(s.Call.Args[0]) == "&"+c.fn.errName:
		// the deferred method must be the recover idiom: rethrow runtime errors, store any other panic value as the error
		if fd.Type.Params.NumFields() != 1 || len(fd.Type.Params.List[0].Names) != 1 || c.src(fd.Type.Params.List[0].Type) != "*error" {
			return "", lostf("signature of %s.%s", st.goName, sel.Sel.Name)
		}
		ep := fd.Type.Params.List[0].Names[0].Name
		want := "{ e := recover() if e != nil { if _, ok := e.(runtime.Error); ok { panic(e) } *" + ep + " = e.(error) } }"
		if body != want || !c.free("recover", en) || !c.free("panic", en) {
			return "", lostf("%s.%s is not the recover idiom: %s", st.goName, sel.Sel.Name, body)
		}
		wrapper = "Go.recoverErr"
	case len(s.Call.Args) == 0:
		var fld string
		for _, f := range st.fields {
			if f.ok && strings.HasPrefix(f.ty, "List ") && body == "{ for range "+r+"."+f.goName+" { } }" {
				fld = f.goName
			}
		}
		if fld == "" {
			return "", lostf("%s.%s does not drain a channel: %s", st.goName, sel.Sel.Name, body)
		}
		wrapper = "Go.deferDrain"
	default:
		return "", lostf("defer %s", c.src(s.Call))
	}
	if !(c.fn.fails || c.fn.hasErr) {
		c.obsFails = true
	}
	c.obsFails = true
	inner, err := c.stmts(rest, en, depth+1, k)
	if err != nil {
		return "", err
	}
	return fmt.Sprintf("%s%s (\n%s%s)\n", ind(depth), wrapper, inner, ind(depth)), nil
}

func (c *t4ctx) switchStmt(s *ast.SwitchStmt, rest []ast.Stmt, en t4env, depth int, k t4kont) (string, error) {
	if s.Init != nil {
		return "", lostf("switch with an init statement")
	}
	pre := &t4pre{}
	var tag t4val
	if s.Tag != nil {
		v, err := c.expr(s.Tag, en, pre)
		if err != nil {
			return "", err
		}
		if v.ty != "Int" && v.ty != "Bytes" && v.ty != "Bool" {
			return "", lostf("switch on %s", v.ty)
		}
		tag = v
	}
	after := func(_ t4env, d int) (string, error) { return c.stmts(rest, en, d, k) }
	k2 := k
	k2.next = after
	k2.brk = after
	var def *ast.CaseClause
	var out strings.Builder
	out.WriteString(pre.emit(depth))
	for _, cs := range s.Body.List {
		cc := cs.(*ast.CaseClause)
		if cc.List == nil {
			if def != nil {
				return "", lostf("two default clauses")
			}
			def = cc
			continue
		}
		var conds []string
		for _, ce := range cc.List {
			p2 := &t4pre{}
			v, err := c.expr(ce, en, p2)
			if err != nil {
				return "", err
			}
			if len(p2.lines) != 0 {
				return "", lostf("case expression with side effects")
			}
			if s.Tag != nil {
				if v.ty != tag.ty {
					return "", lostf("case of type %s in a switch on %s", v.ty, tag.ty)
				}
				conds = append(conds, fmt.Sprintf("(%s == %s)", tag.text, v.text))
			} else {
				if v.ty != "Bool" {
					return "", lostf("case of type %s", v.ty)
				}
				conds = append(conds, v.text)
			}
		}
		cond := conds[0]
		if len(conds) > 1 {
			cond = "(" + strings.Join(conds, " || ") + ")"
		}
		if err := t4noFallthrough(cc.Body); err != nil {
			return "", err
		}
		body, err := c.stmts(cc.Body, en, depth+1, k2)
		if err != nil {
			return "", err
		}
		fmt.Fprintf(&out, "%sif %s then\n%s%selse\n", ind(depth), cond, body, ind(depth))
	}
	var last string
	var err error
	if def != nil {
		if err := t4noFallthrough(def.Body); err != nil {
			return "", err
		}
		last, err = c.stmts(def.Body, en, depth, k2)
	} else {
		last, err = after(en, depth)
	}
	if err != nil {
		return "", err
	}
	out.WriteString(last)
	return out.String(), nil
}

func t4noFallthrough(body []ast.Stmt) error {
	for _, b := range body {
		if bs, ok := b.(*ast.BranchStmt); ok && bs.Tok == token.FALLTHROUGH {
			return lostf("fallthrough")
		}
	}
	return nil
}

// switch v := e.Value.(type) over the four members of the oneof
func (c *t4ctx) typeSwitch(s *ast.TypeSwitchStmt, rest []ast.Stmt, en t4env, depth int, k t4kont) (string, error) {
	as, ok := s.Assign.(*ast.AssignStmt)
	if s.Init != nil || !ok || len(as.Lhs) != 1 || len(as.Rhs) != 1 || as.Tok != token.DEFINE {
		return "", lostf("type switch %s", c.src(s.Assign))
	}
	v := as.Lhs[0].(*ast.Ident)
	ta, ok := as.Rhs[0].(*ast.TypeAssertExpr)
	if !ok || ta.Type != nil {
		return "", lostf("type switch %s", c.src(s.Assign))
	}
	sel, ok := ta.X.(*ast.SelectorExpr)
	if !ok || sel.Sel.Name != "Value" {
		return "", lostf("type switch on %s", c.src(ta.X))
	}
	pre := &t4pre{}
	x, err := c.expr(sel.X, en, pre)
	if err != nil {
		return "", err
	}
	if x.ty != "PExpr" || len(pre.lines) != 0 {
		return "", lostf("type switch on %s", c.src(ta.X))
	}
	vl, err := c.declare(v.Name, en)
	if err != nil {
		return "", err
	}
	alias := t4protoAlias(c.fn.file)
	type member struct {
		typ, ctor string
		sub       []string
		tys       []string
	}
	members := []member{
		{"Query_Expression_And_", "and", []string{"And.Exprs"}, []string{"List PExpr"}},
		{"Query_Expression_Or_", "or", []string{"Or.Exprs"}, []string{"List PExpr"}},
		{"Query_Expression_Not_", "not", []string{"Not.Expr"}, []string{"PExpr"}},
		{"Query_Expression_Eq", "eq", []string{"Eq.Column", "Eq.Value", "Eq.Placeholder"}, []string{"Bytes", "Bytes", "Nat"}},
	}
	after := func(_ t4env, d int) (string, error) { return c.stmts(rest, en, d, k) }
	k2 := k
	k2.next = after
	k2.brk = after
	seen := map[string]bool{}
	var out strings.Builder
	fmt.Fprintf(&out, "%smatch %s with\n", ind(depth), x.text)
	for _, cs := range s.Body.List {
		cc := cs.(*ast.CaseClause)
		if len(cc.List) != 1 {
			return "", lostf("type switch clause %s", c.src(cc))
		}
		st, ok := cc.List[0].(*ast.StarExpr)
		if !ok {
			return "", lostf("type switch case %s", c.src(cc.List[0]))
		}
		ts, ok := st.X.(*ast.SelectorExpr)
		if !ok || c.src(ts.X) != alias || alias == "" {
			return "", lostf("type switch case %s", c.src(cc.List[0]))
		}
		var m *member
		for i := range members {
			if members[i].typ == ts.Sel.Name {
				m = &members[i]
			}
		}
		if m == nil || seen[m.ctor] {
			return "", lostf("type switch case %s", c.src(cc.List[0]))
		}
		seen[m.ctor] = true
		b := t4bind{lean: vl, ty: "oneof", tswitch: map[string]t4bind{}}
		var pats []string
		for i, sub := range m.sub {
			ln := vl + "_" + strings.ReplaceAll(sub, ".", "_")
			pats = append(pats, ln)
			b.tswitch[sub] = t4bind{lean: ln, ty: m.tys[i]}
		}
		if err := t4noFallthrough(cc.Body); err != nil {
			return "", err
		}
		body, err := c.stmts(cc.Body, en.with(v.Name, b), depth+1, k2)
		if err != nil {
			return "", err
		}
		fmt.Fprintf(&out, "%s| PExpr.%s %s =>\n%s", ind(depth), m.ctor, strings.Join(pats, " "), body)
	}
	if len(seen) < len(members) {
		last, err := after(en, depth+1)
		if err != nil {
			return "", err
		}
		fmt.Fprintf(&out, "%s| _ =>\n%s", ind(depth), last)
	}
	return out.String(), nil
}

// ---------------------------------------------------------------- loops

// loopVars: the variables of en the nodes mention (in order of first occurrence) and those they may modify
func (c *t4ctx) loopVars(nodes []ast.Node, en t4env) (used []string, assigned map[string]bool) {
	assigned = map[string]bool{}
	seen := map[string]bool{}
	root := func(e ast.Expr) string {
		for {
			switch x := e.(type) {
			case *ast.SelectorExpr:
				e = x.X
			case *ast.IndexExpr:
				e = x.X
			case *ast.ParenExpr:
				e = x.X
			case *ast.StarExpr:
				e = x.X
			case *ast.Ident:
				return x.Name
			default:
				return ""
			}
		}
	}
	mark := func(e ast.Expr) {
		if r := root(e); r != "" {
			if _, ok := en[r]; ok {
				assigned[r] = true
			}
		}
	}
	for _, nd := range nodes {
		if nd == nil {
			continue
		}
		ast.Inspect(nd, func(n ast.Node) bool {
			switch n := n.(type) {
			case *ast.Ident:
				if _, ok := en[n.Name]; ok && !seen[n.Name] {
					seen[n.Name] = true
					used = append(used, n.Name)
				}
			case *ast.SelectorExpr:
				ast.Inspect(n.X, func(m ast.Node) bool {
					if id, ok := m.(*ast.Ident); ok {
						if _, ok := en[id.Name]; ok && !seen[id.Name] {
							seen[id.Name] = true
							used = append(used, id.Name)
						}
					}
					return true
				})
			case *ast.KeyValueExpr:
				// keys of struct literals are field names
			case *ast.AssignStmt:
				if n.Tok != token.DEFINE {
					for _, l := range n.Lhs {
						mark(l)
					}
				}
			case *ast.IncDecStmt:
				mark(n.X)
			case *ast.SendStmt:
				mark(n.Chan)
			case *ast.UnaryExpr:
				if n.Op == token.ARROW {
					mark(n.X)
				}
			case *ast.CallExpr:
				if id, ok := n.Fun.(*ast.Ident); ok && id.Name == "close" && len(n.Args) == 1 {
					mark(n.Args[0])
				}
				if sel, ok := n.Fun.(*ast.SelectorExpr); ok {
					if _, ty, err := c.path(sel, en); err == nil && ty == "Option StateFn" && len(n.Args) == 1 {
						mark(n.Args[0])
					}
				}
				if fn, recv := c.callee(n, en); fn != nil {
					args := n.Args
					if recv != nil {
						args = append([]ast.Expr{recv}, args...)
					}
					for i, a := range args {
						if i < len(fn.params) && fn.params[i].ptr && fn.mut[i] {
							mark(a)
						}
					}
				}
			}
			return true
		})
	}
	return
}

func t4hasReturn(nodes []ast.Node) bool {
	found := false
	for _, nd := range nodes {
		if nd == nil {
			continue
		}
		ast.Inspect(nd, func(n ast.Node) bool {
			switch n.(type) {
			case *ast.FuncLit:
				return false
			case *ast.ReturnStmt:
				found = true
			}
			return true
		})
	}
	return found
}

type t4loop struct {
	name           string
	used           []string // Go names passed in
	carried        []string // Go names handed back
	hasRet, res    bool
	retTy          string
	paramsDecl     string
	args, carryPat string
}

func (c *t4ctx) loopShape(nodes []ast.Node, en t4env, extra string) (*t4loop, error) {
	c.loopN++
	lp := &t4loop{name: fmt.Sprintf("%s_loop%d", c.fn.lean, c.loopN)}
	used, assigned := c.loopVars(nodes, en)
	var decl, args, carry []string
	for _, u := range used {
		b := en[u]
		if b.ty == "error" || b.ty == "oneof" {
			continue
		}
		if strings.HasPrefix(b.ty, "σ →") {
			decl = append(decl, fmt.Sprintf("(%s : %s)", b.lean, b.ty))
			args = append(args, b.lean)
			continue
		}
		lp.used = append(lp.used, u)
		decl = append(decl, fmt.Sprintf("(%s : %s)", b.lean, b.ty))
		args = append(args, b.lean)
		if assigned[u] {
			lp.carried = append(lp.carried, u)
			carry = append(carry, b.lean)
		}
	}
	if c.fn.callback {
		decl = append(decl, "(s : σ)")
		args = append(args, "s")
		carry = append(carry, "s")
	}
	lp.hasRet = t4hasReturn(nodes)
	if lp.hasRet {
		if len(c.fn.results) != 1 || c.fn.hasErr {
			return nil, lostf("return inside a loop of a function with %d results", len(c.fn.results))
		}
		lp.retTy = c.fn.results[0]
	}
	lp.paramsDecl = strings.Join(decl, " ")
	lp.args = strings.Join(args, " ")
	lp.carryPat = strings.Join(carry, ", ")
	_ = extra
	return lp, nil
}

// result type and the exit / return terms of a loop helper
func (lp *t4loop) resTy(c *t4ctx, en t4env) string {
	var parts []string
	for _, u := range lp.carried {
		parts = append(parts, t4prodAtom(en[u].ty, true))
	}
	if c.fn.callback {
		parts = append(parts, "σ")
	}
	if lp.hasRet {
		parts = append(parts, "Option "+t4atomTy(lp.retTy))
	}
	t := "Unit"
	if len(parts) > 0 {
		t = strings.Join(parts, " × ")
	}
	if lp.res {
		return "Go.Res " + t4atomTy(t)
	}
	return t
}

func (lp *t4loop) exit(ret string) string {
	var parts []string
	if lp.carryPat != "" {
		parts = append(parts, lp.carryPat)
	}
	if lp.hasRet {
		parts = append(parts, ret)
	}
	t := "()"
	if len(parts) > 0 {
		t = strings.Join(parts, ", ")
		if strings.Contains(t, ",") {
			t = "(" + t + ")"
		}
	}
	if lp.res {
		return ".ok " + t
	}
	return t
}

// hostSide: the call of the helper in the host and what follows
func (c *t4ctx) loopHost(lp *t4loop, call string, rest []ast.Stmt, en t4env, depth int, k t4kont) (string, error) {
	after, err := c.stmts(rest, en, depth, k)
	if err != nil {
		return "", err
	}
	var b strings.Builder
	fmt.Fprintf(&b, "%smatch %s with\n", ind(depth), call)
	if lp.res {
		fmt.Fprintf(&b, "%s| .error err => .error err\n", ind(depth))
	}
	if lp.hasRet {
		r, err := k.ret([]t4val{{text: "ret", ty: lp.retTy}}, en, depth+1)
		if err != nil {
			return "", err
		}
		fmt.Fprintf(&b, "%s| %s =>\n%s", ind(depth), lp.exit("some ret"), r)
		fmt.Fprintf(&b, "%s| %s =>\n%s", ind(depth), lp.exit("none"), after)
	} else {
		fmt.Fprintf(&b, "%s| %s =>\n%s", ind(depth), lp.exit(""), after)
	}
	return b.String(), nil
}

func (c *t4ctx) sigma() string {
	if c.fn.callback {
		return " {σ : Type}"
	}
	return ""
}

// for init; cond; post { body }: a helper recursive on fuel
func (c *t4ctx) forStmt(s *ast.ForStmt, rest []ast.Stmt, en t4env, depth int, k t4kont) (string, error) {
	if !c.fuelVar {
		return "", lostf("loop outside a fuelled function")
	}
	c.obsFuelled, c.obsFails = true, true
	// the init statement runs in the host
	pre := &t4pre{}
	en1 := en
	if s.Init != nil {
		as, ok := s.Init.(*ast.AssignStmt)
		if !ok || as.Tok == token.DEFINE {
			return "", lostf("loop init %s", c.src(s.Init))
		}
		var err error
		if en1, err = c.assign(as, en, pre); err != nil {
			return "", err
		}
	}
	nodes := []ast.Node{s.Body}
	if s.Cond != nil {
		nodes = append(nodes, s.Cond)
	}
	if s.Post != nil {
		nodes = append(nodes, s.Post)
	}
	lp, err := c.loopShape(nodes, en1, "")
	if err != nil {
		return "", err
	}
	lp.res = true
	recur := func(_ t4env, d int) (string, error) {
		return ind(d) + strings.TrimSpace(lp.name+" fuel "+lp.args) + "\n", nil
	}
	kb := t4kont{
		next: func(_ t4env, d int) (string, error) {
			if s.Post == nil {
				return recur(en1, d)
			}
			k3 := t4kont{next: recur}
			return c.stmts([]ast.Stmt{s.Post}, en1, d, k3)
		},
		brk: func(_ t4env, d int) (string, error) { return ind(d) + lp.exit("none") + "\n", nil },
		ret: func(vals []t4val, _ t4env, d int) (string, error) {
			if !lp.hasRet || len(vals) != 1 {
				return "", lostf("return inside a loop")
			}
			return ind(d) + lp.exit("some "+t4arg(vals[0].text)) + "\n", nil
		},
	}
	var body string
	if s.Cond != nil {
		cp := &t4pre{}
		cond, err := c.expr(s.Cond, en1, cp)
		if err != nil {
			return "", err
		}
		if cond.ty != "Bool" {
			return "", lostf("loop condition of type %s", cond.ty)
		}
		b, err := c.stmts(s.Body.List, en1, 2, kb)
		if err != nil {
			return "", err
		}
		ex, _ := kb.brk(en1, 1)
		body = fmt.Sprintf("%s%sif %s then\n%s%selse\n%s", cp.emit(1), ind(1), cond.text, b, ind(1), ex)
	} else {
		b, err := c.stmts(s.Body.List, en1, 1, kb)
		if err != nil {
			return "", err
		}
		body = b
	}
	helper := fmt.Sprintf("/-- the loop `for %s; %s; %s` of `%s` -/\ndef %s%s (fuel : Nat) %s : %s :=\n  match fuel with\n  | 0 => .error Go.Err4.fuel\n  | fuel + 1 =>\n%s",
		t4src(c, s.Init), t4src(c, s.Cond), t4src(c, s.Post), c.fn.key, lp.name, c.sigma(), lp.paramsDecl, lp.resTy(c, en1), body)
	c.helpers = append(c.helpers, helper)
	h, err := c.loopHost(lp, strings.TrimSpace(lp.name+" fuel "+lp.args), rest, en1, depth, k)
	if err != nil {
		return "", err
	}
	return pre.emit(depth) + h, nil
}

func t4src(c *t4ctx, n ast.Node) string {
	if n == nil || (fmt.Sprintf("%v", n) == "<nil>") {
		return ""
	}
	switch x := n.(type) {
	case ast.Stmt:
		if x == nil {
			return ""
		}
	case ast.Expr:
		if x == nil {
			return ""
		}
	}
	return strings.ReplaceAll(c.src(n), "-/", "- /")
}

// for _, v := range xs { body }: a helper structurally recursive on the list
func (c *t4ctx) rangeStmt(s *ast.RangeStmt, rest []ast.Stmt, en t4env, depth int, k t4kont) (string, error) {
	if kid, ok := s.Key.(*ast.Ident); !ok || kid.Name != "_" || s.Tok != token.DEFINE {
		return "", lostf("range loop that is not `for _, v := range xs`")
	}
	vid, ok := s.Value.(*ast.Ident)
	if !ok || vid.Name == "_" {
		return "", lostf("range loop without a value variable")
	}
	pre := &t4pre{}
	xs, err := c.expr(s.X, en, pre)
	if err != nil {
		return "", err
	}
	if !strings.HasPrefix(xs.ty, "List ") || len(pre.lines) != 0 {
		return "", lostf("range over %s", c.src(s.X))
	}
	vl, err := c.declare(vid.Name, en)
	if err != nil {
		return "", err
	}
	lp, err := c.loopShape([]ast.Node{s.Body}, en, "")
	if err != nil {
		return "", err
	}
	// does the body fail? translate it once to find out
	saveFails := c.obsFails
	c.obsFails = false
	enb := en.with(vid.Name, t4bind{lean: vl, ty: t4elemTy(xs.ty)})
	mk := func() (string, error) {
		kb := t4kont{
			next: func(_ t4env, d int) (string, error) {
				return ind(d) + strings.TrimSpace(lp.name+" xs' "+lp.args) + "\n", nil
			},
			brk: func(_ t4env, d int) (string, error) { return ind(d) + lp.exit("none") + "\n", nil },
			ret: func(vals []t4val, _ t4env, d int) (string, error) {
				if !lp.hasRet || len(vals) != 1 {
					return "", lostf("return inside a loop")
				}
				return ind(d) + lp.exit("some "+t4arg(vals[0].text)) + "\n", nil
			},
		}
		return c.stmts(s.Body.List, enb, 2, kb)
	}
	tmp0, loop0, h0 := c.tmp, c.loopN, len(c.helpers)
	if _, err := mk(); err != nil {
		return "", err
	}
	lp.res = c.obsFails
	c.obsFails = c.obsFails || saveFails
	c.tmp, c.loopN, c.helpers = tmp0, loop0, c.helpers[:h0]
	body, err := mk()
	if err != nil {
		return "", err
	}
	helper := fmt.Sprintf("/-- the loop `for _, %s := range %s` of `%s` -/\ndef %s%s (xs' : %s) %s : %s :=\n  match xs' with\n  | [] => %s\n  | %s :: xs' =>\n%s",
		vid.Name, t4src(c, s.X), c.fn.key, lp.name, c.sigma(), xs.ty, lp.paramsDecl, lp.resTy(c, en), lp.exit("none"), vl, body)
	c.helpers = append(c.helpers, helper)
	return c.loopHost(lp, strings.TrimSpace(lp.name+" "+t4arg(xs.text)+" "+lp.args), rest, en, depth, k)
}

// ---------------------------------------------------------------- one function

// translateFn: the Lean text of fn (helpers first) under the current effect assumptions; dry = effect discovery
func (pk *t4pkg) translateFn(fn *t4func, inSCC, dry bool) (string, []string, *t4ctx, error) {
	c := &t4ctx{pk: pk, fn: fn, tmpPfx: "t", obsMut: map[string]bool{}}
	// temporaries must not collide with Go identifiers of the function
	clash := false
	ast.Inspect(fn.decl, func(n ast.Node) bool {
		if id, ok := n.(*ast.Ident); ok && len(id.Name) > 1 && id.Name[0] == 't' && strings.Trim(id.Name[1:], "0123456789") == "" {
			clash = true
		}
		return true
	})
	if clash {
		c.tmpPfx = "tmp"
	}
	c.fuelVar = fn.fuelled || dry
	en := t4env{}
	var decl []string
	if fn.callback {
		decl = append(decl, "{σ : Type}")
	}
	if fn.fuelled {
		decl = append(decl, "(fuel : Nat)")
	}
	for _, p := range fn.params {
		if p.dropped {
			continue
		}
		en[p.goName] = t4bind{lean: p.lean, ty: p.ty}
		decl = append(decl, fmt.Sprintf("(%s : %s)", p.lean, p.ty))
	}
	if fn.callback {
		decl = append(decl, "(s : σ)")
	}
	for i, rn := range fn.resultNames {
		if rn == "" || rn == "_" {
			continue
		}
		ln, err := c.declare(rn, en)
		if err != nil {
			return "", nil, c, err
		}
		en[rn] = t4bind{lean: ln, ty: fn.results[i]}
	}
	if fn.hasErr && fn.errName != "" {
		en[fn.errName] = t4bind{lean: fn.errName, ty: "error"}
	}
	wrapOK := func(t string) string {
		if fn.fails || fn.hasErr {
			return ".ok " + t
		}
		return t
	}
	ret := func(vals []t4val, en t4env, d int) (string, error) {
		var parts []string
		for _, p := range fn.outs() {
			parts = append(parts, en[p.goName].lean)
		}
		if fn.callback {
			parts = append(parts, "s")
		}
		for _, v := range vals {
			parts = append(parts, v.text)
		}
		return ind(d) + wrapOK(t4tuple(parts)) + "\n", nil
	}
	k := t4kont{
		ret: ret,
		next: func(en t4env, d int) (string, error) {
			if len(fn.results) != 0 || fn.hasErr {
				return "", lostf("control reaches the end of %s without a return", fn.key)
			}
			return ret(nil, en, d)
		},
	}
	body, err := c.stmts(fn.decl.Body.List, en, 1, k)
	if err != nil {
		return "", nil, c, err
	}
	head := ""
	if inSCC && fn.fuelled && !fn.noFuel {
		head = "  match fuel with\n  | 0 => .error Go.Err4.fuel\n  | fuel + 1 =>\n"
	}
	name := fn.key
	if fn.recv != "" {
		name = "(*" + fn.recv + ")." + fn.goName
	}
	text := fmt.Sprintf("/-- `%s` of %s -/\ndef %s %s : %s :=\n%s%s", name, fn.rel, fn.lean, strings.Join(decl, " "), fn.retTy(), head, body)
	return text, c.helpers, c, nil
}

// ---------------------------------------------------------------- the package: effects fixpoint, order, emission

// sccs of the call graph restricted to the registered functions, callees first, ties in registration order
func (pk *t4pkg) sccs() [][]string {
	index := map[string]int{}
	low := map[string]int{}
	on := map[string]bool{}
	var stack []string
	var out [][]string
	n := 0
	var visit func(v string)
	visit = func(v string) {
		n++
		index[v], low[v] = n, n
		stack = append(stack, v)
		on[v] = true
		for _, w := range pk.funcSeq {
			if !pk.funcs[v].calls[w] {
				continue
			}
			if index[w] == 0 {
				visit(w)
				if low[w] < low[v] {
					low[v] = low[w]
				}
			} else if on[w] && index[w] < low[v] {
				low[v] = index[w]
			}
		}
		if low[v] == index[v] {
			var comp []string
			for {
				w := stack[len(stack)-1]
				stack = stack[:len(stack)-1]
				on[w] = false
				comp = append(comp, w)
				if w == v {
					break
				}
			}
			// registration order inside the component
			var ordered []string
			for _, f := range pk.funcSeq {
				for _, w := range comp {
					if w == f {
						ordered = append(ordered, f)
					}
				}
			}
			out = append(out, ordered)
		}
	}
	for _, v := range pk.funcSeq {
		if index[v] == 0 {
			visit(v)
		}
	}
	return out
}

func (pk *t4pkg) analyse() {
	// state functions: the plain functions of type func(*S) T
	if pk.stateFnTy != "" {
		for _, rel := range pk.relOrder() {
			for _, d := range pk.files[rel].Decls {
				fd, ok := d.(*ast.FuncDecl)
				if !ok || fd.Recv != nil || fd.Type.Params.NumFields() != 1 || fd.Type.Results.NumFields() != 1 {
					continue
				}
				if pk.tr.src(fd.Type.Results.List[0].Type) == pk.stateFnTy && pk.tr.src(fd.Type.Params.List[0].Type) == "*"+pk.stateFnArg {
					pk.stateFns = append(pk.stateFns, fd.Name.Name)
				}
			}
		}
	}
	for round := 0; round < 12; round++ {
		changed := false
		for _, key := range pk.funcSeq {
			fn := pk.funcs[key]
			if fn.lost != nil || fn.diverges {
				continue
			}
			_, _, c, _ := pk.translateFn(fn, false, true)
			for i, p := range fn.params {
				if c.obsMut[p.goName] && !fn.mut[i] {
					fn.mut[i], changed = true, true
				}
			}
			if c.obsFails && !fn.fails {
				fn.fails, changed = true, true
			}
			if c.obsFuelled && !fn.fuelled && !fn.noFuel {
				fn.fuelled, changed = true, true
			}
		}
		for _, comp := range pk.sccs() {
			rec := len(comp) > 1 || pk.funcs[comp[0]].calls[comp[0]]
			for _, key := range comp {
				fn := pk.funcs[key]
				if rec && !fn.noFuel && !fn.fuelled {
					fn.fuelled, fn.fails, changed = true, true, true
				}
			}
		}
		if !changed {
			return
		}
	}
}

func (pk *t4pkg) relOrder() []string {
	var rels []string
	for _, key := range pk.funcSeq {
		r := pk.funcs[key].rel
		dup := false
		for _, x := range rels {
			if x == r {
				dup = true
			}
		}
		if !dup {
			rels = append(rels, r)
		}
	}
	return rels
}

// usesStateCall: the function calls a function value of the state-function type
func (pk *t4pkg) usesStateCall(fn *t4func) bool {
	return strings.Contains(fn.text, "callStateFn ")
}

func (pk *t4pkg) stateFnDispatch() (string, error) {
	st := pk.structOf(pk.stateFnArg)
	if st == nil {
		return "", lostf("state function argument type %s", pk.stateFnArg)
	}
	var b strings.Builder
	fmt.Fprintf(&b, "/-- the call `f(l)` of a value `f` of type `%s` (calling nil panics) -/\ndef callStateFn (fuel : Nat) : Option StateFn → %s → Go.Res (%s × Option StateFn)\n  | none, _ => .error Go.Err4.panic\n", pk.stateFnTy, st.lean, st.lean)
	for _, sf := range pk.stateFns {
		fn := pk.funcs[sf]
		if fn == nil || fn.lost != nil {
			return "", lostf("state function %s is not translated", sf)
		}
		if len(fn.params) != 1 || len(fn.results) != 1 || fn.results[0] != "Option StateFn" {
			return "", lostf("signature of the state function %s", sf)
		}
		call := fn.lean
		if fn.fuelled {
			call += " fuel"
		}
		call += " l"
		switch {
		case fn.fails && fn.mut[0]:
		case fn.fails:
			call = fmt.Sprintf("(%s).map fun r => (l, r)", call)
		case fn.mut[0]:
			call = fmt.Sprintf(".ok (%s)", call)
		default:
			call = fmt.Sprintf(".ok (l, %s)", call)
		}
		fmt.Fprintf(&b, "  | some StateFn.%s, l => %s\n", sf, call)
	}
	return b.String(), nil
}

// emitAll writes the declarations and the functions
func (pk *t4pkg) emitAll(emit func(string, unit, error) bool, wrap func(bool, string, string)) {
	pk.analyse()
	// declarations derived from the source: constants, state function names, structs
	var b strings.Builder
	for _, name := range pk.constSeq {
		fmt.Fprintf(&b, "/-- constant `%s` of %s -/\ndef %s : Int := %d\n", name, pk.dir, name, pk.consts[name])
	}
	wrap(true, "t4consts", b.String())
	if pk.stateFnTy != "" && len(pk.stateFns) > 0 {
		wrap(true, "StateFn", fmt.Sprintf("/-- the functions of type `%s` (`func(*%s) %s`) of %s; a value of that type is `Option StateFn`, nil = `none` -/\ninductive StateFn where\n  | %s\n  deriving Repr, DecidableEq\n",
			pk.stateFnTy, pk.stateFnArg, pk.stateFnTy, pk.dir, strings.Join(pk.stateFns, " | ")))
	}
	structsDone := map[string]bool{}
	emitStructs := func() {
		for _, name := range pk.structSeq {
			if structsDone[name] {
				continue
			}
			structsDone[name] = true
			txt, err := pk.structDecl(pk.structs[name])
			if err != nil {
				emit(pk.structs[name].lean, unit{}, err)
				continue
			}
			wrap(true, pk.structs[name].lean, txt)
		}
	}
	emitStructs()
	// add call edges from users of function values to every state function (found in the dry runs through the text)
	dispatchDone := false
	for _, comp := range pk.sccs() {
		rec := len(comp) > 1 || pk.funcs[comp[0]].calls[comp[0]]
		var texts []string
		var firstErr error
		for _, key := range comp {
			fn := pk.funcs[key]
			if fn.diverges {
				continue
			}
			if fn.lost == nil {
				txt, helpers, _, err := pk.translateFn(fn, rec, false)
				if err != nil {
					fn.lost = err
				} else {
					fn.text = strings.Join(helpers, "\n") + txt
					texts = append(texts, helpers...)
					texts = append(texts, txt)
				}
			}
			if fn.lost != nil && firstErr == nil {
				firstErr = fn.lost
			}
		}
		emitStructs()
		if firstErr != nil {
			for _, key := range comp {
				fn := pk.funcs[key]
				if fn.diverges {
					continue
				}
				if fn.lost == nil {
					fn.lost = lostf("depends on a lost function")
				}
				emit(fn.lean, unit{}, fn.lost)
			}
			continue
		}
		if len(texts) == 0 {
			continue
		}
		for _, key := range comp {
			if pk.usesStateCall(pk.funcs[key]) && !dispatchDone {
				dispatchDone = true
				txt, err := pk.stateFnDispatch()
				if err != nil {
					emit("callStateFn", unit{}, err)
				} else {
					wrap(true, "callStateFn", txt)
				}
			}
		}
		all := strings.Join(texts, "\n")
		if rec || len(texts) > 1 && pk.needsMutual(comp) {
			all = "mutual\n" + all + "end\n"
		}
		names := []string{}
		for _, key := range comp {
			if !pk.funcs[key].diverges {
				names = append(names, pk.funcs[key].lean)
			}
		}
		wrap(true, names[0], all)
		for _, nm := range names[1:] {
			pk.tr.done[nm] = true
		}
	}
}

// needsMutual: helpers of a structurally recursive function call it back
func (pk *t4pkg) needsMutual(comp []string) bool {
	for _, key := range comp {
		if pk.funcs[key].noFuel && pk.funcs[key].calls[key] {
			return true
		}
	}
	return false
}

// ---------------------------------------------------------------- registration

func (tr *translator) translateT4(emit func(string, unit, error) bool, wrap func(bool, string, string)) {
	const qp = "internal/queryparser/queryparser.go"
	const wk = "internal/queryparser/walk.go"
	pk := &t4pkg{tr: tr, dir: "internal/queryparser"}
	if err := pk.loadPkg(qp, wk); err != nil {
		emit("t4", unit{}, err)
		return
	}
	// the lexer
	for _, m := range []string{"next", "backup", "peek", "emit", "ignore", "acceptRun", "errorf", "run", "nextItem"} {
		pk.addFunc(qp, "lexer", m, false)
	}
	for _, f := range []string{"lexText", "lexField", "lexValue", "lexPlaceholder", "lex"} {
		pk.addFunc(qp, "", f, false)
	}
	// the parser
	for _, m := range []string{"errorf", "peek", "next", "parse", "parseExpr", "parseAndExpr", "parseOrExpr", "parseSimpleExpr",
		"parseGroupedExpr", "parseComparison", "parseFieldList"} {
		pk.addFunc(qp, "parser", m, false)
	}
	pk.addFunc(qp, "", "newParser", false)
	pk.addFunc(qp, "", "ParseQuery", false)
	// walk.go's `walk` / `Walk` are translated by translate_t5.go (Gen.walk, Gen.Walk; Props/Gen/Walk.lean)
	pk.emitAll(emit, wrap)
}
