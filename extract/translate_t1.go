// translate_t1.go [t1]: translation of the STATEFUL part of query.go —
//
//	(*ExprEqual).eval, (*ExprNot).eval, (*ExprAnd).eval, (*ExprOr).eval   ↦ Gen.evalEqual / evalNot / evalAnd / evalOr
//	(*Index).Execute                                                       ↦ Gen.execute
//	validateExpr                                                           ↦ Gen.validateExpr
//
// over the primitives of Updog/Basic/GoPreludeT1.lean. Unlike the pure targets of translate.go these functions talk to
// the cache (idx.cache.Get / Put), to the column getter, and to the eval methods of their operands. The translation
// threads the cache state `st` through those calls in source order, statement by statement:
//
//	bm, ok := idx.cache.Get(k)        ↦  let r := idx.cacheGet st k; let st := r.1; let bm := r.2; let ok := isSome r.2
//	bm, err := x.eval(idx)            ↦  let r := subEval x st;      let st := r.1; let bm := r.2; let err := isNone r.2
//	bm, err := idx.values.GetCol(k)   ↦  let r := idx.getCol k;      let bm := r.1; let err := r.2
//	idx.cache.Put(k, bm)              ↦  let st := Go.cachePut idx st k bm
//	return bm, nil / return nil, err  ↦  (st, bm) / (st, none)
//	for _, x := range xs { … }        ↦  a structurally recursive helper `<name>_loop` returning Go.Flow
//
// `*roaring.Bitmap` is `Option Nat` (nil ↦ none), `error` is `Bool`, an operand Expression is a value of an abstract
// type ε with the parameters `subKey : ε → UInt64` (its cacheKey()) and `subEval : ε → σ → σ × Option Nat` (its
// eval(idx); dynamic dispatch = the recursive knot, tied in Updog/Props/Gen/Eval.lean).
//
// Pure sub-expressions are translated by tctx.expr of translate.go, extended by the hook below.
package main

import (
	"fmt"
	"go/ast"
	"go/token"
	"sort"
	"strings"
)

// additional types of the subset (see leanT1)
const (
	tBmPtr  gtype = 100 + iota // *roaring.Bitmap            ↦ Option Nat (nil ↦ none)
	tBmPtrs                    // []*roaring.Bitmap          ↦ List (Option Nat)
	tBm                        // a *roaring.Bitmap that is known not to be nil ↦ Nat
	tErr                       // error                      ↦ Bool (true: non-nil)
	tSub                       // an operand Expression      ↦ ε
	tSubs                      // []Expression               ↦ List ε
	tU32                       // uint32                     ↦ UInt32
	tCard                      // uint64 result of GetCardinality ↦ Nat
	tGroups                    // []ResultGroup as computed by Query.groupBy ↦ γ
	tQState                    // the unexported members of *Query ↦ κ
)

func leanT1(t gtype) string {
	switch t {
	case tBmPtr:
		return "Option Nat"
	case tBmPtrs:
		return "List (Option Nat)"
	case tBm, tCard:
		return "Nat"
	case tErr:
		return "Bool"
	case tSub:
		return "ε"
	case tSubs:
		return "List ε"
	case tU32:
		return "UInt32"
	case tGroups:
		return "γ"
	case tQState:
		return "κ"
	}
	return ""
}

func elemT1(t gtype) gtype {
	switch t {
	case tBmPtrs:
		return tBmPtr
	case tSubs:
		return tSub
	}
	return tBad
}

const roaringPath = "github.com/RoaringBitmap/roaring"

type t1kind int

const (
	kEval t1kind = iota
	kExecute
	kValidate
)

// names the translation itself binds; a Go variable with one of these names loses the function
var t1Reserved = map[string]bool{"st": true, "r": true, "rest_": true, "subKey": true, "subEval": true,
	"populateGroupBy": true, "groupBy": true, "validateExpr": true, "validateSub": true, "typeSwitch": true,
	"qExpr": true, "qGroupBy": true, "column": true, "value": true, "expr": true, "exprs": true}

type t1param struct{ name, typ string }

// translation state of one target
type t1 struct {
	c       *tctx
	kind    t1kind
	name    string    // Lean name of the definition
	idx     string    // Go name of the *Index variable (parameter or receiver)
	q       string    // Execute: Go name of the *Query parameter
	self    string    // validateExpr: Go name of the Expression parameter
	tparams string    // "{σ ε : Type}"
	params  []t1param // value parameters of the definition, without the trailing state `st`
	result  string    // Lean type of what a `return` yields
	helpers []string  // loop helpers, in the order they have to be printed
	nloops  int
	// inlining of `return helper(args)` (see inlineCall): the helpers being inlined, and the Lean terms standing
	// for their parameters (which a local variable of the helper must not shadow)
	inlining   map[string]bool
	inlineArgs map[string]bool
}

func (t *t1) stateful() bool { return t.kind != kValidate }

func (t *t1) ident(goName string) (string, error) {
	ln, err := leanIdent(goName)
	if err != nil {
		return "", err
	}
	if t1Reserved[goName] {
		return "", lostf("variable name %s is reserved by the translation", goName)
	}
	for _, p := range t.params {
		if p.name == ln {
			return "", lostf("variable name %s clashes with a parameter of the generated definition", goName)
		}
	}
	if t.c.tr.done[ln] || ln == "Go" || ln == t.name || strings.HasPrefix(ln, t.name+"_loop") {
		return "", lostf("variable name %s clashes with a generated definition", goName)
	}
	if t.inlineArgs[ln] {
		return "", lostf("variable name %s of an inlined helper clashes with one of its arguments", goName)
	}
	return ln, nil
}

// how the enclosing construct continues
type t1k struct {
	ret   func(v string) string // wraps the value of a `return`; nil: a return is not allowed here
	final string                // the term control yields when it falls off the end; "": not allowed
}

func isNilIdent(e ast.Expr) bool {
	id, ok := e.(*ast.Ident)
	return ok && id.Name == "nil"
}

// isIdx: the *Index variable itself, not shadowed
func (t *t1) isVar(e ast.Expr, en env, name string) bool {
	id, ok := e.(*ast.Ident)
	if !ok || name == "" || id.Name != name {
		return false
	}
	_, shadowed := en[name]
	return !shadowed
}

// sel: e is `<root>.<a>.<b>…` with the unshadowed variable root
func (t *t1) sel(e ast.Expr, en env, root string, path ...string) bool {
	for i := len(path) - 1; i >= 0; i-- {
		s, ok := e.(*ast.SelectorExpr)
		if !ok || s.Sel.Name != path[i] {
			return false
		}
		e = s.X
	}
	return t.isVar(e, en, root)
}

// ---------------------------------------------------------------- pure expressions (hook of tctx.expr)

func (t *t1) hook(c *tctx, e ast.Expr, en env) (val, bool, error) {
	fail := func(err error) (val, bool, error) { return val{}, true, err }
	switch e := e.(type) {
	case *ast.BinaryExpr:
		if e.Op != token.EQL && e.Op != token.NEQ {
			return val{}, false, nil
		}
		var other ast.Expr
		switch {
		case isNilIdent(e.Y) && c.free("nil", en):
			other = e.X
		case isNilIdent(e.X) && c.free("nil", en):
			other = e.Y
		default:
			return val{}, false, nil
		}
		x, err := c.expr(other, en)
		if err != nil {
			return fail(err)
		}
		switch x.typ {
		case tErr:
			if e.Op == token.NEQ {
				return val{text: x.text, typ: tBool}, true, nil
			}
			return val{text: "(!" + x.text + ")", typ: tBool}, true, nil
		case tBmPtr:
			if e.Op == token.NEQ {
				return val{text: "(Option.isSome " + x.text + ")", typ: tBool}, true, nil
			}
			return val{text: "(Option.isNone " + x.text + ")", typ: tBool}, true, nil
		}
		return fail(lostf("comparison of %s with nil", x.typ.lean()))
	case *ast.SelectorExpr:
		if t.sel(e, en, t.idx, "nextRowID") {
			ln, _ := leanIdent(t.idx)
			return val{text: ln + ".nextRowID", typ: tU32}, true, nil
		}
	case *ast.CallExpr:
		n := len(e.Args)
		switch {
		case c.builtin(e.Fun, en, "uint64") && n == 1:
			x, err := c.expr(e.Args[0], en)
			if err != nil {
				return fail(err)
			}
			switch x.typ {
			case tUntyped:
				v, err := conv(x, tU64)
				return v, true, err
			case tU64:
				return x, true, nil
			case tU32: // value preserving
				return val{text: "(UInt32.toUInt64 " + x.text + ")", typ: tU64}, true, nil
			}
			return fail(lostf("conversion to uint64 from %s", x.typ.lean()))
		case c.pkgSel(e.Fun, en, "roaring", roaringPath, "New") && n == 0:
			return val{text: "Go.bmNew", typ: tBmPtr}, true, nil
		case c.pkgSel(e.Fun, en, "roaring", roaringPath, "Flip") && n == 3:
			bm, err := c.typed(e.Args[0], en, tBmPtr)
			if err != nil {
				return fail(err)
			}
			lo, err := c.typed(e.Args[1], en, tU64)
			if err != nil {
				return fail(err)
			}
			hi, err := c.typed(e.Args[2], en, tU64)
			if err != nil {
				return fail(err)
			}
			return val{text: fmt.Sprintf("(Go.bmFlip %s %s %s)", bm.text, lo.text, hi.text), typ: tBmPtr}, true, nil
		case c.pkgSel(e.Fun, en, "roaring", roaringPath, "FastAnd") || c.pkgSel(e.Fun, en, "roaring", roaringPath, "FastOr"):
			f := "Go.bmFastAnd"
			if c.pkgSel(e.Fun, en, "roaring", roaringPath, "FastOr") {
				f = "Go.bmFastOr"
			}
			if e.Ellipsis.IsValid() {
				if n != 1 {
					return fail(lostf("%s with ... and %d arguments", c.tr.src(e.Fun), n))
				}
				xs, err := c.typed(e.Args[0], en, tBmPtrs)
				if err != nil {
					return fail(err)
				}
				return val{text: fmt.Sprintf("(%s %s)", f, xs.text), typ: tBmPtr}, true, nil
			}
			var items []string
			for _, a := range e.Args {
				x, err := c.typed(a, en, tBmPtr)
				if err != nil {
					return fail(err)
				}
				items = append(items, x.text)
			}
			return val{text: fmt.Sprintf("(%s [%s])", f, strings.Join(items, ", ")), typ: tBmPtr}, true, nil
		case c.builtin(e.Fun, en, "append") && n >= 2:
			x, err := c.expr(e.Args[0], en)
			if err != nil || x.typ != tBmPtrs {
				return val{}, false, nil // translate.go reports it
			}
			if e.Ellipsis.IsValid() {
				return fail(lostf("append(%s, …...)", x.typ.lean()))
			}
			var items []string
			for _, a := range e.Args[1:] {
				y, err := c.typed(a, en, tBmPtr)
				if err != nil {
					return fail(err)
				}
				items = append(items, y.text)
			}
			return val{text: fmt.Sprintf("(%s ++ [%s])", x.text, strings.Join(items, ", ")), typ: tBmPtrs}, true, nil
		}
		// validateExpr(x): the recursive call / the call from Execute
		if id, ok := e.Fun.(*ast.Ident); ok && id.Name == "validateExpr" && n == 1 && t.kind != kEval {
			if _, local := en[id.Name]; !local {
				x, err := c.typed(e.Args[0], en, tSub)
				if err != nil {
					return fail(err)
				}
				f := "validateExpr"
				if t.kind == kValidate {
					f = "validateSub"
				}
				return val{text: fmt.Sprintf("(%s %s)", f, x.text), typ: tErr}, true, nil
			}
		}
		if s, ok := e.Fun.(*ast.SelectorExpr); ok {
			switch {
			case s.Sel.Name == "cacheKey" && n == 0: // x.cacheKey() of an operand
				if _, isAtom := c.atoms[c.tr.src(e)]; isAtom {
					return val{}, false, nil
				}
				x, err := c.expr(s.X, en)
				if err != nil || x.typ != tSub {
					return val{}, false, nil
				}
				return val{text: fmt.Sprintf("(subKey %s)", x.text), typ: tU64}, true, nil
			case s.Sel.Name == "GetCardinality" && n == 0:
				x, err := c.expr(s.X, en)
				if err != nil {
					return fail(err)
				}
				if x.typ != tBm {
					return fail(lostf("GetCardinality of %s (only of a bitmap that was checked not to be nil)", x.typ.lean()))
				}
				return val{text: fmt.Sprintf("(Go.bmCardinality %s)", x.text), typ: tCard}, true, nil
			case s.Sel.Name == "groupBy" && n == 2 && t.kind == kExecute && t.isVar(s.X, en, t.q):
				bm, err := c.typed(e.Args[0], en, tBm)
				if err != nil {
					return fail(err)
				}
				if !t.isVar(e.Args[1], en, t.idx) {
					return fail(lostf("second argument of %s.groupBy is not %s", t.q, t.idx))
				}
				ql, _ := leanIdent(t.q)
				return val{text: fmt.Sprintf("(groupBy %s %s)", ql, bm.text), typ: tGroups}, true, nil
			}
		}
	}
	return val{}, false, nil
}

// errVal: an expression of type error as a Bool (true: non-nil)
func (t *t1) errVal(e ast.Expr, en env) (string, error) {
	c := t.c
	if isNilIdent(e) && c.free("nil", en) {
		return "false", nil
	}
	if call, ok := e.(*ast.CallExpr); ok && c.pkgSel(call.Fun, en, "fmt", "fmt", "Errorf") && len(call.Args) >= 1 {
		lit, ok := call.Args[0].(*ast.BasicLit)
		if !ok || lit.Kind != token.STRING {
			return "", lostf("fmt.Errorf with a non-literal format")
		}
		for _, a := range call.Args[1:] { // the message is not modelled, but its arguments must be pure
			if _, err := c.expr(a, en); err != nil {
				return "", err
			}
		}
		return "true", nil
	}
	v, err := c.typed(e, en, tErr)
	if err != nil {
		return "", err
	}
	return v.text, nil
}

// ---------------------------------------------------------------- statements

// touchesState: does the statement list contain a call that changes the cache state / the query's hidden state?
func touchesState(stmts []ast.Stmt) (st, q bool) {
	for _, s := range stmts {
		ast.Inspect(s, func(n ast.Node) bool {
			if call, ok := n.(*ast.CallExpr); ok {
				if sel, ok := call.Fun.(*ast.SelectorExpr); ok {
					switch sel.Sel.Name {
					case "Get", "Put", "eval":
						st = true
					case "populateGroupBy":
						q = true
					}
				}
			}
			return true
		})
	}
	return
}

func identsIn(stmts []ast.Stmt) map[string]bool {
	out := map[string]bool{}
	for _, s := range stmts {
		ast.Inspect(s, func(n ast.Node) bool {
			if id, ok := n.(*ast.Ident); ok {
				out[id.Name] = true
			}
			return true
		})
	}
	return out
}

// bindVar: a variable on the left of `:=` / `=`; DEFINE declares (or, for a variable of the same scope, re-assigns) it
func (t *t1) bindVar(lhs ast.Expr, tok token.Token, en env, typ gtype) (lean string, en2 env, skip bool, err error) {
	id, ok := lhs.(*ast.Ident)
	if !ok {
		return "", nil, false, lostf("assignment to %s", t.c.tr.src(lhs))
	}
	if id.Name == "_" {
		return "", en, true, nil
	}
	if b, ok := en[id.Name]; ok {
		if b.typ != typ {
			return "", nil, false, lostf("variable %s changes its type from %s to %s", id.Name, b.typ.lean(), typ.lean())
		}
		return b.lean, en, false, nil
	}
	if tok != token.DEFINE {
		return "", nil, false, lostf("assignment to %s, which is not a variable of the subset", id.Name)
	}
	ln, err := t.ident(id.Name)
	if err != nil {
		return "", nil, false, err
	}
	return ln, en.with(id.Name, binding{ln, typ}), false, nil
}

// simple: a statement without control flow ↦ a sequence of `let` lines and the environment after it.
// handled = false: s is not such a statement.
func (t *t1) simple(s ast.Stmt, en env, depth int) (text string, en2 env, handled bool, err error) {
	c := t.c
	in := ind(depth)
	idxLean, _ := leanIdent(t.idx)
	switch s := s.(type) {
	case *ast.DeclStmt:
		gd, ok := s.Decl.(*ast.GenDecl)
		if !ok || gd.Tok != token.VAR || len(gd.Specs) != 1 {
			return "", nil, true, lostf("declaration %s", c.tr.src(s))
		}
		vs := gd.Specs[0].(*ast.ValueSpec)
		if len(vs.Names) != 1 || len(vs.Values) != 0 || vs.Type == nil || c.tr.src(vs.Type) != "[]*roaring.Bitmap" ||
			!imports(c.file, "roaring", roaringPath) || !c.free("roaring", en) {
			return "", nil, true, lostf("declaration %s", c.tr.src(s))
		}
		if _, ok := en[vs.Names[0].Name]; ok {
			return "", nil, true, lostf("redeclaration of %s", vs.Names[0].Name)
		}
		ln, en2, _, err := t.bindVar(vs.Names[0], token.DEFINE, en, tBmPtrs)
		if err != nil {
			return "", nil, true, err
		}
		return fmt.Sprintf("%slet %s : List (Option Nat) := []\n", in, ln), en2, true, nil

	case *ast.ExprStmt:
		call, ok := s.X.(*ast.CallExpr)
		if !ok {
			return "", nil, true, lostf("statement %s", c.tr.src(s))
		}
		if sel, ok := call.Fun.(*ast.SelectorExpr); ok {
			switch {
			case t.stateful() && sel.Sel.Name == "Put" && t.sel(sel.X, en, t.idx, "cache") && len(call.Args) == 2:
				k, err := c.typed(call.Args[0], en, tU64)
				if err != nil {
					return "", nil, true, err
				}
				bm, err := c.typed(call.Args[1], en, tBmPtr)
				if err != nil {
					return "", nil, true, err
				}
				return fmt.Sprintf("%slet st : σ := Go.cachePut %s st %s %s\n", in, idxLean, k.text, bm.text), en, true, nil
			case t.kind == kExecute && sel.Sel.Name == "RLock" && t.sel(sel.X, en, t.idx, "mtx") && len(call.Args) == 0:
				return fmt.Sprintf("%s-- %s (locking is not modelled)\n", in, c.tr.src(s)), en, true, nil
			}
		}
		return "", nil, true, lostf("statement %s", c.tr.src(s))

	case *ast.DeferStmt:
		if sel, ok := s.Call.Fun.(*ast.SelectorExpr); ok && t.kind == kExecute && sel.Sel.Name == "RUnlock" &&
			t.sel(sel.X, en, t.idx, "mtx") && len(s.Call.Args) == 0 {
			return fmt.Sprintf("%s-- %s (locking is not modelled)\n", in, c.tr.src(s)), en, true, nil
		}
		return "", nil, true, lostf("statement %s", c.tr.src(s))

	case *ast.AssignStmt:
		if s.Tok != token.DEFINE && s.Tok != token.ASSIGN {
			return "", nil, true, lostf("assignment operator %s", s.Tok)
		}
		if len(s.Rhs) != 1 || len(s.Lhs) < 1 || len(s.Lhs) > 2 {
			return "", nil, true, lostf("assignment %s", c.tr.src(s))
		}
		if s.Tok == token.DEFINE { // at least one new variable, as the Go compiler demands
			fresh := false
			for _, l := range s.Lhs {
				if id, ok := l.(*ast.Ident); ok && id.Name != "_" {
					if _, ok := en[id.Name]; !ok {
						fresh = true
					}
				}
			}
			if !fresh {
				return "", nil, true, lostf("no new variable on the left side of %s", c.tr.src(s))
			}
		}
		if len(s.Lhs) == 2 {
			text, en2, err := t.twoResult(s, en, depth)
			return text, en2, true, err
		}
		// q.populateGroupBy(q.GroupBy, idx.schema): one error result, changes the hidden members of q
		if call, ok := s.Rhs[0].(*ast.CallExpr); ok && t.kind == kExecute {
			if sel, ok := call.Fun.(*ast.SelectorExpr); ok && sel.Sel.Name == "populateGroupBy" && t.isVar(sel.X, en, t.q) {
				if len(call.Args) != 2 || !t.sel(call.Args[1], en, t.idx, "schema") {
					return "", nil, true, lostf("arguments of %s", c.tr.src(call))
				}
				cols, err := c.typed(call.Args[0], en, tStrs)
				if err != nil {
					return "", nil, true, err
				}
				ql, _ := leanIdent(t.q)
				ln, en2, skip, err := t.bindVar(s.Lhs[0], s.Tok, en, tErr)
				if err != nil {
					return "", nil, true, err
				}
				text := fmt.Sprintf("%slet r := populateGroupBy %s %s\n%slet %s : κ := r.1\n", in, ql, cols.text, in, ql)
				if !skip {
					text += fmt.Sprintf("%slet %s : Bool := r.2\n", in, ln)
				}
				return text, en2, true, nil
			}
		}
		v, err := c.expr(s.Rhs[0], en)
		if err != nil {
			return "", nil, true, err
		}
		if v.typ == tUntyped {
			return "", nil, true, lostf("untyped constant in %s", c.tr.src(s))
		}
		ln, en2, skip, err := t.bindVar(s.Lhs[0], s.Tok, en, v.typ)
		if err != nil {
			return "", nil, true, err
		}
		if skip {
			return "", nil, true, lostf("assignment %s", c.tr.src(s))
		}
		return fmt.Sprintf("%slet %s : %s := %s\n", in, ln, v.typ.lean(), v.text), en2, true, nil
	}
	return "", nil, false, nil
}

// twoResult: `a, b := <call or map lookup>` for the calls that talk to the index
func (t *t1) twoResult(s *ast.AssignStmt, en env, depth int) (string, env, error) {
	c := t.c
	in := ind(depth)
	idxLean, _ := leanIdent(t.idx)
	var lines []string
	bind := func(i int, en env, typ gtype, valueText string) (env, error) {
		ln, en2, skip, err := t.bindVar(s.Lhs[i], s.Tok, en, typ)
		if err != nil {
			return nil, err
		}
		if !skip {
			lines = append(lines, fmt.Sprintf("%slet %s : %s := %s\n", in, ln, typ.lean(), valueText))
		}
		return en2, nil
	}
	// _, ok := idx.schema.Columns[name]
	if ix, ok := s.Rhs[0].(*ast.IndexExpr); ok && t.sel(ix.X, en, t.idx, "schema", "Columns") {
		if id, ok := s.Lhs[0].(*ast.Ident); !ok || id.Name != "_" {
			return "", nil, lostf("the column found in the schema is used (%s)", c.tr.src(s))
		}
		k, err := c.typed(ix.Index, en, tString)
		if err != nil {
			return "", nil, err
		}
		en2, err := bind(1, en, tBool, fmt.Sprintf("(%s.hasColumn %s)", idxLean, k.text))
		if err != nil {
			return "", nil, err
		}
		return strings.Join(lines, ""), en2, nil
	}
	call, ok := s.Rhs[0].(*ast.CallExpr)
	if !ok {
		return "", nil, lostf("two-result assignment %s", c.tr.src(s))
	}
	sel, ok := call.Fun.(*ast.SelectorExpr)
	if !ok {
		return "", nil, lostf("two-result call %s is not in the whitelist", c.tr.src(call.Fun))
	}
	switch {
	case t.stateful() && sel.Sel.Name == "Get" && t.sel(sel.X, en, t.idx, "cache") && len(call.Args) == 1:
		k, err := c.typed(call.Args[0], en, tU64)
		if err != nil {
			return "", nil, err
		}
		head := fmt.Sprintf("%slet r := %s.cacheGet st %s\n%slet st : σ := r.1\n", in, idxLean, k.text, in)
		en2, err := bind(0, en, tBmPtr, "r.2")
		if err != nil {
			return "", nil, err
		}
		if en2, err = bind(1, en2, tBool, "(Option.isSome r.2)"); err != nil {
			return "", nil, err
		}
		return head + strings.Join(lines, ""), en2, nil
	case t.kind == kEval && sel.Sel.Name == "GetCol" && t.sel(sel.X, en, t.idx, "values") && len(call.Args) == 1:
		k, err := c.typed(call.Args[0], en, tU64)
		if err != nil {
			return "", nil, err
		}
		head := fmt.Sprintf("%slet r := %s.getCol %s\n", in, idxLean, k.text)
		en2, err := bind(0, en, tBmPtr, "r.1")
		if err != nil {
			return "", nil, err
		}
		if en2, err = bind(1, en2, tErr, "r.2"); err != nil {
			return "", nil, err
		}
		return head + strings.Join(lines, ""), en2, nil
	case t.stateful() && sel.Sel.Name == "eval" && len(call.Args) == 1 && t.isVar(call.Args[0], en, t.idx):
		x, err := c.typed(sel.X, en, tSub)
		if err != nil {
			return "", nil, err
		}
		head := fmt.Sprintf("%slet r := subEval %s st\n%slet st : σ := r.1\n", in, x.text, in)
		en2, err := bind(0, en, tBmPtr, "r.2")
		if err != nil {
			return "", nil, err
		}
		if en2, err = bind(1, en2, tErr, "(Option.isNone r.2)"); err != nil {
			return "", nil, err
		}
		return head + strings.Join(lines, ""), en2, nil
	}
	return "", nil, lostf("two-result call %s is not in the whitelist", c.tr.src(call.Fun))
}

// metricsOnly: `if idx.metrics.X != nil { defer func(…) { idx.metrics.X.Observe(…) }(time.Now()) }` —
// observes a duration, no effect on the result
func (t *t1) metricsOnly(s *ast.IfStmt, en env) bool {
	c := t.c
	if t.kind != kExecute || s.Init != nil || s.Else != nil || len(s.Body.List) != 1 {
		return false
	}
	be, ok := s.Cond.(*ast.BinaryExpr)
	if !ok || be.Op != token.NEQ || !isNilIdent(be.Y) {
		return false
	}
	msel, ok := be.X.(*ast.SelectorExpr)
	if !ok || !t.sel(msel.X, en, t.idx, "metrics") {
		return false
	}
	prefix := c.tr.src(be.X) + "."
	d, ok := s.Body.List[0].(*ast.DeferStmt)
	if !ok {
		return false
	}
	fl, ok := d.Call.Fun.(*ast.FuncLit)
	if !ok {
		return false
	}
	good := true
	check := func(n ast.Node) bool {
		switch n := n.(type) {
		case *ast.CallExpr:
			src := c.tr.src(n.Fun)
			if !(strings.HasPrefix(src, prefix) || strings.HasPrefix(src, "time.")) {
				good = false
			}
		case *ast.AssignStmt, *ast.IncDecStmt, *ast.ReturnStmt, *ast.GoStmt, *ast.SendStmt:
			good = false
		}
		return good
	}
	ast.Inspect(fl.Body, check)
	for _, a := range d.Call.Args {
		ast.Inspect(a, check)
	}
	return good && imports(c.file, "time", "time")
}

func (t *t1) retVal(s *ast.ReturnStmt, en env, k t1k, depth int) (string, error) {
	c := t.c
	in := ind(depth)
	if k.ret == nil {
		return "", lostf("return inside a block that must fall through")
	}
	switch t.kind {
	case kValidate:
		if len(s.Results) != 1 {
			return "", lostf("return with %d results", len(s.Results))
		}
		if call, ok := s.Results[0].(*ast.CallExpr); ok {
			if text, handled, err := t.inlineCall(call, en, k, depth); handled {
				return text, err
			}
		}
		v, err := t.errVal(s.Results[0], en)
		if err != nil {
			return "", err
		}
		return in + k.ret(v) + "\n", nil
	case kEval, kExecute:
		if len(s.Results) != 2 {
			return "", lostf("return with %d results", len(s.Results))
		}
		a, b := s.Results[0], s.Results[1]
		if isNilIdent(a) && c.free("nil", en) { // return nil, <error>
			if _, err := t.errVal(b, en); err != nil {
				return "", err
			}
			return in + k.ret("(st, none)") + "\n", nil
		}
		if !(isNilIdent(b) && c.free("nil", en)) {
			return "", lostf("return of a value together with an error (%s)", c.tr.src(s))
		}
		if t.kind == kEval {
			v, err := c.typed(a, en, tBmPtr)
			if err != nil {
				return "", err
			}
			return in + k.ret("(st, "+v.text+")") + "\n", nil
		}
		// Execute: return &Result{Count: …, Groups: …}, nil
		u, ok := a.(*ast.UnaryExpr)
		if !ok || u.Op != token.AND {
			return "", lostf("returned value %s is not &Result{…}", c.tr.src(a))
		}
		lit, ok := u.X.(*ast.CompositeLit)
		if !ok || c.tr.src(lit.Type) != "Result" || len(lit.Elts) != 2 {
			return "", lostf("returned value %s is not &Result{Count: …, Groups: …}", c.tr.src(a))
		}
		if c.tr.structField(c.file, "Result", "Count") != "uint64" || c.tr.structField(c.file, "Result", "Groups") != "[]ResultGroup" {
			return "", lostf("members of the type Result")
		}
		fields := map[string]ast.Expr{}
		for _, el := range lit.Elts {
			kv, ok := el.(*ast.KeyValueExpr)
			if !ok {
				return "", lostf("returned value %s is not &Result{Count: …, Groups: …}", c.tr.src(a))
			}
			fields[c.tr.src(kv.Key)] = kv.Value
		}
		if fields["Count"] == nil || fields["Groups"] == nil {
			return "", lostf("returned value %s is not &Result{Count: …, Groups: …}", c.tr.src(a))
		}
		// every bitmap pointer the literal uses is dereferenced: nil ↦ panic ↦ none
		var ptrs []string
		for name := range identsIn([]ast.Stmt{&ast.ExprStmt{X: lit}}) {
			if b, ok := en[name]; ok && b.typ == tBmPtr {
				ptrs = append(ptrs, name)
			}
		}
		sort.Strings(ptrs)
		var out strings.Builder
		en2 := en
		for _, p := range ptrs {
			b := en[p]
			fmt.Fprintf(&out, "%smatch %s with\n%s| none => %s -- nil dereference\n%s| some %s =>\n", in, b.lean, in, k.ret("(st, none)"), in, b.lean)
			en2 = en2.with(p, binding{b.lean, tBm})
		}
		// Go evaluates the members in source order; both are pure here
		cnt, err := c.typed(fields["Count"], en2, tCard)
		if err != nil {
			return "", err
		}
		grp, err := c.typed(fields["Groups"], en2, tGroups)
		if err != nil {
			return "", err
		}
		out.WriteString(in + k.ret(fmt.Sprintf("(st, some (%s, %s))", cnt.text, grp.text)) + "\n")
		return out.String(), nil
	}
	return "", lostf("return")
}

// inlineCall: `return helper(a, b)` where helper is a plain function of the same file over operands / operand lists
// with the result type of the function being translated: the body of helper is translated in place of the return,
// its parameters standing for the argument terms (β-reduction at translation time; the arguments are variables, so
// no computation is duplicated). Refactoring a part of the function into such a helper therefore does not change
// the generated text.
func (t *t1) inlineCall(call *ast.CallExpr, en env, k t1k, depth int) (string, bool, error) {
	c := t.c
	id, ok := call.Fun.(*ast.Ident)
	if !ok || t.kind != kValidate || id.Name == "validateExpr" {
		return "", false, nil
	}
	if _, local := en[id.Name]; local {
		return "", false, nil
	}
	_, fd := c.tr.fn(c.rel, "", id.Name)
	if fd == nil {
		return "", false, nil
	}
	fail := func(err error) (string, bool, error) { return "", true, err }
	if t.inlining[id.Name] {
		return fail(lostf("helper %s is recursive", id.Name))
	}
	rs := fieldTypes(c.tr, fd.Type.Results)
	if len(rs) != 1 || rs[0] != "error" || len(fd.Type.Results.List[0].Names) != 0 {
		return fail(lostf("result type of the helper %s", id.Name))
	}
	var names []string
	var types []gtype
	if fd.Type.Params != nil {
		for _, fl := range fd.Type.Params.List {
			var pt gtype
			switch c.tr.src(fl.Type) {
			case "Expression":
				pt = tSub
			case "[]Expression":
				pt = tSubs
			default:
				return fail(lostf("parameter type %s of the helper %s", c.tr.src(fl.Type), id.Name))
			}
			if len(fl.Names) == 0 {
				return fail(lostf("unnamed parameter of the helper %s", id.Name))
			}
			for _, n := range fl.Names {
				names, types = append(names, n.Name), append(types, pt)
			}
		}
	}
	if len(names) != len(call.Args) || call.Ellipsis.IsValid() {
		return fail(lostf("arguments of the call of %s", id.Name))
	}
	calleeEn := env{}
	savedArgs := t.inlineArgs
	t.inlineArgs = map[string]bool{}
	for k := range savedArgs {
		t.inlineArgs[k] = true
	}
	defer func() { t.inlineArgs = savedArgs }()
	for i, a := range call.Args {
		v, err := c.typed(a, en, types[i])
		if err != nil {
			return fail(err)
		}
		for _, r := range v.text { // a variable, not a compound term
			if !(r >= 'a' && r <= 'z' || r >= 'A' && r <= 'Z' || r >= '0' && r <= '9' || r == '_' || r == '\'') {
				return fail(lostf("argument %s of the call of %s is not a variable", c.tr.src(a), id.Name))
			}
		}
		if names[i] == "_" {
			continue
		}
		if _, dup := calleeEn[names[i]]; dup {
			return fail(lostf("parameters of the helper %s", id.Name))
		}
		calleeEn[names[i]] = binding{v.text, types[i]}
		t.inlineArgs[v.text] = true
	}
	if t.inlining == nil {
		t.inlining = map[string]bool{}
	}
	t.inlining[id.Name] = true
	savedAtoms := c.atoms
	c.atoms = map[string]binding{} // the helper does not see the caller's variables
	text, err := t.block(fd.Body.List, calleeEn, k, depth)
	c.atoms = savedAtoms
	delete(t.inlining, id.Name)
	return text, true, err
}

func (t *t1) block(stmts []ast.Stmt, en env, k t1k, depth int) (string, error) {
	c := t.c
	in := ind(depth)
	if len(stmts) == 0 {
		if k.final == "" {
			return "", lostf("control reaches the end without a return")
		}
		return in + k.final + "\n", nil
	}
	s, rest := stmts[0], stmts[1:]
	if text, en2, handled, err := t.simple(s, en, depth); handled {
		if err != nil {
			return "", err
		}
		r, err := t.block(rest, en2, k, depth)
		if err != nil {
			return "", err
		}
		return text + r, nil
	}
	mustReturn := t1k{ret: k.ret}
	switch s := s.(type) {
	case *ast.ReturnStmt:
		if len(rest) != 0 {
			return "", lostf("statements after return")
		}
		return t.retVal(s, en, k, depth)

	case *ast.IfStmt:
		if t.metricsOnly(s, en) {
			r, err := t.block(rest, en, k, depth)
			if err != nil {
				return "", err
			}
			return fmt.Sprintf("%s-- if %s { defer … } (metrics only)\n%s", in, c.tr.src(s.Cond), r), nil
		}
		pre, enIf := "", en
		if s.Init != nil {
			as, ok := s.Init.(*ast.AssignStmt)
			if !ok || as.Tok != token.DEFINE {
				return "", lostf("init statement %s", c.tr.src(s.Init))
			}
			text, en2, handled, err := t.simple(s.Init, en, depth)
			if err != nil {
				return "", err
			}
			if !handled {
				return "", lostf("init statement %s", c.tr.src(s.Init))
			}
			pre, enIf = text, en2
		}
		// the variable of the init statement (always a new one, see simple) is out of scope after the if
		enRest := en
		cond, err := c.typed(s.Cond, enIf, tBool)
		if err != nil {
			return "", err
		}
		var els []ast.Stmt
		switch e := s.Else.(type) {
		case nil:
		case *ast.BlockStmt:
			els = e.List
		default:
			return "", lostf("else-if chain")
		}
		thenRet, elseRet := definitelyReturns(s.Body.List), definitelyReturns(els)
		switch {
		case thenRet && k.ret != nil:
			if s.Else != nil && elseRet && len(rest) != 0 {
				return "", lostf("statements after an if/else that always returns")
			}
			a, err := t.block(s.Body.List, enIf, mustReturn, depth+1)
			if err != nil {
				return "", err
			}
			var b string
			if s.Else != nil {
				if !elseRet && hasReturn(els) {
					return "", lostf("else branch that returns only on some paths")
				}
				if elseRet {
					b, err = t.block(els, enIf, mustReturn, depth+1)
				} else {
					return "", lostf("if that returns with an else that falls through")
				}
			} else {
				b, err = t.block(rest, enRest, k, depth)
			}
			if err != nil {
				return "", err
			}
			return fmt.Sprintf("%s%sif %s then\n%s%selse\n%s", pre, in, cond.text, a, in, b), nil
		case !hasReturn(s.Body.List) && !hasReturn(els):
			if s.Init != nil {
				return "", lostf("if with an init statement that falls through")
			}
			as1, de1 := assignedAndDeclared(s.Body.List)
			as2, de2 := assignedAndDeclared(els)
			for v := range as1 {
				as2[v] = true
			}
			for v := range de1 {
				de2[v] = true
			}
			var vars []string
			for v := range as2 {
				if de2[v] {
					return "", lostf("variable %s both declared and assigned inside an if", v)
				}
				if _, ok := en[v]; !ok {
					return "", lostf("assignment to %s, which is not a variable of the subset", v)
				}
				vars = append(vars, v)
			}
			for v := range de2 {
				if _, ok := en[v]; ok {
					return "", lostf("variable %s is shadowed inside an if", v)
				}
			}
			sort.Strings(vars)
			var names, types []string
			for _, v := range vars {
				names = append(names, en[v].lean)
				types = append(types, en[v].typ.lean())
			}
			stT, qT := touchesState(append(append([]ast.Stmt{}, s.Body.List...), els...))
			if qT {
				return "", lostf("populateGroupBy inside an if")
			}
			if stT {
				names = append([]string{"st"}, names...)
				types = append([]string{"σ"}, types...)
			}
			if len(names) == 0 {
				return "", lostf("if without effect on the variables of the subset")
			}
			tuple, typ := names[0], types[0]
			if len(names) > 1 {
				tuple = "(" + strings.Join(names, ", ") + ")"
				typ = strings.Join(types, " × ")
			}
			a, err := t.block(s.Body.List, en, t1k{final: tuple}, depth+2)
			if err != nil {
				return "", err
			}
			b, err := t.block(els, en, t1k{final: tuple}, depth+2)
			if err != nil {
				return "", err
			}
			r, err := t.block(rest, en, k, depth)
			if err != nil {
				return "", err
			}
			return fmt.Sprintf("%slet %s : %s :=\n%sif %s then\n%s%selse\n%s%s", in, tuple, typ,
				ind(depth+1), cond.text, a, ind(depth+1), b, r), nil
		}
		return "", lostf("if whose branches mix returning and falling through")

	case *ast.RangeStmt:
		return t.loop(s, rest, en, k, depth)

	case *ast.TypeSwitchStmt:
		if len(rest) != 0 {
			return "", lostf("statements after the type switch")
		}
		return t.typeSwitch(s, en, k, depth)
	}
	return "", lostf("statement %s", c.tr.src(s))
}

// loop: `for _, x := range xs { body }` over a list of operands ↦ a recursive helper next to the definition
func (t *t1) loop(s *ast.RangeStmt, rest []ast.Stmt, en env, k t1k, depth int) (string, error) {
	c := t.c
	in := ind(depth)
	if kid, ok := s.Key.(*ast.Ident); !ok || kid.Name != "_" || s.Tok != token.DEFINE {
		return "", lostf("range loop that is not `for _, v := range xs`")
	}
	vid, ok := s.Value.(*ast.Ident)
	if !ok || vid.Name == "_" {
		return "", lostf("range loop without a value variable")
	}
	xs, err := c.expr(s.X, en)
	if err != nil {
		return "", err
	}
	if xs.typ != tSubs {
		return "", lostf("range over %s (only over a list of operands)", xs.typ.lean())
	}
	vln, err := t.ident(vid.Name)
	if err != nil {
		return "", err
	}
	assigned, declared := assignedAndDeclared(s.Body.List)
	var carried []string
	for v := range assigned {
		if declared[v] {
			return "", lostf("variable %s both declared and assigned inside a loop", v)
		}
		if _, ok := en[v]; !ok {
			return "", lostf("assignment to %s, which is not a variable of the subset", v)
		}
		if v == vid.Name {
			return "", lostf("assignment to the loop variable")
		}
		carried = append(carried, v)
	}
	sort.Strings(carried)
	if _, qT := touchesState(s.Body.List); qT {
		return "", lostf("populateGroupBy inside a loop")
	}
	isCarried := map[string]bool{}
	for _, v := range carried {
		isCarried[v] = true
	}
	// variables the body may read
	used := identsIn(s.Body.List)
	var ro []string
	for v := range en {
		isParam := false
		for _, p := range t.params {
			if p.name == en[v].lean {
				isParam = true
			}
		}
		if used[v] && !isCarried[v] && v != vid.Name && !isParam {
			ro = append(ro, v)
		}
	}
	sort.Strings(ro)

	t.nloops++
	hname := t.name + "_loop"
	if t.nloops > 1 {
		hname = fmt.Sprintf("%s_loop%d", t.name, t.nloops)
	}
	var sig, args []string
	for _, p := range t.params {
		sig = append(sig, fmt.Sprintf("(%s : %s)", p.name, p.typ))
		args = append(args, p.name)
	}
	for _, v := range ro {
		sig = append(sig, fmt.Sprintf("(%s : %s)", en[v].lean, en[v].typ.lean()))
		args = append(args, en[v].lean)
	}
	// loop-carried: the state, then the assigned variables
	var cNames, cTypes []string
	if t.stateful() {
		cNames, cTypes = append(cNames, "st"), append(cTypes, "σ")
	}
	for _, v := range carried {
		if en[v].lean == vln {
			return "", lostf("loop variable and a loop-carried variable have the same name")
		}
		cNames, cTypes = append(cNames, en[v].lean), append(cTypes, en[v].typ.lean())
	}
	tuple, tupleT := "()", "Unit"
	if len(cNames) == 1 {
		tuple, tupleT = cNames[0], cTypes[0]
	} else if len(cNames) > 1 {
		tuple, tupleT = "("+strings.Join(cNames, ", ")+")", strings.Join(cTypes, " × ")
	}
	call := strings.TrimSpace(hname + " " + strings.Join(args, " "))
	carriedArgs := strings.Join(cNames, " ")
	pat := func(first string) string {
		return strings.Join(append([]string{first}, cNames...), ", ")
	}
	flowT := fmt.Sprintf("Go.Flow (%s) (%s)", t.result, tupleT)
	bodyK := t1k{
		ret:   func(v string) string { return ".ret " + v },
		final: strings.TrimSpace(call + " rest_ " + carriedArgs),
	}
	body, err := t.block(s.Body.List, en.with(vid.Name, binding{vln, tSub}), bodyK, 2)
	if err != nil {
		return "", err
	}
	var h strings.Builder
	fmt.Fprintf(&h, "/-- the loop `for _, %s := range %s` of `%s`: `.ret r` = a `return r` in the body was reached, `.next …` = the loop ran to its end (with the loop-carried variables) -/\n",
		vid.Name, c.tr.src(s.X), t.name)
	fmt.Fprintf(&h, "def %s %s %s :\n    %s → %s\n", hname, t.tparams, strings.Join(sig, " "),
		strings.Join(append([]string{"List ε"}, cTypes...), " → "), flowT)
	fmt.Fprintf(&h, "  | %s => .next %s\n  | %s =>\n%s", pat("[]"), tuple, pat(vln+" :: rest_"), body)
	t.helpers = append(t.helpers, h.String())

	r, err := t.block(rest, en, k, depth)
	if err != nil {
		return "", err
	}
	if k.ret == nil {
		return "", lostf("loop inside a block that must fall through")
	}
	return fmt.Sprintf("%smatch %s with\n%s| .ret r => %s\n%s| .next %s =>\n%s", in,
		strings.TrimSpace(call+" "+xs.text+" "+carriedArgs), in, k.ret("r"), in, tuple, r), nil
}

// typeSwitch: `switch v := e.(type)` over the four node types and default (validateExpr)
func (t *t1) typeSwitch(s *ast.TypeSwitchStmt, en env, k t1k, depth int) (string, error) {
	c := t.c
	in := ind(depth)
	if t.kind != kValidate || s.Init != nil {
		return "", lostf("type switch")
	}
	as, ok := s.Assign.(*ast.AssignStmt)
	if !ok || as.Tok != token.DEFINE || len(as.Lhs) != 1 || len(as.Rhs) != 1 {
		return "", lostf("type switch without `v := e.(type)`")
	}
	vid, ok := as.Lhs[0].(*ast.Ident)
	ta, ok2 := as.Rhs[0].(*ast.TypeAssertExpr)
	if !ok || !ok2 || ta.Type != nil || vid.Name == "_" {
		return "", lostf("type switch without `v := e.(type)`")
	}
	x, err := c.typed(ta.X, en, tSub)
	if err != nil {
		return "", err
	}
	if _, ok := en[vid.Name]; ok {
		return "", lostf("type switch variable shadows %s", vid.Name)
	}
	vln, err := t.ident(vid.Name)
	if err != nil {
		return "", err
	}
	type armT struct{ ctor, field, fieldT string }
	arms := map[string]armT{"*ExprEqual": {"equal", "", ""}, "*ExprNot": {"not", "Expr", "Expression"},
		"*ExprAnd": {"and", "Exprs", "[]Expression"}, "*ExprOr": {"or", "Exprs", "[]Expression"}}
	seen := map[string]bool{}
	var out strings.Builder
	fmt.Fprintf(&out, "%smatch typeSwitch %s with\n", in, x.text)
	for _, cs := range s.Body.List {
		cc := cs.(*ast.CaseClause)
		for _, b := range cc.Body {
			if bs, ok := b.(*ast.BranchStmt); ok {
				return "", lostf("%s in a type switch", bs.Tok)
			}
		}
		if !definitelyReturns(cc.Body) {
			return "", lostf("case of the type switch that does not return")
		}
		var ctor string
		saved := map[string]*binding{}
		setAtom := func(src string, b binding) {
			if old, ok := c.atoms[src]; ok {
				o := old
				saved[src] = &o
			} else {
				saved[src] = nil
			}
			c.atoms[src] = b
		}
		switch len(cc.List) {
		case 0:
			ctor = "other"
			fmt.Fprintf(&out, "%s| .other =>\n", in)
		case 1:
			ty := c.tr.src(cc.List[0])
			arm, ok := arms[ty]
			if !ok {
				return "", lostf("case %s of the type switch", ty)
			}
			ctor = arm.ctor
			recv := strings.TrimPrefix(ty, "*")
			if c.tr.pkgDeclares(c.rel, recv) == false {
				return "", lostf("type %s is not declared", recv)
			}
			nilName := vln + "Nil"
			setAtom(vid.Name+" == nil", binding{nilName, tBool})
			setAtom(vid.Name+" != nil", binding{"(!" + nilName + ")", tBool})
			pat := "." + arm.ctor + " " + nilName
			if arm.field != "" {
				if got := c.tr.structField(c.file, recv, arm.field); got != arm.fieldT {
					return "", lostf("field %s.%s has type %q, expected %q", recv, arm.field, got, arm.fieldT)
				}
				ft := tSub
				if arm.fieldT == "[]Expression" {
					ft = tSubs
				}
				fname := vln + arm.field
				setAtom(vid.Name+"."+arm.field, binding{fname, ft})
				pat += " " + fname
			}
			fmt.Fprintf(&out, "%s| %s =>\n", in, pat)
		default:
			return "", lostf("case with several types")
		}
		if seen[ctor] {
			return "", lostf("duplicate case")
		}
		seen[ctor] = true
		// inside the clause v itself is not a value of the subset; only the atoms above are.
		// (atoms are matched on the source text and are invalid once v is shadowed: v is never put into en,
		// so a re-declaration of v inside the clause is caught by declaring it here.)
		body, err := t.block(cc.Body, en, k, depth+2)
		for src, old := range saved {
			if old == nil {
				delete(c.atoms, src)
			} else {
				c.atoms[src] = *old
			}
		}
		if err != nil {
			return "", err
		}
		if assignedAndDeclaredNames(cc.Body)[vid.Name] {
			return "", lostf("%s is re-declared or assigned inside the type switch", vid.Name)
		}
		fmt.Fprintf(&out, "%s  (\n%s%s  )\n", in, body, in)
	}
	for _, ctor := range []string{"equal", "not", "and", "or", "other"} {
		if !seen[ctor] {
			return "", lostf("type switch without a case for %s", ctor)
		}
	}
	return out.String(), nil
}

func assignedAndDeclaredNames(stmts []ast.Stmt) map[string]bool {
	a, d := assignedAndDeclared(stmts)
	for k := range d {
		a[k] = true
	}
	return a
}

// ---------------------------------------------------------------- targets

// ifaceSig: parameter and result types of method m of the interface type typ declared in f, e.g. "(uint64) (*roaring.Bitmap, bool)"
func (tr *translator) ifaceSig(f *ast.File, typ, m string) string {
	if f == nil {
		return ""
	}
	out := ""
	ast.Inspect(f, func(n ast.Node) bool {
		ts, ok := n.(*ast.TypeSpec)
		if !ok || ts.Name.Name != typ {
			return true
		}
		it, ok := ts.Type.(*ast.InterfaceType)
		if !ok {
			return false
		}
		for _, fl := range it.Methods.List {
			ft, ok := fl.Type.(*ast.FuncType)
			if !ok || len(fl.Names) != 1 || fl.Names[0].Name != m {
				continue
			}
			types := func(l *ast.FieldList) string {
				var ts []string
				if l != nil {
					for _, p := range l.List {
						k := len(p.Names)
						if k == 0 {
							k = 1
						}
						for i := 0; i < k; i++ {
							ts = append(ts, tr.src(p.Type))
						}
					}
				}
				return "(" + strings.Join(ts, ", ") + ")"
			}
			out = types(ft.Params) + " " + types(ft.Results)
		}
		return false
	})
	return out
}

// indexShape: the members of *Index (and the interfaces behind them) the translation relies on
func (tr *translator) indexShape() error {
	fi := tr.load("index.go")
	if fi == nil {
		return lostf("index.go cannot be parsed")
	}
	for _, w := range [][2]string{{"cache", "Cache"}, {"values", "colGetter"}, {"schema", "*schema"}, {"nextRowID", "uint32"}, {"mtx", "sync.RWMutex"}} {
		if got := tr.structField(fi, "Index", w[0]); got != w[1] {
			return lostf("member Index.%s has type %q, expected %q", w[0], got, w[1])
		}
	}
	if got := tr.ifaceSig(fi, "colGetter", "GetCol"); got != "(uint64) (*roaring.Bitmap, error)" {
		return lostf("colGetter.GetCol has signature %q", got)
	}
	fc := tr.load("cache.go")
	if got := tr.ifaceSig(fc, "Cache", "Get"); got != "(uint64) (*roaring.Bitmap, bool)" {
		return lostf("Cache.Get has signature %q", got)
	}
	if got := tr.ifaceSig(fc, "Cache", "Put"); got != "(uint64, *roaring.Bitmap) ()" {
		return lostf("Cache.Put has signature %q", got)
	}
	ft := tr.load("types.go")
	if ft == nil || tr.structField(ft, "schema", "Columns") != "map[string]*column" {
		return lostf("member schema.Columns is not a map[string]*column")
	}
	return nil
}

func fieldTypes(tr *translator, l *ast.FieldList) []string {
	var out []string
	if l != nil {
		for _, p := range l.List {
			k := len(p.Names)
			if k == 0 {
				k = 1
			}
			for i := 0; i < k; i++ {
				out = append(out, tr.src(p.Type))
			}
		}
	}
	return out
}

func (t *t1) render(doc string, fd *ast.FuncDecl, en env, stParam bool) (string, error) {
	body, err := t.block(fd.Body.List, en, t1k{ret: func(v string) string { return v }}, 1)
	if err != nil {
		return "", err
	}
	var b strings.Builder
	for _, h := range t.helpers {
		b.WriteString(h)
		b.WriteString("\n")
	}
	var sig []string
	for _, p := range t.params {
		sig = append(sig, fmt.Sprintf("(%s : %s)", p.name, p.typ))
	}
	if stParam {
		sig = append(sig, "(st : σ)")
	}
	fmt.Fprintf(&b, "/-- %s -/\ndef %s %s %s :\n    %s :=\n%s", strings.ReplaceAll(doc, "-/", "- /"), t.name, t.tparams,
		strings.Join(sig, " "), t.result, body)
	return b.String(), nil
}

// evalMethod: `func (e *recv) eval(idx *Index) (*roaring.Bitmap, error)`
func (tr *translator) evalMethod(recv, lean, keyFn string) (string, error) {
	const rel = "query.go"
	f, fd := tr.fn(rel, recv, "eval")
	if fd == nil {
		return "", lostf("method %s.eval not found in %s", recv, rel)
	}
	if err := tr.indexShape(); err != nil {
		return "", err
	}
	if !tr.done[keyFn] {
		return "", lostf("depends on %s, which is lost", keyFn)
	}
	if !tr.done["getValueIndex"] {
		return "", lostf("depends on getValueIndex, which is lost")
	}
	ps, rs := fieldTypes(tr, fd.Type.Params), fieldTypes(tr, fd.Type.Results)
	if len(ps) != 1 || ps[0] != "*Index" || len(fd.Type.Params.List[0].Names) != 1 || len(rs) != 2 || rs[0] != "*roaring.Bitmap" || rs[1] != "error" ||
		len(fd.Recv.List[0].Names) != 1 || !imports(f, "roaring", roaringPath) {
		return "", lostf("signature of %s.eval", recv)
	}
	for _, fl := range fd.Type.Results.List {
		if len(fl.Names) != 0 {
			return "", lostf("named results of %s.eval", recv)
		}
	}
	r := fd.Recv.List[0].Names[0].Name
	idx := fd.Type.Params.List[0].Names[0].Name
	idxLean, err := leanIdent(idx)
	if err != nil {
		return "", err
	}
	if idx == r || t1Reserved[idx] {
		return "", lostf("parameter name %s", idx)
	}
	c := tr.newCtx(rel, f)
	c.usesHash = true
	c.consts = tr.pkgConsts(f)
	t := &t1{c: c, kind: kEval, name: lean, idx: idx, result: "σ × Option Nat"}
	c.hook = t.hook
	t.params = []t1param{{"H", "Bytes → UInt64"}, {idxLean, "Go.IndexEnv σ"}}
	field := func(field, want, leanName string, typ gtype) error {
		if got := tr.structField(f, recv, field); got != want {
			return lostf("field %s.%s has type %q, expected %q", recv, field, got, want)
		}
		c.atoms[r+"."+field] = binding{leanName, typ}
		t.params = append(t.params, t1param{leanName, typ.lean()})
		return nil
	}
	withSubs := func() {
		t.tparams = "{σ ε : Type}"
		t.params = append(t.params, t1param{"subKey", "ε → UInt64"}, t1param{"subEval", "ε → σ → σ × Option Nat"})
	}
	// e.cacheKey() of the receiver: the generated cacheKey method applied to the receiver's members
	switch recv {
	case "ExprEqual":
		t.tparams = "{σ : Type}"
		if err = field("Column", "string", "column", tString); err == nil {
			err = field("Value", "string", "value", tString)
		}
		c.atoms[r+".cacheKey()"] = binding{"(" + keyFn + " H column value)", tU64}
	case "ExprNot":
		withSubs()
		err = field("Expr", "Expression", "expr", tSub)
		c.atoms[r+".cacheKey()"] = binding{"(" + keyFn + " H (subKey expr))", tU64}
	case "ExprAnd", "ExprOr":
		withSubs()
		err = field("Exprs", "[]Expression", "exprs", tSubs)
		c.atoms[r+".cacheKey()"] = binding{"(" + keyFn + " H (List.map subKey exprs))", tU64}
	default:
		err = lostf("receiver %s", recv)
	}
	if err != nil {
		return "", err
	}
	doc := fmt.Sprintf("`(*%s).eval` of %s over the cache state `st`; `subKey x` / `subEval x` stand for `x.cacheKey()` / `x.eval(%s)` of an operand; result `(st, none)`: an error was returned", recv, rel, idx)
	return t.render(doc, fd, env{}, true)
}

// executeMethod: `func (idx *Index) Execute(q *Query) (*Result, error)`
func (tr *translator) executeMethod(lean string) (string, error) {
	const rel = "query.go"
	f, fd := tr.fn(rel, "Index", "Execute")
	if fd == nil {
		return "", lostf("method Index.Execute not found in %s", rel)
	}
	if err := tr.indexShape(); err != nil {
		return "", err
	}
	ps, rs := fieldTypes(tr, fd.Type.Params), fieldTypes(tr, fd.Type.Results)
	if len(ps) != 1 || ps[0] != "*Query" || len(fd.Type.Params.List[0].Names) != 1 || len(rs) != 2 || rs[0] != "*Result" || rs[1] != "error" ||
		len(fd.Recv.List[0].Names) != 1 || tr.src(fd.Recv.List[0].Type) != "*Index" {
		return "", lostf("signature of Index.Execute")
	}
	for _, fl := range fd.Type.Results.List {
		if len(fl.Names) != 0 {
			return "", lostf("named results of Index.Execute")
		}
	}
	idx := fd.Recv.List[0].Names[0].Name
	q := fd.Type.Params.List[0].Names[0].Name
	idxLean, err := leanIdent(idx)
	if err != nil {
		return "", err
	}
	qLean, err := leanIdent(q)
	if err != nil {
		return "", err
	}
	if idx == q || t1Reserved[idx] || t1Reserved[q] {
		return "", lostf("parameter names %s, %s", idx, q)
	}
	if tr.structField(f, "Query", "Expr") != "Expression" || tr.structField(f, "Query", "GroupBy") != "[]string" {
		return "", lostf("members of the type Query")
	}
	// the methods of *Query that stand as parameters must have the expected signatures
	for _, m := range [][3]string{{"populateGroupBy", "[]string,*schema", "error"}, {"groupBy", "*roaring.Bitmap,*Index", "[]ResultGroup"}} {
		_, md := tr.fn(rel, "Query", m[0])
		if md == nil || strings.Join(fieldTypes(tr, md.Type.Params), ",") != m[1] || strings.Join(fieldTypes(tr, md.Type.Results), ",") != m[2] {
			return "", lostf("signature of Query.%s", m[0])
		}
	}
	c := tr.newCtx(rel, f)
	c.consts = tr.pkgConsts(f)
	t := &t1{c: c, kind: kExecute, name: lean, idx: idx, q: q, tparams: "{σ ε κ γ : Type}", result: "σ × Option (Nat × γ)"}
	c.hook = t.hook
	c.atoms[q+".Expr"] = binding{"qExpr", tSub}
	c.atoms[q+".GroupBy"] = binding{"qGroupBy", tStrs}
	t.params = []t1param{{idxLean, "Go.IndexEnv σ"}, {"populateGroupBy", "κ → List Bytes → κ × Bool"}, {"validateExpr", "ε → Bool"},
		{"subEval", "ε → σ → σ × Option Nat"}, {"groupBy", "κ → Nat → γ"}, {"qExpr", "ε"}, {"qGroupBy", "List Bytes"}, {qLean, "κ"}}
	doc := fmt.Sprintf("`(*Index).Execute` of %s over the cache state `st`. `%s` is the state of the unexported members of the query "+
		"(`groupByFields`): `populateGroupBy %s cols` = (that state after `%s.populateGroupBy(cols, %s.schema)`, whether it returned an error), "+
		"`groupBy %s bm` = `%s.groupBy(bm, %s)`; `subEval x` = `x.eval(%s)`; the result is `(Count, Groups)`; `(st, none)`: an error was returned",
		rel, qLean, qLean, q, idx, qLean, q, idx, idx)
	return t.render(doc, fd, env{}, true)
}

// validateFunc: `func validateExpr(e Expression) error`
func (tr *translator) validateFunc(lean string) (string, error) {
	const rel = "query.go"
	f, fd := tr.fn(rel, "", "validateExpr")
	if fd == nil {
		return "", lostf("function validateExpr not found in %s", rel)
	}
	ps, rs := fieldTypes(tr, fd.Type.Params), fieldTypes(tr, fd.Type.Results)
	if len(ps) != 1 || ps[0] != "Expression" || len(fd.Type.Params.List[0].Names) != 1 || len(rs) != 1 || rs[0] != "error" ||
		len(fd.Type.Results.List[0].Names) != 0 {
		return "", lostf("signature of validateExpr")
	}
	e := fd.Type.Params.List[0].Names[0].Name
	c := tr.newCtx(rel, f)
	c.consts = tr.pkgConsts(f)
	t := &t1{c: c, kind: kValidate, name: lean, self: e, tparams: "{ε : Type}", result: "Bool"}
	c.hook = t.hook
	t.params = []t1param{{"typeSwitch", "ε → Go.ExprCase ε"}, {"validateSub", "ε → Bool"}}
	eLean, err := t.ident(e)
	if err != nil {
		return "", err
	}
	t.params = append(t.params, t1param{eLean, "ε"})
	doc := fmt.Sprintf("`validateExpr` of %s; result `true`: an error is returned. `typeSwitch x` is what `switch v := x.(type)` sees of the node `x`, "+
		"`validateSub x` stands for the recursive call `validateExpr(x)`", rel)
	return t.render(doc, fd, env{e: binding{eLean, tSub}}, false)
}

// translateT1 registers the targets of this file
func (tr *translator) translateT1(emit func(string, unit, error) bool, wrap func(bool, string, string)) {
	put := func(name, text string, err error) {
		if err != nil {
			emit(name, unit{}, err)
			return
		}
		wrap(true, name, text)
	}
	for _, k := range [][3]string{{"ExprEqual", "evalEqual", "cacheKeyEqual"}, {"ExprNot", "evalNot", "cacheKeyNot"},
		{"ExprAnd", "evalAnd", "cacheKeyAnd"}, {"ExprOr", "evalOr", "cacheKeyOr"}} {
		text, err := tr.evalMethod(k[0], k[1], k[2])
		put(k[1], text, err)
	}
	text, err := tr.validateFunc("validateExpr")
	put("validateExpr", text, err)
	text, err = tr.executeMethod("execute")
	put("execute", text, err)
}
