package main

import "sort"

func sortStrings(s []string) { sort.Strings(s) }

func sortBy[T any](s []T, less func(a, b T) bool) {
	sort.Slice(s, func(i, j int) bool { return less(s[i], s[j]) })
}
