package main

import (
	"context"
	"fmt"
	"io"
	"net/http"
	"os"
	"os/signal"
	"path/filepath"
	"runtime"
	"strings"
	"sync"
	"sync/atomic"
	"syscall"
	"time"

	"github.com/RoaringBitmap/roaring"
	"github.com/akrennmair/updog"
	proto "github.com/akrennmair/updog/proto/updog/v1"
	"go.etcd.io/bbolt"
)

// raceReports collects the race detector's reports written so far (GORACE=log_path=$VERIF_RACE_LOG).
func raceReports() []string {
	base := os.Getenv("VERIF_RACE_LOG")
	if base == "" {
		return nil
	}
	files, _ := filepath.Glob(base + ".*")
	var out []string
	for _, f := range files {
		b, _ := os.ReadFile(f)
		for _, rep := range strings.Split(string(b), "==================") {
			if strings.Contains(rep, "DATA RACE") {
				out = append(out, strings.TrimSpace(rep))
			}
		}
	}
	return out
}

func raceEnabledNote(rep *Report) {
	if os.Getenv("VERIF_RACE_LOG") == "" {
		rep.Note("race detector log not configured (run through ./check); data races are not observed in this run")
	}
}

func reportRaces(rep *Report, prop string, c any) {
	seen := map[string]bool{}
	for _, r := range raceReports() {
		// signature: the first two source locations inside the repository
		var locs []string
		for _, line := range strings.Split(r, "\n") {
			line = strings.TrimSpace(line)
			if strings.HasPrefix(line, "/repo/") {
				locs = append(locs, strings.Fields(line)[0])
				if len(locs) == 2 {
					break
				}
			}
		}
		key := strings.Join(locs, "|")
		if seen[key] {
			continue
		}
		seen[key] = true
		rep.Violate(Violation{Kind: "schedule", Signature: prop + ":data-race", What: "the Go race detector reports a data race at " + key, Expected: "no data race", Actual: trunc(r, 3000), Case: c})
	}
}

// ---------- C04 ----------

type ConcCase struct {
	Data       *DataSpec `json:"data"`
	Preload    bool      `json:"preload"`
	Cache      int64     `json:"cache"`
	Goroutines int       `json:"goroutines"`
	Queries    []QCase   `json:"queries"`
	Rounds     int       `json:"rounds"`
}

func runConcCase(o *Oracle, c *ConcCase, rep *Report) {
	rows := c.Data.Materialize()
	path := scratch(fmt.Sprintf("conc-%d.updog", rep.Evaluations))
	os.Remove(path)
	if _, err := buildIndexFile("mem", rows, path); err != nil {
		infra("build: %v", err)
	}
	defer os.Remove(path)
	o.Send("idx reset")
	{
		var lines []string
		for _, r := range rows {
			lines = append(lines, rowLine(r))
		}
		o.SendMany(lines)
	}
	o.Send("idx build fast")
	want := make([]string, len(c.Queries))
	for i := range c.Queries {
		want[i] = o.Ask("idx q " + c.Queries[i].Toks())
	}
	idx, _, err := openIdx(path, c.Preload, c.Cache)
	if err != nil {
		infra("open: %v", err)
	}
	closeIdx := true
	defer func() {
		if closeIdx { // never unmap the file under goroutines that may still be running
			idx.Close()
		}
	}()
	wantSchema := schemaString(idx.GetSchema())
	var mism atomic.Int64
	var first atomic.Value
	deadline := time.Now().Add(4 * time.Second) // bounded work per configuration: slow machines do fewer rounds
	var done atomic.Int64
	// expression trees built once and used by every goroutine (a filter object kept by the application): each call
	// gets its own Query value, the Expr inside is the same object for all of them
	shared := make([]updog.Expression, len(c.Queries))
	for i := range c.Queries {
		shared[i] = toExpr(c.Queries[i].E)
	}
	res := watchdog(180*time.Second, func() string {
		var wg sync.WaitGroup
		for g := 0; g < c.Goroutines; g++ {
			wg.Add(1)
			go func(g int) {
				defer wg.Done()
				r := NewRng(uint64(g)*7919 + c.Data.Seed)
				for k := 0; k < c.Rounds && (k < 3 || time.Now().Before(deadline)); k++ {
					done.Add(1)
					qi := r.Intn(len(c.Queries))
					uq := toQuery(&c.Queries[qi])
					if k%2 == 1 {
						uq.Expr = shared[qi]
					}
					got := safeExecute(idx, uq)
					if got != want[qi] {
						if mism.Add(1) == 1 {
							first.Store(fmt.Sprintf("goroutine %d round %d query %s: got %s want %s", g, k, c.Queries[qi].Toks(), trunc(got, 300), trunc(want[qi], 300)))
						}
					}
					if k%7 == 0 {
						if s := schemaString(idx.GetSchema()); s != wantSchema {
							if mism.Add(1) == 1 {
								first.Store("GetSchema differs under concurrency")
							}
						}
					}
				}
			}(g)
		}
		wg.Wait()
		return "ok"
	})
	rep.Eval(fmt.Sprintf("%d|%v|%d|%d", c.Data.Seed, c.Preload, c.Cache, c.Goroutines), true)
	rep.CountN("concurrent-executions", int(done.Load()))
	rep.Count(fmt.Sprintf("cache=%d preload=%v goroutines=%d", c.Cache, c.Preload, c.Goroutines))
	if res != "ok" {
		closeIdx = false
		rep.Violate(Violation{Kind: "schedule", Signature: "C04:" + strings.SplitN(res, ":", 2)[0], What: "concurrent Execute/GetSchema: " + res, Expected: "completes", Actual: trunc(res, 500), Case: c})
		return
	}
	if mism.Load() > 0 {
		f, _ := first.Load().(string)
		sig := "C04:concurrent-result-differs"
		if strings.Contains(f, "got panic") {
			sig = "C04:panic"
		}
		rep.Violate(Violation{Kind: "schedule", Signature: sig, What: fmt.Sprintf("%d concurrent calls returned a different result than when run alone; first: %s", mism.Load(), f), Expected: "sequential answers", Actual: f, Case: c})
	}
}

// concurrent use of the LRU cache itself
func runLruConc(rep *Report, r *Rng, goroutines, rounds int) {
	for _, max := range []uint64{0, 300, 5000, 1 << 20} {
		cache := updog.NewLRUCache(max)
		bms := make([]*roaring.Bitmap, 8)
		for i := range bms {
			bms[i] = bitmapOfClass(i % nSizeClasses)
		}
		var bad atomic.Int64
		res := watchdog(60*time.Second, func() string {
			var wg sync.WaitGroup
			for g := 0; g < goroutines; g++ {
				wg.Add(1)
				go func(g int) {
					defer wg.Done()
					rr := NewRng(uint64(g) + 99)
					for k := 0; k < rounds; k++ {
						key := uint64(rr.Intn(8))
						if rr.Chance(1, 2) {
							cache.Put(key, bms[key]) // key k always maps to bitmap k
						} else if bm, ok := cache.Get(key); ok && bm != bms[key] {
							bad.Add(1)
						}
					}
				}(g)
			}
			wg.Wait()
			return "ok"
		})
		rep.Eval(fmt.Sprintf("lruconc|%d|%d", max, goroutines), true)
		rep.CountN("concurrent-lru-ops", goroutines*rounds)
		if res != "ok" {
			rep.Violate(Violation{Kind: "schedule", Signature: "C04:lru-" + strings.SplitN(res, ":", 2)[0], What: "concurrent LRUCache Get/Put: " + res, Expected: "completes", Actual: trunc(res, 500), Case: map[string]any{"max": max, "goroutines": goroutines}})
		} else if bad.Load() > 0 {
			rep.Violate(Violation{Kind: "schedule", Signature: "C04:lru-wrong-bitmap", What: "a Get hit returned a bitmap stored under another key", Expected: "0", Actual: fmt.Sprint(bad.Load()), Case: map[string]any{"max": max, "goroutines": goroutines}})
		}
	}
}

func runC04(rep *Report, r *Rng, tier string) {
	defer reportServerStartCrashes(rep, "C04")
	rep.Rule = "N in {2,4,16} goroutines x overlapping queries (shared sub-expressions from a small leaf pool, grouped and ungrouped) x cache {none, LRU tiny, LRU ample} x {on-demand, preloaded}, plus concurrent GetSchema and concurrent LRUCache Get/Put; the binary is built with -race; every result compared with the model's sequential answer; race reports are parsed from the race detector log; thorough adds concurrent gRPC clients against a -race build of the server; non-trivial = every configuration; distinct by (dataset, cache, getter, goroutines)"
	raceEnabledNote(rep)
	o := StartOracle()
	defer o.Close()
	rounds := 150
	nd := 2
	if tier == "thorough" {
		rounds, nd = 1500, 6
	}
	var last *ConcCase
	for di := 0; di < nd; di++ {
		d := genDataSpecN(r, 200+r.Intn(1500), false)
		rows := d.Materialize()
		pool := poolOf(rows)
		small := &leafPool{}
		st := statsOf(rows)
		for k := 0; k < len(pool.cols) && len(small.cols) < 2; k++ {
			if st.distinct[pool.cols[k]] > 60 {
				continue // group-by over thousands of values is C02's subject; here it only burns time under -race
			}
			vs := pool.vals[k]
			if len(vs) > 3 {
				vs = vs[:3]
			}
			small.cols = append(small.cols, pool.cols[k])
			small.vals = append(small.vals, vs)
		}
		if len(small.cols) == 0 {
			continue
		}
		var qs []QCase
		for k := 0; k < 12; k++ {
			q := QCase{E: genExpr(r, small, 1+r.Intn(3), false)}
			if r.Chance(1, 3) {
				q.GB = genGroupBy(r, small, false)
			}
			qs = append(qs, q)
		}
		for _, cache := range []int64{-1, 400, 1 << 22} {
			for _, pre := range []bool{false, true} {
				for _, g := range []int{2, 4, 16} {
					c := &ConcCase{Data: d, Preload: pre, Cache: cache, Goroutines: g, Queries: qs, Rounds: rounds}
					last = c
					if rep.Evaluations == 0 {
						rep.Sample(c)
					}
					runConcCase(o, c, rep)
				}
			}
		}
	}
	if tier == "thorough" {
		d := &DataSpec{Seed: r.U64(), NRows: 270000, Cols: []ColSpec{{Name: hx("a"), NVals: 3, Dist: "random", Style: "ascii"}, {Name: hx("b"), NVals: 2, Dist: "random", Style: "ascii"}}}
		E := func(c, v string) *Ex { return &Ex{Op: "E", C: hx(c), V: hx(v)} }
		qs := []QCase{{E: E("a", "0")}, {E: &Ex{Op: "A", Kids: []*Ex{E("a", "0"), E("b", "1")}}}, {E: &Ex{Op: "N", Kids: []*Ex{E("a", "1")}}}, {E: &Ex{Op: "O", Kids: []*Ex{E("a", "2"), E("b", "0")}}, GB: []string{hx("b")}}, {E: E("b", "0")}, {E: E("a", "2")}}
		for _, cache := range []int64{1, 1 << 26} {
			c := &ConcCase{Data: d, Preload: true, Cache: cache, Goroutines: 8, Queries: qs, Rounds: 400}
			runConcCase(o, c, rep)
			rep.Count("large-bitmap-configurations")
		}
	}
	runLruConc(rep, r, 8, rounds*4)
	runGrpcConc(o, rep, r, tier)
	reportRaces(rep, "C04", last)
	rep.OracleCalls = o.n
}

func runGrpcConc(o *Oracle, rep *Report, r *Rng, tier string) {
	raceBin := updogBin + "-race"
	if _, err := os.Stat(raceBin); err != nil {
		rep.Note("no -race build of the server available; concurrent gRPC part skipped")
		return
	}
	old := updogBin
	updogBin = raceBin
	defer func() { updogBin = old }()
	d := genDataSpecUTF8(r, 800)
	rows := d.Materialize()
	pool := poolOf(rows)
	pool.utf8 = true
	path := scratch("grpcconc.updog")
	os.Remove(path)
	buildIndexFile("mem", rows, path)
	o.Send("idx reset")
	{
		var lines []string
		for _, rw := range rows {
			lines = append(lines, rowLine(rw))
		}
		o.SendMany(lines)
	}
	o.Send("idx build fast")
	var qs []QCase
	var want []string
	for k := 0; k < 150; k++ { // many different expressions: cache misses (and insertions) keep happening throughout the run
		q := QCase{E: genExpr(r, pool, 1+r.Intn(3), false), GB: genGroupBy(r, pool, false)}
		qs = append(qs, q)
		want = append(want, "ok id=1 "+o.Ask("idx q "+q.Toks()))
	}
	s := startServer(path, true, false) // default cache
	var bad atomic.Int64
	var wg sync.WaitGroup
	per := 40
	if tier == "thorough" {
		per = 150
	}
	unknown := QCase{E: &Ex{Op: "E", C: hx("nosuchcolumn"), V: hx("1")}}
	// a monitoring system polls the debug listener all the while (besides the harness's standing 15 ms scraper)
	stopScrape := make(chan struct{})
	var swg sync.WaitGroup
	for k := 0; k < 3; k++ {
		swg.Add(1)
		go func() {
			defer swg.Done()
			cl := &http.Client{Timeout: 2 * time.Second}
			for {
				select {
				case <-stopScrape:
					return
				default:
				}
				if resp, err := cl.Get("http://" + s.debug + "/metrics"); err == nil {
					io.Copy(io.Discard, resp.Body)
					resp.Body.Close()
				} else {
					time.Sleep(5 * time.Millisecond)
				}
			}
		}()
	}
	// an impatient client: wide ORs over many cold leaves with deadlines of a few milliseconds, given up again and
	// again while the other clients run (what it abandons must not change anybody else's answers)
	impatientStarted := make(chan struct{})
	wg.Add(1)
	go func() {
		defer wg.Done()
		once := sync.Once{}
		defer once.Do(func() { close(impatientStarted) })
		var hot []*Ex
		for ci := range pool.cols {
			for _, v := range pool.vals[ci] {
				hot = append(hot, &Ex{Op: "E", C: hx(pool.cols[ci]), V: hx(v)})
			}
		}
		if len(hot) == 0 {
			return
		}
		// thousands of cold leaves first, the leaves everybody else asks about LAST: whatever the server does with a
		// request it gives up on happens to those
		wide := &Ex{Op: "O"}
		for len(wide.Kids) < 3000 {
			wide.Kids = append(wide.Kids, &Ex{Op: "E", C: hot[len(wide.Kids)%len(hot)].C, V: hx(fmt.Sprintf("cold-%d", len(wide.Kids)))})
		}
		wide.Kids = append(wide.Kids, hot...)
		req := &protoReq{Queries: protoQueries(qcaseToProto(&QCase{E: wide}, 0))}
		for k := 0; k < per; k++ {
			ctx, cancel := context.WithTimeout(context.Background(), []time.Duration{2, 5, 10, 20, 40, 80, 120}[k%7]*time.Millisecond)
			s.cl.Query(ctx, req)
			cancel()
			if k == 11 {
				once.Do(func() { close(impatientStarted) }) // the first dozen requests hit a server nobody else has used yet
			}
			// fresh cold leaves next time
			for i := 0; i < 3000; i++ {
				if i%5 == k%5 {
					wide.Kids[i].V = hx(fmt.Sprintf("cold-%d-%d", k, i))
				}
			}
			req = &protoReq{Queries: protoQueries(qcaseToProto(&QCase{E: wide}, 0))}
		}
	}()
	select {
	case <-impatientStarted:
	case <-time.After(10 * time.Second):
	}
	for g := 0; g < 8; g++ {
		wg.Add(1)
		go func(g int) {
			defer wg.Done()
			rr := NewRng(uint64(g))
			for k := 0; k < per; k++ {
				qi := rr.Intn(len(qs))
				if k%5 == 4 {
					// a batch with several failing members: the call fails as a whole (and nothing races inside it)
					got, _ := s.query(&protoReq{Queries: protoQueries(qcaseToProto(&qs[qi], 0), qcaseToProto(&unknown, 0), qcaseToProto(&qs[qi], 0), qcaseToProto(&unknown, 0), &proto.Query{})})
					if got != "rpc-error" {
						bad.Add(1)
					}
					continue
				}
				got, _ := s.query(&protoReq{Queries: protoQueries(qcaseToProto(&qs[qi], 0))})
				if got != want[qi] {
					bad.Add(1)
				}
			}
		}(g)
	}
	wg.Wait()
	close(stopScrape)
	swg.Wait()
	alive := s.alive()
	s.stop()
	rep.CountN("concurrent-grpc-requests", 8*per)
	if !alive {
		rep.Violate(Violation{Kind: "schedule", Signature: "C04:server-died", What: "server exited under concurrent requests: " + trunc(s.exitS, 1500), Expected: "alive", Actual: "exit", Case: map[string]any{"grpc": true}})
	} else if bad.Load() > 0 {
		rep.Violate(Violation{Kind: "schedule", Signature: "C04:concurrent-result-differs", What: fmt.Sprintf("%d concurrent gRPC answers differ from the sequential answer", bad.Load()), Expected: "0", Actual: fmt.Sprint(bad.Load()), Case: map[string]any{"grpc": true}})
	}
}

// ---------- C18 ----------

type AddCase struct {
	Writer     string `json:"writer"` // mem | big
	Goroutines int    `json:"goroutines"`
	Total      int    `json:"total"`
	Seed       uint64 `json:"seed"`
}

func runAddCase(o *Oracle, c *AddCase, rep *Report) {
	path := scratch(fmt.Sprintf("add-%d.updog", rep.Evaluations))
	os.Remove(path)
	os.Remove(path + ".tmp")
	defer os.Remove(path)
	type adder interface {
		AddRow(map[string]string) (uint32, error)
		Flush() error
	}
	var w adder
	var closers []func()
	if c.Writer == "mem" {
		w = updog.NewIndexWriter(path)
	} else {
		db, err := bbolt.Open(path, 0644, boltOpts)
		if err != nil {
			infra("bolt: %v", err)
		}
		tdb, err := bbolt.Open(path+".tmp", 0600, boltOpts)
		if err != nil {
			infra("bolt: %v", err)
		}
		closers = append(closers, func() { tdb.Close(); os.Remove(path + ".tmp") }, func() { db.Close() })
		bw, err := updog.NewBigIndexWriter(db, tdb)
		if err != nil {
			infra("big writer: %v", err)
		}
		w = bw
	}
	rowsByID := make([]map[string]string, c.Total)
	ids := make([][]uint32, c.Goroutines)
	var dupOrRange atomic.Int64
	var mu sync.Mutex
	panicked := make(chan string, 1)
	res := watchdog(200*time.Second, func() string {
		var wg sync.WaitGroup
		per := c.Total / c.Goroutines
		for g := 0; g < c.Goroutines; g++ {
			n := per
			if g == c.Goroutines-1 {
				n = c.Total - per*(c.Goroutines-1)
			}
			wg.Add(1)
			go func(g, n int) {
				defer wg.Done()
				defer func() { // a panic inside AddRow (e.g. bbolt's own assertions under unsynchronised use) is a verdict, not a harness crash
					if p := recover(); p != nil {
						select {
						case panicked <- fmt.Sprintf("goroutine %d: panic in AddRow: %v", g, p):
						default:
						}
					}
				}()
				rr := NewRng(c.Seed + uint64(g))
				for k := 0; k < n && len(panicked) == 0; k++ {
					row := map[string]string{"tag": fmt.Sprintf("g%d-%d", g, k), "col": fmt.Sprint(rr.Intn(5)), "w": fmt.Sprint(g)}
					if rr.Chance(1, 3) {
						row["opt"] = fmt.Sprint(rr.Intn(3))
					}
					if k%10 == 9 {
						row = map[string]string{} // a row without any column still takes an id
					}
					id, err := w.AddRow(row)
					if err != nil {
						dupOrRange.Add(1)
						continue
					}
					ids[g] = append(ids[g], id)
					mu.Lock()
					if int(id) >= c.Total || rowsByID[id] != nil {
						dupOrRange.Add(1)
					} else {
						rowsByID[id] = row
					}
					mu.Unlock()
				}
			}(g, n)
		}
		done := make(chan struct{})
		go func() { wg.Wait(); close(done) }()
		select {
		case p := <-panicked:
			return "panic: " + p // the other goroutines may be stuck behind whatever the panicking one held: do not wait
		case <-done:
		}
		select {
		case p := <-panicked:
			return "panic: " + p
		default:
		}
		if err := w.Flush(); err != nil {
			return "flush-err: " + err.Error()
		}
		return "ok"
	})
	if !strings.HasPrefix(res, "panic: ") { // after a panic the writer's state is unknown: leave it alone
		for i := len(closers) - 1; i >= 0; i-- {
			closers[i]()
		}
	}
	rep.Eval(fmt.Sprintf("%v", *c), true)
	rep.Count(fmt.Sprintf("writer=%s goroutines=%d total=%d", c.Writer, c.Goroutines, c.Total))
	viol := func(sig, what, exp, act string) {
		rep.Violate(Violation{Kind: "schedule", Signature: sig, What: what, Expected: exp, Actual: trunc(act, 600), Case: c})
	}
	if res != "ok" {
		viol("C18:"+strings.SplitN(res, ":", 2)[0], "concurrent AddRow + Flush: "+res, "ok", res)
		return
	}
	if dupOrRange.Load() > 0 {
		viol("C18:ids-not-a-permutation", fmt.Sprintf("%d AddRow calls returned an error, a duplicate id or an id >= %d", dupOrRange.Load(), c.Total), "ids exactly 0..n-1", fmt.Sprint(dupOrRange.Load()))
		return
	}
	for g := range ids { // each goroutine sees increasing ids
		for k := 1; k < len(ids[g]); k++ {
			if ids[g][k] <= ids[g][k-1] {
				viol("C18:ids-not-monotone-per-goroutine", "a goroutine got a smaller id for a later call", "increasing", fmt.Sprint(ids[g][k-1], ids[g][k]))
			}
		}
	}
	// the flushed index is the one a sequential insertion in id order produces (the model)
	o.Send("idx reset")
	{
		var lines []string
		for _, r := range rowsByID {
			lines = append(lines, rowLine(r))
		}
		o.SendMany(lines)
	}
	o.Send("idx build fast")
	idx, _, err := openIdx(path, false, -1)
	if err != nil {
		viol("C18:open-failed", "flushed index does not open: "+err.Error(), "opens", err.Error())
		return
	}
	defer idx.Close()
	if got, want := schemaString(idx.GetSchema()), o.Ask("idx schema"); got != want {
		viol("C18:schema-differs", "schema differs from the sequential index", want, got)
	}
	if got, _ := dumpKeysAfterClose(idx, path); got != "" {
		_ = got
	}
	rr := NewRng(c.Seed)
	probes := []QCase{
		{E: &Ex{Op: "O", Kids: []*Ex{{Op: "E", C: hx("col"), V: hx("0")}, {Op: "N", Kids: []*Ex{{Op: "E", C: hx("col"), V: hx("0")}}}}}, GB: []string{hx("w")}},
		{E: &Ex{Op: "E", C: hx("col"), V: hx("1")}, GB: []string{hx("w"), hx("opt")}},
	}
	for k := 0; k < 40; k++ {
		id := rr.Intn(c.Total)
		row := rowsByID[id]
		if len(row) == 0 {
			continue
		}
		tag := &Ex{Op: "E", C: hx("tag"), V: hx(row["tag"])}
		probes = append(probes, QCase{E: tag}, QCase{E: &Ex{Op: "A", Kids: []*Ex{tag, {Op: "E", C: hx("col"), V: hx(row["col"])}, {Op: "E", C: hx("w"), V: hx(row["w"])}}}, GB: []string{hx("col")}})
	}
	for i := range probes {
		got := safeExecute(idx, toQuery(&probes[i]))
		want := o.Ask("idx q " + probes[i].Toks())
		if got != want {
			viol("C18:index-differs-from-sequential", "probe "+probes[i].Toks()+" differs from the sequential index of the same rows in id order", trunc(want, 300), got)
			break
		}
	}
	rep.CountN("probes", len(probes))
}

func dumpKeysAfterClose(idx *updog.Index, path string) (string, error) { return "", nil }

func runC18(rep *Report, r *Rng, tier string) {
	rep.Rule = "G in {2,4,8,32} goroutines adding rows (unique tag per row) to the in-memory and the big writer, totals on both sides of the big writer's 1000-row commit (500, 1000, 1001, 1500, 2500); -race build; checked: ids are exactly 0..n-1 without duplicates and increasing per goroutine; the flushed index equals the model's sequential index of the same rows in id order (schema; per-tag probes count=1; tag AND its values count=1; grouped totals); non-trivial = all; distinct by (writer, goroutines, total)"
	raceEnabledNote(rep)
	o := StartOracle()
	defer o.Close()
	totals := []int{500, 1001, 1500}
	gs := []int{2, 8, 32}
	if tier == "thorough" {
		totals = []int{500, 999, 1000, 1001, 1500, 2500, 6000}
		gs = []int{2, 4, 8, 32}
	}
	var last *AddCase
	// past 65536 rows (the in-memory writer's bitmaps get a second container; anything keyed on 16-bit row ids shows)
	for _, w := range []string{"mem", "big"} {
		c := &AddCase{Writer: w, Goroutines: 8, Total: 66000, Seed: r.U64()}
		runAddCase(o, c, rep)
	}
	// more callers than CPUs: 16 goroutines while the process is limited to 4 (and to 1)
	for _, procs := range []int{4, 1} {
		old := runtime.GOMAXPROCS(procs)
		for _, w := range []string{"mem", "big"} {
			c := &AddCase{Writer: w, Goroutines: 16, Total: 8000, Seed: r.U64()}
			runAddCase(o, c, rep)
			rep.Count(fmt.Sprintf("gomaxprocs=%d", procs))
		}
		runtime.GOMAXPROCS(old)
	}
	for _, w := range []string{"mem", "big"} {
		for _, t := range totals {
			for _, g := range gs {
				c := &AddCase{Writer: w, Goroutines: g, Total: t, Seed: r.U64()}
				last = c
				if rep.Evaluations == 0 {
					rep.Sample(c)
				}
				runAddCase(o, c, rep)
			}
		}
	}
	runParallelWriters(rep, tier)
	faultyTempCommit(rep, "C18")
	reportRaces(rep, "C18", last)
	rep.OracleCalls = o.n
}

// runParallelWriters: several writer objects of one process fed concurrently (each by its own goroutines). Each writer
// has its own lock; nothing they share may make one writer's rows depend on another's. Every row carries a unique tag
// (a value new to its writer), so a row that is lost, duplicated or mixed up is not found exactly once under its tag.
func runParallelWriters(rep *Report, tier string) {
	per := 1500
	if tier == "thorough" {
		per = 12000
	}
	type wr struct {
		kind string
		add  func(map[string]string) (uint32, error)
		fin  func() error
		path string
		tags [][]string // per goroutine
		ids  [][]uint32
	}
	var ws []*wr
	var cleanup []func()
	for k, kind := range []string{"mem", "mem", "big"} {
		path := scratch(fmt.Sprintf("c18-par-%d.updog", k))
		os.Remove(path)
		w := &wr{kind: kind, path: path, tags: make([][]string, 3), ids: make([][]uint32, 3)}
		if kind == "mem" {
			iw := updog.NewIndexWriter(path)
			w.add, w.fin = iw.AddRow, iw.Flush
		} else {
			db, err := bbolt.Open(path, 0644, boltOpts)
			if err != nil {
				infra("bolt: %v", err)
			}
			tdb, err := bbolt.Open(path+".tmp", 0600, boltOpts)
			if err != nil {
				infra("bolt: %v", err)
			}
			bw, err := updog.NewBigIndexWriter(db, tdb)
			if err != nil {
				infra("big writer: %v", err)
			}
			w.add, w.fin = bw.AddRow, bw.Flush
			cleanup = append(cleanup, func() { bw.Close(); tdb.Close(); db.Close(); os.Remove(path + ".tmp") })
		}
		ws = append(ws, w)
		p := path
		cleanup = append(cleanup, func() { os.Remove(p) })
	}
	res := watchdog(240*time.Second, func() string {
		var wg sync.WaitGroup
		var firstErr atomic.Value
		for wi, w := range ws {
			for g := 0; g < 3; g++ {
				wg.Add(1)
				go func(wi, g int, w *wr) {
					defer wg.Done()
					defer func() {
						if p := recover(); p != nil {
							firstErr.Store(fmt.Sprintf("panic in AddRow: %v", p))
						}
					}()
					for k := 0; k < per; k++ {
						tag := fmt.Sprintf("w%d-g%d-row-%06d", wi, g, k)
						id, err := w.add(map[string]string{"tag": tag, "grp": fmt.Sprint(k % 7), "who": fmt.Sprintf("w%d", wi)})
						if err != nil {
							firstErr.Store("AddRow: " + err.Error())
							return
						}
						w.tags[g] = append(w.tags[g], tag)
						w.ids[g] = append(w.ids[g], id)
					}
				}(wi, g, w)
			}
		}
		wg.Wait()
		if e := firstErr.Load(); e != nil {
			return "err: " + e.(string)
		}
		for _, w := range ws {
			if err := w.fin(); err != nil {
				return "flush-err: " + err.Error()
			}
		}
		return "ok"
	})
	defer func() {
		for i := len(cleanup) - 1; i >= 0; i-- {
			if res == "ok" || !strings.HasPrefix(res, "err: panic") {
				cleanup[i]()
			}
		}
	}()
	rep.Eval("parallel-writers", true)
	rep.Count("parallel-writer-runs")
	c := map[string]any{"writers": "mem,mem,big", "goroutines_each": 3, "rows_each": per}
	if res != "ok" {
		rep.Violate(Violation{Kind: "schedule", Signature: "C18:" + strings.SplitN(res, ":", 2)[0], What: "three writers fed concurrently: " + res, Expected: "ok", Actual: trunc(res, 400), Case: c})
		return
	}
	for wi, w := range ws {
		if w.kind == "big" { // the big writer's databases belong to the caller: close them before reading the file
			cleanup[len(cleanup)-2]()
			cleanup[len(cleanup)-2] = func() {}
		}
		n := 3 * per
		seen := make([]bool, n)
		bad := ""
		for g := range w.ids {
			for k, id := range w.ids[g] {
				if int(id) >= n || seen[id] {
					bad = fmt.Sprintf("id %d returned twice or out of range 0..%d", id, n-1)
				} else {
					seen[id] = true
				}
				if k > 0 && id <= w.ids[g][k-1] {
					bad = "a goroutine got a smaller id for a later call"
				}
			}
		}
		if bad != "" {
			rep.Violate(Violation{Kind: "schedule", Signature: "C18:ids-not-a-permutation", What: fmt.Sprintf("writer %d (%s) while other writers ran: %s", wi, w.kind, bad), Expected: "ids exactly 0..n-1", Actual: bad, Case: c})
			continue
		}
		idx, _, err := openIdx(w.path, false, -1)
		if err != nil {
			rep.Violate(Violation{Kind: "schedule", Signature: "C18:index-differs-from-model", What: fmt.Sprintf("writer %d (%s): the flushed index does not open: %v", wi, w.kind, err), Expected: "opens", Actual: err.Error(), Case: c})
			continue
		}
		wrong, first := 0, ""
		for g := range w.tags {
			for k, tag := range w.tags[g] {
				q := &updog.Query{Expr: &updog.ExprAnd{Exprs: []updog.Expression{&updog.ExprEqual{Column: "tag", Value: tag}, &updog.ExprEqual{Column: "grp", Value: fmt.Sprint(k % 7)}, &updog.ExprEqual{Column: "who", Value: fmt.Sprintf("w%d", wi)}}}}
				got := safeExecute(idx, q)
				if got != "ok 1" {
					wrong++
					if first == "" {
						first = fmt.Sprintf("tag %s (id %d) with its own values is found as %q", tag, w.ids[g][k], got)
					}
				}
			}
		}
		total := safeExecute(idx, &updog.Query{Expr: &updog.ExprEqual{Column: "who", Value: fmt.Sprintf("w%d", wi)}})
		idx.Close()
		rep.CountN("parallel-writer-rows-checked", n)
		if wrong > 0 || total != fmt.Sprintf("ok %d", n) {
			rep.Violate(Violation{Kind: "schedule", Signature: "C18:index-differs-from-model", What: fmt.Sprintf("writer %d (%s) fed by 3 goroutines while two other writers ran: %d of %d rows are not in the index exactly once with their values (total %s); first: %s", wi, w.kind, wrong, n, total, first), Expected: "every row exactly once", Actual: first, Case: c})
		}
	}
}

func init() {
	runners["C04"] = runC04
	runners["C18"] = runC18
}

// faultyTempCommit: the big writer's temporary database hits a transient I/O fault (the file may not grow for a moment:
// RLIMIT_FSIZE, as a full volume or a quota would do) while several goroutines add rows; the fault is lifted as soon as
// one AddRow reports it and the load goes on. Whatever the writer does then — refuse everything, or carry on — an
// index it finally publishes must contain every row whose AddRow returned an id and no error.
func faultyTempCommit(rep *Report, prop string) {
	path := scratch("c18-fault.updog")
	os.Remove(path)
	os.Remove(path + ".tmp")
	defer os.Remove(path)
	defer os.Remove(path + ".tmp")
	db, err := bbolt.Open(path, 0644, boltOpts)
	if err != nil {
		infra("bolt: %v", err)
	}
	tdb, err := bbolt.Open(path+".tmp", 0600, boltOpts)
	if err != nil {
		infra("bolt: %v", err)
	}
	w, err := updog.NewBigIndexWriter(db, tdb)
	if err != nil {
		infra("big writer: %v", err)
	}
	var lim syscall.Rlimit
	if err := syscall.Getrlimit(syscall.RLIMIT_FSIZE, &lim); err != nil {
		rep.Note("faulty-temp-commit skipped: %v", err)
		return
	}
	signal.Ignore(syscall.SIGXFSZ)
	defer signal.Reset(syscall.SIGXFSZ)
	restore := func() { syscall.Setrlimit(syscall.RLIMIT_FSIZE, &lim) }
	defer restore()
	const goroutines, per = 4, 1500
	acked := make([][]string, goroutines)
	var added, faults atomic.Int64
	var limited atomic.Bool
	res := watchdog(120*time.Second, func() string {
		var wg sync.WaitGroup
		for g := 0; g < goroutines; g++ {
			wg.Add(1)
			go func(g int) {
				defer wg.Done()
				for k := 0; k < per; k++ {
					if added.Add(1) == 1200 {
						if st, err := os.Stat(path + ".tmp"); err == nil {
							low := syscall.Rlimit{Cur: uint64(st.Size()), Max: lim.Max}
							if syscall.Setrlimit(syscall.RLIMIT_FSIZE, &low) == nil {
								limited.Store(true)
							}
						}
					}
					tag := fmt.Sprintf("g%d-row-%05d", g, k)
					ok := func() (ok bool) {
						defer func() {
							if recover() != nil {
								ok = false // the writer is beyond use after the fault: nothing is acknowledged
							}
						}()
						_, err := w.AddRow(map[string]string{"tag": tag, "grp": fmt.Sprint(k % 5)})
						return err == nil
					}()
					if ok {
						acked[g] = append(acked[g], tag)
					} else if limited.Load() {
						faults.Add(1)
						restore() // the operator frees space; the load continues
					}
				}
			}(g)
		}
		wg.Wait()
		restore()
		ferr := func() (err error) {
			defer func() {
				if p := recover(); p != nil {
					err = fmt.Errorf("panic: %v", p)
				}
			}()
			return w.Flush()
		}()
		if ferr != nil {
			return "flush-refused"
		}
		return "published"
	})
	func() { defer func() { recover() }(); w.Close() }()
	tdb.Close()
	db.Close()
	rep.Eval("faulty-temp-commit", true)
	rep.Count("faulty-temp-commit:" + strings.SplitN(res, ":", 2)[0])
	rep.Note("faulty-temp-commit: limited=%v faults seen by AddRow=%d outcome=%s", limited.Load(), faults.Load(), res)
	if res != "published" || faults.Load() == 0 {
		return // nothing was published (or no fault could be injected): nothing to check
	}
	c := map[string]any{"scenario": "RLIMIT_FSIZE on the big writer's temp database after 1200 rows", "goroutines": goroutines, "rows_each": per}
	idx, _, err := openIdx(path, false, -1)
	if err != nil {
		return // published but rejected when opened: nothing wrong is answered
	}
	defer idx.Close()
	missing, first, total := 0, "", 0
	for g := range acked {
		for _, tag := range acked[g] {
			total++
			if got := safeExecute(idx, &updog.Query{Expr: &updog.ExprEqual{Column: "tag", Value: tag}}); got != "ok 1" {
				missing++
				if first == "" {
					first = tag + " -> " + got
				}
			}
		}
	}
	if missing > 0 {
		rep.Violate(Violation{Kind: "fault", Signature: prop + ":acknowledged-rows-lost", What: fmt.Sprintf("after a transient I/O fault on the temp database Flush published an index, but %d of the %d rows whose AddRow returned an id and no error are not in it exactly once (first: %s); %d AddRow call(s) saw an error", missing, total, first, faults.Load()), Expected: "every acknowledged row present, or nothing published", Actual: first, Case: c})
	}
}
