package main

import (
	"encoding/binary"
	"fmt"
	"os"
	"path/filepath"
	"runtime"
	"sort"
	"strings"
	"sync/atomic"
	"time"

	"github.com/RoaringBitmap/roaring"
	"github.com/akrennmair/updog"
	"go.etcd.io/bbolt"
)

type QCase struct {
	GB     []string `json:"gb"` // hex
	E      *Ex      `json:"e"`
	Repeat int      `json:"repeat,omitempty"` // extra executions of the SAME *Query value (C08)
}

func (q *QCase) Toks() string {
	return fmt.Sprintf("%d %s %s", len(q.GB), strings.Join(q.GB, " "), q.E.Toks())
}

type IdxCase struct {
	Data     *DataSpec `json:"data"`
	Writer   string    `json:"writer"` // mem | memdb | big
	Preload  bool      `json:"preload"`
	Cache    int64     `json:"cache"`  // -1: none, else LRU capacity in bytes
	Reopen   int       `json:"reopen"` // close+reopen this many times before querying
	Queries  []QCase   `json:"queries"`
	Fresh    bool      `json:"fresh"`               // compare every answer with a freshly opened uncached index too
	StaleTmp bool      `json:"stale_tmp,omitempty"` // an old index sits at <output>.tmp before the writer runs
	Other    *DataSpec `json:"other,omitempty"`     // C08: a second index the same *Query values are executed on in between
	NulSplit bool      `json:"nul_split,omitempty"` // corpus: queries naming a non-existent column that contains a NUL byte (known finding for wrapped leaves)
}

func toExpr(e *Ex) updog.Expression {
	switch e.Op {
	case "E":
		return &updog.ExprEqual{Column: unhx(e.C), Value: unhx(e.V)}
	case "N":
		return &updog.ExprNot{Expr: toExpr(e.Kids[0])}
	case "A":
		x := &updog.ExprAnd{}
		for _, k := range e.Kids {
			x.Exprs = append(x.Exprs, toExpr(k))
		}
		return x
	default:
		x := &updog.ExprOr{}
		for _, k := range e.Kids {
			x.Exprs = append(x.Exprs, toExpr(k))
		}
		return x
	}
}

func toQuery(q *QCase) *updog.Query {
	uq := &updog.Query{Expr: toExpr(q.E)}
	for _, g := range q.GB {
		uq.GroupBy = append(uq.GroupBy, unhx(g))
	}
	return uq
}

func resString(res *updog.Result, err error) string {
	if err != nil {
		return "err"
	}
	var b strings.Builder
	fmt.Fprintf(&b, "ok %d", res.Count)
	for _, g := range res.Groups {
		b.WriteString(" g ")
		if len(g.Fields) == 0 {
			b.WriteString(".")
		}
		for i, f := range g.Fields {
			if i > 0 {
				b.WriteString(",")
			}
			b.WriteString(hx(f.Column) + "=" + hx(f.Value))
		}
		fmt.Fprintf(&b, ":%d", g.Count)
	}
	return b.String()
}

// safeExecuteRes is safeExecute that also hands out the Result value itself (nil on error or panic)
func safeExecuteRes(idx *updog.Index, q *updog.Query) (res *updog.Result, s string) {
	defer func() {
		if r := recover(); r != nil {
			res, s = nil, fmt.Sprintf("panic: %v", r)
		}
	}()
	r, err := idx.Execute(q)
	if err != nil {
		return nil, resString(nil, err)
	}
	return r, resString(r, nil)
}

// scribble overwrites everything a caller can reach in a Result it was given (it owns it)
func scribble(r *updog.Result) {
	if r == nil {
		return
	}
	r.Count = 0xdead
	for i := range r.Groups {
		r.Groups[i].Count = 0xbeef
		for j := range r.Groups[i].Fields {
			r.Groups[i].Fields[j].Value = "(scribbled)"
			r.Groups[i].Fields[j].Column = "(scribbled)"
		}
	}
}

func safeExecute(idx *updog.Index, q *updog.Query) (s string) {
	defer func() {
		if r := recover(); r != nil {
			s = fmt.Sprintf("panic: %v", r)
		}
	}()
	return resString(idx.Execute(q))
}

var boltOpts = &bbolt.Options{Timeout: 10 * time.Second}

// buildIndexFile writes rows with the chosen writer and returns the ids AddRow returned.
// It runs under a watchdog: a writer that blocks (e.g. a Close waiting for an open write transaction)
// is reported as an error instead of hanging the run.
func buildIndexFile(kind string, rows []map[string]string, path string) ([]uint32, error) {
	type res struct {
		ids []uint32
		err error
	}
	ch := make(chan res, 1)
	go func() {
		ids, err := buildIndexFileInner(kind, rows, path)
		ch <- res{ids, err}
	}()
	select {
	case r := <-ch:
		return r.ids, r.err
	case <-time.After(200 * time.Second * watchdogScale):
		return nil, fmt.Errorf("hang: writer did not finish in time")
	}
}

func buildIndexFileInner(kind string, rows []map[string]string, path string) (ids []uint32, err error) {
	defer func() {
		if r := recover(); r != nil {
			err = fmt.Errorf("panic: %v", r)
		}
	}()
	switch kind {
	case "mem":
		w := updog.NewIndexWriter(path)
		for _, r := range rows {
			id, err := w.AddRow(r)
			if err != nil {
				return nil, err
			}
			ids = append(ids, id)
		}
		return ids, w.Flush()
	case "mem2":
		// second use of one writer: first into a caller-supplied database, then Flush to the file; the file is checked
		w := updog.NewIndexWriter(path)
		for _, r := range rows {
			id, err := w.AddRow(r)
			if err != nil {
				return nil, err
			}
			ids = append(ids, id)
		}
		db, err := bbolt.Open(path+".first", 0644, boltOpts)
		if err != nil {
			return nil, err
		}
		err = w.WriteToBoltDatabase(db)
		db.Close()
		os.Remove(path + ".first")
		if err != nil {
			return nil, err
		}
		return ids, w.Flush()
	case "memdb":
		w := updog.NewIndexWriter("")
		for _, r := range rows {
			id, err := w.AddRow(r)
			if err != nil {
				return nil, err
			}
			ids = append(ids, id)
		}
		db, err := bbolt.Open(path, 0644, boltOpts)
		if err != nil {
			return nil, err
		}
		defer db.Close()
		return ids, w.WriteToBoltDatabase(db)
	case "big":
		db, err := bbolt.Open(path, 0644, boltOpts)
		if err != nil {
			return nil, err
		}
		defer db.Close()
		tdb, err := bbolt.Open(path+".tmp", 0600, boltOpts)
		if err != nil {
			return nil, err
		}
		defer os.Remove(path + ".tmp")
		defer tdb.Close()
		w, err := updog.NewBigIndexWriter(db, tdb)
		if err != nil {
			return nil, err
		}
		defer w.Close() // releases the temp transaction if AddRow/Flush failed (runs before the deferred DB closes)
		for _, r := range rows {
			id, err := w.AddRow(r)
			if err != nil {
				return nil, err
			}
			ids = append(ids, id)
		}
		return ids, w.Flush()
	}
	return nil, fmt.Errorf("unknown writer %q", kind)
}

var openCounter atomic.Int64
var openHangs atomic.Int64
var procsPinned atomic.Bool // set while a caller controls GOMAXPROCS itself

func openIdx(path string, preload bool, cache int64) (*updog.Index, *updog.LRUCache, error) {
	var opts []updog.IndexOption
	var lru *updog.LRUCache
	if cache >= 0 {
		lru = updog.NewLRUCache(uint64(cache))
		opts = append(opts, updog.WithCache(lru))
	}
	if preload {
		opts = append(opts, updog.WithPreloadedData())
	}
	if openHangs.Load() >= 3 {
		// every hang leaves a blocked goroutine behind and costs a full watchdog period: after three of them the run has
		// its verdict, further opens are not attempted
		return nil, nil, fmt.Errorf("hang: OpenIndex hung %d times already in this run (not attempted again)", openHangs.Load())
	}
	type res struct {
		idx *updog.Index
		err error
	}
	ch := make(chan res, 1)
	go func() {
		defer func() {
			if r := recover(); r != nil {
				ch <- res{nil, fmt.Errorf("panic: %v", r)}
			}
		}()
		// the index must not depend on how many CPUs the opening process happened to have: every few opens run under
		// another GOMAXPROCS setting (restored as soon as OpenIndex has returned)
		n := openCounter.Add(1)
		if procs := []int{0, 0, 3, 0, 1, 0, 6, 0}[n%8]; procs > 0 && !procsPinned.Load() {
			old := runtime.GOMAXPROCS(procs)
			defer runtime.GOMAXPROCS(old)
		}
		idx, err := updog.OpenIndex(path, opts...)
		ch <- res{idx, err}
	}()
	select {
	case r := <-ch:
		return r.idx, lru, r.err
	case <-time.After(20 * time.Second * watchdogScale):
		openHangs.Add(1)
		return nil, nil, fmt.Errorf("hang: OpenIndex did not return in time")
	}
}

// dumpKeys returns "I=<n> n=<k> <sorted V keys hex>" of an index file (same format as the oracle's image line).
func dumpKeys(path string) (string, error) {
	db, err := bbolt.Open(path, 0644, &bbolt.Options{Timeout: 10 * time.Second, ReadOnly: true})
	if err != nil {
		return "", err
	}
	defer db.Close()
	var keys []string
	next := "?"
	err = db.View(func(tx *bbolt.Tx) error {
		b := tx.Bucket([]byte("data"))
		if b == nil {
			return fmt.Errorf("no data bucket")
		}
		return b.ForEach(func(k, v []byte) error {
			switch {
			case len(k) == 1 && k[0] == 'I' && len(v) == 4:
				next = fmt.Sprint(binary.BigEndian.Uint32(v))
			case len(k) == 9 && k[0] == 'V':
				keys = append(keys, hx(string(k[1:])))
			case len(k) == 1 && k[0] == 'S':
			default:
				keys = append(keys, "unexpected:"+hx(string(k)))
			}
			return nil
		})
	})
	sort.Strings(keys)
	s := fmt.Sprintf("ok I=%s n=%d", next, len(keys))
	if len(keys) > 0 {
		s += " " + strings.Join(keys, " ")
	}
	return s, err
}

func schemaString(s *updog.Schema) string {
	var b strings.Builder
	b.WriteString("ok")
	for _, c := range s.Columns {
		b.WriteString(" " + hx(c.Name) + ":")
		for i, v := range c.Values {
			if i > 0 {
				b.WriteString(",")
			}
			b.WriteString(hx(v.Value))
		}
	}
	return b.String()
}

func rowLine(r map[string]string) string {
	ks := make([]string, 0, len(r))
	for k := range r {
		ks = append(ks, k)
	}
	sort.Strings(ks)
	var b strings.Builder
	b.WriteString("idx row")
	for _, k := range ks {
		b.WriteString(" " + hx(k) + " " + hx(r[k]))
	}
	return b.String()
}

type idxStats struct {
	pairs    int
	distinct map[string]int // column -> distinct values
	hasNul   bool
}

func statsOf(rows []map[string]string) idxStats {
	st := idxStats{distinct: map[string]int{}}
	seen := map[string]bool{}
	for _, r := range rows {
		for k, v := range r {
			st.pairs++
			if strings.Contains(k, "\x00") {
				st.hasNul = true
			}
			if !seen[k+"\x00"+v] {
				seen[k+"\x00"+v] = true
				st.distinct[k]++
			}
		}
	}
	return st
}

var scratchDir string

func scratch(name string) string {
	if scratchDir == "" {
		d, err := os.MkdirTemp("", "updog-verif-")
		if err != nil {
			infra("mkdtemp: %v", err)
		}
		scratchDir = d
	}
	return filepath.Join(scratchDir, name)
}

func cleanupScratch() {
	if scratchDir != "" {
		os.RemoveAll(scratchDir)
	}
}

type idxFlags struct {
	checkImage  bool // C05: compare bolt key set / schema / ids with the model
	prop        string
	useSpec     bool
	specMaxRows int
}

// runIdxCase runs one case on the implementation and on the oracle; mismatches are reported as violations.
func runIdxCase(o *Oracle, c *IdxCase, rep *Report, fl idxFlags) {
	rows := c.Data.Materialize()
	st := statsOf(rows)
	path := scratch(fmt.Sprintf("case-%d.updog", rep.Evaluations))
	os.Remove(path)
	defer os.Remove(path)

	viol := func(kind, sig, what, exp, act string) {
		rep.Violate(Violation{Kind: kind, Signature: sig, What: what, Expected: trunc(exp, 2000), Actual: trunc(act, 2000), Case: c})
	}

	if c.StaleTmp {
		old := []map[string]string{{"kind": "legacy", "host": "h9"}, {"kind": "legacy"}, {"host": "h9", "a": "1"}}
		if len(rows) > 1 {
			// the same (column,value) pairs under other row ids, and a few rows more: anything that leaks from the
			// leftover file changes counts of the new index
			old = append(append([]map[string]string{}, rows[1:]...), rows[0], rows[0], rows[len(rows)/2])
			// ... and pairs the new data does NOT contain but queries ask for (values "absent", "99999", "", a value of
			// another column): whatever survives from the leftover file turns an expected zero into a count
			extra := map[string]string{}
			for k, v := range rows[0] {
				extra[k] = v
			}
			for _, v := range []string{"absent", "99999", "", "\xff"} {
				m := map[string]string{}
				for k := range extra {
					m[k] = v
				}
				if len(m) > 0 {
					old = append(old, m, m)
				}
			}
		}
		os.Remove(path + ".tmp")
		buildIndexFile("mem", old, path+".tmp")
		defer os.Remove(path + ".tmp")
	}
	ids, err := buildIndexFile(c.Writer, rows, path)
	if err != nil {
		viol("input", "build-failed:"+c.Writer, "writer failed on valid rows: "+err.Error(), "Flush succeeds", err.Error())
		return
	}
	for i, id := range ids {
		if int(id) != i {
			viol("input", "addrow-id", fmt.Sprintf("AddRow call %d returned id %d", i, id), fmt.Sprint(i), fmt.Sprint(id))
			break
		}
	}

	useModel := len(rows) <= 300 && st.pairs <= 1500
	o.Send("idx reset")
	{
		var lines []string
		for _, r := range rows {
			lines = append(lines, rowLine(r))
		}
		o.SendMany(lines)
	}
	mode := "fast"
	if useModel {
		mode = "model"
	}
	if r := o.Ask("idx build " + mode); !strings.HasPrefix(r, "ok") {
		viol("obligation", "oracle-model-fast-mismatch", "list-based model and hash-map construction disagree inside the oracle", "ok", r)
		return
	}
	rep.Count("writer=" + c.Writer)
	rep.Count(fmt.Sprintf("preload=%v", c.Preload))
	rep.Count("oracle=" + mode)

	if fl.checkImage {
		got, err := dumpKeys(path)
		if err != nil {
			viol("input", "dump-failed", "cannot read back flushed file: "+err.Error(), "readable index file", err.Error())
		} else if !useModel {
			// large datasets: at least the row counter and the NUMBER of stored bitmaps must be the model's
			f := strings.Fields(got)
			if want := o.Ask("idx imagecount"); len(f) >= 3 && want != strings.Join(f[:3], " ") {
				viol("input", "image-mismatch", "row counter / number of stored bitmaps differs from the model", want, strings.Join(f[:3], " "))
			}
		} else {
			if want := o.Ask("idx image"); want != got {
				viol("input", "image-mismatch", "bolt key set / row counter differs from the model image", want, got)
			}
			if c.Writer == "big" {
				// the big writer's own model (temp keys, sorted cursor walk) predicts the same file
				if want := o.Ask("idx imagebig"); want != got {
					viol("input", "image-mismatch-bigmodel", "bolt key set / row counter differs from the big-writer model image", want, got)
				}
				rep.Count("bigwriter-model-images")
			}
		}
	}

	idx, _, err := openIdx(path, c.Preload, c.Cache)
	if err != nil {
		viol("input", "open-failed", "OpenIndex failed on a freshly flushed index: "+err.Error(), "opens", err.Error())
		return
	}
	closeIdx := func() {
		if idx != nil {
			idx.Close()
		}
	}
	defer func() { closeIdx() }()

	for i := 0; i < c.Reopen; i++ {
		if err := idx.Close(); err != nil {
			viol("history", "close-failed", "Close failed: "+err.Error(), "nil", err.Error())
		}
		idx, _, err = openIdx(path, c.Preload, c.Cache)
		if err != nil {
			viol("history", "reopen-failed", fmt.Sprintf("reopen %d failed: %v", i+1, err), "opens", err.Error())
			idx = nil
			return
		}
		rep.Count("reopens")
	}

	if fl.checkImage {
		got := schemaString(idx.GetSchema())
		if want := o.Ask("idx schema"); want != got {
			viol("input", "schema-mismatch", "GetSchema differs from the model", want, got)
		}
		if len(rows) <= 2000 {
			if want := o.Ask("idx schemaspec"); want != got {
				viol("input", "schema-spec-mismatch", "GetSchema differs from the specification", want, got)
			}
		}
	}

	if (fl.prop == "C03" && c.Cache >= 0) || fl.prop == "C08" {
		mutationTie(o, path, c, rep)
	}
	if fl.prop == "C03" || fl.prop == "C04" {
		tp := path + ".trace"
		data, _ := os.ReadFile(path)
		os.WriteFile(tp, data, 0644)
		traceTie(o, tp, c, rep)
		os.Remove(tp)
	}

	var fresh *updog.Index
	if c.Fresh {
		// a second handle on the same file needs its own copy (bbolt takes an exclusive lock)
		fp := path + ".fresh"
		data, _ := os.ReadFile(path)
		os.WriteFile(fp, data, 0644)
		defer os.Remove(fp)
		fresh, _, err = openIdx(fp, false, -1)
		if err != nil {
			infra("cannot open fresh copy: %v", err)
		}
		defer fresh.Close()
	}

	var other *updog.Index
	if c.Other != nil {
		op := path + ".other"
		os.Remove(op)
		if _, err := buildIndexFile("mem", c.Other.Materialize(), op); err == nil {
			other, _, _ = openIdx(op, false, -1)
		}
		defer os.Remove(op)
		if other != nil {
			defer other.Close()
		}
	}

	var prevRes *updog.Result
	var prevStr string
	for qi := range c.Queries {
		q := &c.Queries[qi]
		// the cost of a grouped query is about (groups so far, at most the rows) x (distinct values of the next column)
		// per level: a long group-by list over columns with thousands of values costs seconds per execution and adds
		// nothing a shorter list does not show; keep the longest prefix of the list within a fixed budget
		if len(q.GB) > 1 {
			groups, cost := 1, 0
			for gi, g := range q.GB {
				dv := max(1, st.distinct[unhx(g)])
				cost += groups * dv
				groups = min(groups*dv, max(1, len(rows)))
				if cost > 2000000 && gi >= 1 {
					q.GB = q.GB[:gi]
					rep.Count("group-by-list-shortened")
					break
				}
			}
		}
		toks := q.Toks()
		uq := toQuery(q)
		if other != nil && qi%2 == 1 {
			// the Query value has already been used on another index (possibly failing there)
			safeExecute(other, uq)
			rep.Count("cross-index-executions")
		}
		if fl.prop == "C08" && qi%3 == 2 {
			// the caller executes the Query value while its expression is still incomplete (rejected), completes the
			// expression in place and executes the same value again: the earlier rejection must leave nothing behind
			if restore := breakExpr(uq.Expr); restore != nil {
				r1 := safeExecute(idx, uq)
				r2 := safeExecute(idx, uq)
				rep.Count("incomplete-then-completed")
				if r1 != r2 {
					viol("history", "C08:reexecute-mismatch", fmt.Sprintf("the incomplete Query value (%s with an operand missing) is rejected differently the second time", toks), r1, r2)
				}
				restore()
			}
		}
		res, got := safeExecuteRes(idx, uq)
		want := o.Ask("idx q " + toks)
		if prevRes != nil {
			// a Result is a value the caller keeps: executing other queries (or the same Query value again) later must
			// not change what an earlier call returned
			if now := resString(prevRes, nil); now != prevStr {
				viol("history", fl.prop+":earlier-result-changed", fmt.Sprintf("the Result returned for query %d changed after query %d (%s) was executed", qi-1, qi, toks), prevStr, now)
			}
		}
		prevRes, prevStr = res, got
		nontrivial := strings.HasPrefix(want, "ok") && !strings.HasPrefix(want, "ok 0") && q.E.Size() > 1
		rep.Eval(fmt.Sprintf("%d|%s|%s|%v|%d|%s", c.Data.Seed, c.Writer, toks, c.Preload, c.Cache, want), nontrivial)
		rep.Count(fmt.Sprintf("depth=%d", min(q.E.Depth(), 6)))
		rep.Count(fmt.Sprintf("gb=%d", len(q.GB)))
		if strings.HasPrefix(want, "err") {
			rep.Count("expected-error")
		}
		sigBase := fl.prop
		if c.NulSplit && got != want && q.E.Op != "E" && q.E.Op != "O" && want == "err" && c.Cache >= 0 {
			// known finding (same root cause as D15): the value index of ("a\x00b","c") and ("a","b\x00c") is one number, so
			// a NOT/AND whose cached key derives from it is answered from the cache before its operand's column is checked
			viol("history", "C03:nul-in-query-column-cached-answer", fmt.Sprintf("query %d (%s) names a column that does not exist (its name contains a NUL byte) and is answered from the cache entry of another expression", qi, toks), want, got)
			prevRes, prevStr = nil, ""
			continue
		}
		if got != want {
			kind := "input"
			if qi > 0 && c.Cache >= 0 {
				kind = "history"
			}
			sig := sigBase + ":result-mismatch"
			if strings.HasPrefix(got, "panic") {
				sig = sigBase + ":panic"
			}
			viol(kind, sig, fmt.Sprintf("query %d (%s) answers differently from the model", qi, toks), want, got)
		}
		if useModel {
			if m := o.Ask("idx qm " + toks); m != want {
				viol("obligation", "oracle-qm-mismatch", "oracle: model Execute on list-built index differs from fast path for "+toks, want, m)
			}
		}
		prod := 1
		for _, g := range q.GB {
			prod *= max(1, st.distinct[unhx(g)])
			if prod > 50000 {
				break
			}
		}
		if fl.useSpec && len(rows) <= fl.specMaxRows && prod <= 50000 && st.hasNul {
			// column names containing NUL: reported separately (known finding D15), never mixed with other mismatches
			rep.Count("nul-column-cases")
			if s := o.Ask("idx qs " + toks); s != got {
				viol("input", "C01:nul-in-column-name-collision", fmt.Sprintf("with a NUL byte in a column name, query %s counts rows of a different (column,value) pair", toks), s, got)
			}
		}
		if fl.useSpec && len(rows) <= fl.specMaxRows && prod <= 50000 && !st.hasNul {
			rep.Count("spec-compared")
			if s := o.Ask("idx qs " + toks); s != got {
				viol("input", sigBase+":spec-mismatch", fmt.Sprintf("query %d (%s) differs from the specification", qi, toks), s, got)
			}
		}
		if q.Repeat > 0 {
			// the caller rewrites a Result it was given (it owns it) and executes the same Query value again
			r2, _ := safeExecuteRes(idx, uq)
			scribble(r2)
			rep.Count("scribbled-results")
		}
		for k := 0; k < q.Repeat; k++ {
			again := safeExecute(idx, uq)
			rep.Count("reexecutions")
			if again != want {
				viol("history", sigBase+":reexecute-mismatch", fmt.Sprintf("execution %d of the same Query value (%s) differs", k+2, toks), want, again)
				break
			}
		}
		if other != nil && q.Repeat > 0 {
			// same Query value on a different index, then back: each execution equals a fresh equal query there
			gotO, wantO := safeExecute(other, uq), safeExecute(other, toQuery(q))
			rep.Count("cross-index-executions")
			if gotO != wantO {
				viol("history", sigBase+":reexecute-on-other-index-mismatch", fmt.Sprintf("the Query value (%s), used before on another index, answers differently from a fresh equal query", toks), wantO, gotO)
			}
			if back := safeExecute(idx, uq); back != want {
				viol("history", sigBase+":reexecute-mismatch", fmt.Sprintf("the Query value (%s) executed on another index and then again on the first one", toks), want, back)
			}
		}
		if q.Repeat > 0 {
			// caller-visible fields unchanged
			ref := toQuery(q)
			if fmt.Sprint(ref.GroupBy) != fmt.Sprint(uq.GroupBy) || ref.Expr.String() != uq.Expr.String() {
				viol("history", sigBase+":query-fields-changed", "Execute changed the caller-visible fields of the Query", ref.Expr.String(), uq.Expr.String())
			}
		}
		if fresh != nil {
			f := safeExecute(fresh, toQuery(q))
			if f != got {
				viol("history", sigBase+":differs-from-fresh", fmt.Sprintf("query %d (%s) on the used index differs from a fresh uncached index", qi, toks), f, got)
			}
		}
	}
}

// breakExpr removes one operand somewhere below the root (the last operand of the first AND/OR that has one, or the
// operand of a NOT) and returns the function that puts it back in place; nil when the expression is a single leaf.
func breakExpr(e updog.Expression) (restore func()) {
	switch x := e.(type) {
	case *updog.ExprNot:
		if r := breakExpr(x.Expr); r != nil {
			return r
		}
		old := x.Expr
		x.Expr = nil
		return func() { x.Expr = old }
	case *updog.ExprAnd:
		if len(x.Exprs) == 0 {
			return nil
		}
		for _, k := range x.Exprs {
			if r := breakExpr(k); r != nil {
				return r
			}
		}
		i := len(x.Exprs) - 1
		old := x.Exprs[i]
		x.Exprs[i] = nil
		return func() { x.Exprs[i] = old }
	case *updog.ExprOr:
		if len(x.Exprs) == 0 {
			return nil
		}
		for _, k := range x.Exprs {
			if r := breakExpr(k); r != nil {
				return r
			}
		}
		i := len(x.Exprs) - 1
		old := x.Exprs[i]
		x.Exprs[i] = nil
		return func() { x.Exprs[i] = old }
	}
	return nil
}

// recCache is an unbounded map cache that logs every call (same format as the oracle's logging cache).
type recCache struct {
	m   map[uint64]*roaring.Bitmap
	log []string
}

func (c *recCache) Get(key uint64) (*roaring.Bitmap, bool) {
	bm, ok := c.m[key]
	if ok {
		c.log = append(c.log, fmt.Sprintf("g%016x:h", key))
	} else {
		c.log = append(c.log, fmt.Sprintf("g%016x:m", key))
	}
	return bm, ok
}

func (c *recCache) Put(key uint64, bm *roaring.Bitmap) {
	c.m[key] = bm
	c.log = append(c.log, fmt.Sprintf("p%016x", key))
}

// traceTie executes the history on an index whose cache records every Get/Put and compares the call sequence
// (keys, hits/misses, order) and the counts with the model's evalC over a logging map cache.
func traceTie(o *Oracle, path string, c *IdxCase, rep *Report) {
	rc := &recCache{m: map[uint64]*roaring.Bitmap{}}
	var opts []updog.IndexOption
	opts = append(opts, updog.WithCache(rc))
	if c.Preload {
		opts = append(opts, updog.WithPreloadedData())
	}
	idx, err := updog.OpenIndex(path, opts...)
	if err != nil {
		return
	}
	defer idx.Close()
	o.Send("idx ctrace-reset")
	for qi := range c.Queries {
		q := &c.Queries[qi]
		rc.log = rc.log[:0]
		res, err := idx.Execute(toQuery(q))
		got := "err"
		if err == nil {
			got = fmt.Sprintf("ok %d", res.Count)
		}
		got += " " + strings.Join(rc.log, " ")
		want := o.Ask("idx ctrace " + q.Toks())
		rep.Count("cache-call-traces-compared")
		if strings.TrimSpace(got) != strings.TrimSpace(want) {
			rep.Violate(Violation{Kind: "obligation", Signature: "C03:cache-call-sequence-differs-from-model", What: fmt.Sprintf("query %d (%s): sequence of cache Get/Put calls differs from the model's evalC", qi, q.Toks()), Expected: trunc(want, 1200), Actual: trunc(got, 1200), Case: c})
			return
		}
	}
}

// mutationTie executes expression OBJECTS that are changed in place between executions (a leaf's value replaced, an
// operand appended): each execution must still answer like the model does for the tree as it is at that moment.
func mutationTie(o *Oracle, path string, c *IdxCase, rep *Report) {
	mp := path + ".mut"
	data, _ := os.ReadFile(path)
	os.WriteFile(mp, data, 0644)
	defer os.Remove(mp)
	idx, _, err := openIdx(mp, c.Preload, c.Cache)
	if err != nil {
		return
	}
	defer idx.Close()
	var leaves []*Ex
	for qi := range c.Queries {
		var collect func(e *Ex)
		collect = func(e *Ex) {
			if e.Op == "E" {
				leaves = append(leaves, e)
			}
			for _, k := range e.Kids {
				collect(k)
			}
		}
		collect(c.Queries[qi].E)
	}
	if len(leaves) < 2 {
		return
	}
	n := 0
	for qi := range c.Queries {
		q := &c.Queries[qi]
		if q.E.Op == "E" || n >= 6 {
			continue
		}
		n++
		// a model-side copy and the live Go object
		live := toExpr(q.E)
		uq := &updog.Query{Expr: live}
		first := safeExecute(idx, uq)
		if want := o.Ask("idx q 0  " + q.E.Toks()); first != want {
			continue // reported by the main loop already
		}
		// mutate: replace the value of the first leaf below the root by another leaf's pair, or append an operand
		mod := cloneEx(q.E)
		donor := leaves[(qi*7+3)%len(leaves)]
		switch x := live.(type) {
		case *updog.ExprAnd:
			x.Exprs = append(x.Exprs, toExpr(donor))
			mod.Kids = append(mod.Kids, donor)
		case *updog.ExprOr:
			x.Exprs = append(x.Exprs, toExpr(donor))
			mod.Kids = append(mod.Kids, donor)
		case *updog.ExprNot:
			if leaf, ok := x.Expr.(*updog.ExprEqual); ok {
				leaf.Column, leaf.Value = unhx(donor.C), unhx(donor.V)
				mod.Kids[0] = donor
			} else {
				continue
			}
		}
		if qi%2 == 0 {
			// additionally edit the first leaf operand in place (a query used as a template)
			var kids []updog.Expression
			switch x := live.(type) {
			case *updog.ExprAnd:
				kids = x.Exprs
			case *updog.ExprOr:
				kids = x.Exprs
			}
			for ki, k := range kids {
				if leaf, ok := k.(*updog.ExprEqual); ok && ki < len(mod.Kids) && mod.Kids[ki].Op == "E" {
					leaf.Column, leaf.Value = unhx(donor.C), unhx(donor.V)
					mod.Kids[ki] = donor
					break
				}
			}
		}
		got := safeExecute(idx, uq)
		want := o.Ask("idx q 0  " + mod.Toks())
		rep.Count("mutated-expression-objects")
		if got != want {
			rep.Violate(Violation{Kind: "history", Signature: c03or08(c) + ":stale-answer-after-expression-changed", What: fmt.Sprintf("an expression object was executed, changed in place (now %s) and executed again on a cached index: the answer is not the one for the changed expression", mod.Toks()), Expected: want, Actual: got, Case: c})
			return
		}
	}
}

func cloneEx(e *Ex) *Ex {
	c := &Ex{Op: e.Op, C: e.C, V: e.V}
	for _, k := range e.Kids {
		c.Kids = append(c.Kids, k)
	}
	return c
}

func c03or08(c *IdxCase) string {
	if c.Other != nil || c.Cache < 0 {
		return "C08"
	}
	return "C03"
}
