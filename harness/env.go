package main

// Environment probes shared by the properties that open index files: the answers of a readable, valid index must not
// depend on how its path is reached (through a symbolic link) or on who reaches it (a user that can read the file but
// does not own it; only when the harness runs as root).

import (
	"database/sql"
	"fmt"
	"os"
	"path/filepath"
	"runtime"
	"syscall"
	"time"

	"github.com/akrennmair/updog"
)

func envProbes(rep *Report, prop string, viaDriver bool) {
	pub, err := os.MkdirTemp("", "updog-verif-env-")
	if err != nil {
		infra("mkdtemp: %v", err)
	}
	defer os.RemoveAll(pub)
	os.Chmod(pub, 0755)
	valid := filepath.Join(pub, "gen-0001.updog")
	rows := []map[string]string{{"a": "1", "b": "x"}, {"a": "2"}, {"a": "1"}, {"b": "y"}, {"a": "1", "b": "y"}}
	if _, err := buildIndexFile("mem", rows, valid); err != nil {
		infra("build: %v", err)
	}
	os.Chmod(valid, 0644)
	link := filepath.Join(pub, "current.updog")
	os.Symlink("gen-0001.updog", link)
	const want = "3"
	ask := func(path string) string {
		if viaDriver {
			db, err := sql.Open("updog", "file:"+path)
			if err != nil {
				return "open: " + err.Error()
			}
			defer db.Close()
			var n int64
			if err := db.QueryRow(`a = "1"`).Scan(&n); err != nil {
				return "query: " + err.Error()
			}
			return fmt.Sprint(n)
		}
		idx, err := updog.OpenIndex(path)
		if err != nil {
			return "open: " + err.Error()
		}
		defer idx.Close()
		res, err := idx.Execute(&updog.Query{Expr: &updog.ExprEqual{Column: "a", Value: "1"}})
		if err != nil {
			return "query: " + err.Error()
		}
		return fmt.Sprint(res.Count)
	}
	guarded := func(f func() string) string {
		ch := make(chan string, 1)
		go func() {
			defer func() {
				if p := recover(); p != nil {
					ch <- fmt.Sprintf("panic: %v", p)
				}
			}()
			ch <- f()
		}()
		select {
		case s := <-ch:
			return s
		case <-time.After(20 * time.Second * watchdogScale):
			return "hang"
		}
	}
	check := func(via, got string) {
		rep.Eval(fmt.Sprintf("env-%s-driver=%v", via, viaDriver), true)
		rep.Count("environment-probes")
		if got != want {
			rep.Violate(Violation{Kind: "input", Signature: prop + ":environment-" + via, What: fmt.Sprintf("a valid, readable index reached %s answers differently (driver=%v)", via, viaDriver), Expected: want, Actual: got, Case: map[string]any{"via": via, "driver": viaDriver}})
		}
	}
	check("directly", guarded(func() string { return ask(valid) }))
	check("through a symbolic link", guarded(func() string { return ask(link) }))
	// "dir/link/../name" names a file in the directory the link points INTO (the kernel resolves ".." after following
	// the link); a decoy with other data sits where a purely textual clean-up of the name would look
	os.MkdirAll(filepath.Join(pub, "releases", "v2"), 0755)
	os.Symlink(filepath.Join("releases", "v2"), filepath.Join(pub, "cur"))
	real := filepath.Join(pub, "releases", "data.updog")
	copyFile(valid, real)
	if _, err := buildIndexFile("mem", []map[string]string{{"a": "1"}, {"a": "1"}, {"a": "1"}, {"a": "1"}, {"a": "1"}, {"a": "9"}}, filepath.Join(pub, "data.updog")); err != nil {
		infra("build: %v", err)
	}
	check("as dir/link/../name", guarded(func() string { return ask(pub + "/cur/../data.updog") }))
	if os.Geteuid() == 0 {
		got := guarded(func() string {
			runtime.LockOSThread() // never unlocked: the thread with the changed fsuid ends with this goroutine
			if err := syscall.Setfsuid(65534); err != nil {
				return "skip"
			}
			f, err := os.Open(valid)
			if err != nil {
				return "skip" // not readable for that user on this system: nothing to learn
			}
			f.Close()
			return ask(valid)
		})
		if got != "skip" {
			check("by a user who does not own it", got)
		}
	}
}
