package main

import (
	"encoding/json"
	"fmt"
	"go.etcd.io/bbolt"
	"os"
	"runtime"
	"sync"
	"time"

	"github.com/akrennmair/updog"
)

func init() {
	runners["C01"] = runC01
	runners["C02"] = runC02
	runners["C05"] = runC05
	runners["C08"] = runC08
	for _, p := range []string{"C01", "C02", "C05", "C08", "C03"} {
		p := p
		replayers[p] = func(rep *Report, b []byte) {
			var c IdxCase
			if err := json.Unmarshal(b, &c); err != nil {
				infra("bad case: %v", err)
			}
			o := StartOracle()
			defer o.Close()
			runIdxCase(o, &c, rep, flagsFor(p))
		}
	}
}

func flagsFor(p string) idxFlags {
	fl := idxFlags{prop: p, useSpec: true, specMaxRows: 400}
	if p == "C05" {
		fl.checkImage = true
	}
	return fl
}

var writers = []string{"mem", "memdb", "big"}

func genIdxCase(r *Rng, d *DataSpec, nq int, depth int, wantGB bool, allowUnknown bool) *IdxCase {
	c := &IdxCase{Data: d, Writer: Pick(r, writers), Preload: r.Chance(1, 2), Cache: -1}
	rows := d.Materialize()
	pool := poolOf(rows)
	for i := 0; i < nq; i++ {
		q := QCase{E: genExpr(r, pool, 1+r.Intn(depth), allowUnknown)}
		if wantGB {
			q.GB = genGroupBy(r, pool, allowUnknown)
		}
		c.Queries = append(c.Queries, q)
	}
	if (c.Writer == "mem" || c.Writer == "mem2") && len(rows) <= 2000 && r.Chance(1, 5) {
		c.StaleTmp = true // a leftover of an earlier, interrupted build sits next to the output
	}
	return c
}

var boundarySizes = []int{999, 1000, 1001, 4095, 4096, 4097, 65535, 65536, 65537}

func runC01(rep *Report, r *Rng, tier string) {
	defer envProbes(rep, "C01", false)
	defer concurrentCreators(rep, "C01", 150)
	rep.Rule = "datasets from DataSpec generator (sizes incl. boundaries; sparse/dense/run/unique distributions; missing columns; empty/trailing-empty rows; ascii/empty/utf8/binary/NUL-in-value strings) x 3 writers x 2 getters x random expression trees (depth<=5, arity 1..4, duplicate operands, absent values, unknown columns); non-trivial = expression with >=2 nodes and a non-zero expected count; distinct by (dataset seed, writer, getter, expression, expected)"
	o := StartOracle()
	defer o.Close()
	n := 120
	if tier == "thorough" {
		n = 600
	}
	for i := 0; i < n; i++ {
		d := genDataSpec(r, 2000, false)
		c := genIdxCase(r, d, 12, 5, false, true)
		rep.Sample0(c)
		runIdxCase(o, c, rep, flagsFor("C01"))
	}
	// corpus: the known finding D15 — a NUL byte in a column name makes two different pairs share a value index
	{
		d := &DataSpec{Rows: [][]string{{hx("a\x00b"), hx("c")}, {hx("a"), hx("b\x00c")}, {hx("a"), hx("z")}}}
		c := &IdxCase{Data: d, Writer: "mem", Cache: -1, Queries: []QCase{{E: &Ex{Op: "E", C: hx("a"), V: hx("b\x00c")}}, {E: &Ex{Op: "E", C: hx("a\x00b"), V: hx("c")}}}}
		runIdxCase(o, c, rep, flagsFor("C01"))
	}
	// corpus: pairs with equal column+value concatenation must stay apart (the 0x00 separator of the value index)
	for _, w := range writers {
		d := &DataSpec{Rows: [][]string{{hx("a"), hx("bx")}, {hx("ab"), hx("x")}, {hx("a"), hx("b"), hx("ab"), hx("")}, {hx("ab"), hx("x"), hx("a"), hx("c")}}}
		E := func(c, v string) *Ex { return &Ex{Op: "E", C: hx(c), V: hx(v)} }
		c := &IdxCase{Data: d, Writer: w, Cache: -1, Queries: []QCase{{E: E("a", "bx")}, {E: E("ab", "x")}, {E: E("a", "b")}, {E: E("ab", "")}, {E: &Ex{Op: "N", Kids: []*Ex{E("ab", "x")}}, GB: []string{hx("a")}}}}
		runIdxCase(o, c, rep, flagsFor("C01"))
	}
	// corpus: more than one 65536-row block; values that fill a whole block, runs ending exactly at the last row of a
	// block / starting at its first, sparse values next to them; ORs of three and more operands inside ANDs
	{
		ns := []int{70000}
		if tier == "thorough" {
			ns = []int{65536, 70000, 140000}
		}
		E := func(c, v string) *Ex { return &Ex{Op: "E", C: hx(c), V: hx(v)} }
		N := func(x *Ex) *Ex { return &Ex{Op: "N", Kids: []*Ex{x}} }
		A := func(xs ...*Ex) *Ex { return &Ex{Op: "A", Kids: xs} }
		O := func(xs ...*Ex) *Ex { return &Ex{Op: "O", Kids: xs} }
		for _, n := range ns {
			d := &DataSpec{Seed: r.U64(), NRows: n, Cols: []ColSpec{
				{Name: hx("e"), NVals: 5, Dist: "edge", Style: "ascii"},
				{Name: hx("region"), NVals: 2, Dist: "block", Style: "ascii"},
				{Name: hx("t"), NVals: 3, Dist: "random", Style: "ascii"}}}
			qs := []QCase{
				{E: A(E("t", "0"), O(E("e", "0"), E("e", "2"), E("e", "3")))},
				{E: A(E("region", "0"), O(E("e", "0"), E("e", "1"), E("e", "2"), E("e", "4")))},
				{E: A(O(E("region", "0"), E("region", "1"), E("t", "2")), N(E("e", "0")))},
				{E: A(E("t", "1"), N(E("e", "1")), O(E("e", "3"), E("e", "0"), E("e", "2")))},
				{E: O(E("e", "0"), E("e", "1"), E("e", "2"))}, {E: N(E("region", "0"))}, {E: E("region", "0")},
				{E: A(O(E("e", "1"), E("region", "1"), E("e", "4")), N(E("t", "0")), N(E("e", "2")))},
				{E: E("e", "0"), GB: []string{hx("region"), hx("t")}}, {E: E("region", "0")}, {E: E("e", "0")}}
			for _, pre := range []bool{false, true} {
				c := &IdxCase{Data: d, Writer: "mem", Preload: pre, Cache: -1, Queries: qs}
				runIdxCase(o, c, rep, flagsFor("C01"))
				rep.Count("block-edge-datasets")
			}
		}
	}
	// corpus: AND / OR nodes with 64, 80 and 200 operands, evaluated while the process has far more, and far fewer,
	// CPUs than the node has operands
	{
		d := &DataSpec{Seed: r.U64(), NRows: 500, Cols: []ColSpec{{Name: hx("a"), NVals: 4, Dist: "random", Style: "ascii"}, {Name: hx("b"), NVals: 3, Dist: "random", Style: "ascii"}, {Name: hx("u"), NVals: 500, Dist: "unique", Style: "ascii"}}}
		E := func(c, v string) *Ex { return &Ex{Op: "E", C: hx(c), V: hx(v)} }
		var qs []QCase
		for _, w := range []int{64, 80, 200} {
			and := &Ex{Op: "A"}
			or := &Ex{Op: "O"}
			for k := 0; k < w; k++ {
				and.Kids = append(and.Kids, &Ex{Op: "N", Kids: []*Ex{E("u", fmt.Sprint(k))}})
				or.Kids = append(or.Kids, E("u", fmt.Sprint(k*2)))
			}
			and.Kids = append(and.Kids, E("a", "1"))
			qs = append(qs, QCase{E: and}, QCase{E: or}, QCase{E: &Ex{Op: "N", Kids: []*Ex{and}}}, QCase{E: &Ex{Op: "A", Kids: []*Ex{or, E("b", "0")}}, GB: []string{hx("a")}})
		}
		for _, procs := range []int{128, 1, 3} {
			old := runtime.GOMAXPROCS(procs)
			procsPinned.Store(true)
			for _, pre := range []bool{false, true} {
				c := &IdxCase{Data: d, Writer: "mem", Preload: pre, Cache: -1, Queries: qs}
				runIdxCase(o, c, rep, flagsFor("C01"))
				rep.Count(fmt.Sprintf("wide-nodes-gomaxprocs=%d", procs))
			}
			procsPinned.Store(false)
			runtime.GOMAXPROCS(old)
		}
	}
	sizes := []int{1000, 4096}
	if tier == "thorough" {
		sizes = append(boundarySizes, 150000)
		// one value held by more than 2^18 rows, both writers
		for _, w := range []string{"mem", "big"} {
			d := &DataSpec{Seed: r.U64(), NRows: 300000, Cols: []ColSpec{{Name: hx("country"), NVals: 30, Dist: "dense", Style: "ascii"}}}
			E := func(c, v string) *Ex { return &Ex{Op: "E", C: hx(c), V: hx(v)} }
			c := &IdxCase{Data: d, Writer: w, Cache: -1, Queries: []QCase{{E: E("country", "0")}, {E: &Ex{Op: "N", Kids: []*Ex{E("country", "0")}}}, {E: &Ex{Op: "O", Kids: []*Ex{E("country", "0"), E("country", "1")}}}}}
			runIdxCase(o, c, rep, flagsFor("C01"))
			rep.Count("value-with-300000-rows")
		}
	}
	for _, n := range sizes {
		for _, w := range writers {
			if n > 70000 && w == "big" && tier != "thorough" {
				continue
			}
			d := genDataSpecN(r, n, false)
			c := genIdxCase(r, d, 8, 4, false, false)
			c.Writer = w
			runIdxCase(o, c, rep, flagsFor("C01"))
			rep.Count("boundary-size-datasets")
		}
	}
	rep.OracleCalls = o.n
}

func runC02(rep *Report, r *Rng, tier string) {
	rep.Rule = "as C01 with group-by lists of length 0..6 over existing, repeated and unknown columns; whole Groups list compared in order (columns, values, counts); non-trivial = expression with >=2 nodes and non-zero count; distinct by (dataset seed, writer, getter, query, expected)"
	o := StartOracle()
	defer o.Close()
	n := 150
	if tier == "thorough" {
		n = 900
	}
	for i := 0; i < n; i++ {
		d := genDataSpec(r, 1500, false)
		c := genIdxCase(r, d, 10, 3, true, true)
		if i%3 == 0 {
			c.Other = genDataSpec(r, 200, false)
			for qi := range c.Queries {
				c.Queries[qi].Repeat = 1
			}
		}
		rep.Sample0(c)
		runIdxCase(o, c, rep, flagsFor("C02"))
	}
	if tier == "thorough" {
		for _, n := range []int{4097, 65537} {
			d := genDataSpecN(r, n, false)
			c := genIdxCase(r, d, 6, 3, true, false)
			runIdxCase(o, c, rep, flagsFor("C02"))
		}
	}
	rep.OracleCalls = o.n
}

func runC05(rep *Report, r *Rng, tier string) {
	defer envProbes(rep, "C05", false)
	defer callerOwnedHandle(rep, "C05")
	rep.Rule = "AddRow sequences x 3 writers x 2 getters x 0..3 close/reopen cycles; compared: AddRow ids, bolt key set + row counter vs model image (xxhash64 in Lean), GetSchema vs model and spec, per-value and per-row probes (group-by over a unique column); non-trivial = probe with non-zero count; distinct by (dataset, writer, query, expected)"
	o := StartOracle()
	defer o.Close()
	n := 90
	if tier == "thorough" {
		n = 500
	}
	for i := 0; i < n; i++ {
		d := genDataSpec(r, 1200, false)
		if r.Chance(1, 3) {
			// unique per-row column so that exact row membership is observable
			d.Cols = append(d.Cols, ColSpec{Name: hx("rowid"), NVals: 1, Dist: "unique", Style: "ascii"})
		}
		c := genIdxCase(r, d, 6, 2, true, false)
		c.Reopen = r.Intn(4)
		// per-row probe: group by rowid plus another column
		rows := d.Materialize()
		pool := poolOf(rows)
		if len(pool.cols) > 0 && len(rows) <= 600 {
			any := pool.leaf(r, false)
			c.Queries = append(c.Queries, QCase{E: &Ex{Op: "O", Kids: []*Ex{any, {Op: "N", Kids: []*Ex{any}}}}, GB: []string{hx(Pick(r, pool.cols)), hx(pool.cols[0])}})
		}
		rep.Sample0(c)
		runIdxCase(o, c, rep, flagsFor("C05"))
	}
	// corpus: a (column,value) pair whose value index (xxhash64 of "c\x00"+value) is 0 — found by inverting xxhash64
	for _, w := range writers {
		zero := "6161616161613904f41fb0d71f19"
		d := &DataSpec{Rows: [][]string{{hx("c"), zero, hx("d"), hx("1")}, {hx("c"), hx("other")}, {hx("c"), zero}}}
		c := &IdxCase{Data: d, Writer: w, Cache: -1, Queries: []QCase{{E: &Ex{Op: "E", C: hx("c"), V: zero}, GB: []string{hx("c")}}, {E: &Ex{Op: "N", Kids: []*Ex{{Op: "E", C: hx("c"), V: zero}}}}}}
		runIdxCase(o, c, rep, flagsFor("C05"))
		rep.Count("corpus-hash-zero")
	}
	// a writer used twice (WriteToBoltDatabase, then Flush) still writes everything the second time
	for k := 0; k < 4; k++ {
		d := genDataSpec(r, 1500, false)
		c := genIdxCase(r, d, 6, 2, true, false)
		c.Writer = "mem2"
		runIdxCase(o, c, rep, flagsFor("C05"))
		rep.Count("writer-used-twice")
	}
	// one single (column,value) pair holding for exactly 4096*k rows (and one more): container / batching boundaries
	// for the value with the largest (only) value index
	for _, n := range []int{4096, 4097, 8192} {
		for _, w := range writers {
			d := &DataSpec{Seed: r.U64(), NRows: n, Cols: []ColSpec{{Name: hx("k"), NVals: 1, Dist: "dense", Style: "ascii"}}}
			c := &IdxCase{Data: d, Writer: w, Cache: -1, Queries: []QCase{{E: &Ex{Op: "E", C: hx("k"), V: hx("0")}, GB: []string{hx("k")}}, {E: &Ex{Op: "N", Kids: []*Ex{{Op: "E", C: hx("k"), V: hx("0")}}}}}}
			runIdxCase(o, c, rep, flagsFor("C05"))
			rep.Count("single-value-4096-boundary")
		}
	}
	// rows with far more columns than usual (100 and 300 pairs in one AddRow), every writer
	for _, w := range writers {
		var rws [][]string
		for i := 0; i < 40; i++ {
			var row []string
			ncol := 3
			if i%4 == 0 {
				ncol = 100
			}
			if i == 20 {
				ncol = 300
			}
			for cidx := 0; cidx < ncol; cidx++ {
				row = append(row, hx(fmt.Sprintf("c%03d", cidx)), hx(fmt.Sprintf("v%d", (i+cidx)%3)))
			}
			rws = append(rws, row)
		}
		d := &DataSpec{Rows: rws}
		E := func(c, v string) *Ex { return &Ex{Op: "E", C: hx(c), V: hx(v)} }
		var qs []QCase
		for _, cidx := range []int{0, 2, 63, 64, 65, 88, 99, 128, 129, 130, 255, 256, 299} {
			for v := 0; v < 3; v++ {
				qs = append(qs, QCase{E: E(fmt.Sprintf("c%03d", cidx), fmt.Sprintf("v%d", v))})
			}
		}
		c := &IdxCase{Data: d, Writer: w, Cache: -1, Queries: qs}
		runIdxCase(o, c, rep, flagsFor("C05"))
		rep.Count("wide-rows")
	}
	// a leftover file next to the output (<output>.tmp holding an old index) must not influence the new index
	for k := 0; k < 2; k++ {
		d := genDataSpec(r, 300, false)
		c := genIdxCase(r, d, 6, 2, true, false)
		c.Writer = "mem"
		c.StaleTmp = true
		runIdxCase(o, c, rep, flagsFor("C05"))
		rep.Count("stale-neighbour-file")
	}
	// more than 65536 distinct values (not a multiple of 16 or 1000)
	{
		n := 70001
		d := &DataSpec{Seed: r.U64(), NRows: n, Cols: []ColSpec{{Name: hx("id"), NVals: 1, Dist: "unique", Style: "ascii"}, {Name: hx("g"), NVals: 3, Dist: "random", Style: "ascii"}}}
		for _, w := range []string{"mem", "big"} {
			if w == "big" && tier != "thorough" {
				continue
			}
			E := func(v int) *Ex { return &Ex{Op: "E", C: hx("id"), V: hx(fmt.Sprint(v))} }
			c := &IdxCase{Data: d, Writer: w, Cache: -1, Queries: []QCase{{E: E(0)}, {E: E(65535)}, {E: E(65536)}, {E: E(69999)}, {E: E(70000), GB: []string{hx("g")}}, {E: &Ex{Op: "O", Kids: []*Ex{E(69984), E(69985), E(69990), E(69995), E(69998)}}}}}
			runIdxCase(o, c, rep, flagsFor("C05"))
			rep.Count("more-than-65536-values")
		}
	}
	// both writers on the same rows give the same file contents (keys) and answers: batch boundaries
	sizes := []int{1001, 2500}
	if tier == "thorough" {
		sizes = []int{999, 1000, 1001, 2000, 2001, 3001, 70000}
	}
	for _, n := range sizes {
		d := genDataSpecN(r, n, false)
		d.Cols = append(d.Cols, ColSpec{Name: hx("many"), NVals: 2300, Dist: "random", Style: "ascii"})
		for _, w := range writers {
			c := genIdxCase(r, d, 5, 2, true, false)
			c.Writer = w
			c.Reopen = 1
			runIdxCase(o, c, rep, flagsFor("C05"))
			rep.Count("batch-boundary-datasets")
		}
	}
	rep.OracleCalls = o.n
}

// reuseAcrossLifetimes: one grouped *Query value is executed on a series of indexes that are opened, used, closed and
// dropped one after the other (garbage collections in between), each holding other values in the group-by column;
// every answer equals a fresh equal query's on that index.
func reuseAcrossLifetimes(rep *Report, r *Rng) {
	q := &updog.Query{Expr: &updog.ExprNot{Expr: &updog.ExprEqual{Column: "k", Value: "none"}}, GroupBy: []string{"k", "g"}}
	rounds := 40
	for round := 0; round < rounds; round++ {
		var rows []map[string]string
		for i := 0; i < 30; i++ {
			rows = append(rows, map[string]string{"k": fmt.Sprintf("v%d", (i%5)*(round%4+1)+round%3), "g": fmt.Sprint(i % 2)})
		}
		path := scratch(fmt.Sprintf("c08-life-%d.updog", round%3))
		os.Remove(path)
		if _, err := buildIndexFile("mem", rows, path); err != nil {
			infra("build: %v", err)
		}
		idx, _, err := openIdx(path, round%2 == 0, -1)
		if err != nil {
			infra("open: %v", err)
		}
		got := safeExecute(idx, q)
		want := safeExecute(idx, &updog.Query{Expr: &updog.ExprNot{Expr: &updog.ExprEqual{Column: "k", Value: "none"}}, GroupBy: []string{"k", "g"}})
		idx.Close()
		idx = nil
		os.Remove(path)
		runtime.GC()
		runtime.GC()
		rep.Eval(fmt.Sprintf("lifetimes-%d", round), true)
		rep.Count("reuse-across-index-lifetimes")
		if got != want {
			rep.Violate(Violation{Kind: "history", Signature: "C08:reexecute-on-other-index-mismatch", What: fmt.Sprintf("a grouped Query value re-used on the %d-th index of a series (each opened, used, closed, dropped; GC in between) answers differently from a fresh equal query", round+1), Expected: trunc(want, 400), Actual: trunc(got, 400), Case: map[string]any{"scenario": "reuse across index lifetimes", "round": round}})
			return
		}
	}
}

func runC08(rep *Report, r *Rng, tier string) {
	defer reuseAcrossLifetimes(rep, r)
	rep.Rule = "queries (with/without group-by) executed 2..5 times through the SAME *Query value on one index, then on other indexes; each execution compared with the model answer for a fresh query; caller-visible fields compared before/after; non-trivial = grouped query with non-zero count; distinct by (dataset, query, expected)"
	o := StartOracle()
	defer o.Close()
	n := 120
	if tier == "thorough" {
		n = 1000
	}
	for i := 0; i < n; i++ {
		d := genDataSpec(r, 500, false)
		c := genIdxCase(r, d, 8, 3, true, true)
		for qi := range c.Queries {
			c.Queries[qi].Repeat = 1 + r.Intn(4)
		}
		if r.Chance(2, 3) {
			c.Other = genDataSpec(r, 200, false) // overlapping but different columns: some queries fail there
		}
		rep.Sample0(c)
		runIdxCase(o, c, rep, flagsFor("C08"))
	}
	rep.OracleCalls = o.n
}

// Sample0 keeps a sample without the bulky materialised data.
func (r *Report) Sample0(c *IdxCase) {
	if len(r.Samples) < 3 {
		r.Sample(c)
	}
}

// ---------- C03: cache transparency ----------

func keyString(e *Ex) string {
	return fmt.Sprintf("ok %016x", updog.VerifCacheKey(toExpr(e)))
}

// structured families aimed at key collisions: same leaves re-associated under different operators,
// duplicated operands, NOT pairs, permutations.
func c03Family(r *Rng, p *leafPool) []*Ex {
	l := func() *Ex { return p.leaf(r, false) }
	a, b, c := l(), l(), l()
	N := func(x *Ex) *Ex { return &Ex{Op: "N", Kids: []*Ex{x}} }
	A := func(xs ...*Ex) *Ex { return &Ex{Op: "A", Kids: xs} }
	O := func(xs ...*Ex) *Ex { return &Ex{Op: "O", Kids: xs} }
	switch r.Intn(9) {
	case 0:
		return []*Ex{A(O(a, c), O(b, c)), A(N(a), N(b))}
	case 1:
		return []*Ex{A(a, a, b), A(b), A(a, a), A(b, b), A(c, c)}
	case 2:
		return []*Ex{O(a, a, b), O(b), O(a, a), O(c, c)}
	case 3:
		return []*Ex{A(a, b), O(a, b), A(b, a), O(b, a), N(A(a, b)), N(O(a, b))}
	case 4:
		return []*Ex{N(N(a)), a, N(a), N(N(N(a)))}
	case 5:
		return []*Ex{A(O(a, b), c), O(A(a, b), c), A(a, O(b, c)), O(a, A(b, c)), A(a, b, c), O(a, b, c)}
	case 6:
		return []*Ex{A(A(a, b), c), A(a, A(b, c)), A(a, b, c), A(O(a), b), O(A(a), b)}
	case 7:
		return []*Ex{O(A(a, c), A(b, c)), O(N(a), N(b)), A(N(a), N(b)), N(O(a, b))}
	default:
		return []*Ex{A(a, N(a)), O(a, N(a)), A(N(a), a), O(b, N(b)), A(b, N(b))}
	}
}

func runC03(rep *Report, r *Rng, tier string) {
	defer envProbes(rep, "C03", false)
	defer driverCacheIsolation(rep, r, "C03")
	rep.Rule = "query histories (<=30 queries) on ONE open index with cache in {none, LRU 0, tiny, a few entries, ample} x {on-demand, preloaded}; every answer compared with the Lean model (cache-free) and with a freshly opened uncached index; histories mix random trees over a 2..5-leaf pool (many shared sub-expressions) with structured families (same leaves re-associated under different operators, duplicated operands, NOT pairs, permutations); plus the cache-key function compared with the model's key (xxhash64 in Lean) on every expression; non-trivial = query at history position >= 1 with non-zero count; distinct by (dataset, cache, history prefix hash, query)"
	o := StartOracle()
	defer o.Close()
	n := 250
	if tier == "thorough" {
		n = 2500
	}
	caps := []int64{-1, 0, 150, 700, 5000, 1 << 22}
	for i := 0; i < n; i++ {
		d := genDataSpec(r, 400, false)
		if d.NRows < 3 {
			d.NRows = 3 + r.Intn(40)
		}
		rows := d.Materialize()
		pool := poolOf(rows)
		if len(pool.cols) == 0 {
			continue
		}
		// shrink the leaf pool so that sub-expressions recur
		small := &leafPool{}
		for k := 0; k < 1+r.Intn(3) && k < len(pool.cols); k++ {
			ci := r.Intn(len(pool.cols))
			vs := pool.vals[ci]
			if len(vs) > 3 {
				vs = vs[:3]
			}
			small.cols = append(small.cols, pool.cols[ci])
			small.vals = append(small.vals, vs)
		}
		c := &IdxCase{Data: d, Writer: Pick(r, writers), Preload: r.Chance(1, 2), Cache: Pick(r, caps), Fresh: true}
		nq := 4 + r.Intn(26)
		for len(c.Queries) < nq {
			if r.Chance(1, 2) {
				for _, e := range c03Family(r, small) {
					c.Queries = append(c.Queries, QCase{E: e})
				}
			} else {
				q := QCase{E: genExpr(r, small, 1+r.Intn(4), false)}
				if r.Chance(1, 4) {
					q.GB = genGroupBy(r, small, false)
				}
				c.Queries = append(c.Queries, q)
			}
		}
		if r.Chance(1, 2) { // shuffle so that colliding pairs meet in both orders
			for k := len(c.Queries) - 1; k > 0; k-- {
				j := r.Intn(k + 1)
				c.Queries[k], c.Queries[j] = c.Queries[j], c.Queries[k]
			}
		}
		rep.Sample0(c)
		rep.Count(fmt.Sprintf("cache=%d", c.Cache))
		runIdxCase(o, c, rep, flagsFor("C03"))
		// internal tie: the code's cache key function = the model's
		for qi := range c.Queries {
			e := c.Queries[qi].E
			got := keyString(e)
			if want := o.Ask("idx key " + e.Toks()); want != got {
				rep.Violate(Violation{Kind: "obligation", Signature: "C03:cachekey-differs-from-model", What: "cacheKey() differs from the model's key function for " + e.Toks(), Expected: want, Actual: got, Case: c})
			}
			rep.Count("keys-compared")
		}
	}
	// corpus: a value containing a NUL byte is cached, then a query names a column that does NOT exist but whose name
	// and value split the same bytes at another NUL ("a\x00b","c" vs "a","b\x00c"): unknown column, whatever is cached
	for _, cache := range []int64{-1, 1 << 20} {
		for _, pre := range []bool{false, true} {
			d := &DataSpec{Rows: [][]string{{hx("a"), hx("b\x00c"), hx("z"), hx("1")}, {hx("a"), hx("b\x00c")}, {hx("a"), hx("q"), hx("z"), hx("2")}}}
			E := func(c, v string) *Ex { return &Ex{Op: "E", C: hx(c), V: hx(v)} }
			c := &IdxCase{Data: d, Writer: "mem", Preload: pre, Cache: cache, Fresh: true, NulSplit: true, Queries: []QCase{
				{E: E("a", "b\x00c")}, {E: E("a\x00b", "c")}, {E: &Ex{Op: "O", Kids: []*Ex{E("a\x00b", "c"), E("a", "q")}}, GB: []string{hx("z")}},
				{E: &Ex{Op: "N", Kids: []*Ex{E("a", "b\x00c")}}}, {E: &Ex{Op: "N", Kids: []*Ex{E("a\x00b", "c")}}}}}
			runIdxCase(o, c, rep, flagsFor("C03"))
			rep.Count("nul-split-unknown-column")
		}
	}
	// several goroutines look up cold leaves at the same moment (a server right after start, a connection pool), then
	// the SAME index answers sequential queries: what the concurrent phase left in the cache must be right
	for round := 0; round < 6; round++ {
		d := &DataSpec{Seed: r.U64(), NRows: 3000, Cols: []ColSpec{{Name: hx("k"), NVals: 600, Dist: "random", Style: "ascii"}, {Name: hx("g"), NVals: 3, Dist: "random", Style: "ascii"}}}
		rows := d.Materialize()
		path := scratch(fmt.Sprintf("c03-warm-%d.updog", round))
		os.Remove(path)
		if _, err := buildIndexFile("mem", rows, path); err != nil {
			infra("build: %v", err)
		}
		idx, _, err := openIdx(path, round%2 == 1, 1<<24)
		fresh, _, err2 := openIdx(path, false, -1)
		if err != nil || err2 != nil {
			infra("open: %v %v", err, err2)
		}
		var wg sync.WaitGroup
		for g := 0; g < 8; g++ {
			wg.Add(1)
			go func(g int) {
				defer wg.Done()
				for k := g; k < 600; k += 8 {
					safeExecute(idx, &updog.Query{Expr: &updog.ExprEqual{Column: "k", Value: fmt.Sprint(k)}})
				}
			}(g)
		}
		wg.Wait()
		bad := 0
		first := ""
		for k := 0; k < 600; k++ {
			q := func() *updog.Query {
				return &updog.Query{Expr: &updog.ExprOr{Exprs: []updog.Expression{&updog.ExprEqual{Column: "k", Value: fmt.Sprint(k)}, &updog.ExprEqual{Column: "k", Value: fmt.Sprint((k + 1) % 600)}}}}
			}
			got, want := safeExecute(idx, q()), safeExecute(fresh, q())
			if got != want {
				bad++
				if first == "" {
					first = fmt.Sprintf("k=%d|k=%d: cached index %s, fresh uncached index %s", k, (k+1)%600, got, want)
				}
			}
		}
		idx.Close()
		fresh.Close()
		os.Remove(path)
		rep.Eval(fmt.Sprintf("concurrent-warmup-%d", round), true)
		rep.Count("concurrent-warmup-rounds")
		if bad > 0 {
			rep.Violate(Violation{Kind: "schedule", Signature: "C03:differs-from-fresh", What: fmt.Sprintf("after 8 goroutines looked up 600 cold leaves at once, %d of 600 sequential queries on the same cached index differ from a fresh uncached index; first: %s", bad, first), Expected: "equal answers", Actual: first, Case: map[string]any{"scenario": "concurrent warm-up", "preload": round%2 == 1, "seed": d.Seed}})
			break
		}
	}
	if tier == "thorough" {
		for k := 0; k < 3; k++ {
			n := []int{70000, 100000, 140000}[k]
			d := &DataSpec{Seed: r.U64(), NRows: n, Cols: []ColSpec{
				{Name: hx("region"), NVals: 2, Dist: "block", Style: "ascii"}, // whole aligned 65536-row blocks of one value
				{Name: hx("e"), NVals: 5, Dist: "edge", Style: "ascii"},
				{Name: hx("tier"), NVals: 3, Dist: "random", Style: "ascii"},
				{Name: hx("status"), NVals: 50, Dist: "random", Style: "ascii"},
				{Name: hx("b"), NVals: 2, Dist: "dense", Style: "ascii"}}}
			E := func(c, v string) *Ex { return &Ex{Op: "E", C: hx(c), V: hx(v)} }
			N := func(x *Ex) *Ex { return &Ex{Op: "N", Kids: []*Ex{x}} }
			A := func(xs ...*Ex) *Ex { return &Ex{Op: "A", Kids: xs} }
			O := func(xs ...*Ex) *Ex { return &Ex{Op: "O", Kids: xs} }
			for _, cache := range []int64{-1, 1 << 24} {
				for _, pre := range []bool{false, true} {
					c := &IdxCase{Data: d, Writer: "mem", Preload: pre, Cache: cache, Fresh: true, Queries: []QCase{
						{E: A(O(E("region", "0"), E("region", "1"), E("tier", "2")), N(E("status", "7")))},
						{E: E("region", "0")}, {E: N(E("region", "0"))}, {E: A(E("region", "0"), E("status", "7"))},
						{E: A(E("b", "0"), O(E("tier", "0"), E("tier", "1"), E("region", "1")))},
						{E: A(O(E("b", "0"), E("region", "1"), E("tier", "1")), N(E("tier", "0")), N(E("status", "3")))},
						{E: E("b", "0")}, {E: E("region", "1"), GB: []string{hx("tier")}},
						{E: A(O(E("e", "1"), E("region", "0"), E("e", "2"), E("tier", "1")), N(E("status", "3")), N(E("e", "0")))},
						{E: E("region", "0")}, {E: E("region", "1")}, {E: A(E("tier", "0"), O(E("e", "0"), E("e", "2"), E("e", "3")))},
						{E: O(N(E("region", "1")), A(E("tier", "1"), N(E("b", "0"))))}, {E: E("tier", "2")}, {E: E("status", "7")}, {E: E("region", "0")}}}
					runIdxCase(o, c, rep, flagsFor("C03"))
					rep.Count("large-index-histories")
				}
			}
		}
	}
	rep.OracleCalls = o.n
}

func init() { runners["C03"] = runC03 }

// concurrentCreators: several writers holding DIFFERENT data flush to the same output path at the same moment (as
// goroutines; `updog create` processes do the same). Exactly one may succeed, and the file is that writer's index —
// never a blend. Compared by probing each writer's own marker value.
func concurrentCreators(rep *Report, prop string, rounds int) {
	for round := 0; round < rounds; round++ {
		path := scratch(fmt.Sprintf("race-create-%d.updog", round))
		os.Remove(path)
		const n = 8
		ws := make([]*updog.IndexWriter, n)
		for k := range ws {
			ws[k] = updog.NewIndexWriter(path)
			for i := 0; i < 50+30*k; i++ {
				ws[k].AddRow(map[string]string{"builder": fmt.Sprintf("b%d", k), "shared": fmt.Sprint(i % 3)})
			}
		}
		errs := make([]error, n)
		start := make(chan struct{})
		var wg sync.WaitGroup
		for k := range ws {
			wg.Add(1)
			go func(k int) {
				defer wg.Done()
				<-start
				errs[k] = ws[k].Flush()
			}(k)
		}
		close(start)
		wg.Wait()
		var winners []int
		for k, e := range errs {
			if e == nil {
				winners = append(winners, k)
			}
		}
		rep.Count("concurrent-creator-rounds")
		c := map[string]any{"creators": n, "round": round}
		if len(winners) != 1 {
			rep.Violate(Violation{Kind: "schedule", Signature: prop + ":concurrent-creators", What: fmt.Sprintf("%d writers flushed different data to one path at the same time: %d of them reported success", n, len(winners)), Expected: "exactly one", Actual: fmt.Sprint(winners), Case: c})
			os.Remove(path)
			os.Remove(path + ".tmp")
			return
		}
		idx, _, err := openIdx(path, false, -1)
		if err != nil {
			rep.Violate(Violation{Kind: "schedule", Signature: prop + ":concurrent-creators", What: "the output of the one successful Flush does not open: " + err.Error(), Expected: "opens", Actual: err.Error(), Case: c})
			os.Remove(path)
			return
		}
		w := winners[0]
		for k := 0; k < n; k++ {
			want := "ok 0"
			if k == w {
				want = fmt.Sprintf("ok %d", 50+30*k)
			}
			if got := safeExecute(idx, &updog.Query{Expr: &updog.ExprEqual{Column: "builder", Value: fmt.Sprintf("b%d", k)}}); got != want {
				rep.Violate(Violation{Kind: "schedule", Signature: prop + ":concurrent-creators", What: fmt.Sprintf("after writer %d won the race for the path, builder=b%d counts differently from writer %d's own data", w, k, w), Expected: want, Actual: got, Case: c})
				break
			}
		}
		idx.Close()
		os.Remove(path)
		os.Remove(path + ".tmp")
	}
}

// callerOwnedHandle: a bbolt handle the CALLER opened (read-only) is handed to OpenIndexFromBoltDatabase several times;
// Index values made from it are dropped without Close (closing would close the caller's handle) and the garbage
// collector runs. The handle stays the caller's: a later Index made from it answers like the first.
func callerOwnedHandle(rep *Report, prop string) {
	path := scratch("caller-owned.updog")
	os.Remove(path)
	var rows []map[string]string
	for i := 0; i < 300; i++ {
		rows = append(rows, map[string]string{"k": fmt.Sprint(i % 5), "id": fmt.Sprint(i)})
	}
	if _, err := buildIndexFile("mem", rows, path); err != nil {
		infra("build: %v", err)
	}
	defer os.Remove(path)
	res := watchdog(60*time.Second, func() string {
		db, err := bbolt.Open(path, 0600, &bbolt.Options{ReadOnly: true, Timeout: 2 * time.Second})
		if err != nil {
			return "bolt: " + err.Error()
		}
		defer db.Close()
		q := func() string {
			idx, err := updog.OpenIndexFromBoltDatabase(db)
			if err != nil {
				return "open: " + err.Error()
			}
			return safeExecute(idx, &updog.Query{Expr: &updog.ExprEqual{Column: "k", Value: "2"}, GroupBy: []string{"k"}})
		}
		first := q()
		for i := 0; i < 3; i++ {
			runtime.GC()
			time.Sleep(30 * time.Millisecond)
		}
		second := q()
		if first != second {
			return fmt.Sprintf("differs: first %s, after the earlier Index was collected %s", first, second)
		}
		return "ok " + first
	})
	rep.Eval("caller-owned-handle", true)
	rep.Count("caller-owned-handle")
	if want := "ok ok 60 g " + hx("k") + "=" + hx("2") + ":60"; res != want {
		rep.Violate(Violation{Kind: "history", Signature: prop + ":caller-owned-handle", What: "OpenIndexFromBoltDatabase on the caller's read-only bbolt handle, twice, with a garbage collection in between: " + res, Expected: want, Actual: res, Case: map[string]any{"scenario": "caller-owned read-only handle"}})
	}
}
