package main

import (
	"bytes"
	"encoding/csv"
	"encoding/json"
	"fmt"
	"github.com/akrennmair/updog"
	"go.etcd.io/bbolt"
	"os"
	"os/exec"
	"strconv"
	"strings"
	"syscall"
	"time"
	"unicode/utf8"
)

type CsvCase struct {
	Header  []string   `json:"header"`           // hex
	Records [][]string `json:"records"`          // hex
	Raw     string     `json:"raw,omitempty"`    // hex: raw file content for malformed cases (then Header/Records unused)
	RawOK   bool       `json:"raw_ok,omitempty"` // Raw is well-formed and means exactly Header/Records
	Big     bool       `json:"big"`
	Present string     `json:"present"`             // "" | garbage | index : pre-existing output
	Stale   bool       `json:"stale_tmp,omitempty"` // <output>.tmp holds the temp database of an earlier, killed `create --big` of similar data
}

func (c *CsvCase) fileBytes() []byte {
	if c.Raw != "" {
		return []byte(unhx(c.Raw))
	}
	var buf bytes.Buffer
	w := csv.NewWriter(&buf)
	rec := make([]string, len(c.Header))
	for i, h := range c.Header {
		rec[i] = unhx(h)
	}
	w.Write(rec)
	for _, r := range c.Records {
		rec := make([]string, len(r))
		for i, f := range r {
			rec[i] = unhx(f)
		}
		w.Write(rec)
	}
	w.Flush()
	return buf.Bytes()
}

var csvFieldAlphabet = []string{"", "x", "1", "a,b", "say \"hi\"", "line1\nline2", "ünï", " lead", "trail ", "\"", "tab\there", "0", "-1", "日本語", "a\"\"b", ";", "'", " ", "\t", "%s", "caf\xe9", "\xff\xfe", "\x80"}
var headerPool = []string{"a", "B", "Na me", "K2", "Äb", "x-y", "COUNT", "q_", "Zz9", "é", "u v w", "İd", "K", "hello.world", "A1", "b!"}

func runCsvCase(o *Oracle, c *CsvCase, rep *Report, valid string) {
	csvPath := scratch("in.csv")
	os.WriteFile(csvPath, c.fileBytes(), 0644)
	out := scratch("out.updog")
	os.Remove(out)
	defer os.Remove(out)
	switch c.Present {
	case "garbage":
		os.WriteFile(out, []byte("do not touch"), 0644)
	case "index":
		copyFile(valid, out)
	}
	if c.Stale && c.Present == "" && c.Raw == "" && len(c.Records) > 0 {
		leaveStaleTemp(o, c, out+".tmp")
		defer os.Remove(out + ".tmp")
		rep.Count("stale-temp-db")
	}
	before := sha(out)
	msg, err := runCreate(csvPath, out, c.Big, 30*time.Second)
	outcome := "ok"
	if err != nil {
		outcome = "err"
		if strings.Contains(err.Error(), "timeout") {
			outcome = "hang"
		}
	}
	viol := func(sig, what, exp, act string) {
		rep.Violate(Violation{Kind: "input", Signature: sig, What: what + fmt.Sprintf(" [big=%v present=%q]", c.Big, c.Present), Expected: exp, Actual: trunc(act, 600), Case: c})
	}
	wellFormed := c.Raw == "" || c.RawOK
	rep.Eval(fmt.Sprintf("%x", sha256sum(c.fileBytes()))+fmt.Sprint(c.Big, c.Present), wellFormed && len(c.Records) > 0)
	rep.Count(fmt.Sprintf("big=%v present=%q wellformed=%v", c.Big, c.Present, wellFormed))
	if !wellFormed || c.Present != "" {
		if outcome != "err" {
			viol("C19:bad-input-"+outcome, "create on a malformed CSV or an existing output must exit non-zero", "err", outcome+": "+msg)
		}
		if after := sha(out); c.Present != "" && after != before {
			viol("C19:existing-output-touched", "create changed (or created) the output although it failed", before, after)
		}
		return
	}
	if outcome != "ok" {
		viol("C19:create-failed", "create failed on a well-formed CSV: "+msg, "ok", outcome)
		return
	}
	// expected rows: record i -> row i, column = normalised header (by the Lean model), values verbatim
	norm := make([]string, len(c.Header))
	for i, h := range c.Header {
		norm[i] = strings.TrimPrefix(o.Ask("fs hdr "+h), "ok ")
	}
	o.Send("idx reset")
	var rows []map[string]string
	for _, r := range c.Records {
		m := map[string]string{}
		for i, f := range r {
			m[unhx(norm[i])] = unhx(f)
		}
		rows = append(rows, m)
		o.Send(rowLine(m))
	}
	o.Send("idx build fast")
	idx, _, err := openIdx(out, false, -1)
	if err != nil {
		viol("C19:output-does-not-open", "index written by create does not open: "+err.Error(), "opens", err.Error())
		return
	}
	defer idx.Close()
	if got, want := schemaString(idx.GetSchema()), o.Ask("idx schema"); got != want {
		viol("C19:schema-differs", "schema of the created index differs from the model (record i = row i, normalised header)", want, got)
		return
	}
	// `updog schema -f <output>` lists every column with its number of distinct values
	if len(rows) > 0 {
		cmd := exec.Command(updogBin, "schema", "-f", out)
		outb, err := cmd.CombinedOutput()
		wantCols := map[string]int{}
		for k, n := range statsOf(rows).distinct {
			wantCols[k] = n
		}
		gotCols := map[string]int{}
		for i, line := range strings.Split(string(outb), "\n") {
			f := strings.Fields(line)
			if i == 0 || len(f) != 2 {
				continue
			}
			n, _ := strconv.Atoi(f[1])
			gotCols[f[0]] = n
		}
		rep.Count("schema-command-runs")
		if err != nil || fmt.Sprint(gotCols) != fmt.Sprint(wantCols) {
			viol("C19:schema-command", "`updog schema` on the created index does not list the columns with their distinct-value counts", fmt.Sprint(wantCols), fmt.Sprintf("%v %v", gotCols, err))
		}
	}
	pool := poolOf(rows)
	r := NewRng(uint64(len(rows)) + 17)
	// every (column,value) pair of the first records is probed on its own: field contents preserved exactly
	for ri := 0; ri < len(rows) && ri < 6; ri++ {
		for k, v := range rows[ri] {
			q := QCase{E: &Ex{Op: "E", C: hx(k), V: hx(v)}}
			got, want := safeExecute(idx, toQuery(&q)), o.Ask("idx q "+q.Toks())
			if got != want {
				viol("C19:index-differs", "probe "+q.Toks()+" on the created index differs from the model", trunc(want, 300), got)
				return
			}
		}
	}
	for k := 0; k < 12 && len(pool.cols) > 0; k++ {
		q := QCase{E: genExpr(r, pool, 1+r.Intn(2), false), GB: genGroupBy(r, pool, false)}
		if len(q.GB) > 3 {
			q.GB = q.GB[:3]
		}
		got, want := safeExecute(idx, toQuery(&q)), o.Ask("idx q "+q.Toks())
		if got != want {
			viol("C19:index-differs", "probe "+q.Toks()+" on the created index differs from the model", trunc(want, 300), got)
			return
		}
	}
}

// leaveStaleTemp writes, at path, what a big-mode build killed after its first temp commit leaves behind: a bbolt
// database with the big writer's temp bucket holding (value index, row id) keys of rows made of the same columns and
// values as the case's records.
func leaveStaleTemp(o *Oracle, c *CsvCase, path string) {
	os.Remove(path)
	junk := path + ".junk-out"
	os.Remove(junk)
	db, err := bbolt.Open(junk, 0644, boltOpts)
	if err != nil {
		return
	}
	defer os.Remove(junk)
	defer db.Close()
	tdb, err := bbolt.Open(path, 0600, boltOpts)
	if err != nil {
		return
	}
	defer tdb.Close()
	w, err := updog.NewBigIndexWriter(db, tdb)
	if err != nil {
		return
	}
	defer w.Close()
	norm := make([]string, len(c.Header))
	for i, h := range c.Header {
		norm[i] = unhx(strings.TrimPrefix(o.Ask("fs hdr "+h), "ok "))
	}
	for i := 0; i < 1100; i++ { // past the writer's 1000-row commit
		rec := c.Records[i%len(c.Records)]
		m := map[string]string{}
		for j, f := range rec {
			m[norm[j]] = unhx(f)
		}
		if _, err := w.AddRow(m); err != nil {
			return
		}
	}
}

func genCsvCase(r *Rng) *CsvCase {
	c := &CsvCase{Big: r.Chance(1, 2), Stale: r.Chance(1, 3)}
	nc := 1 + r.Intn(5)
	used := map[string]bool{}
	for len(c.Header) < nc {
		h := Pick(r, headerPool)
		// headers must stay distinct after normalisation: approximate with the same rule in Go
		n := goNormalize(h)
		if used[n] {
			continue
		}
		used[n] = true
		c.Header = append(c.Header, hx(h))
	}
	nr := Pick(r, []int{0, 1, 2, 5, 20, 100})
	for i := 0; i < nr; i++ {
		var rec []string
		for j := 0; j < nc; j++ {
			if r.Chance(1, 3) {
				rec = append(rec, hx(fmt.Sprint(r.Intn(4))))
			} else {
				rec = append(rec, hx(Pick(r, csvFieldAlphabet)))
			}
		}
		c.Records = append(c.Records, rec)
	}
	// encoding/csv skips empty lines: a record consisting of one empty field would vanish; avoid that shape
	if nc == 1 {
		for _, rec := range c.Records {
			if rec[0] == "-" { // csv.Writer would write an empty line, which readers skip: not a record
				rec[0] = hx(Pick(r, []string{" ", "\t", "  ", "e"}))
			}
		}
	}
	return c
}

// only used to keep generated headers distinct; the expectation itself comes from the Lean model
func goNormalize(h string) string {
	var b strings.Builder
	for _, r := range strings.ToLower(h) {
		if r >= 'a' && r <= 'z' {
			b.WriteRune(r)
		} else {
			b.WriteRune('_')
		}
	}
	return b.String()
}

var malformedCSVs = []string{
	"a,b\n1,2\n3\n",           // ragged (short)
	"a,b\n1,2,3\n",            // ragged (long)
	"a,b\n1,\"2\n",            // unterminated quote
	"a,b\n1,2\"x\n",           // bare quote
	"a,b\n1,2\n\"x\"y,3\n",    // quote in the middle
	"",                        // no header at all
	"a,b\n1,2\n3,4\n5\n6,7\n", // ragged in the middle
}

func runC19(rep *Report, r *Rng, tier string) {
	defer func() {
		for _, big := range []bool{false, true} {
			for _, sig := range []syscall.Signal{syscall.SIGTERM, syscall.SIGINT} {
				terminatedCreate(rep, "C19", big, sig)
			}
			terminatedCreateX(rep, "C19", big, syscall.SIGINT, true)
			terminatedCreateX(rep, "C19", big, 0, false)
		}
	}()
	rep.Rule = "the built `updog create` binary on generated CSV files (headers with spaces, upper case, digits, punctuation, non-ASCII incl. U+0130/U+212A; fields with quotes, commas, newlines, non-ASCII, empty; 0..100 records) x {normal, --big} x output {absent, arbitrary file, valid index}; malformed CSVs (ragged, bare/unterminated quotes, empty file); exit status under a watchdog; output opened with OpenIndex: schema and probes compared with the model (Lean normalizeHeader + record i = row i); SHA-256 of a pre-existing output unchanged; thorough: header normalisation compared over all 1,114,112 code points and all 256 single bytes; non-trivial = well-formed CSV with >= 1 record; distinct by (file content, mode, output state)"
	o := StartOracle()
	defer o.Close()
	valid := scratch("c19-valid.updog")
	os.Remove(valid)
	if _, err := buildIndexFile("mem", genDataSpecN(r, 30, true).Materialize(), valid); err != nil {
		infra("build: %v", err)
	}
	n := 40
	if tier == "thorough" {
		n = 400
	}
	for i := 0; i < n; i++ {
		c := genCsvCase(r)
		if r.Chance(1, 8) {
			c.Present = Pick(r, []string{"garbage", "index"})
		}
		if i < 2 {
			rep.Sample(c)
		}
		runCsvCase(o, c, rep, valid)
		if i%4 == 0 { // the same file in the other mode: both modes give observationally identical indexes
			c2 := *c
			c2.Big = !c.Big
			runCsvCase(o, &c2, rep, valid)
		}
	}
	// corpus: a well-formed CSV onto an existing output, both kinds of existing file, both modes (the command must fail
	// and the existing file must be exactly as it was)
	for _, big := range []bool{false, true} {
		for _, present := range []string{"garbage", "index"} {
			c := &CsvCase{Big: big, Present: present, Header: []string{hx("k"), hx("v")}, Records: [][]string{{hx("a"), hx("1")}, {hx("b"), hx("2")}, {hx("a"), hx("3")}}}
			runCsvCase(o, c, rep, valid)
			rep.Count("corpus-existing-output")
		}
	}
	// corpus: prefix-related headers whose fields complete the same concatenation ("a"+"bx" = "ab"+"x")
	for _, big := range []bool{false, true} {
		c := &CsvCase{Big: big, Header: []string{hx("A"), hx("Ab"), hx("n")},
			Records: [][]string{{hx("bx"), hx("y"), hx("1")}, {hx("q"), hx("x"), hx("2")}, {hx("bx"), hx("x"), hx("3")}, {hx("b"), "-", hx("4")}}}
		runCsvCase(o, c, rep, valid)
		rep.Count("corpus-concatenation")
	}
	// one-column files with blank-looking fields: `""` (quoted empty) and whitespace are records like any other
	for _, big := range []bool{false, true} {
		c := &CsvCase{Big: big, RawOK: true, Raw: hx("name\n\"\"\nx\n \n\"\"\ny\n"), Header: []string{hx("name")},
			Records: [][]string{{"-"}, {hx("x")}, {hx(" ")}, {"-"}, {hx("y")}}}
		runCsvCase(o, c, rep, valid)
		rep.Count("corpus-blank-fields")
	}
	for _, m := range malformedCSVs {
		for _, big := range []bool{false, true} {
			for _, present := range []string{"", "index"} {
				runCsvCase(o, &CsvCase{Raw: hx(m), Big: big, Present: present}, rep, valid)
			}
		}
	}
	// header normalisation over many runes at once: one column whose name is a long rune sequence
	step := 4099
	if tier == "thorough" {
		step = 1
	}
	var sb strings.Builder
	cnt := 0
	flush := func() {
		if sb.Len() == 0 {
			return
		}
		c := &CsvCase{Header: []string{hx(sb.String())}, Records: [][]string{{hx("v")}}}
		runCsvCase(o, c, rep, valid)
		sb.Reset()
	}
	for cp := 0; cp <= 0x10FFFF; cp += step {
		if cp == '\n' || cp == '\r' || cp == '"' || cp == ',' || (cp >= 0xD800 && cp <= 0xDFFF) {
			continue // CSV syntax characters are exercised by the field alphabet; surrogates are not encodable
		}
		sb.WriteRune(rune(cp))
		cnt++
		if sb.Len() > 200000 {
			flush()
		}
	}
	flush()
	for b := 0x80; b < 0x100; b++ { // invalid UTF-8: every lone byte
		sb.WriteByte(byte(b))
		sb.WriteByte('x')
	}
	if !utf8.ValidString(sb.String()) {
		flush()
	}
	rep.CountN("header-code-points", cnt)
	rep.OracleCalls = o.n
}

func init() {
	runners["C19"] = runC19
	replayers["C19"] = func(rep *Report, b []byte) {
		var c CsvCase
		if err := json.Unmarshal(b, &c); err != nil {
			infra("bad case: %v", err)
		}
		o := StartOracle()
		defer o.Close()
		valid := scratch("c19-valid.updog")
		buildIndexFile("mem", genDataSpecN(NewRng(1), 30, true).Materialize(), valid)
		runCsvCase(o, &c, rep, valid)
	}
}
