package main

import (
	"encoding/json"
	"fmt"
	"runtime/debug"
	"strings"

	"github.com/RoaringBitmap/roaring"
	"github.com/akrennmair/updog"
)

type counter struct{ n int }

func (c *counter) Inc() { c.n++ }

type LruOpJ struct {
	Regrow bool   `json:"regrow,omitempty"` // Put again the SAME bitmap object last stored under the key, after adding values to it
	Get    bool   `json:"get,omitempty"`
	Key    uint64 `json:"key"`
	Size   int    `json:"size_class,omitempty"` // index into the bitmap size classes
}

type LruCase struct {
	LateMetrics bool     `json:"late_metrics,omitempty"` // counters set via the caller's *CacheMetrics after NewLRUCache
	Metrics     int      `json:"metrics,omitempty"`      // bit mask of configured counters: 1 hit, 2 miss, 4 get, 8 put; 0 = all
	Max         uint64   `json:"max"`
	Ops         []LruOpJ `json:"ops"`
	MemLimit    int64    `json:"mem_limit,omitempty"` // a Go soft memory limit (GOMEMLIMIT) in force while the cache is built and used
}

// bitmaps of various in-memory sizes (GetSizeInBytes): empty, tiny array, arrays, a bitmap container, many containers
var protoBitmaps [nSizeClasses + 1]*roaring.Bitmap

func bitmapOfClass(class int) *roaring.Bitmap {
	if protoBitmaps[class] == nil {
		protoBitmaps[class] = buildBitmapOfClass(class)
	}
	return protoBitmaps[class].Clone()
}

func buildBitmapOfClass(class int) *roaring.Bitmap {
	bm := roaring.New()
	switch class {
	case 0:
	case 1:
		bm.Add(1)
	case 2:
		for i := uint32(0); i < 40; i++ {
			bm.Add(i * 3)
		}
	case 3:
		for i := uint32(0); i < 1000; i++ {
			bm.Add(i * 7)
		}
	case 4:
		for i := uint32(0); i < 6000; i++ { // bitmap container: 8 KiB
			bm.Add(i * 2)
		}
	case 5:
		for i := uint32(0); i < 12000; i++ {
			bm.Add(i * 11)
		}
	default: // class 6: sixteen bitmap containers, about 128 KiB (used by the many-entries family only)
		for c := uint32(0); c < 16; c++ {
			for i := uint32(0); i < 6000; i++ {
				bm.Add(c<<16 + i*2)
			}
		}
	}
	return bm
}

const nSizeClasses = 6 // classes the random generators draw from; class 6 exists besides

func runLruCase(o *Oracle, c *LruCase, rep *Report) {
	hit, miss, get, put := &counter{}, &counter{}, &counter{}, &counter{}
	// every subset of the four optional counters may be configured; the configured ones must count exactly
	m := &updog.CacheMetrics{}
	mask := c.Metrics
	if mask == 0 {
		mask = 15
	}
	if mask&1 != 0 {
		m.CacheHit = hit
	}
	if mask&2 != 0 {
		m.CacheMiss = miss
	}
	if mask&4 != 0 {
		m.GetCall = get
	}
	if mask&8 != 0 {
		m.PutCall = put
	}
	if c.MemLimit > 0 {
		// the configured maximum is the caller's decision whatever the process environment says
		old := debug.SetMemoryLimit(c.MemLimit)
		defer debug.SetMemoryLimit(old)
	}
	var cache *updog.LRUCache
	if c.LateMetrics {
		// the counters are assigned through the caller's pointer after the cache was constructed
		late := &updog.CacheMetrics{}
		cache = updog.NewLRUCache(c.Max, updog.WithCacheMetrics(late))
		*late = *m
	} else {
		cache = updog.NewLRUCache(c.Max, updog.WithCacheMetrics(m))
	}
	ovh := updog.VerifLRUOverhead()
	lastPut := map[uint64]*roaring.Bitmap{}
	ids := map[*roaring.Bitmap]int{}
	byID := map[int]*roaring.Bitmap{}
	var req strings.Builder
	fmt.Fprintf(&req, "lru %d %d", c.Max, ovh)
	var trace []string
	retrievableOK := true
	var boundMsg string
	for i, op := range c.Ops {
		var ans string
		if op.Get {
			bm, ok := cache.Get(op.Key)
			if ok {
				ans = fmt.Sprintf("h%d", ids[bm])
			} else {
				ans = "m"
			}
			fmt.Fprintf(&req, " g:%d", op.Key)
		} else {
			bm := bitmapOfClass(op.Size)
			id := i + 1
			if prev, ok := lastPut[op.Key]; ok && op.Regrow {
				// the caller keeps the object it stored, adds to it and stores it again
				bm = prev
				for v := uint32(0); v < 3000; v++ {
					bm.Add(100000 + uint32(i)*4000 + v)
				}
				id = ids[bm]
			}
			lastPut[op.Key] = bm
			ids[bm] = id
			byID[id] = bm
			cache.Put(op.Key, bm)
			ans = "p"
			fmt.Fprintf(&req, " p:%d:%d:%d", op.Key, id, bm.GetSizeInBytes())
		}
		keys := updog.VerifLRUKeys(cache)
		ks := make([]string, len(keys))
		for j, k := range keys {
			ks[j] = fmt.Sprint(k)
		}
		cur, _ := updog.VerifLRUSizes(cache)
		trace = append(trace, fmt.Sprintf("%s;%s;%d", ans, strings.Join(ks, ","), cur))
		// the property's byte bound, stated on observables only: after every Put the summed size of all
		// bitmaps that are still retrievable does not exceed the maximum. Retrievability is probed on a
		// clone of the key list (probing through Get would disturb recency).
		if !op.Get && boundMsg == "" {
			var sum uint64
			for _, k := range keys {
				sum += entryBitmap(cache, k).GetSizeInBytes()
			}
			if sum > c.Max {
				boundMsg = fmt.Sprintf("after op %d: resident bitmaps sum to %d bytes > max %d", i, sum, c.Max)
			}
		}
	}
	_ = retrievableOK
	trace = append(trace, fmt.Sprintf("stats %d %d %d %d", get.n, put.n, hit.n, miss.n))
	got := strings.Join(trace, " ")
	want := o.Ask(req.String())
	if mask != 15 {
		// counters that are not configured stay 0 on the implementation side: mask the model's numbers likewise
		f := strings.Fields(want)
		st := f[len(f)-4:]
		if mask&4 == 0 {
			st[0] = "0"
		}
		if mask&8 == 0 {
			st[1] = "0"
		}
		if mask&1 == 0 {
			st[2] = "0"
		}
		if mask&2 == 0 {
			st[3] = "0"
		}
		want = strings.Join(f, " ")
	}
	fp := fmt.Sprintf("%d|%s", c.Max, req.String())
	rep.Eval(fp, hit.n > 0 && strings.Count(want, ";;") < len(c.Ops))
	if boundMsg != "" {
		rep.Violate(Violation{Kind: "history", Signature: "C07:byte-bound-exceeded", What: boundMsg, Expected: fmt.Sprintf("<= %d", c.Max), Actual: boundMsg, Case: c})
	}
	if got != want {
		sig := "C07:trace-mismatch"
		rep.Violate(Violation{Kind: "history", Signature: sig, What: "LRU trace (answers; resident keys in recency order; accounted size; counters) differs from the model: " + firstDiff(want, got), Expected: trunc(want, 1500), Actual: trunc(got, 1500), Case: c})
	}
}

// entryBitmap reads the bitmap stored under a resident key without touching recency or counters:
// a throw-away copy of the cache state is not available, so use Get on the real cache is avoided by
// looking the bitmap up through the ids of the last Put; here we use a side-channel free approach:
func entryBitmap(c *updog.LRUCache, k uint64) *roaring.Bitmap {
	return updog.VerifLRUPeek(c, k)
}

func firstDiff(a, b string) string {
	as, bs := strings.Split(a, " "), strings.Split(b, " ")
	for i := 0; i < len(as) && i < len(bs); i++ {
		if as[i] != bs[i] {
			return fmt.Sprintf("step %d: model %q, implementation %q", i, as[i], bs[i])
		}
	}
	return fmt.Sprintf("length %d vs %d", len(as), len(bs))
}

func genLruCase(r *Rng, nops int) *LruCase {
	ovh := updog.VerifLRUOverhead()
	caps := []uint64{0, 1, ovh, ovh + 7, ovh + 8, ovh + 9, 2*ovh + 20, 200, 3*ovh + 3000, 10000, 20000, 1 << 20}
	c := &LruCase{Max: Pick(r, caps)}
	nkeys := 1 + r.Intn(6)
	for i := 0; i < nops; i++ {
		k := uint64(r.Intn(nkeys))
		if r.Chance(2, 5) {
			c.Ops = append(c.Ops, LruOpJ{Get: true, Key: k})
		} else {
			c.Ops = append(c.Ops, LruOpJ{Key: k, Size: r.Intn(nSizeClasses), Regrow: r.Chance(1, 6)})
		}
	}
	return c
}

func runC07(rep *Report, r *Rng, tier string) {
	rep.Rule = "exhaustive Put/Get histories up to length L over 3 keys x 3 size classes x 5 capacities, plus random histories (1..6 keys, 6 bitmap size classes 8 B..24 KiB, 12 capacities incl. 0 and exactly-fitting); real roaring bitmaps, their GetSizeInBytes sent to the model; compared after every op: Get answer (bitmap identity), resident keys in recency order, accounted size, and finally the four counters; independently: sum of resident bitmap sizes <= max after every Put; non-trivial = history with at least one hit and at least one eviction-or-resident state; distinct by full history"
	o := StartOracle()
	defer o.Close()
	ovh := updog.VerifLRUOverhead()
	// exhaustive part
	L := 4
	if tier == "thorough" {
		L = 5
	}
	var alphabet []LruOpJ
	for k := uint64(0); k < 3; k++ {
		alphabet = append(alphabet, LruOpJ{Get: true, Key: k})
		for _, s := range []int{0, 2, 4} {
			alphabet = append(alphabet, LruOpJ{Key: k, Size: s})
		}
	}
	caps := []uint64{0, ovh + 8, 2*ovh + 200, 3*ovh + 400, 1 << 20}
	var rec func(prefix []LruOpJ, depth int)
	n := 0
	rec = func(prefix []LruOpJ, depth int) {
		if depth == 0 {
			for _, m := range caps {
				runLruCase(o, &LruCase{Max: m, Ops: prefix}, rep)
				n++
			}
			return
		}
		for _, a := range alphabet {
			rec(append(prefix[:len(prefix):len(prefix)], a), depth-1)
		}
	}
	for l := 1; l <= L; l++ {
		rec(nil, l)
	}
	rep.CountN("exhaustive-histories", n)
	rep.Note("exhaustive: all histories of length 1..%d over %d ops x %d capacities", L, len(alphabet), len(caps))
	// random part
	m := 1500
	maxLen := 200
	if tier == "thorough" {
		m, maxLen = 6000, 3000
	}
	for i := 0; i < m; i++ {
		c := genLruCase(r, 1+r.Intn(maxLen))
		if i%3 == 0 {
			c.Metrics = 1 + r.Intn(15)
		}
		c.LateMetrics = i%5 == 1
		if i < 2 {
			rep.Sample(c)
		}
		runLruCase(o, c, rep)
		rep.Count("random-histories")
	}
	// wide histories: hundreds of keys, long runs of Get hits without any Put in between, and Puts of mid-size bitmaps
	// that evict dozens to hundreds of entries while others survive; then the survivors are used again
	{
		nw := 12
		if tier == "thorough" {
			nw = 120
		}
		small := bitmapOfClass(1).GetSizeInBytes()
		for i := 0; i < nw; i++ {
			nkeys := 150 + r.Intn(250)
			c := &LruCase{Max: uint64(nkeys) * (ovh + small)}
			for k := 0; k < nkeys; k++ {
				c.Ops = append(c.Ops, LruOpJ{Key: uint64(k), Size: 1})
			}
			for round := 0; round < 6; round++ {
				for k, n := 0, 100+r.Intn(200); k < n; k++ { // a long run of hits
					c.Ops = append(c.Ops, LruOpJ{Get: true, Key: uint64(r.Intn(nkeys))})
				}
				c.Ops = append(c.Ops, LruOpJ{Get: true, Key: uint64(round)})                   // the oldest entries, used last
				c.Ops = append(c.Ops, LruOpJ{Key: uint64(nkeys + round), Size: 3 + r.Intn(3)}) // evicts many, not all
				for k := 0; k < 20; k++ {
					c.Ops = append(c.Ops, LruOpJ{Get: true, Key: uint64(r.Intn(nkeys))}, LruOpJ{Key: uint64(r.Intn(nkeys)), Size: r.Intn(3)})
				}
			}
			runLruCase(o, c, rep)
			rep.Count("wide-histories")
		}
	}
	// many small entries, then one Put that has to evict more than a thousand of them at once (incl. an entry larger
	// than the whole capacity), and the same under a Go soft memory limit smaller than four times the capacity
	{
		small := bitmapOfClass(1).GetSizeInBytes()
		for _, n := range []int{1100, 1500} {
			for _, lim := range []int64{0, 1} {
				c := &LruCase{Max: uint64(n) * (ovh + small)}
				if lim == 1 {
					c.MemLimit = int64(c.Max) * 3
					if c.MemLimit < 48<<20 {
						c.MemLimit = 48 << 20 // never starve the harness itself
						c.Max = uint64(c.MemLimit / 3)
					}
				}
				for k := 0; k < n; k++ {
					c.Ops = append(c.Ops, LruOpJ{Key: uint64(k), Size: 1})
				}
				c.Ops = append(c.Ops, LruOpJ{Get: true, Key: 0}, LruOpJ{Key: uint64(n), Size: 6}, LruOpJ{Get: true, Key: 1}, LruOpJ{Get: true, Key: uint64(n)})
				if lim == 1 { // fill a good part of the configured maximum with entries that all fit
					c.Ops = c.Ops[:0]
					per := ovh + bitmapOfClass(6).GetSizeInBytes()
					cnt := int(c.Max/per) - 1
					for k := 0; k < cnt; k++ {
						c.Ops = append(c.Ops, LruOpJ{Key: uint64(k), Size: 6})
					}
					for k := 0; k < cnt; k += 7 {
						c.Ops = append(c.Ops, LruOpJ{Get: true, Key: uint64(k)})
					}
				}
				runLruCase(o, c, rep)
				rep.Count("many-entries-histories")
			}
		}
	}
	rep.OracleCalls = o.n
}

func init() {
	runners["C07"] = runC07
	replayers["C07"] = func(rep *Report, b []byte) {
		var c LruCase
		if err := json.Unmarshal(b, &c); err != nil {
			infra("bad case: %v", err)
		}
		o := StartOracle()
		defer o.Close()
		runLruCase(o, &c, rep)
	}
}
