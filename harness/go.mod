module verif/harness

go 1.23.0

require (
	github.com/akrennmair/updog v0.0.0
	go.etcd.io/bbolt v1.4.0
)

require (
	github.com/RoaringBitmap/roaring v1.9.4 // indirect
	github.com/bits-and-blooms/bitset v1.21.0 // indirect
	github.com/cespare/xxhash/v2 v2.3.0 // indirect
	golang.org/x/sys v0.30.0 // indirect
)

replace github.com/akrennmair/updog => /repo
