module verif/harness

go 1.23.0

require (
	github.com/RoaringBitmap/roaring v1.9.4
	github.com/akrennmair/updog v0.0.0
	go.etcd.io/bbolt v1.4.0
	google.golang.org/grpc v1.70.0
	google.golang.org/protobuf v1.36.5
)

require (
	github.com/bits-and-blooms/bitset v1.21.0 // indirect
	github.com/cespare/xxhash/v2 v2.3.0 // indirect
	golang.org/x/net v0.35.0 // indirect
	golang.org/x/sys v0.30.0 // indirect
	golang.org/x/text v0.22.0 // indirect
	google.golang.org/genproto/googleapis/rpc v0.0.0-20250303144028-a0af3efb3deb // indirect
)

replace github.com/akrennmair/updog => /repo
