package main

import (
	"bufio"
	"crypto/sha256"
	"encoding/hex"
	"encoding/json"
	"fmt"
	"io"
	"os"
	"os/exec"
	"sort"
	"strings"
	"sync"
)

// ---------- PRNG: splitmix64, every random choice derives from one state ----------

type Rng struct{ s uint64 }

func NewRng(seed uint64) *Rng { return &Rng{s: seed*0x9E3779B97F4A7C15 + 0x1234567} }

func (r *Rng) U64() uint64 {
	r.s += 0x9E3779B97F4A7C15
	z := r.s
	z = (z ^ (z >> 30)) * 0xBF58476D1CE4E5B9
	z = (z ^ (z >> 27)) * 0x94D049BB133111EB
	return z ^ (z >> 31)
}
func (r *Rng) Intn(n int) int {
	if n <= 0 {
		return 0
	}
	return int(r.U64() % uint64(n))
}
func (r *Rng) Chance(num, den int) bool { return r.Intn(den) < num }
func (r *Rng) Fork() *Rng               { return NewRng(r.U64()) }
func Pick[T any](r *Rng, xs []T) T      { return xs[r.Intn(len(xs))] }

// ---------- hex ----------

func hx(s string) string {
	if s == "" {
		return "-"
	}
	return hex.EncodeToString([]byte(s))
}

func unhx(s string) string {
	if s == "-" {
		return ""
	}
	b, err := hex.DecodeString(s)
	if err != nil {
		panic("bad hex " + s)
	}
	return string(b)
}

// ---------- oracle process ----------

type Oracle struct {
	cmd *exec.Cmd
	in  *bufio.Writer
	out *bufio.Reader
	mu  sync.Mutex
	n   int
}

var oraclePath = "/verif/lean/.lake/build/bin/oracle"

func StartOracle() *Oracle {
	cmd := exec.Command(oraclePath)
	stdin, err := cmd.StdinPipe()
	if err != nil {
		infra("oracle stdin: %v", err)
	}
	stdout, err := cmd.StdoutPipe()
	if err != nil {
		infra("oracle stdout: %v", err)
	}
	cmd.Stderr = os.Stderr
	if err := cmd.Start(); err != nil {
		infra("cannot start oracle %s: %v", oraclePath, err)
	}
	return &Oracle{cmd: cmd, in: bufio.NewWriterSize(stdin, 1<<20), out: bufio.NewReaderSize(stdout, 1<<20)}
}

// Ask sends one line and returns the one-line answer.
func (o *Oracle) Ask(line string) string {
	o.mu.Lock()
	defer o.mu.Unlock()
	o.n++
	if strings.ContainsAny(line, "\n\r") {
		infra("oracle request contains newline: %q", line)
	}
	o.in.WriteString(line)
	o.in.WriteByte('\n')
	o.in.Flush()
	resp, err := o.out.ReadString('\n')
	if err != nil && err != io.EOF || resp == "" {
		infra("oracle died on request %q: %v", line, err)
	}
	resp = strings.TrimRight(resp, "\r\n")
	if resp == "bad-op" {
		infra("oracle rejected request %q", line)
	}
	return resp
}

// Send sends lines whose answers must all be "ok".
func (o *Oracle) Send(lines ...string) {
	for _, l := range lines {
		if r := o.Ask(l); !strings.HasPrefix(r, "ok") {
			infra("oracle answered %q to %q", r, l)
		}
	}
}

// SendMany pipelines many requests whose answers must all be "ok" (no round trip per line).
func (o *Oracle) SendMany(lines []string) {
	o.mu.Lock()
	defer o.mu.Unlock()
	const chunk = 2000 // stay well below the pipe buffers in both directions
	for start := 0; start < len(lines); start += chunk {
		end := start + chunk
		if end > len(lines) {
			end = len(lines)
		}
		for _, l := range lines[start:end] {
			if strings.ContainsAny(l, "\n\r") {
				infra("oracle request contains newline: %q", l)
			}
			o.in.WriteString(l)
			o.in.WriteByte('\n')
		}
		o.in.Flush()
		for i := start; i < end; i++ {
			resp, err := o.out.ReadString('\n')
			if err != nil || !strings.HasPrefix(resp, "ok") {
				infra("oracle answered %q to %q (%v)", strings.TrimSpace(resp), lines[i], err)
			}
			o.n++
		}
	}
}

func (o *Oracle) Close() {
	o.in.Flush()
	o.cmd.Process.Kill()
	o.cmd.Wait()
}

// infra reports an infrastructure failure: exit code 2, never a verdict.
func infra(format string, args ...any) {
	fmt.Fprintf(os.Stderr, "INFRA: "+format+"\n", args...)
	os.Exit(2)
}

// ---------- report ----------

type Violation struct {
	Property  string `json:"property"`
	Kind      string `json:"kind"`      // input | history | schedule | crash-prefix | obligation
	Signature string `json:"signature"` // stable identification for known_findings.json
	What      string `json:"what"`
	Expected  string `json:"expected"`
	Actual    string `json:"actual"`
	Case      any    `json:"case"`
	Seed      uint64 `json:"seed"`
	Replay    string `json:"replay,omitempty"`
}

type Report struct {
	Property    string         `json:"property"`
	Tier        string         `json:"tier"`
	Seed        uint64         `json:"seed"`
	Evaluations int            `json:"evaluations"`
	Distinct    int            `json:"distinct_nontrivial"`
	Rule        string         `json:"rule"`
	Samples     []any          `json:"samples"`
	Dist        map[string]int `json:"distribution"`
	Violations  []Violation    `json:"violations"`
	Notes       []string       `json:"notes"`
	OracleCalls int            `json:"oracle_calls"`

	mu       sync.Mutex
	distinct map[string]bool
}

func NewReport(prop, tier string, seed uint64) *Report {
	return &Report{Property: prop, Tier: tier, Seed: seed, Dist: map[string]int{}, distinct: map[string]bool{}}
}

func (r *Report) Count(key string) { r.mu.Lock(); r.Dist[key]++; r.mu.Unlock() }
func (r *Report) CountN(key string, n int) {
	r.mu.Lock()
	r.Dist[key] += n
	r.mu.Unlock()
}

// Eval records one evaluated case; nontrivial cases are counted once per distinct fingerprint.
func (r *Report) Eval(fingerprint string, nontrivial bool) {
	r.mu.Lock()
	r.Evaluations++
	if nontrivial && !r.distinct[fingerprint] {
		r.distinct[fingerprint] = true
		r.Distinct++
	}
	r.mu.Unlock()
}

func (r *Report) Sample(s any) {
	r.mu.Lock()
	if len(r.Samples) < 5 {
		r.Samples = append(r.Samples, s)
	}
	r.mu.Unlock()
}

func (r *Report) Note(format string, args ...any) {
	r.mu.Lock()
	r.Notes = append(r.Notes, fmt.Sprintf(format, args...))
	r.mu.Unlock()
}

func (r *Report) Violate(v Violation) {
	r.mu.Lock()
	defer r.mu.Unlock()
	v.Property = r.Property
	v.Seed = r.Seed
	// keep at most 3 violations per signature and 40 in total
	n := 0
	for _, x := range r.Violations {
		if x.Signature == v.Signature {
			n++
		}
	}
	if n >= 3 || len(r.Violations) >= 40 {
		r.Dist["violations_dropped"]++
		return
	}
	r.Violations = append(r.Violations, v)
}

// NViol counts every reported violation, including those dropped from the report to keep it small.
func (r *Report) NViol() int {
	r.mu.Lock()
	defer r.mu.Unlock()
	return len(r.Violations) + r.Dist["violations_dropped"]
}

func (r *Report) Write(path string) {
	r.mu.Lock()
	defer r.mu.Unlock()
	b, err := json.MarshalIndent(r, "", " ")
	if err != nil {
		infra("marshal report: %v", err)
	}
	if err := os.WriteFile(path, b, 0644); err != nil {
		infra("write report: %v", err)
	}
}

func sortedKeys[V any](m map[string]V) []string {
	ks := make([]string, 0, len(m))
	for k := range m {
		ks = append(ks, k)
	}
	sort.Strings(ks)
	return ks
}

func trunc(s string, n int) string {
	if len(s) <= n {
		return s
	}
	return s[:n] + fmt.Sprintf("…(+%d)", len(s)-n)
}

func sha256sum(b []byte) [32]byte { return sha256.Sum256(b) }
