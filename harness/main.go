package main

import (
	"encoding/json"
	"flag"
	"fmt"
	"os"
	"time"
)

type runner func(rep *Report, r *Rng, tier string)

var runners = map[string]runner{}

func main() {
	prop := flag.String("prop", "", "property id")
	tier := flag.String("tier", "quick", "quick|thorough")
	seed := flag.Uint64("seed", 1, "PRNG seed")
	out := flag.String("out", "", "report file")
	replay := flag.String("replay", "", "replay file (a violation record)")
	flag.StringVar(&oraclePath, "oracle", oraclePath, "oracle binary")
	flag.StringVar(&updogBin, "updog", updogBin, "updog binary built from /repo")
	flag.Parse()

	defer cleanupScratch()

	if *replay != "" {
		b, err := os.ReadFile(*replay)
		if err != nil {
			infra("read replay: %v", err)
		}
		var v Violation
		if err := json.Unmarshal(b, &v); err != nil {
			infra("parse replay: %v", err)
		}
		rep := NewReport(v.Property, "replay", v.Seed)
		doReplay(rep, &v)
		if *out != "" {
			rep.Write(*out)
		}
		for _, x := range rep.Violations {
			fmt.Printf("REPLAY-VIOLATION property=%s signature=%s what=%s\n", x.Property, x.Signature, x.What)
		}
		cleanupScratch()
		if len(rep.Violations) > 0 {
			os.Exit(1)
		}
		fmt.Println("REPLAY-OK")
		return
	}

	run, ok := runners[*prop]
	if !ok {
		infra("no runner for property %q", *prop)
	}
	rep := NewReport(*prop, *tier, *seed)
	t0 := time.Now()
	run(rep, NewRng(*seed), *tier)
	rep.Note("harness wall time %.1fs", time.Since(t0).Seconds())
	if *out != "" {
		rep.Write(*out)
	}
	cleanupScratch()
	fmt.Printf("harness: property=%s evaluations=%d distinct_nontrivial=%d violations=%d\n", *prop, rep.Evaluations, rep.Distinct, len(rep.Violations))
}

func doReplay(rep *Report, v *Violation) {
	b, _ := json.Marshal(v.Case)
	f, ok := replayers[v.Property]
	if !ok {
		infra("no replayer for %s", v.Property)
	}
	f(rep, b)
}

var replayers = map[string]func(rep *Report, caseJSON []byte){}
