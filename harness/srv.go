package main

import (
	"context"
	"database/sql"
	"encoding/json"
	"fmt"
	"io"
	"net"
	"net/http"
	"os"
	"os/exec"
	"strings"
	"sync"
	"sync/atomic"
	"time"

	"github.com/akrennmair/updog"
	proto "github.com/akrennmair/updog/proto/updog/v1"
	"github.com/akrennmair/updog/verifhook"
	"google.golang.org/grpc"
	"google.golang.org/grpc/codes"
	"google.golang.org/grpc/credentials/insecure"
	"google.golang.org/grpc/status"
	gproto "google.golang.org/protobuf/proto"
)

var updogBin = "/verif/.build/updog"

type server struct {
	cmd   *exec.Cmd
	addr  string
	conn  *grpc.ClientConn
	cl    proto.QueryServiceClient
	done  chan struct{}
	exitS string
	debug string        // address of the debug HTTP listener (/metrics)
	quit  chan struct{} // closed by stop(): ends the metrics scraper
	env   string        // extra environment of this start, for the record
}

var serverStarts atomic.Int64

func freePort() int {
	l, err := net.Listen("tcp", "127.0.0.1:0")
	if err != nil {
		infra("no free port: %v", err)
	}
	defer l.Close()
	return l.Addr().(*net.TCPAddr).Port
}

func startServer(file string, cache bool, preload bool) *server {
	if _, err := os.Stat(updogBin); err != nil {
		infra("updog binary missing at %s (built by ./check)", updogBin)
	}
	for attempt := 0; attempt < 5; attempt++ {
		s := &server{addr: fmt.Sprintf("127.0.0.1:%d", freePort()), done: make(chan struct{}), quit: make(chan struct{})}
		s.debug = fmt.Sprintf("127.0.0.1:%d", freePort())
		args := []string{"server", "-l", s.addr, "-d", s.debug, "-f", file, fmt.Sprintf("-c=%v", cache), fmt.Sprintf("-p=%v", preload)}
		nth := serverStarts.Add(1)
		if nth%3 == 0 {
			args = append(args, "-v") // the global verbosity flag changes what is logged, nothing else
		}
		s.cmd = exec.Command(updogBin, args...)
		s.cmd.Env = os.Environ()
		if base := os.Getenv("VERIF_RACE_LOG"); base != "" {
			// a -race build of the server reports into the same log family as the harness itself
			s.cmd.Env = append(s.cmd.Env, "GORACE=log_path="+base+".server exitcode=0")
		} else if e := []string{"", "GOMAXPROCS=1", "", "GOMAXPROCS=3", "GOMEMLIMIT=64MiB"}[(nth-1)%5]; e != "" {
			// the answers must not depend on the resources the server process happens to be given
			s.cmd.Env = append(s.cmd.Env, e)
			s.env = e
		}
		var errb strings.Builder
		s.cmd.Stderr = &errb
		if err := s.cmd.Start(); err != nil {
			infra("start server: %v", err)
		}
		go func() {
			err := s.cmd.Wait()
			s.exitS = fmt.Sprintf("%v: %s", err, trunc(errb.String(), 600))
			close(s.done)
		}()
		// the harness's own client must not be the limit: large responses are legitimate
		dialOpts := []grpc.DialOption{grpc.WithTransportCredentials(insecure.NewCredentials()),
			grpc.WithDefaultCallOptions(grpc.MaxCallRecvMsgSize(1<<30), grpc.MaxCallSendMsgSize(1<<30))}
		if nth%2 == 1 {
			// request metadata is client-controlled too: an application name that is not UTF-8
			dialOpts = append(dialOpts, grpc.WithUserAgent("caf\xe9-dashboard/1.0 (\xff\xfe)"))
		}
		conn, err := grpc.NewClient(s.addr, dialOpts...)
		if err != nil {
			infra("grpc client: %v", err)
		}
		s.conn, s.cl = conn, proto.NewQueryServiceClient(conn)
		// wait until it answers
		ok := false
		for i := 0; i < 100; i++ {
			select {
			case <-s.done:
				i = 1000
				continue
			default:
			}
			ctx, cancel := context.WithTimeout(context.Background(), 300*time.Millisecond)
			// a well-formed probe on a column that need not exist: any answer (result or RPC error from the handler)
			// means the server is up; only transport errors mean "not yet"
			_, err := s.cl.Query(ctx, &proto.QueryRequest{Queries: []*proto.Query{{Expr: (&WT{Op: "E", C: hx("readiness"), V: hx("probe")}).Proto()}}})
			cancel()
			if err == nil || status.Code(err) == codes.Unknown {
				ok = true
				break
			}
			time.Sleep(50 * time.Millisecond)
		}
		if ok {
			// the answer must come from OUR process: if another program grabbed the port first, our server has
			// exited with "failed to listen" and somebody else answered the probe
			time.Sleep(150 * time.Millisecond)
			if s.alive() {
				go s.scrape()
				return s
			}
		}
		s.stop()
		if strings.Contains(s.exitS, "panic:") || strings.Contains(s.exitS, "fatal error:") || strings.Contains(s.exitS, "unexpected fault address") {
			// the server crashed while answering the harness's own well-formed readiness probe: that is not a failed
			// start, it is what the properties about the server forbid
			serverStartCrashes = append(serverStartCrashes, fmt.Sprintf("env=%q: %s", s.env, trunc(s.exitS, 700)))
		}
	}
	infra("server did not come up after 5 attempts")
	return nil
}

// crashes of freshly started servers on the readiness probe (a well-formed request), collected for the running property
var serverStartCrashes []string

func reportServerStartCrashes(rep *Report, prop string) {
	for i, c := range serverStartCrashes {
		if i >= 2 {
			break
		}
		rep.Violate(Violation{Kind: "input", Signature: prop + ":server-died", What: "the server process died while answering a well-formed request right after start (client metadata: see the harness's dial options): " + c, Expected: "an answer", Actual: c, Case: map[string]any{"request": "readiness probe: one well-formed query", "user_agent": "caf\xe9-dashboard/1.0 (\xff\xfe) on every other start"}})
	}
	serverStartCrashes = nil
}

func (s *server) alive() bool {
	select {
	case <-s.done:
		return false
	default:
		return true
	}
}

// scrape polls the debug listener's /metrics like a monitoring system would, for as long as the server runs
func (s *server) scrape() {
	cl := &http.Client{Timeout: 2 * time.Second}
	for {
		select {
		case <-s.quit:
			return
		case <-s.done:
			return
		case <-time.After(15 * time.Millisecond):
		}
		if resp, err := cl.Get("http://" + s.debug + "/metrics"); err == nil {
			io.Copy(io.Discard, resp.Body)
			resp.Body.Close()
		}
	}
}

func (s *server) stop() {
	select {
	case <-s.quit:
	default:
		close(s.quit)
	}
	if s.conn != nil {
		s.conn.Close()
	}
	if s.alive() {
		s.cmd.Process.Kill()
	}
	<-s.done
}

func (s *server) query(req *proto.QueryRequest) (string, bool) {
	ctx, cancel := context.WithTimeout(context.Background(), 20*time.Second*watchdogScale)
	defer cancel()
	resp, err := s.cl.Query(ctx, req)
	if err != nil {
		// give a dying process a moment to be reaped
		time.Sleep(30 * time.Millisecond)
		return "rpc-error", s.alive()
	}
	var parts []string
	for _, r := range resp.Results {
		parts = append(parts, fmt.Sprintf("id=%d %s", r.QueryId, resString(verifhook.ToResult(r), nil)))
	}
	return "ok " + strings.Join(parts, " ; "), true
}

// ---------- C13 ----------

type BatchQ struct {
	ID int32 `json:"id"`
	Q  QCase `json:"q"`
	W  *WT   `json:"w,omitempty"` // if set: a wire-level tree (possibly incomplete) instead of Q
}

type SrvCase struct {
	Data    *DataSpec  `json:"data"`
	Cache   bool       `json:"cache"`
	Preload bool       `json:"preload"`
	Batches [][]BatchQ `json:"batches"`
}

func exToProto(e *Ex) *proto.Query_Expression { return exToPT(e).Proto() }

func qcaseToProto(q *QCase, id int32) *proto.Query {
	pq := &proto.Query{Id: id, Expr: exToProto(q.E)}
	for _, g := range q.GB {
		pq.GroupBy = append(pq.GroupBy, unhx(g))
	}
	return pq
}

func runSrvCase(o *Oracle, c *SrvCase, rep *Report) {
	rows := c.Data.Materialize()
	path := scratch(fmt.Sprintf("srv-%d.updog", rep.Evaluations))
	os.Remove(path)
	if _, err := buildIndexFile("mem", rows, path); err != nil {
		infra("build: %v", err)
	}
	defer os.Remove(path)
	o.Send("idx reset")
	{
		var lines []string
		for _, r := range rows {
			lines = append(lines, rowLine(r))
		}
		o.SendMany(lines)
	}
	o.Send("idx build fast")
	s := startServer(path, c.Cache, c.Preload)
	defer s.stop()
	rep.Count(fmt.Sprintf("server cache=%v preload=%v", c.Cache, c.Preload))
	for bi, batch := range c.Batches {
		req := &proto.QueryRequest{}
		var wantParts []string
		failed := false
		for i := range batch {
			b := &batch[i]
			id := b.ID
			if id == 0 {
				id = int32(i + 1)
			}
			var w string
			if b.W != nil {
				req.Queries = append(req.Queries, &proto.Query{Id: b.ID, Expr: b.W.Proto()})
				w = o.Ask("srv q " + b.W.Show())
			} else {
				req.Queries = append(req.Queries, qcaseToProto(&b.Q, b.ID))
				w = o.Ask("idx q " + b.Q.Toks())
			}
			if w == "err" {
				failed = true
			}
			wantParts = append(wantParts, fmt.Sprintf("id=%d %s", id, w))
		}
		want := "ok " + strings.Join(wantParts, " ; ")
		if failed {
			want = "rpc-error"
		}
		got, alive := s.query(req)
		rep.Eval(fmt.Sprintf("%d|%v|%v|%s", c.Data.Seed, c.Cache, c.Preload, want), len(batch) > 1 && !failed)
		rep.Count(fmt.Sprintf("batchsize=%d", min(len(batch), 9)))
		if failed {
			rep.Count("expected-rpc-error")
		}
		if !alive {
			rep.Violate(Violation{Kind: "input", Signature: "C13:server-died", What: fmt.Sprintf("server process exited during batch %d: %s", bi, s.exitS), Expected: want, Actual: "process exit", Case: c})
			return
		}
		if got != want {
			rep.Violate(Violation{Kind: "input", Signature: "C13:response-mismatch", What: fmt.Sprintf("batch %d (cache=%v preload=%v)", bi, c.Cache, c.Preload), Expected: trunc(want, 1500), Actual: trunc(got, 1500), Case: c})
		}
	}
	// one large batch: thousands of valid queries in a single request (about 100 KiB on the wire)
	if len(c.Batches) > 0 {
		var base *BatchQ
		bestLen := 0
		for bi := range c.Batches {
			for i := range c.Batches[bi] {
				b := &c.Batches[bi][i]
				if ans := o.Ask("idx q " + b.Q.Toks()); b.W == nil && ans != "err" && (base == nil || len(ans)+len(b.Q.Toks()) < bestLen) {
					base, bestLen = b, len(ans)+len(b.Q.Toks()) // a small member: many of them make a large request
				}
			}
		}
		if base != nil {
			req := &proto.QueryRequest{}
			one := o.Ask("idx q " + base.Q.Toks())
			var parts []string
			// about 400 KiB on the wire: far above any "small batch" assumption, far below gRPC's 4 MiB default limit
			n := 400000 / (gproto.Size(qcaseToProto(&base.Q, 0)) + 4)
			if n > 6000 {
				n = 6000
			}
			for k := 0; k < n; k++ {
				req.Queries = append(req.Queries, qcaseToProto(&base.Q, 0))
				parts = append(parts, fmt.Sprintf("id=%d %s", k+1, one))
			}
			got, _ := s.query(req)
			rep.Count("large-batches")
			if want := "ok " + strings.Join(parts, " ; "); got != want {
				rep.Violate(Violation{Kind: "input", Signature: "C13:response-mismatch", What: fmt.Sprintf("a batch of %d valid queries in one request (about 400 KiB)", len(parts)), Expected: trunc(want, 300), Actual: trunc(got, 300), Case: c})
			}
		}
	}
	// several clients at once: every response still belongs to its own request
	if len(c.Batches) > 0 {
		var wg sync.WaitGroup
		bad := make([]string, 16)
		for g := 0; g < 16; g++ {
			wg.Add(1)
			go func(g int) {
				defer wg.Done()
				for k := 0; k < 30; k++ {
					bi := (g*5 + k) % len(c.Batches)
					req := &proto.QueryRequest{}
					var parts []string
					failed := false
					reps := 1 + (g+k)%40 // responses of very different sizes, some large (long to serialise)
					for rep := 0; rep < reps && !failed; rep++ {
						for i := range c.Batches[bi] {
							b := &c.Batches[bi][i]
							if b.W != nil {
								failed = true
								break
							}
							id := int32(100000*(g+1) + 100*rep + i) // ids unique per client and position
							req.Queries = append(req.Queries, qcaseToProto(&b.Q, id))
							parts = append(parts, fmt.Sprintf("id=%d", id))
						}
					}
					if failed || len(req.Queries) == 0 {
						continue
					}
					got, _ := s.query(req)
					if got == "rpc-error" {
						continue // an invalid member (unknown column): compared in the sequential part
					}
					// ids and result count must be this request's
					n := strings.Count(got, "id=")
					okIDs := n == len(parts)
					for _, p := range parts {
						if !strings.Contains(got, p+" ") {
							okIDs = false
						}
					}
					if !okIDs {
						bad[g] = fmt.Sprintf("client %d sent ids %v, got %s", g, parts, trunc(got, 300))
						return
					}
				}
			}(g)
		}
		wg.Wait()
		rep.Count("concurrent-client-rounds")
		for _, b := range bad {
			if b != "" {
				rep.Violate(Violation{Kind: "schedule", Signature: "C13:response-of-another-request", What: "with 4 concurrent clients a response does not hold exactly the results of its own request: " + b, Expected: "one result per query of the same request", Actual: b, Case: c})
				break
			}
		}
	}
	// the sql driver with a grpc:// data source returns the same rows as the model predicts (and the file DSN, C12)
	db, err := sql.Open("updog", "grpc://"+s.addr)
	if c.Data.OddNames {
		err = fmt.Errorf("skip: column names are not identifiers")
	}
	if err == nil {
		defer db.Close()
		pool := poolOf(rows)
		pool.utf8 = true
		r := NewRng(c.Data.Seed)
		for k := 0; k < 6; k++ {
			q := genSqlQuery(r, pool, false)
			got := rowsString(db, unhx(q.Text))
			want := o.Ask("idx rows " + fmt.Sprintf("%d %s %s", len(q.Tree.GB), strings.Join(q.Tree.GB, " "), ptToToks(q.Tree.T)))
			rep.Count("grpc-dsn-queries")
			if got != want {
				rep.Violate(Violation{Kind: "input", Signature: "C13:grpc-dsn-rows-mismatch", What: fmt.Sprintf("grpc DSN query %q", trunc(unhx(q.Text), 200)), Expected: trunc(want, 1000), Actual: trunc(got, 1000), Case: c})
			}
		}
		// connection churn: no idle connection is kept, several goroutines query, and handles on the same target come
		// and go meanwhile; every answer is still the model's
		q := genSqlQuery(r, pool, false)
		text := unhx(q.Text)
		want := o.Ask("idx rows " + fmt.Sprintf("%d %s %s", len(q.Tree.GB), strings.Join(q.Tree.GB, " "), ptToToks(q.Tree.T)))
		db.SetMaxIdleConns(0)
		var wg sync.WaitGroup
		var bad atomic.Value
		deadline := time.Now().Add(2500 * time.Millisecond)
		for g := 0; g < 8; g++ {
			wg.Add(1)
			go func(g int) {
				defer wg.Done()
				for k := 0; k < 4000 && time.Now().Before(deadline) && bad.Load() == nil; k++ {
					if g >= 6 { // further handles on the same target, opened, used and closed over and over
						db2, err := sql.Open("updog", "grpc://"+s.addr)
						if err == nil {
							db2.SetMaxIdleConns(0)
							if got := rowsString(db2, text); got != want {
								bad.Store(got)
							}
							db2.Close()
						}
						continue
					}
					if got := rowsString(db, text); got != want {
						bad.Store(got)
					}
				}
			}(g)
		}
		wg.Wait()
		rep.Count("grpc-dsn-churn")
		if b := bad.Load(); b != nil {
			rep.Violate(Violation{Kind: "schedule", Signature: "C13:grpc-dsn-rows-mismatch", What: fmt.Sprintf("grpc DSN query %q under connection churn (no idle connections, 6 goroutines, two more handles opened and closed meanwhile)", trunc(text, 200)), Expected: trunc(want, 1000), Actual: trunc(b.(string), 1000), Case: c})
		}
	}
}

func runC13(rep *Report, r *Rng, tier string) {
	defer reportServerStartCrashes(rep, "C13")
	rep.Rule = "index files x batches of 0..8 queries (explicit/zero/duplicate ids, valid and invalid members: unknown columns) x the real `updog server` binary with {cache on/off} x {preload on/off} on loopback; response length/order/ids/counts/groups compared with the model (Execute per query, first failing query fails the call); plus sql driver with grpc:// DSN vs the model rows; conversion round trip ToResult(ToProtobufResult r) = r on every result; non-trivial = successful batch with >= 2 queries; distinct by (dataset, config, expected response)"
	o := StartOracle()
	defer o.Close()
	n := 8
	if tier == "thorough" {
		n = 60
	}
	for i := 0; i < n; i++ {
		d := genDataSpecUTF8(r, 300)
		if i%2 == 1 { // arbitrary (valid UTF-8) column names: the protobuf API does not go through the text parser
			for ci, nm := range []string{"k=", "k", "a b", "ü", "x,y", "=v"} {
				if ci < len(d.Cols) {
					d.Cols[ci].Name = hx(nm)
				}
			}
			for ci := range d.Cols {
				d.Cols[ci].Style = "eqsign"
				d.Cols[ci].NVals = 5
			}
			d.OddNames = true
		}
		pool := poolOf(d.Materialize())
		pool.utf8 = true
		c := &SrvCase{Data: d, Cache: i%2 == 0, Preload: (i/2)%2 == 0}
		for b := 0; b < 12; b++ {
			var batch []BatchQ
			for k, nq := 0, r.Intn(9); k < nq; k++ {
				q := QCase{E: genExpr(r, pool, 1+r.Intn(3), r.Chance(1, 4)), GB: genGroupBy(r, pool, false)}
				bq := BatchQ{ID: int32(Pick(r, []int{0, 0, 1, 2, 5, 5, 77, -3})), Q: q}
				if r.Chance(1, 12) { // a structurally invalid member: one omission somewhere in a valid tree
					om := omissions(exToWT(q.E))
					bq.W = Pick(r, om)
				}
				batch = append(batch, bq)
			}
			c.Batches = append(c.Batches, batch)
		}
		if i < 1 {
			rep.Sample(c)
		}
		runSrvCase(o, c, rep)
		// lossless conversion, in-process
		path := scratch("conv.updog")
		os.Remove(path)
		buildIndexFile("mem", d.Materialize(), path)
		if idx, _, err := openIdx(path, false, -1); err == nil {
			for _, batch := range c.Batches {
				for bi := range batch {
					res, err := idx.Execute(toQuery(&batch[bi].Q))
					if err != nil {
						continue
					}
					back := verifhook.ToResult(verifhook.ToProtobufResult(res, 9))
					rep.Count("conversion-roundtrips")
					if resString(back, nil) != resString(res, nil) {
						rep.Violate(Violation{Kind: "input", Signature: "C13:conversion-lossy", What: "ToResult(ToProtobufResult(r)) != r", Expected: trunc(resString(res, nil), 800), Actual: trunc(resString(back, nil), 800), Case: c})
					}
				}
			}
			idx.Close()
		}
		os.Remove(path)
	}
	rep.OracleCalls = o.n
}

// ---------- C14 ----------

// WT is a wire-level expression tree with optional members.
type WT struct {
	Op   string `json:"op"` // E N A O | U (Expression with no value set) | Z (nil *Expression)
	C    string `json:"c,omitempty"`
	V    string `json:"v,omitempty"`
	Ph   int32  `json:"ph,omitempty"`
	Kids []*WT  `json:"kids,omitempty"`
}

func (t *WT) Proto() *proto.Query_Expression {
	switch t.Op {
	case "Z":
		return nil
	case "U":
		return &proto.Query_Expression{}
	case "E":
		return &proto.Query_Expression{Value: &proto.Query_Expression_Eq{Eq: &proto.Query_Expression_Equal{Column: unhx(t.C), Value: unhx(t.V), Placeholder: t.Ph}}}
	case "N":
		n := &proto.Query_Expression_Not{}
		if len(t.Kids) > 0 {
			n.Expr = t.Kids[0].Proto()
		}
		return &proto.Query_Expression{Value: &proto.Query_Expression_Not_{Not: n}}
	case "A":
		x := &proto.Query_Expression_And{}
		for _, k := range t.Kids {
			x.Exprs = append(x.Exprs, k.Proto())
		}
		return &proto.Query_Expression{Value: &proto.Query_Expression_And_{And: x}}
	default:
		x := &proto.Query_Expression_Or{}
		for _, k := range t.Kids {
			x.Exprs = append(x.Exprs, k.Proto())
		}
		return &proto.Query_Expression{Value: &proto.Query_Expression_Or_{Or: x}}
	}
}

// wire form: what the server sees after marshal+unmarshal (nil list members become empty messages)
func (t *WT) Show() string {
	switch t.Op {
	case "Z", "U":
		return "U"
	case "E":
		return fmt.Sprintf("E %s %s", t.C, orDash(t.V))
	case "N":
		if len(t.Kids) == 0 || t.Kids[0].Op == "Z" {
			return "N Z"
		}
		return "N " + t.Kids[0].Show()
	}
	parts := []string{t.Op, fmt.Sprint(len(t.Kids))}
	for _, k := range t.Kids {
		parts = append(parts, k.Show())
	}
	return strings.Join(parts, " ")
}

func orDash(s string) string {
	if s == "" {
		return "-"
	}
	return s
}

func exToWT(e *Ex) *WT {
	t := &WT{Op: e.Op, C: e.C, V: e.V}
	for _, k := range e.Kids {
		t.Kids = append(t.Kids, exToWT(k))
	}
	return t
}

// all trees obtained from t by one structural omission
func omissions(t *WT) []*WT {
	var out []*WT
	out = append(out, &WT{Op: "U"})
	switch t.Op {
	case "N":
		out = append(out, &WT{Op: "N"}, &WT{Op: "N", Kids: []*WT{{Op: "Z"}}})
		for _, k := range omissions(t.Kids[0]) {
			out = append(out, &WT{Op: "N", Kids: []*WT{k}})
		}
	case "A", "O":
		out = append(out, &WT{Op: t.Op})
		for i := range t.Kids {
			for _, k := range append(omissions(t.Kids[i]), &WT{Op: "Z"}) {
				kids := append([]*WT{}, t.Kids...)
				kids[i] = k
				out = append(out, &WT{Op: t.Op, Kids: kids})
			}
		}
	}
	return out
}

type HostileCase struct {
	Deep  int       `json:"deep,omitempty"` // additionally: a chain of this many NOTs around a leaf
	Data  *DataSpec `json:"data"`
	Trees []*WT     `json:"trees"` // nil entry = query without expr
	NoExp []bool    `json:"no_expr"`
	Probe QCase     `json:"probe"`
}

func safeInProcess(idx *updog.Index, pq *proto.Query) string {
	return watchdog(20*time.Second, func() string {
		q := verifhook.ToQuery(pq)
		return resString(idx.Execute(q))
	})
}

func runHostileCase(o *Oracle, c *HostileCase, rep *Report, srv *server, idx *updog.Index) bool {
	probeWant := "ok id=1 " + o.Ask("idx q "+c.Probe.Toks())
	trees, noexp := c.Trees, c.NoExp
	if c.Deep > 0 {
		deep := &WT{Op: "E", C: hx("a"), V: hx("1")}
		for k := 0; k < c.Deep; k++ {
			deep = &WT{Op: "N", Kids: []*WT{deep}}
		}
		trees = append(append([]*WT{}, trees...), deep)
		noexp = append(append([]bool{}, noexp...), false)
	}
	for i, t := range trees {
		pq := &proto.Query{}
		show := "Z"
		if !noexp[i] {
			pq.Expr = t.Proto()
			show = t.Show()
		}
		want := o.Ask("srv q " + show)
		// in-process: conversion + Execute must not panic
		got := safeInProcess(idx, pq)
		rep.Eval(show, strings.Contains(show, "U") || strings.Contains(show, "Z"))
		if got != want {
			sig := "C14:answer-differs"
			if strings.HasPrefix(got, "panic") {
				sig = "C14:panic"
			}
			rep.Violate(Violation{Kind: "input", Signature: sig, What: "in-process ToQuery+Execute on request tree " + trunc(show, 300), Expected: want, Actual: trunc(got, 300), Case: c})
		}
		if srv != nil {
			res, alive := srv.query(&proto.QueryRequest{Queries: []*proto.Query{pq}})
			wantS := "rpc-error"
			if want != "err" {
				wantS = "ok id=1 " + want
			}
			if !alive {
				rep.Violate(Violation{Kind: "input", Signature: "C14:server-died", What: "server process exited on request tree " + trunc(show, 300) + ": " + srv.exitS, Expected: wantS, Actual: "process exit", Case: c})
				return false
			}
			if res != wantS {
				rep.Violate(Violation{Kind: "input", Signature: "C14:server-answer-differs", What: "request tree " + trunc(show, 300), Expected: wantS, Actual: trunc(res, 300), Case: c})
			}
			// the server keeps answering well-formed requests correctly
			pr, alive := srv.query(&proto.QueryRequest{Queries: []*proto.Query{qcaseToProto(&c.Probe, 0)}})
			if !alive || pr != probeWant {
				rep.Violate(Violation{Kind: "history", Signature: "C14:probe-after-hostile-wrong", What: "well-formed probe after hostile request " + trunc(show, 200), Expected: trunc(probeWant, 300), Actual: trunc(pr, 300), Case: c})
				if !alive {
					return false
				}
			}
			rep.Count("server-requests")
		}
	}
	return true
}

func runC14(rep *Report, r *Rng, tier string) {
	defer reportServerStartCrashes(rep, "C14")
	rep.Rule = "decodable request trees: every single structural omission (query without expr, expression without value, NOT without operand, AND/OR with no operands or with an unset/empty member) at every position of random valid trees, unknown columns, unresolved placeholders, nesting depth up to 2000; each sent in-process (ToQuery+Execute under recover) and to the real server binary followed by a well-formed probe; compared with the model's serverQuery; non-trivial = tree with an omission; distinct by tree"
	o := StartOracle()
	defer o.Close()
	n, perServer := 40, 30
	if tier == "thorough" {
		n, perServer = 300, 60
	}
	d := &DataSpec{Seed: r.U64(), NRows: 60, Cols: []ColSpec{{Name: hx("a"), NVals: 3, Dist: "random", Style: "ascii"}, {Name: hx("b"), NVals: 2, Dist: "random", Style: "ascii"}}}
	rows := d.Materialize()
	pool := poolOf(rows)
	pool.utf8 = true
	path := scratch("c14.updog")
	os.Remove(path)
	if _, err := buildIndexFile("mem", rows, path); err != nil {
		infra("build: %v", err)
	}
	o.Send("idx reset")
	{
		var lines []string
		for _, rw := range rows {
			lines = append(lines, rowLine(rw))
		}
		o.SendMany(lines)
	}
	o.Send("idx build fast")
	idx, _, err := openIdx(path, false, -1)
	if err != nil {
		infra("open: %v", err)
	}
	defer idx.Close()
	probe := QCase{E: &Ex{Op: "E", C: hx("a"), V: hx("1")}, GB: []string{hx("b")}}
	var srv *server
	defer func() {
		if srv != nil {
			srv.stop()
		}
	}()
	descriptorPressure(rep, "C14", path, &probe, "ok id=1 "+o.Ask("idx q "+probe.Toks()))
	for i := 0; i < n; i++ {
		base := exToWT(genExpr(r, pool, 1+r.Intn(4), true))
		c := &HostileCase{Data: d, Probe: probe}
		c.Trees = append(c.Trees, base, &WT{Op: "U"})
		c.NoExp = append(c.NoExp, false, true)
		for _, t := range omissions(base) {
			c.Trees = append(c.Trees, t)
			c.NoExp = append(c.NoExp, false)
		}
		if i == 0 {
			leaf := &WT{Op: "E", C: hx("a"), V: hx("1")}
			for _, w := range []int{129, 300, 3000} {
				for _, op := range []string{"A", "O"} {
					wide := &WT{Op: op}
					for k := 0; k < w; k++ {
						wide.Kids = append(wide.Kids, leaf)
					}
					c.Trees = append(c.Trees, wide)
					c.NoExp = append(c.NoExp, false)
				}
			}
			c.Deep = 2000
			c.Trees = append(c.Trees, &WT{Op: "E", C: hx("a"), V: "-", Ph: 3}, &WT{Op: "E", C: hx("a"), V: "-", Ph: -3})
			c.NoExp = append(c.NoExp, false, false)
			rep.Sample(map[string]any{"first trees": []string{c.Trees[0].Show(), c.Trees[2].Show()}})
		}
		if i%perServer == 0 {
			if srv != nil {
				srv.stop()
			}
			cfg := (i / perServer) % 4
			srv = startServer(path, cfg%2 == 0, cfg/2 == 1)
			rep.Count("servers-started")
			// right after start: many clients at once, grouped queries (first use of every code path concurrently)
			if !burstOnFreshServer(srv, &probe, "ok id=1 "+o.Ask("idx q "+probe.Toks()), rep) {
				srv.stop()
				srv = startServer(path, true, false)
			}
			// very long group-by lists (a column named 20, 40, 64 times): the number of candidate groups overflows
			// any machine integer long before the number of actual groups grows
			for _, reps := range []int{20, 40, 64} {
				gq := QCase{E: probe.E}
				for k := 0; k < reps; k++ {
					gq.GB = append(gq.GB, hx([]string{"a", "b"}[k%2]))
				}
				want := "ok id=1 " + o.Ask("idx q "+gq.Toks())
				res, alive := srv.query(&proto.QueryRequest{Queries: []*proto.Query{qcaseToProto(&gq, 0)}})
				rep.Count("long-groupby-requests")
				if !alive || res != want {
					rep.Violate(Violation{Kind: "input", Signature: "C14:long-groupby", What: fmt.Sprintf("group_by naming columns %d times: %s", reps, srv.exitS), Expected: trunc(want, 200), Actual: trunc(res, 200), Case: map[string]any{"groupby_repeats": reps}})
					if !alive {
						srv.stop()
						srv = startServer(path, true, false)
					}
					break
				}
			}
			// batches of several hundred well-formed queries, two of them at the same time (a per-request budget of any
			// kind must not turn a large request into one that is never answered)
			for _, nq := range []int{257, 300, 1000} {
				req := &proto.QueryRequest{}
				for k := 0; k < nq; k++ {
					req.Queries = append(req.Queries, qcaseToProto(&QCase{E: probe.E}, 0))
				}
				type ans struct {
					res   string
					alive bool
				}
				ch := make(chan ans, 2)
				for g := 0; g < 2; g++ {
					go func() {
						res, alive := srv.query(req)
						ch <- ans{res, alive}
					}()
				}
				ok := true
				for g := 0; g < 2; g++ {
					a := <-ch
					rep.Count("large-batch-requests")
					if !a.alive || !strings.HasPrefix(a.res, "ok id=1 ") || strings.Count(a.res, "id=") != nq {
						if ok {
							rep.Violate(Violation{Kind: "input", Signature: "C14:large-batch", What: fmt.Sprintf("a batch of %d well-formed queries (two such requests at once): %s", nq, srv.exitS), Expected: fmt.Sprintf("%d results", nq), Actual: trunc(a.res, 200), Case: map[string]any{"batch": nq}})
						}
						ok = false
					}
				}
				if !ok {
					srv.stop()
					srv = startServer(path, true, false)
					break
				}
			}
			// a request without any query is decodable too
			if res, alive := srv.query(&proto.QueryRequest{}); !alive || res != "ok " {
				rep.Violate(Violation{Kind: "input", Signature: "C14:empty-request", What: "a QueryRequest without queries: " + srv.exitS, Expected: "empty response", Actual: trunc(res, 200), Case: map[string]any{"request": "empty"}})
				if !alive {
					srv.stop()
					srv = startServer(path, true, false)
				}
			}
		}
		if len(c.Trees) > 70 {
			c.Trees, c.NoExp = c.Trees[:70], c.NoExp[:70]
		}
		if !runHostileCase(o, c, rep, srv, idx) {
			srv.stop()
			srv = nil
			srv = startServer(path, true, false)
		}
	}
	// in-process: the very first grouped queries on a freshly opened index, issued by 8 goroutines at once
	// (what 8 simultaneous requests do to a server that has just started), many fresh indexes
	rounds := 150
	if tier == "thorough" {
		rounds = 1500
	}
	wantProbe := o.Ask("idx q " + (&QCase{E: probe.E, GB: []string{hx("a"), hx("b")}}).Toks())
	for round := 0; round < rounds && rep.NViol() < 6; round++ {
		fresh, _, err := openIdx(path, round%2 == 0, int64(-1+(round%3)*5000))
		if err != nil {
			break
		}
		var wg sync.WaitGroup
		out := make([]string, 8)
		start := make(chan struct{})
		for g := 0; g < 8; g++ {
			wg.Add(1)
			go func(g int) {
				defer wg.Done()
				<-start
				pq := qcaseToProto(&QCase{E: probe.E, GB: []string{hx("a"), hx("b")}}, 0)
				out[g] = safeInProcess(fresh, pq)
			}(g)
		}
		close(start)
		wg.Wait()
		fresh.Close()
		rep.Count("fresh-index-bursts")
		for _, s := range out {
			if s != wantProbe {
				rep.Violate(Violation{Kind: "schedule", Signature: "C14:concurrent-answer-differs", What: "8 simultaneous first grouped requests on a freshly opened index", Expected: trunc(wantProbe, 300), Actual: trunc(s, 300), Case: map[string]any{"fresh-burst": round}})
				break
			}
		}
	}
	rep.OracleCalls = o.n
}

func init() {
	runners["C13"] = runC13
	runners["C14"] = runC14
	replayers["C13"] = func(rep *Report, b []byte) {
		var c SrvCase
		if err := json.Unmarshal(b, &c); err != nil {
			infra("bad case: %v", err)
		}
		o := StartOracle()
		defer o.Close()
		runSrvCase(o, &c, rep)
	}
	replayers["C14"] = func(rep *Report, b []byte) {
		var c HostileCase
		if err := json.Unmarshal(b, &c); err != nil {
			infra("bad case: %v", err)
		}
		o := StartOracle()
		defer o.Close()
		rows := c.Data.Materialize()
		path := scratch("c14r.updog")
		buildIndexFile("mem", rows, path)
		o.Send("idx reset")
		{
			var lines []string
			for _, rw := range rows {
				lines = append(lines, rowLine(rw))
			}
			o.SendMany(lines)
		}
		o.Send("idx build fast")
		idx, _, err := openIdx(path, false, -1)
		if err != nil {
			infra("open: %v", err)
		}
		defer idx.Close()
		srv := startServer(path, true, false)
		defer srv.stop()
		runHostileCase(o, &c, rep, srv, idx)
	}
}

// burstOnFreshServer sends the probe from 8 clients at the same time to a server that has not answered a grouped
// query yet; every answer must be the sequential one and the process must survive.
func burstOnFreshServer(srv *server, probe *QCase, want string, rep *Report) bool {
	var wg sync.WaitGroup
	out := make([]string, 8)
	for g := 0; g < 8; g++ {
		wg.Add(1)
		go func(g int) {
			defer wg.Done()
			for k := 0; k < 5; k++ {
				res, _ := srv.query(&proto.QueryRequest{Queries: []*proto.Query{qcaseToProto(probe, 0)}})
				if res != want {
					out[g] = res
					return
				}
			}
		}(g)
	}
	wg.Wait()
	rep.Count("fresh-server-bursts")
	if !srv.alive() {
		rep.Violate(Violation{Kind: "schedule", Signature: "C14:server-died", What: "server process exited under 8 concurrent well-formed grouped requests right after start: " + trunc(srv.exitS, 600), Expected: want, Actual: "process exit", Case: map[string]any{"burst": probe.Toks()}})
		return false
	}
	for _, s := range out {
		if s != "" {
			rep.Violate(Violation{Kind: "schedule", Signature: "C14:concurrent-answer-differs", What: "concurrent well-formed request answered differently", Expected: want, Actual: trunc(s, 300), Case: map[string]any{"burst": probe.Toks()}})
			return true
		}
	}
	return true
}

// descriptorPressure: the real server is started with a small file-descriptor limit and then hit by a burst of clients,
// each on its own connection, more than it has descriptors for. Individual connections may be refused or time out; the
// process must stay up and answer once the burst is over.
func descriptorPressure(rep *Report, prop, path string, probe *QCase, want string) {
	addr := fmt.Sprintf("127.0.0.1:%d", freePort())
	dbg := fmt.Sprintf("127.0.0.1:%d", freePort())
	cmd := exec.Command("/bin/sh", "-c", fmt.Sprintf("ulimit -n 48; exec %q server -l %s -d %s -f %q", updogBin, addr, dbg, path))
	var errb strings.Builder
	cmd.Stderr = &errb
	if err := cmd.Start(); err != nil {
		rep.Note("descriptor-pressure skipped: %v", err)
		return
	}
	exited := make(chan error, 1)
	go func() { exited <- cmd.Wait() }()
	defer func() {
		cmd.Process.Kill()
		select {
		case <-exited:
		case <-time.After(5 * time.Second):
		}
	}()
	dial := func() (*grpc.ClientConn, proto.QueryServiceClient) {
		conn, err := grpc.NewClient(addr, grpc.WithTransportCredentials(insecure.NewCredentials()))
		if err != nil {
			return nil, nil
		}
		return conn, proto.NewQueryServiceClient(conn)
	}
	ask := func(cl proto.QueryServiceClient, d time.Duration) string {
		ctx, cancel := context.WithTimeout(context.Background(), d)
		defer cancel()
		resp, err := cl.Query(ctx, &proto.QueryRequest{Queries: []*proto.Query{qcaseToProto(probe, 0)}})
		if err != nil {
			return "rpc-error"
		}
		var parts []string
		for _, r := range resp.Results {
			parts = append(parts, fmt.Sprintf("id=%d %s", r.QueryId, resString(verifhook.ToResult(r), nil)))
		}
		return "ok " + strings.Join(parts, " ; ")
	}
	// wait until it answers
	conn0, cl0 := dial()
	if conn0 == nil {
		return
	}
	defer conn0.Close()
	up := false
	for i := 0; i < 100; i++ {
		if ask(cl0, 300*time.Millisecond) == want {
			up = true
			break
		}
		select {
		case <-exited:
			rep.Note("descriptor-pressure: server did not start under ulimit -n 48: %s", trunc(errb.String(), 300))
			return
		default:
		}
		time.Sleep(50 * time.Millisecond)
	}
	if !up {
		rep.Note("descriptor-pressure: server did not come up")
		return
	}
	var wg sync.WaitGroup
	for g := 0; g < 120; g++ {
		wg.Add(1)
		go func() {
			defer wg.Done()
			conn, cl := dial()
			if conn == nil {
				return
			}
			defer conn.Close()
			ask(cl, 3*time.Second) // may fail: the server is out of descriptors for a moment
		}()
	}
	wg.Wait()
	time.Sleep(1500 * time.Millisecond) // accept back-off
	got := ""
	for i := 0; i < 10 && got != want; i++ {
		got = ask(cl0, 2*time.Second)
		if got != want {
			time.Sleep(300 * time.Millisecond)
		}
	}
	died := false
	select {
	case <-exited:
		died = true
	default:
	}
	rep.Eval("descriptor-pressure", true)
	rep.Count("descriptor-pressure-runs")
	if died || got != want {
		rep.Violate(Violation{Kind: "fault", Signature: prop + ":server-died", What: fmt.Sprintf("server with a 48-descriptor limit after a burst of 120 one-request clients: exited=%v, probe afterwards: %s; stderr: %s", died, trunc(got, 100), trunc(errb.String(), 400)), Expected: trunc(want, 100), Actual: trunc(got, 100), Case: map[string]any{"scenario": "descriptor pressure", "nofile": 48, "clients": 120}})
	}
}
