package main

import (
	"encoding/json"
	"fmt"
	"runtime"
	"strings"
	"sync"
	"sync/atomic"
	"time"

	proto "github.com/akrennmair/updog/proto/updog/v1"
	"github.com/akrennmair/updog/verifhook"
)

// ---------- proto tree <-> canonical prefix form (same as the oracle's showPQuery) ----------

func showPExpr(e *proto.Query_Expression) string {
	if e == nil {
		return "NIL"
	}
	switch v := e.Value.(type) {
	case *proto.Query_Expression_Eq:
		return fmt.Sprintf("E %s %s %d", hx(v.Eq.Column), hx(v.Eq.Value), v.Eq.Placeholder)
	case *proto.Query_Expression_Not_:
		return "N " + showPExpr(v.Not.Expr)
	case *proto.Query_Expression_And_:
		parts := []string{fmt.Sprintf("A %d", len(v.And.Exprs))}
		for _, k := range v.And.Exprs {
			parts = append(parts, showPExpr(k))
		}
		return strings.Join(parts, " ")
	case *proto.Query_Expression_Or_:
		parts := []string{fmt.Sprintf("O %d", len(v.Or.Exprs))}
		for _, k := range v.Or.Exprs {
			parts = append(parts, showPExpr(k))
		}
		return strings.Join(parts, " ")
	}
	return "UNSET"
}

func showPQuery(q *proto.Query) string {
	s := showPExpr(q.Expr) + fmt.Sprintf(" G %d", len(q.GroupBy))
	for _, f := range q.GroupBy {
		s += " " + hx(f)
	}
	return s
}

// PT is a proto tree for generation/replay (hex strings).
type PT struct {
	Op   string `json:"op"`
	C    string `json:"c,omitempty"`
	V    string `json:"v,omitempty"`
	Ph   int32  `json:"ph,omitempty"`
	Kids []*PT  `json:"kids,omitempty"`
}

func (t *PT) Proto() *proto.Query_Expression {
	switch t.Op {
	case "E":
		return &proto.Query_Expression{Value: &proto.Query_Expression_Eq{Eq: &proto.Query_Expression_Equal{Column: unhx(t.C), Value: unhx(t.V), Placeholder: t.Ph}}}
	case "N":
		return &proto.Query_Expression{Value: &proto.Query_Expression_Not_{Not: &proto.Query_Expression_Not{Expr: t.Kids[0].Proto()}}}
	case "A":
		x := &proto.Query_Expression_And{}
		for _, k := range t.Kids {
			x.Exprs = append(x.Exprs, k.Proto())
		}
		return &proto.Query_Expression{Value: &proto.Query_Expression_And_{And: x}}
	default:
		x := &proto.Query_Expression_Or{}
		for _, k := range t.Kids {
			x.Exprs = append(x.Exprs, k.Proto())
		}
		return &proto.Query_Expression{Value: &proto.Query_Expression_Or_{Or: x}}
	}
}

func (t *PT) Show() string {
	switch t.Op {
	case "E":
		v := t.V
		if v == "" {
			v = "-"
		}
		return fmt.Sprintf("E %s %s %d", t.C, v, t.Ph)
	case "N":
		return "N " + t.Kids[0].Show()
	default:
		parts := []string{fmt.Sprintf("%s %d", t.Op, len(t.Kids))}
		for _, k := range t.Kids {
			parts = append(parts, k.Show())
		}
		return strings.Join(parts, " ")
	}
}

type PQ struct {
	T  *PT      `json:"t"`
	GB []string `json:"gb"` // hex
}

func (q *PQ) Proto() *proto.Query {
	pq := &proto.Query{Expr: q.T.Proto()}
	for _, g := range q.GB {
		pq.GroupBy = append(pq.GroupBy, unhx(g))
	}
	return pq
}

func (q *PQ) Show() string {
	s := q.T.Show() + fmt.Sprintf(" G %d", len(q.GB))
	for _, g := range q.GB {
		s += " " + g
	}
	return s
}

// norm: flatten directly nested same-operator nodes, unwrap single-operand AND/OR (the property's notion of meaning)
func normPT(t *PT) *PT {
	switch t.Op {
	case "E":
		return t
	case "N":
		return &PT{Op: "N", Kids: []*PT{normPT(t.Kids[0])}}
	}
	var kids []*PT
	for _, k := range t.Kids {
		nk := normPT(k)
		if nk.Op == t.Op {
			kids = append(kids, nk.Kids...)
		} else {
			kids = append(kids, nk)
		}
	}
	if len(kids) == 1 {
		return kids[0]
	}
	return &PT{Op: t.Op, Kids: kids}
}

func ptOfProto(e *proto.Query_Expression) *PT {
	switch v := e.Value.(type) {
	case *proto.Query_Expression_Eq:
		return &PT{Op: "E", C: hx(v.Eq.Column), V: hx(v.Eq.Value), Ph: v.Eq.Placeholder}
	case *proto.Query_Expression_Not_:
		return &PT{Op: "N", Kids: []*PT{ptOfProto(v.Not.Expr)}}
	case *proto.Query_Expression_And_:
		t := &PT{Op: "A"}
		for _, k := range v.And.Exprs {
			t.Kids = append(t.Kids, ptOfProto(k))
		}
		return t
	case *proto.Query_Expression_Or_:
		t := &PT{Op: "O"}
		for _, k := range v.Or.Exprs {
			t.Kids = append(t.Kids, ptOfProto(k))
		}
		return t
	}
	return &PT{Op: "?"}
}

func safeParse(s string) (res string, q *proto.Query) {
	type r struct {
		s string
		q *proto.Query
	}
	ch := make(chan r, 1)
	go func() {
		defer func() {
			if p := recover(); p != nil {
				ch <- r{fmt.Sprintf("panic: %v", p), nil}
			}
		}()
		q, err := verifhook.ParseQuery(s)
		if err != nil {
			if q != nil {
				ch <- r{"err-with-query", nil}
				return
			}
			ch <- r{"err", nil}
			return
		}
		ch <- r{"ok " + showPQuery(q), q}
	}()
	select {
	case x := <-ch:
		return x.s, x.q
	case <-time.After(20 * time.Second * watchdogScale):
		return "hang", nil
	}
}

// lexer goroutines alive right now
func lexerGoroutines() int {
	buf := make([]byte, 1<<20)
	for {
		n := runtime.Stack(buf, true)
		if n < len(buf) {
			buf = buf[:n]
			break
		}
		buf = make([]byte, 2*len(buf))
	}
	return strings.Count(string(buf), "queryparser.(*lexer).run")
}

func settledLexerGoroutines() int {
	n := lexerGoroutines()
	for i := 0; i < 40 && n > 0; i++ {
		time.Sleep(50 * time.Millisecond)
		n = lexerGoroutines()
	}
	return n
}

// ---------- generators ----------

var fieldNames = []string{"a", "b", "foo", "Bar_9", "z0", "x_y", "COUNTRY", "q", "and", "or", "not", "AND", "Or", "nothing", "order"}
var hostileValues = []string{"", "x", "bar", "\"", "\"\"", "a\"b", "\"a", "a\"", "a\nb", "ü✓", "\xff\xfe", "a & b", "( x )", "$1", ";", "a,b", "^", "=", "\t ", "\"\"\"", "'", "\\", "a\\\"b", "\x00", "日本", "%", "100%", "%s", "%d%%", "50% off", "\uFFFD", "a\uFFFDb", "%!v(MISSING)",
	"cafe\u0301", "\u2126", "\u212b", "\u1100\u1161\u11a8", "q\u0307\u0323", "\ufb01", "\u00e9"} // incl. text that is valid UTF-8 but not NFC-normalised

func genPT(r *Rng, depth int, allowPh bool) *PT {
	if depth <= 0 || r.Chance(1, 3) {
		t := &PT{Op: "E", C: hx(Pick(r, fieldNames))}
		if allowPh && r.Chance(1, 3) {
			t.Ph = int32(Pick(r, []int{1, 2, 3, 4, 7, 10, 99, 2147483647}))
			t.V = "-"
		} else {
			t.V = hx(Pick(r, hostileValues))
			if r.Chance(1, 6) {
				b := make([]byte, r.Intn(6))
				for i := range b {
					b[i] = byte(r.Intn(256))
				}
				t.V = hx(string(b))
			}
		}
		return t
	}
	switch r.Intn(5) {
	case 0:
		return &PT{Op: "N", Kids: []*PT{genPT(r, depth-1, allowPh)}}
	case 1, 2:
		t := &PT{Op: "A"}
		for i, n := 0, 1+r.Intn(4); i < n; i++ {
			t.Kids = append(t.Kids, genPT(r, depth-1, allowPh))
		}
		return t
	default:
		t := &PT{Op: "O"}
		for i, n := 0, 1+r.Intn(4); i < n; i++ {
			t.Kids = append(t.Kids, genPT(r, depth-1, allowPh))
		}
		return t
	}
}

func genPQ(r *Rng, depth int, allowPh bool) *PQ {
	q := &PQ{T: genPT(r, depth, allowPh)}
	for i, n := 0, Pick(r, []int{0, 0, 1, 2, 3, 5}); i < n; i++ {
		q.GB = append(q.GB, hx(Pick(r, fieldNames)))
	}
	return q
}

// independent renderer of a tree as query text with random (legal) spacing and redundant parentheses
func renderPT(r *Rng, t *PT, ctx string) string {
	sp := func() string { return Pick(r, []string{"", " ", " ", "  ", "\t", "\n", " \r\n "}) }
	switch t.Op {
	case "E":
		rhs := ""
		if t.Ph > 0 {
			rhs = fmt.Sprintf("$%d", t.Ph)
			if r.Chance(1, 8) {
				rhs = fmt.Sprintf("$00%d", t.Ph)
			}
			if r.Chance(1, 20) { // leading zeros are digits like any other: `number ::= digit { digit }`
				rhs = fmt.Sprintf("$%s%d", strings.Repeat("0", 1+r.Intn(30)), t.Ph)
			}
		} else {
			rhs = "\"" + strings.ReplaceAll(unhx(t.V), "\"", "\"\"") + "\""
		}
		s := unhx(t.C) + sp() + "=" + sp() + rhs
		if r.Chance(1, 10) {
			s = "(" + sp() + s + sp() + ")"
		}
		return s
	case "N":
		k := t.Kids[0]
		s := renderPT(r, k, "N")
		if k.Op == "A" || k.Op == "O" {
			s = "(" + sp() + s + sp() + ")"
		}
		return "^" + sp() + s
	}
	sep := "&"
	if t.Op == "O" {
		sep = "|"
	}
	var parts []string
	for _, k := range t.Kids {
		s := renderPT(r, k, t.Op)
		if k.Op == "A" || k.Op == "O" { // nested n-ary nodes always need parentheses to survive as separate nodes
			s = "(" + sp() + s + sp() + ")"
		}
		parts = append(parts, s)
	}
	out := strings.Join(parts, sp()+sep+sp())
	if len(t.Kids) == 1 {
		// a one-operand AND/OR has no text of its own; parse gives the operand (handled by expectation through the model)
		return out
	}
	return out
}

func renderPQ(r *Rng, q *PQ) string {
	s := renderPT(r, q.T, "")
	if len(q.GB) > 0 {
		var fs []string
		for _, g := range q.GB {
			fs = append(fs, unhx(g))
		}
		s += Pick(r, []string{";", " ; ", "\n;"}) + strings.Join(fs, Pick(r, []string{",", ", ", " , "}))
	}
	return Pick(r, []string{"", " ", "\n"}) + s + Pick(r, []string{"", " ", "\n\t"})
}

var mutationTokens = []string{"(", ")", "&", "|", "^", "=", ",", ";", "\"", "\"x\"", "$1", "$0", "$", "a", "b", " ", "\"unterminated", "$99999999999999999999", "$4294967297", "$2147483648", "$2147483647", "\x00", "\xff", "é", "\ufeff", "$0000000000007", "!", "-", "1a", "_a", "\"\"", "a = \"1\""}

func mutateText(r *Rng, s string) string {
	n := 1 + r.Intn(3)
	for i := 0; i < n; i++ {
		pos := r.Intn(len(s) + 1)
		switch r.Intn(5) {
		case 0: // insert a token
			s = s[:pos] + Pick(r, mutationTokens) + s[pos:]
		case 1: // delete a span
			end := pos + 1 + r.Intn(4)
			if end > len(s) {
				end = len(s)
			}
			s = s[:pos] + s[end:]
		case 2: // append trailing tokens
			s = s + Pick(r, []string{" ", ""}) + Pick(r, mutationTokens)
		case 3: // duplicate a span
			end := pos + 1 + r.Intn(6)
			if end > len(s) {
				end = len(s)
			}
			s = s[:end] + s[pos:end] + s[end:]
		default: // truncate
			s = s[:pos]
		}
	}
	return s
}

// ---------- C09 ----------

type ParseCase struct {
	Text string `json:"text"` // hex
}

func runParseCase(o *Oracle, c *ParseCase, rep *Report, family string) {
	text := unhx(c.Text)
	got, _ := safeParse(text)
	want := o.Ask("qp parse " + c.Text)
	rep.Eval(c.Text, strings.HasPrefix(want, "ok") && len(text) > 8)
	rep.Count("family=" + family)
	if strings.HasPrefix(want, "ok") {
		rep.Count("accepted")
	} else {
		rep.Count("rejected")
	}
	if got != want {
		sig := "C09:parse-differs-from-grammar-model"
		switch {
		case strings.HasPrefix(got, "panic"):
			sig = "C09:panic"
		case got == "hang":
			sig = "C09:hang"
			rep.Count("hangs")
		case strings.HasPrefix(got, "ok") && want == "err":
			sig = "C09:accepts-non-sentence"
		case got == "err" && strings.HasPrefix(want, "ok"):
			sig = "C09:rejects-sentence"
		case got == "err-with-query":
			sig = "C09:error-with-query"
		default:
			sig = "C09:wrong-tree"
		}
		rep.Violate(Violation{Kind: "input", Signature: sig, What: fmt.Sprintf("ParseQuery(%q)", trunc(text, 200)), Expected: trunc(want, 600), Actual: trunc(got, 600), Case: c})
	}
}

// parseOwnership: a parsed tree belongs to the caller: it edits the tree it got, and parsing the same text again still
// yields the text's own tree (also for texts parsed many times, and by several goroutines at once)
func parseOwnership(rep *Report, prop string) {
	texts := []string{`country = $1 & ^ ( device = "phone" | device = "tab""let" ) ; browser`, `a = "1" | b = $2 ; g, h`, `^ x = "y"`, `k = "v"`}
	want := make([]string, len(texts))
	for i, t := range texts {
		want[i], _ = safeParse(t)
	}
	// texts never parsed before in this process: the tree of the very FIRST parse is the one the caller edits
	for k := 0; k < 3; k++ {
		t := fmt.Sprintf(`fresh_%s_%d = $1 & z = "q" ; g`, strings.ToLower(prop), k)
		first, pq := safeParse(t)
		if pq == nil {
			continue
		}
		pq.GroupBy = append(pq.GroupBy, "edited_by_caller")
		pq.Id = 77
		_ = queryparser_Walk(pq)
		again, _ := safeParse(t)
		rep.Count("reparse-after-caller-edit")
		if again != first {
			rep.Violate(Violation{Kind: "history", Signature: prop + ":reparse-differs", What: fmt.Sprintf("the text %q parsed again after the caller edited the tree its FIRST parse returned", t), Expected: trunc(first, 300), Actual: trunc(again, 300), Case: map[string]any{"text": t, "scenario": "caller edits the first parse's tree"}})
			break
		}
	}
	for i, t := range texts {
		if pq, err := verifhook.ParseQuery(t); err == nil {
			pq.GroupBy = append(pq.GroupBy, "edited_by_caller")
			pq.Id = 77
			_ = queryparser_Walk(pq)
		}
		for k := 0; k < 3; k++ {
			got, _ := safeParse(t)
			rep.Count("reparse-after-caller-edit")
			if got != want[i] {
				rep.Violate(Violation{Kind: "history", Signature: prop + ":reparse-differs", What: fmt.Sprintf("the text %q parsed again after the caller edited the tree it got from an earlier parse", t), Expected: trunc(want[i], 300), Actual: trunc(got, 300), Case: map[string]any{"text": t, "scenario": "caller edits parsed tree"}})
				break
			}
		}
	}
	var wg sync.WaitGroup
	var bad atomic.Value
	for g := 0; g < 4; g++ {
		wg.Add(1)
		go func(g int) {
			defer wg.Done()
			for k := 0; k < 20000 && bad.Load() == nil; k++ {
				i := (g + k%2) % len(texts)
				if got, _ := safeParse(texts[i]); got != want[i] {
					bad.Store(fmt.Sprintf("%q parsed concurrently gave %s", texts[i], trunc(got, 200)))
				}
			}
		}(g)
	}
	wg.Wait()
	rep.Count("concurrent-parse-rounds")
	if b := bad.Load(); b != nil {
		rep.Violate(Violation{Kind: "schedule", Signature: prop + ":reparse-differs", What: "4 goroutines parsing a handful of texts over and over: " + b.(string), Expected: "each text's own tree", Actual: b.(string), Case: map[string]any{"scenario": "concurrent parse"}})
	}
}

// queryparser_Walk edits every placeholder leaf of a parsed tree in place (what a caller binding arguments by hand does)
func queryparser_Walk(pq *proto.Query) error {
	var walk func(e *proto.Query_Expression)
	walk = func(e *proto.Query_Expression) {
		switch v := e.GetValue().(type) {
		case *proto.Query_Expression_Eq:
			if v.Eq != nil && v.Eq.Placeholder > 0 {
				v.Eq.Value, v.Eq.Placeholder = "bound_by_caller", 0
			}
		case *proto.Query_Expression_Not_:
			walk(v.Not.GetExpr())
		case *proto.Query_Expression_And_:
			for _, k := range v.And.GetExprs() {
				walk(k)
			}
		case *proto.Query_Expression_Or_:
			for _, k := range v.Or.GetExprs() {
				walk(k)
			}
		}
	}
	walk(pq.GetExpr())
	return nil
}

func runC09(rep *Report, r *Rng, tier string) {
	rep.Rule = "strings: (1) sentences rendered from random trees by an independent renderer (random legal spacing, redundant parentheses, leading-zero placeholders), (2) token-level mutations of them (insert/delete/duplicate/append/truncate with operator, quote, placeholder and non-ASCII tokens), (3) raw random bytes incl. invalid UTF-8/control characters, (4) a fixed corpus; each parsed by ParseQuery and by the Lean lexer+parser model: accept/reject and the tree compared; lexer goroutines counted after each batch; non-trivial = accepted string longer than 8 bytes; distinct by text"
	o := StartOracle()
	defer o.Close()
	n := 6000
	if tier == "thorough" {
		n = 120000
	}
	before := settledLexerGoroutines()
	for _, s := range parseCorpus {
		runParseCase(o, &ParseCase{Text: hx(s)}, rep, "corpus")
	}
	for i := 0; i < n; i++ {
		q := genPQ(r, 1+r.Intn(5), true)
		text := renderPQ(r, q)
		fam := "sentence"
		switch r.Intn(10) {
		case 0, 1, 2, 3:
			text = mutateText(r, text)
			fam = "mutated"
		case 4:
			b := make([]byte, r.Intn(24))
			for j := range b {
				if r.Chance(1, 2) {
					b[j] = byte(r.Intn(256))
				} else {
					b[j] = Pick(r, []byte("ab =\"$1&|^(),;\n"))
				}
			}
			text = string(b)
			fam = "rawbytes"
		}
		c := &ParseCase{Text: hx(text)}
		if i < 3 {
			rep.Sample(map[string]string{"text": text})
		}
		runParseCase(o, c, rep, fam)
		if rep.Dist["hangs"] >= 2 {
			rep.Note("stopped early: ParseQuery hung twice (each hang leaves a spinning goroutine)")
			break
		}
	}
	{
		depths := []int{1000, 10001, 20000, 300000}
		if tier == "thorough" {
			depths = append(depths, 100000)
		}
		for _, depth := range depths {
			s := strings.Repeat("(", depth) + "a = \"1\"" + strings.Repeat(")", depth)
			got, _ := safeParse(s)
			if !strings.HasPrefix(got, "ok E 61 31 0") {
				rep.Violate(Violation{Kind: "input", Signature: "C09:deep-nesting", What: fmt.Sprintf("nesting depth %d", depth), Expected: "ok E 61 31 0 G 0", Actual: trunc(got, 100), Case: map[string]int{"depth": depth}})
			}
			rep.Count("deep-nesting")
		}
		// long but FLAT sentences, and long values: many negations / parenthesised terms side by side, and a value made
		// of thousands of operator characters, are nested one level deep however long they are
		n := 15000
		var b strings.Builder
		for i := 0; i < n; i++ {
			if i > 0 {
				b.WriteString(" | ")
			}
			fmt.Fprintf(&b, "^ id = \"%d\"", i)
		}
		flatNot := b.String()
		b.Reset()
		for i := 0; i < n; i++ {
			if i > 0 {
				b.WriteString(" & ")
			}
			fmt.Fprintf(&b, "( ^ id = \"%d\" )", i)
		}
		flatParen := b.String() + " ; id"
		longValue := "note = \"" + strings.Repeat("(", n) + strings.Repeat("^", n) + "\""
		for name, text := range map[string]string{"flat-negations": flatNot, "flat-parenthesised": flatParen, "long-value": longValue} {
			got, _ := safeParse(text)
			want := o.Ask("qp parse " + hx(text))
			rep.Eval("long-"+name, true)
			rep.Count("long-flat-sentences")
			if got != want {
				rep.Violate(Violation{Kind: "input", Signature: "C09:long-sentence", What: fmt.Sprintf("a sentence of %d bytes (%s, %d terms, nesting depth <= 2) is parsed differently from the model", len(text), name, n), Expected: trunc(want, 200), Actual: trunc(got, 200), Case: map[string]any{"family": name, "terms": n}})
			}
		}
	}
	parseOwnership(rep, "C09")
	after := settledLexerGoroutines()
	rep.Note("lexer goroutines before=%d after=%d", before, after)
	if after > before {
		rep.Violate(Violation{Kind: "input", Signature: "C09:lexer-goroutine-leak", What: fmt.Sprintf("%d lexer goroutines are still blocked after all ParseQuery calls returned", after-before), Expected: "0 goroutines left behind", Actual: fmt.Sprint(after - before), Case: map[string]any{"batch": "all strings of this run"}})
	}
	rep.OracleCalls = o.n
}

var parseCorpus = []string{
	`a = "1"`, `a="1" & b="2" | c="3"`, `a = "x" "unterminated`, `a = $4294967297`, `a = $99999999999999999999999`,
	`a = $0`, `a = $`, `a = $2147483647`, `a = $2147483648`, `a = "1" ;`, `a = "1" ; b,`, `a = "1" ; b c`, `a = "1" )`,
	`(a = "1"`, `^`, ``, ` `, `a`, `a =`, `a = "`, `a = ""`, `a = """"`, `a = """`, `a = "1" & `, `& a = "1"`,
	`a = "1" ; b ; c`, `a = "1" b = "2"`, `^^a="1"`, `(((a="1")))`, `a = "1" ; b, c, d`, "a = \"1\"\x00", "\xff", `a = "1" ; 1b`,
	`a = "x" ; b "`, `a = "x" "`, `a = "x""`,
	"\ufeffa = \"1\"", "\ufeff a = \"1\"", "a = \"1\"\ufeff", "a = \"\ufeff\"", "\ufffea = \"1\"",
	`a = $00000000001`, `a = $02147483647`, `a = $000000000000000000000000000002`, `a = $002147483648`, `a = $00000000000`,
}

// ---------- C10 ----------

type FmtCase struct {
	Q *PQ `json:"q"`
}

func safeFormat(q *proto.Query) (s string, ok bool) {
	defer func() {
		if p := recover(); p != nil {
			s, ok = fmt.Sprintf("panic: %v", p), false
		}
	}()
	return verifhook.QueryToString(q), true
}

func runFmtCase(o *Oracle, c *FmtCase, rep *Report) {
	pq := c.Q.Proto()
	text, ok := safeFormat(pq)
	rep.Eval(c.Q.Show(), c.Q.T.Op != "E")
	if !ok {
		rep.Violate(Violation{Kind: "input", Signature: "C10:format-panic", What: "QueryToString panicked", Expected: "text", Actual: text, Case: c})
		return
	}
	// correspondence with the model's formatter
	if want := o.Ask("qp fmt " + c.Q.Show()); want != "ok "+hx(text) {
		rep.Violate(Violation{Kind: "obligation", Signature: "C10:formatter-differs-from-model", What: "QueryToString differs from the model formatter for " + trunc(c.Q.Show(), 300), Expected: want, Actual: "ok " + hx(text), Case: c})
	}
	// the property itself, on the implementation
	res, q2 := safeParse(text)
	if q2 == nil {
		rep.Violate(Violation{Kind: "input", Signature: "C10:formatted-text-rejected", What: fmt.Sprintf("formatted text %q is not accepted by the parser", trunc(text, 300)), Expected: "accepted", Actual: res, Case: c})
		return
	}
	if want := o.Ask("qp parse " + hx(text)); want != res {
		rep.Violate(Violation{Kind: "obligation", Signature: "C10:parser-differs-from-model", What: "parse of formatted text differs from the model", Expected: trunc(want, 600), Actual: trunc(res, 600), Case: c})
	}
	n1, n2 := normPT(c.Q.T).Show(), normPT(ptOfProto(q2.Expr)).Show()
	if n1 != n2 || fmt.Sprint(q2.GroupBy) != fmt.Sprint(pq.GroupBy) {
		rep.Violate(Violation{Kind: "input", Signature: "C10:roundtrip-changes-meaning", What: fmt.Sprintf("format then parse changes the query; text %q", trunc(text, 300)), Expected: trunc(n1, 600) + fmt.Sprint(pq.GroupBy), Actual: trunc(n2, 600) + fmt.Sprint(q2.GroupBy), Case: c})
		return
	}
	text2, _ := safeFormat(q2)
	_, q3 := safeParse(text2)
	if q3 == nil {
		rep.Violate(Violation{Kind: "input", Signature: "C10:second-generation-rejected", What: fmt.Sprintf("text %q", trunc(text2, 300)), Expected: "accepted", Actual: "rejected", Case: c})
		return
	}
	text3, _ := safeFormat(q3)
	if text3 != text2 {
		rep.Violate(Violation{Kind: "input", Signature: "C10:format-not-stable", What: "formatting the re-parsed tree, parsing and formatting again changes the text", Expected: trunc(text2, 600), Actual: trunc(text3, 600), Case: c})
	}
}

func runC10(rep *Report, r *Rng, tier string) {
	defer parseOwnership(rep, "C10")
	rep.Rule = "query trees: exhaustive up to depth D / arity 3 over a 4-leaf alphabet, plus random deep/wide trees with hostile values (quotes, newlines, operators, invalid UTF-8, empty) and placeholders, group-by lists 0..5; checked on the implementation: formatted text accepted, norm(parse(format q)) = norm q with same group-by, second-generation text stable; and formatter/parser compared with the Lean model; non-trivial = tree with at least one operator; distinct by tree"
	o := StartOracle()
	defer o.Close()
	leaves := []*PT{{Op: "E", C: hx("a"), V: hx("1")}, {Op: "E", C: hx("b"), V: hx("x\"y")}, {Op: "E", C: hx("c"), Ph: 2, V: "-"}, {Op: "E", C: hx("d"), V: "-"}}
	D := 2
	budget := 30000
	if tier == "thorough" {
		budget = 400000
	}
	var level [][]*PT
	level = append(level, leaves)
	cnt := 0
	for d := 1; d <= D; d++ {
		prev := []*PT{}
		for _, l := range level {
			prev = append(prev, l...)
		}
		var cur []*PT
		for _, k := range prev {
			cur = append(cur, &PT{Op: "N", Kids: []*PT{k}})
		}
		for _, op := range []string{"A", "O"} {
			for _, k1 := range prev {
				cur = append(cur, &PT{Op: op, Kids: []*PT{k1}})
				for _, k2 := range prev {
					cur = append(cur, &PT{Op: op, Kids: []*PT{k1, k2}})
				}
			}
		}
		level = append(level, cur)
	}
	exhaustive := 0
	for _, l := range level {
		for _, t := range l {
			if cnt >= budget {
				break
			}
			runFmtCase(o, &FmtCase{Q: &PQ{T: t}}, rep)
			cnt++
			exhaustive++
		}
	}
	rep.CountN("exhaustive-trees", exhaustive)
	rep.Note("exhaustive: all trees of depth <= %d with NOT and 1..2-ary AND/OR over 4 leaves (%d trees, truncated at budget %d)", D, exhaustive, budget)
	// arity-3 nodes over depth-1 trees
	n := 8000
	if tier == "thorough" {
		n = 150000
	}
	for i := 0; i < n; i++ {
		c := &FmtCase{Q: genPQ(r, 1+r.Intn(6), true)}
		if i < 3 {
			rep.Sample(c)
		}
		runFmtCase(o, c, rep)
		rep.Count("random-trees")
	}
	// deep nesting: the recursive formatter and parser must agree far beyond everyday depths
	for _, depth := range []int{3000, 12000} {
		for _, alt := range []bool{false, true} {
			t := &PT{Op: "E", C: hx("a"), V: hx("1")}
			for k := 0; k < depth; k++ {
				switch {
				case !alt:
					t = &PT{Op: "N", Kids: []*PT{t}}
				case k%2 == 0:
					t = &PT{Op: "A", Kids: []*PT{t, {Op: "E", C: hx("b"), V: hx("2")}}}
				default:
					t = &PT{Op: "O", Kids: []*PT{t, {Op: "E", C: hx("c"), V: hx("3")}}}
				}
			}
			pq := (&PQ{T: t}).Proto()
			text, ok := safeFormat(pq)
			res, q2 := safeParse(text)
			rep.Eval(fmt.Sprintf("deep-%d-%v", depth, alt), true)
			rep.Count("deep-trees")
			if !ok || q2 == nil {
				rep.Violate(Violation{Kind: "input", Signature: "C10:formatted-text-rejected", What: fmt.Sprintf("tree nested %d levels (alternating=%v): formatted text is not accepted", depth, alt), Expected: "accepted", Actual: trunc(res, 200), Case: map[string]any{"depth": depth, "alternating": alt}})
				continue
			}
			if normPT(t).Show() != normPT(ptOfProto(q2.Expr)).Show() {
				rep.Violate(Violation{Kind: "input", Signature: "C10:roundtrip-changes-meaning", What: fmt.Sprintf("tree nested %d levels: round trip changes the tree", depth), Expected: "same normal form", Actual: "different", Case: map[string]any{"depth": depth, "alternating": alt}})
			}
		}
	}
	rep.OracleCalls = o.n
}

func init() {
	runners["C09"] = runC09
	runners["C10"] = runC10
	replayers["C09"] = func(rep *Report, b []byte) {
		var c ParseCase
		if json.Unmarshal(b, &c) != nil || c.Text == "" {
			infra("replay of this C09 record needs the whole run (goroutine census / nesting); rerun ./check C09")
		}
		o := StartOracle()
		defer o.Close()
		runParseCase(o, &c, rep, "replay")
	}
	replayers["C10"] = func(rep *Report, b []byte) {
		var c FmtCase
		if err := json.Unmarshal(b, &c); err != nil {
			infra("bad case: %v", err)
		}
		o := StartOracle()
		defer o.Close()
		runFmtCase(o, &c, rep)
	}
}
