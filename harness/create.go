package main

import (
	"bufio"
	"bytes"
	"database/sql"
	"encoding/csv"
	"fmt"
	"github.com/akrennmair/updog"
	"os"
	"os/exec"
	"path/filepath"
	"sort"
	"strings"
	"sync/atomic"
	"syscall"
	"time"

	proto "github.com/akrennmair/updog/proto/updog/v1"
)

type protoReq = proto.QueryRequest

func protoQueries(qs ...*proto.Query) []*proto.Query { return qs }

func sqlOpenFile(path, opts string) (*sql.DB, error) {
	db, err := sql.Open("updog", "file:"+path+opts)
	if err == nil {
		db.SetMaxOpenConns(1)
	}
	return db, err
}

// header = sorted column names of all rows; missing values are written as empty fields
func csvHeader(rows []map[string]string) []string {
	set := map[string]bool{}
	for _, r := range rows {
		for k := range r {
			set[k] = true
		}
	}
	var h []string
	for k := range set {
		h = append(h, k)
	}
	sort.Strings(h)
	return h
}

func writeCSV(path string, rows []map[string]string) {
	f, err := os.Create(path)
	if err != nil {
		infra("csv: %v", err)
	}
	defer f.Close()
	w := csv.NewWriter(f)
	h := csvHeader(rows)
	w.Write(h)
	for _, r := range rows {
		rec := make([]string, len(h))
		for i, k := range h {
			rec[i] = r[k]
		}
		w.Write(rec)
	}
	w.Flush()
}

// the rows `updog create` makes of the CSV written by writeCSV (every header column present in every row)
func csvRowsAsMaps(rows []map[string]string) []map[string]string {
	h := csvHeader(rows)
	out := make([]map[string]string, len(rows))
	for i, r := range rows {
		m := map[string]string{}
		for _, k := range h {
			m[k] = r[k]
		}
		out[i] = m
	}
	return out
}

var createRuns atomic.Int64

func runCreate(csvPath, out string, big bool, timeout time.Duration) (string, error) {
	args := []string{"create", "-o", out, csvPath}
	if big {
		args = []string{"create", "-b", "-o", out, csvPath}
	}
	// the command's global profiling flags are ordinary options: every few runs use one of them; what the command does
	// with its input and output, and its exit status, must be the same
	switch n := createRuns.Add(1); n % 4 {
	case 1:
		prof := filepath.Join(scratchDir, fmt.Sprintf("create-%d.cpuprofile", n))
		args = append([]string{"--cpuprofile", prof}, args...)
		defer os.Remove(prof)
	case 3:
		prof := filepath.Join(scratchDir, fmt.Sprintf("create-%d.memprofile", n))
		args = append([]string{"--memprofile", prof}, args...)
		defer os.Remove(prof)
	}
	cmd := exec.Command(updogBin, args...)
	cmd.Env = append(os.Environ(), "TMPDIR="+scratchDir)
	done := make(chan struct{})
	var outb []byte
	var err error
	go func() { outb, err = cmd.CombinedOutput(); close(done) }()
	select {
	case <-done:
		return string(outb), err
	case <-time.After(timeout):
		cmd.Process.Kill()
		<-done
		return string(outb), fmt.Errorf("timeout after %v", timeout)
	}
}

// terminatedCreate: `updog create` reads its CSV from a FIFO; after half of the records the process gets a termination
// signal, then the rest of the records are offered. Whatever the process does with the signal: if it reports success
// (exit status 0) the output must hold every record of the input; if it does not, the output is absent, rejected by
// OpenIndex, or complete. An index that opens and silently misses records is never acceptable.
func terminatedCreate(rep *Report, prop string, big bool, sig syscall.Signal) {
	terminatedCreateX(rep, prop, big, sig, false)
}

// terminatedCreateX: with existing = true the output path holds somebody's file before the command starts (whatever
// happens, that file stays exactly as it was); sig = 0 sends no signal at all (the command reads its whole input from
// a pipe-like, unseekable source and must ingest it exactly like a regular file).
func terminatedCreateX(rep *Report, prop string, big bool, sig syscall.Signal, existing bool) {
	fifo := scratch(fmt.Sprintf("create-fifo-%d.csv", rep.Evaluations))
	out := scratch(fmt.Sprintf("create-term-%d.updog", rep.Evaluations))
	os.Remove(fifo)
	os.Remove(out)
	defer os.Remove(fifo)
	defer os.Remove(out)
	precious := []byte("precious user data, not ours\n")
	if existing {
		os.WriteFile(out, precious, 0644)
	}
	if err := syscall.Mkfifo(fifo, 0600); err != nil {
		rep.Note("mkfifo not available: %v", err)
		return
	}
	const total = 3000
	args := []string{"create", "-o", out, fifo}
	if big {
		args = []string{"create", "-b", "-o", out, fifo}
	}
	cmd := exec.Command(updogBin, args...)
	cmd.Env = append(os.Environ(), "TMPDIR="+scratchDir)
	if err := cmd.Start(); err != nil {
		infra("start create: %v", err)
	}
	exited := make(chan error, 1)
	go func() { exited <- cmd.Wait() }()
	fed := make(chan struct{})
	go func() {
		defer close(fed)
		w, err := os.OpenFile(fifo, os.O_WRONLY, 0)
		if err != nil {
			return
		}
		defer w.Close()
		fmt.Fprintf(w, "tag,grp\n")
		for i := 0; i < total; i++ {
			if i == total/2 && sig != 0 {
				time.Sleep(400 * time.Millisecond) // let the reader consume the first half
				cmd.Process.Signal(sig)
				time.Sleep(150 * time.Millisecond)
			}
			if _, err := fmt.Fprintf(w, "row-%05d,%d\n", i, i%7); err != nil {
				return // the reader is gone
			}
		}
	}()
	var werr error
	select {
	case werr = <-exited:
	case <-time.After(40 * time.Second * watchdogScale):
		cmd.Process.Kill()
		werr = <-exited
		werr = fmt.Errorf("hang: %v", werr)
	}
	// unblock the feeder if the reader never opened the FIFO
	if f, err := os.OpenFile(fifo, os.O_RDONLY|syscall.O_NONBLOCK, 0); err == nil {
		f.Close()
	}
	select {
	case <-fed:
	case <-time.After(5 * time.Second):
	}
	c := map[string]any{"big": big, "signal": fmt.Sprint(int(sig)), "records": total, "signal_after": total / 2, "existing_output": existing}
	rep.Eval(fmt.Sprintf("terminated-create-%v-%v-%v", big, sig, existing), true)
	rep.Count("terminated-create-runs")
	if existing {
		data, err := os.ReadFile(out)
		if err != nil || !bytes.Equal(data, precious) {
			rep.Violate(Violation{Kind: "fault", Signature: prop + ":existing-output-touched", What: fmt.Sprintf("`updog create` (big=%v) onto an existing output, signal %d after half of the input: the existing file is gone or changed (ended with %v)", big, int(sig), werr), Expected: "file exactly as it was", Actual: fmt.Sprintf("%d bytes, err %v", len(data), err), Case: c})
		}
		if werr == nil {
			rep.Violate(Violation{Kind: "fault", Signature: prop + ":bad-input-ok", What: fmt.Sprintf("`updog create` (big=%v) onto an existing output exited with status 0", big), Expected: "non-zero", Actual: "0", Case: c})
		}
		return
	}
	if sig == 0 && werr != nil {
		rep.Violate(Violation{Kind: "input", Signature: prop + ":create-failed", What: fmt.Sprintf("`updog create` (big=%v) reading a well-formed CSV from a pipe failed: %v", big, werr), Expected: "exit 0", Actual: fmt.Sprint(werr), Case: c})
		return
	}
	if werr != nil && strings.HasPrefix(werr.Error(), "hang") {
		rep.Violate(Violation{Kind: "fault", Signature: prop + ":create-hang", What: fmt.Sprintf("`updog create` (big=%v) did not end within the time limit after %v", big, sig), Expected: "ends", Actual: werr.Error(), Case: c})
		return
	}
	if _, err := os.Stat(out); err != nil {
		return // absent: fine
	}
	idx, _, err := openIdx(out, false, -1)
	if err != nil {
		if strings.HasPrefix(err.Error(), "panic") || strings.HasPrefix(err.Error(), "hang") {
			rep.Violate(Violation{Kind: "fault", Signature: prop + ":partial-open-" + strings.SplitN(err.Error(), ":", 2)[0], What: fmt.Sprintf("opening the output of a terminated `updog create` (big=%v, %v)", big, sig), Expected: "error or index", Actual: err.Error(), Case: c})
		}
		return // rejected: fine
	}
	defer idx.Close()
	n := int(updog.VerifIndexNextRowID(idx))
	missing := 0
	for _, i := range []int{0, 1, total/2 - 1, total / 2, total/2 + 1, total - 2, total - 1} {
		if got := safeExecute(idx, &updog.Query{Expr: &updog.ExprEqual{Column: "tag", Value: fmt.Sprintf("row-%05d", i)}}); got != "ok 1" {
			missing++
		}
	}
	if sig == 0 {
		// column names: the header arrived intact
		want := "tag,grp"
		var names []string
		for _, col := range idx.GetSchema().Columns {
			names = append(names, col.Name)
		}
		sort.Strings(names)
		if got := strings.Join(names, ","); got != "grp,tag" {
			rep.Violate(Violation{Kind: "input", Signature: prop + ":schema-differs", What: fmt.Sprintf("`updog create` (big=%v) reading header %q from a pipe built columns %q", big, want, got), Expected: "grp,tag", Actual: got, Case: c})
			return
		}
	}
	if n != total || missing > 0 {
		rep.Violate(Violation{Kind: "fault", Signature: prop + ":partial-index-accepted", What: fmt.Sprintf("`updog create` (big=%v) got %v after %d of %d records; it ended with %v and left an output that opens as an index of %d rows (%d of 7 probed records missing)", big, sig, total/2, total, werr, n, missing), Expected: fmt.Sprintf("absent, rejected, or all %d records", total), Actual: fmt.Sprintf("%d rows", n), Case: c})
	}
}

// killedDuringFlush: `updog create` (in-memory mode) is killed with SIGKILL while Flush is writing the output (the file
// exists and is growing). Opening what it left must return — with an error or with the complete index — and must not
// hang; the path stays usable for the next attempt's diagnostics.
func killedDuringFlush(rep *Report, prop string) {
	csvPath := scratch("kill-flush.csv")
	out := scratch("kill-flush.updog")
	os.Remove(out)
	defer os.Remove(csvPath)
	defer os.Remove(out)
	const total = 120000
	{
		f, err := os.Create(csvPath)
		if err != nil {
			infra("csv: %v", err)
		}
		w := bufio.NewWriter(f)
		fmt.Fprintf(w, "id,grp\n")
		for i := 0; i < total; i++ {
			fmt.Fprintf(w, "id-%06d,%d\n", i, i%11)
		}
		w.Flush()
		f.Close()
	}
	cmd := exec.Command(updogBin, "create", "-o", out, csvPath)
	cmd.Env = append(os.Environ(), "TMPDIR="+scratchDir)
	if err := cmd.Start(); err != nil {
		infra("start create: %v", err)
	}
	exited := make(chan error, 1)
	go func() { exited <- cmd.Wait() }()
	killed := false
	deadline := time.Now().Add(60 * time.Second * watchdogScale)
poll:
	for time.Now().Before(deadline) {
		select {
		case <-exited:
			break poll
		default:
		}
		if st, err := os.Stat(out); err == nil && st.Size() >= 128<<10 {
			cmd.Process.Kill()
			killed = true
			<-exited
			break
		}
		time.Sleep(2 * time.Millisecond)
	}
	if !killed {
		select {
		case <-exited:
		default:
			cmd.Process.Kill()
			<-exited
		}
		rep.Note("kill-during-flush: the creator finished before it could be killed inside Flush")
	}
	rep.Eval("killed-during-flush", killed)
	rep.Count(fmt.Sprintf("killed-during-flush=%v", killed))
	idx, _, err := openIdx(out, false, -1)
	c := map[string]any{"scenario": "SIGKILL during Flush of `updog create`", "records": total}
	if err != nil {
		if strings.HasPrefix(err.Error(), "hang") || strings.HasPrefix(err.Error(), "panic") {
			rep.Violate(Violation{Kind: "fault", Signature: prop + ":partial-open-" + strings.SplitN(err.Error(), ":", 2)[0], What: "opening the output of a creator killed during Flush", Expected: "error, or the complete index", Actual: err.Error(), Case: c})
		}
		return
	}
	defer idx.Close()
	if n := int(updog.VerifIndexNextRowID(idx)); n != total {
		rep.Violate(Violation{Kind: "fault", Signature: prop + ":partial-index-accepted", What: fmt.Sprintf("the output of a creator killed during Flush opens as an index of %d rows", n), Expected: fmt.Sprintf("rejected, or all %d rows", total), Actual: fmt.Sprint(n), Case: c})
	}
}
