package main

import (
	"database/sql"
	"encoding/csv"
	"fmt"
	"os"
	"os/exec"
	"sort"
	"time"

	proto "github.com/akrennmair/updog/proto/updog/v1"
)

type protoReq = proto.QueryRequest

func protoQueries(qs ...*proto.Query) []*proto.Query { return qs }

func sqlOpenFile(path, opts string) (*sql.DB, error) {
	db, err := sql.Open("updog", "file:"+path+opts)
	if err == nil {
		db.SetMaxOpenConns(1)
	}
	return db, err
}

// header = sorted column names of all rows; missing values are written as empty fields
func csvHeader(rows []map[string]string) []string {
	set := map[string]bool{}
	for _, r := range rows {
		for k := range r {
			set[k] = true
		}
	}
	var h []string
	for k := range set {
		h = append(h, k)
	}
	sort.Strings(h)
	return h
}

func writeCSV(path string, rows []map[string]string) {
	f, err := os.Create(path)
	if err != nil {
		infra("csv: %v", err)
	}
	defer f.Close()
	w := csv.NewWriter(f)
	h := csvHeader(rows)
	w.Write(h)
	for _, r := range rows {
		rec := make([]string, len(h))
		for i, k := range h {
			rec[i] = r[k]
		}
		w.Write(rec)
	}
	w.Flush()
}

// the rows `updog create` makes of the CSV written by writeCSV (every header column present in every row)
func csvRowsAsMaps(rows []map[string]string) []map[string]string {
	h := csvHeader(rows)
	out := make([]map[string]string, len(rows))
	for i, r := range rows {
		m := map[string]string{}
		for _, k := range h {
			m[k] = r[k]
		}
		out[i] = m
	}
	return out
}

func runCreate(csvPath, out string, big bool, timeout time.Duration) (string, error) {
	args := []string{"create", "-o", out, csvPath}
	if big {
		args = []string{"create", "-b", "-o", out, csvPath}
	}
	cmd := exec.Command(updogBin, args...)
	cmd.Env = append(os.Environ(), "TMPDIR="+scratchDir)
	done := make(chan struct{})
	var outb []byte
	var err error
	go func() { outb, err = cmd.CombinedOutput(); close(done) }()
	select {
	case <-done:
		return string(outb), err
	case <-time.After(timeout):
		cmd.Process.Kill()
		<-done
		return string(outb), fmt.Errorf("timeout after %v", timeout)
	}
}
