package main

import (
	"fmt"
	"strings"
)

// ---------- expressions ----------

// Ex is an expression tree; C and V are hex so that any byte string survives JSON.
type Ex struct {
	Op   string `json:"op"` // E N A O
	C    string `json:"c,omitempty"`
	V    string `json:"v,omitempty"`
	Kids []*Ex  `json:"kids,omitempty"`
}

func (e *Ex) Toks() string {
	switch e.Op {
	case "E":
		return "E " + e.C + " " + e.V
	case "N":
		return "N " + e.Kids[0].Toks()
	default:
		parts := []string{e.Op, fmt.Sprint(len(e.Kids))}
		for _, k := range e.Kids {
			parts = append(parts, k.Toks())
		}
		return strings.Join(parts, " ")
	}
}

func (e *Ex) Depth() int {
	d := 0
	for _, k := range e.Kids {
		if x := k.Depth(); x > d {
			d = x
		}
	}
	return d + 1
}

func (e *Ex) Size() int {
	n := 1
	for _, k := range e.Kids {
		n += k.Size()
	}
	return n
}

// ---------- datasets ----------

type ColSpec struct {
	Name    string `json:"name"` // hex
	NVals   int    `json:"nvals"`
	Dist    string `json:"dist"`    // random | run | dense | unique | block | edge
	Missing int    `json:"missing"` // percent of rows lacking the column
	Style   string `json:"style"`   // ascii | empty | utf8 | binary | nulval
}

type DataSpec struct {
	Seed          uint64     `json:"seed"`
	NRows         int        `json:"nrows"`
	Cols          []ColSpec  `json:"cols"`
	TrailingEmpty int        `json:"trailing_empty"`
	OddNames      bool       `json:"odd_names,omitempty"`
	Rows          [][]string `json:"rows,omitempty"` // explicit rows (hex k,v,k,v...) override the generator
}

func valueOf(style string, j int) string {
	switch style {
	case "empty":
		if j == 0 {
			return ""
		}
		return fmt.Sprintf("v%d", j)
	case "utf8":
		return fmt.Sprintf("ü%dé✓", j)
	case "binary":
		return fmt.Sprintf("\xff\xfe%d\x80", j)
	case "nulval":
		return fmt.Sprintf("a\x00b%d", j)
	case "quote":
		return fmt.Sprintf("q\"%d\"\n", j)
	case "concatA": // with column "a": ("a","bx") has the same concatenation as ("ab","x")
		return []string{"bx", "b", "bxy", "c", "bx" + longTail, "b" + longTail}[j%6]
	case "concatAB":
		return []string{"x", "", "xy", "c", "x" + longTail, longTail}[j%6]
	case "nulprefix":
		return []string{"x", "x\x00a", "", "\x00", "x\x00", "y"}[j%6]
	case "eqsign": // values and column names that make "column=value" style keys ambiguous
		return []string{"v", "=v", "k=v", "", "v="}[j%5]
	case "long":
		return fmt.Sprintf("%d-%s", j, longTail)
	case "nonnfc": // valid UTF-8 that a Unicode normaliser would rewrite
		return []string{"cafe\u0301", "caf\u00e9", "\u2126", "\u03a9", "\u1100\u1161", "\uac00"}[j%6] + fmt.Sprint(j/6)
	case "prefix300": // neighbouring values share more than 255 leading bytes
		return strings.Repeat("p/", 150) + fmt.Sprint(j)
	default:
		return fmt.Sprintf("%d", j)
	}
}

// Materialize returns the rows as Go maps (exactly what AddRow receives).
func (d *DataSpec) Materialize() []map[string]string {
	if d.Rows != nil {
		out := make([]map[string]string, len(d.Rows))
		for i, r := range d.Rows {
			m := map[string]string{}
			for j := 0; j+1 < len(r); j += 2 {
				m[unhx(r[j])] = unhx(r[j+1])
			}
			out[i] = m
		}
		return out
	}
	rng := NewRng(d.Seed)
	out := make([]map[string]string, 0, d.NRows+d.TrailingEmpty)
	runLen := make([]int, len(d.Cols))
	for ci := range d.Cols {
		runLen[ci] = 1 + rng.Intn(1+d.NRows/(1+d.Cols[ci].NVals))
	}
	for i := 0; i < d.NRows; i++ {
		m := map[string]string{}
		for ci, c := range d.Cols {
			if c.Missing > 0 && rng.Intn(100) < c.Missing {
				continue
			}
			var j int
			switch c.Dist {
			case "run":
				j = (i / runLen[ci]) % c.NVals
			case "block": // whole aligned 65536-row blocks of one value (full run containers)
				j = (i / 65536) % c.NVals
			case "edge": // runs touching the edges of every 65536-row block; everything else sparse
				switch o := i % 65536; {
				case o >= 65536-400:
					j = 0
				case o < 300:
					j = 1
				case rng.Intn(40) == 0 && c.NVals > 2:
					j = 2 + rng.Intn(c.NVals-2)
				default:
					continue
				}
			case "dense":
				j = 0
				if rng.Intn(50) == 0 {
					j = rng.Intn(c.NVals)
				}
			case "unique":
				j = i
			default:
				j = rng.Intn(c.NVals)
			}
			m[unhx(c.Name)] = valueOf(c.Style, j)
		}
		out = append(out, m)
	}
	for i := 0; i < d.TrailingEmpty; i++ {
		out = append(out, map[string]string{})
	}
	return out
}

// longer than any small-input fast path a hash implementation might have (xxhash switches at 32 bytes)
const longTail = "://example.org/a/rather/long/value/that/exceeds/sixty-four/bytes/in/total/0123456789"

var identNames = []string{"a", "b", "c", "country", "x1", "Tag", "k_2", "z", "col9", "Q", "count", "ab", "or", "not", "and"}
var oddNames = []string{"", " ", "a b", "ü", "\xff\x00x"[0:1], "a=b", "\"", "0col", "a,b"}

// genDataSpecUTF8 is genDataSpec restricted to identifier column names and valid UTF-8 values.
func genDataSpecUTF8(r *Rng, maxRows int) *DataSpec {
	d := genDataSpec(r, maxRows, true)
	for i := range d.Cols {
		if d.Cols[i].Style == "binary" || d.Cols[i].Style == "nulval" || d.Cols[i].Style == "nulprefix" {
			d.Cols[i].Style = "utf8"
		}
	}
	return d
}

func genDataSpec(r *Rng, maxRows int, identOnly bool) *DataSpec {
	sizes := []int{0, 1, 2, 3, 5, 8, 17, 40, 100, 300}
	n := Pick(r, sizes)
	if r.Chance(1, 4) {
		n = r.Intn(maxRows + 1)
	}
	if n > maxRows {
		n = maxRows
	}
	return genDataSpecN(r, n, identOnly)
}

func genDataSpecN(r *Rng, n int, identOnly bool) *DataSpec {
	d := &DataSpec{Seed: r.U64(), NRows: n}
	nc := 1 + r.Intn(5)
	used := map[string]bool{}
	for len(d.Cols) < nc {
		name := Pick(r, identNames)
		if !identOnly && r.Chance(1, 8) {
			name = Pick(r, oddNames)
		}
		if used[name] {
			continue
		}
		used[name] = true
		c := ColSpec{Name: hx(name)}
		c.NVals = Pick(r, []int{1, 2, 3, 3, 5, 10, 40})
		if r.Chance(1, 12) {
			c.NVals = 1001 + r.Intn(1500)
		}
		c.Dist = Pick(r, []string{"random", "random", "run", "dense", "random"})
		if r.Chance(1, 15) {
			c.Dist = "unique"
		}
		if r.Chance(1, 3) {
			c.Missing = Pick(r, []int{5, 30, 70, 100})
		}
		c.Style = Pick(r, []string{"ascii", "ascii", "ascii", "empty", "utf8", "binary", "nulval", "quote", "long", "nulprefix", "nonnfc", "prefix300"})
		d.Cols = append(d.Cols, c)
	}
	if r.Chance(1, 4) {
		d.TrailingEmpty = 1 + r.Intn(3)
	}
	if r.Chance(1, 7) && !used["a"] && !used["ab"] {
		// prefix-related column names whose values complete the same concatenation: only the 0x00 separator in
		// the value index keeps ("a","bx") and ("ab","x") apart
		d.Cols = append(d.Cols, ColSpec{Name: hx("a"), NVals: 6, Dist: "random", Style: "concatA", Missing: 30},
			ColSpec{Name: hx("ab"), NVals: 6, Dist: "random", Style: "concatAB", Missing: 30})
	}
	return d
}

// pair universe of a dataset spec, for drawing leaves
type leafPool struct {
	utf8  bool       // only valid UTF-8 strings may be drawn (protobuf string fields)
	cols  []string   // raw column names
	vals  [][]string // raw values per column (a sample)
	extra []string   // unknown columns
}

func poolOf(rows []map[string]string) *leafPool {
	p := &leafPool{}
	idx := map[string]int{}
	seen := map[string]bool{}
	for _, r := range rows {
		for k, v := range r {
			i, ok := idx[k]
			if !ok {
				i = len(p.cols)
				idx[k] = i
				p.cols = append(p.cols, k)
				p.vals = append(p.vals, nil)
			}
			if !seen[k+"\x00"+v] && len(p.vals[i]) < 64 {
				seen[k+"\x00"+v] = true
				p.vals[i] = append(p.vals[i], v)
			}
		}
	}
	// map order is random: sort for determinism
	type cv struct {
		c string
		v []string
	}
	tmp := make([]cv, len(p.cols))
	for i := range p.cols {
		sortStrings(p.vals[i])
		tmp[i] = cv{p.cols[i], p.vals[i]}
	}
	sortBy(tmp, func(a, b cv) bool { return a.c < b.c })
	for i := range tmp {
		p.cols[i], p.vals[i] = tmp[i].c, tmp[i].v
	}
	return p
}

func (p *leafPool) leaf(r *Rng, allowUnknown bool) *Ex {
	if len(p.cols) == 0 || (allowUnknown && r.Chance(1, 70)) {
		return &Ex{Op: "E", C: hx(Pick(r, []string{"nosuch", "zz", "a"})), V: hx("1")}
	}
	ci := r.Intn(len(p.cols))
	var v string
	switch {
	case r.Chance(1, 8): // a value absent from the data
		v = Pick(r, []string{"absent", "", "99999", "\xff"})
		if p.utf8 && v == "\xff" {
			v = "é"
		}
	case r.Chance(1, 10): // another column's value
		cj := r.Intn(len(p.cols))
		v = Pick(r, p.vals[cj])
	default:
		v = Pick(r, p.vals[ci])
	}
	return &Ex{Op: "E", C: hx(p.cols[ci]), V: hx(v)}
}

func genExpr(r *Rng, p *leafPool, depth int, allowUnknown bool) *Ex {
	if depth <= 0 || r.Chance(1, 4) {
		return p.leaf(r, allowUnknown)
	}
	switch r.Intn(5) {
	case 0:
		return &Ex{Op: "N", Kids: []*Ex{genExpr(r, p, depth-1, allowUnknown)}}
	case 1, 2:
		return genNary(r, p, "A", depth, allowUnknown)
	default:
		return genNary(r, p, "O", depth, allowUnknown)
	}
}

func genNary(r *Rng, p *leafPool, op string, depth int, allowUnknown bool) *Ex {
	n := 1 + r.Intn(4)
	e := &Ex{Op: op}
	for i := 0; i < n; i++ {
		if i > 0 && r.Chance(1, 6) { // duplicate operand
			e.Kids = append(e.Kids, e.Kids[r.Intn(len(e.Kids))])
			continue
		}
		e.Kids = append(e.Kids, genExpr(r, p, depth-1, allowUnknown))
	}
	return e
}

func genGroupBy(r *Rng, p *leafPool, allowUnknown bool) []string {
	n := Pick(r, []int{0, 0, 1, 1, 2, 2, 3, 4, 5, 6})
	var gb []string
	for i := 0; i < n; i++ {
		if len(p.cols) == 0 || (allowUnknown && r.Chance(1, 30)) {
			name := "nosuchcol"
			if len(p.cols) > 0 && r.Chance(1, 2) {
				// an existing name in another letter case is a different, unknown column
				c := Pick(r, p.cols)
				if up := strings.ToUpper(c); up != c && !p.has(up) {
					name = up
				} else if lo := strings.ToLower(c); lo != c && !p.has(lo) {
					name = lo
				}
			}
			gb = append(gb, hx(name))
			continue
		}
		gb = append(gb, hx(Pick(r, p.cols)))
	}
	return gb
}

func (p *leafPool) has(c string) bool {
	for _, x := range p.cols {
		if x == c {
			return true
		}
	}
	return false
}
